(** C19 — the chunk-boundary (carry) argument: for ANY file whose lines are at most CARRY_CAP bytes
    long, the chunked scan [chunked] (any chunk size >= 1, any file size) collects exactly what ONE
    window over the whole file collects; hence [scan_file c (render d root) = offsets d] at any
    size.  The side condition is genuine (see the Examples at the end): a line longer than the
    carry makes the next window start in the middle of that line. *)
From OxVerif Require Import Base.Util C09.Model C09.Tokens C19.Model C19.Proofs.
Require Import Lia.
Open Scope N_scope.

(** * the line bookkeeping of [step] does not depend on what fires *)
Lemma step_track base s b :
  off (step base s b) = off s + 1
  /\ ls (step base s b) = (if is_eol b then off s + 1 else ls s)
  /\ lrev (step base s b) = (if is_eol b then [] else b :: lrev s).
Proof.
  unfold step. destruct (is_eol b); [repeat split|]. cbv zeta.
  destruct (obj_shape (b :: lrev s)); [|repeat split].
  destruct (6 <=? off s); [|repeat split].
  destruct (parse_obj_header (rev (b :: lrev s))) as [[n g]|]; [|repeat split].
  destruct (memN (base + ls s) (seen s)); repeat split.
Qed.

Lemma run_track base : forall w s,
  off (run base w s) = off s + len w
  /\ ls (run base w s) = ls_after (off s) (ls s) w
  /\ lrev (run base w s) = line_after (lrev s) w.
Proof.
  induction w as [|b r IH]; intro s.
  - unfold run. cbn [fold_left ls_after line_after]. rewrite len_nil, N.add_0_r. repeat split.
  - unfold run in *. cbn [fold_left ls_after line_after]. rewrite len_cons.
    destruct (step_track base s b) as [A [B0 C]].
    destruct (IH (step base s b)) as [A1 [B1 C1]].
    rewrite A1, B1, C1, A, B0, C. destruct (is_eol b); repeat split; lia.
Qed.

(** [off = ls + length of the current line] *)
Definition lineinv (s : st) : Prop := off s = ls s + len (lrev s).

Lemma step_lineinv base s b : lineinv s -> lineinv (step base s b).
Proof.
  unfold lineinv. intro H. destruct (step_track base s b) as [A [B0 C]]. rewrite A, B0, C.
  destruct (is_eol b); [rewrite len_nil; lia | rewrite len_cons; lia].
Qed.
Lemma run_lineinv base : forall w s, lineinv s -> lineinv (run base w s).
Proof.
  induction w as [|b r IH]; intros s H; [exact H|].
  unfold run in *. cbn [fold_left]. apply IH, step_lineinv, H.
Qed.

(** * [seen] only grows *)
Lemma step_seen_mono base s b y : In y (seen s) -> In y (seen (step base s b)).
Proof.
  intro H. unfold step. destruct (is_eol b); [exact H|]. cbv zeta.
  destruct (obj_shape (b :: lrev s)); [|exact H].
  destruct (6 <=? off s); [|exact H].
  destruct (parse_obj_header (rev (b :: lrev s))) as [[n g]|]; [|exact H].
  destruct (memN (base + ls s) (seen s)); [exact H|]. right. exact H.
Qed.
Lemma run_seen_mono base : forall w s y, In y (seen s) -> In y (seen (run base w s)).
Proof.
  induction w as [|b r IH]; intros s y H; [exact H|].
  unfold run in *. cbn [fold_left]. apply IH, step_seen_mono, H.
Qed.

Lemma memN_In x l : memN x l = true <-> In x l.
Proof.
  unfold memN. rewrite existsb_exists. split.
  - intros [y [H E]]. apply N.eqb_eq in E. now subst.
  - intro H. exists x. split; [exact H | apply N.eqb_refl].
Qed.

(** * a line that parses as a header has at least 7 bytes, so the [abs < 4] guard of the window
      never decides anything the parse does not decide *)
Fixpoint cost (ts : list bytes) : nat :=
  match ts with [] => O | t :: r => (S (length t) + cost r)%nat end.
Lemma cost_app a b : cost (a ++ b) = (cost a + cost b)%nat.
Proof. induction a as [|t r IH]; [reflexivity|]. cbn [app cost]. rewrite IH. lia. Qed.
Lemma cost_rev l : cost (rev l) = cost l.
Proof. induction l as [|t r IH]; [reflexivity|]. cbn [rev]. rewrite cost_app, IH. cbn [cost]. lia. Qed.
Lemma cost_flush cur acc : (cost (flush cur acc) <= cost acc + length cur + 1)%nat.
Proof. destruct cur; cbn [flush cost]; [lia|]. rewrite rev_length. lia. Qed.

Lemma split_ws_cost : forall l skip cur acc,
  (cost (split_ws l skip cur acc) <= cost acc + length cur + 1 + length l)%nat.
Proof.
  induction l as [|b r IH]; intros skip cur acc.
  - cbn [split_ws]. rewrite cost_rev. pose proof (cost_flush cur acc). cbn [length]. lia.
  - cbn [split_ws]. destruct skip as [|k].
    + destruct (ws_len (b :: r)) as [|k].
      * specialize (IH O (b :: cur) acc). cbn [length] in *. lia.
      * specialize (IH k [] (flush cur acc)). pose proof (cost_flush cur acc). cbn [length] in *. lia.
    + specialize (IH k cur acc). cbn [length]. lia.
Qed.

Lemma parse_uint_nonempty m t v : parse_uint m t = Some v -> t <> [].
Proof. intros H E. subst t. discriminate H. Qed.

Lemma parse_hdr_len l v : parse_obj_header l = Some v -> (7 <= length l)%nat.
Proof.
  unfold parse_obj_header, tokens. intro H.
  pose proof (split_ws_cost l O [] []) as C.
  destruct (split_ws l O [] []) as [|t0 [|t1 [|t2 r]]]; try discriminate.
  destruct (bytes_eqb t2 w_obj) eqn:E; [|discriminate].
  apply bytes_eqb_eq in E. subst t2.
  destruct (parse_uint U32MAX t0) eqn:P0; [|discriminate].
  destruct (parse_uint U16MAX t1) eqn:P1; [|discriminate].
  apply parse_uint_nonempty in P0. apply parse_uint_nonempty in P1.
  destruct t0; [contradiction|]. destruct t1; [contradiction|].
  cbn [cost length w_obj] in C. lia.
Qed.

(** * two runs over the same bytes: the reference run with base 0 and a window run whose window
      starts [k] bytes later *)
Definition shifted (k : N) (s1 s2 : st) : Prop :=
  off s1 = off s2 + k /\ ls s1 = ls s2 + k /\ lrev s1 = lrev s2.

(** re-scanning bytes the reference run has already seen changes nothing *)
Lemma step_rescan k s1 s2 b :
  shifted k s1 s2 -> (forall y, In y (seen (step 0 s1 b)) -> In y (seen s2)) ->
  shifted k (step 0 s1 b) (step k s2 b)
  /\ seen (step k s2 b) = seen s2 /\ out (step k s2 b) = out s2.
Proof.
  intros [A [B0 C]] SUB.
  split.
  { destruct (step_track 0 s1 b) as [A1 [B1 C1]]. destruct (step_track k s2 b) as [A2 [B2 C2]].
    unfold shifted. rewrite A1, B1, C1, A2, B2, C2, C. destruct (is_eol b); repeat split; lia. }
  revert SUB. unfold step. destruct (is_eol b); [split; reflexivity|]. cbv zeta.
  rewrite <- C.
  destruct (obj_shape (b :: lrev s1)); [|split; reflexivity].
  destruct (6 <=? off s2) eqn:E2; [|split; reflexivity].
  assert (E1 : (6 <=? off s1) = true) by (apply N.leb_le; apply N.leb_le in E2; lia).
  rewrite E1.
  destruct (parse_obj_header (rev (b :: lrev s1))) as [[n g]|]; [|split; reflexivity].
  intro SUB.
  assert (M : memN (k + ls s2) (seen s2) = true).
  { apply memN_In. apply SUB.
    replace (k + ls s2) with (0 + ls s1) by lia.
    destruct (memN (0 + ls s1) (seen s1)) eqn:M1; cbn [seen].
    - apply memN_In. exact M1.
    - left. reflexivity. }
  rewrite M. split; reflexivity.
Qed.

Lemma run_rescan k : forall c s1 s2,
  shifted k s1 s2 -> (forall y, In y (seen (run 0 c s1)) -> In y (seen s2)) ->
  shifted k (run 0 c s1) (run k c s2)
  /\ seen (run k c s2) = seen s2 /\ out (run k c s2) = out s2.
Proof.
  induction c as [|b r IH]; intros s1 s2 SH SUB.
  - unfold run. cbn [fold_left]. repeat split; apply SH.
  - unfold run in *. cbn [fold_left] in *.
    assert (SUB1 : forall y, In y (seen (step 0 s1 b)) -> In y (seen s2)).
    { intros y Hy. apply SUB. apply (run_seen_mono 0 r). exact Hy. }
    destruct (step_rescan k s1 s2 b SH SUB1) as [SH' [S' O']].
    destruct (IH (step 0 s1 b) (step k s2 b) SH') as [SH'' [S'' O'']].
    { rewrite S'. exact SUB. }
    split; [exact SH''|]. rewrite S'', O'', S', O'. split; reflexivity.
Qed.

(** new bytes: both runs take the same decisions *)
Lemma step_same k s1 s2 b :
  shifted k s1 s2 -> seen s1 = seen s2 -> out s1 = out s2 -> lineinv s2 ->
  shifted k (step 0 s1 b) (step k s2 b)
  /\ seen (step 0 s1 b) = seen (step k s2 b) /\ out (step 0 s1 b) = out (step k s2 b).
Proof.
  intros [A [B0 C]] SE OU LI.
  split.
  { destruct (step_track 0 s1 b) as [A1 [B1 C1]]. destruct (step_track k s2 b) as [A2 [B2 C2]].
    unfold shifted. rewrite A1, B1, C1, A2, B2, C2, C. destruct (is_eol b); repeat split; lia. }
  unfold step. destruct (is_eol b); [split; assumption|]. cbv zeta.
  rewrite <- C.
  destruct (obj_shape (b :: lrev s1)); [|split; assumption].
  destruct (parse_obj_header (rev (b :: lrev s1))) as [[n g]|] eqn:P.
  - apply parse_hdr_len in P. rewrite rev_length in P. cbn [length] in P.
    assert (L6 : 6 <= off s2).
    { unfold lineinv in LI. rewrite LI, <- C. unfold len. lia. }
    assert (E2 : (6 <=? off s2) = true) by (apply N.leb_le; exact L6).
    assert (E1 : (6 <=? off s1) = true) by (apply N.leb_le; lia).
    rewrite E1, E2. replace (0 + ls s1) with (k + ls s2) by lia. rewrite <- SE.
    destruct (memN (k + ls s2) (seen s1)); cbn [seen out]; rewrite <- ?SE, <- ?OU; split; reflexivity.
  - destruct (6 <=? off s1), (6 <=? off s2); split; assumption.
Qed.

Lemma run_same k : forall f s1 s2,
  shifted k s1 s2 -> seen s1 = seen s2 -> out s1 = out s2 -> lineinv s2 ->
  shifted k (run 0 f s1) (run k f s2)
  /\ seen (run 0 f s1) = seen (run k f s2) /\ out (run 0 f s1) = out (run k f s2).
Proof.
  induction f as [|b r IH]; intros s1 s2 SH SE OU LI.
  - unfold run. cbn [fold_left]. repeat split; try apply SH; assumption.
  - unfold run in *. cbn [fold_left].
    destruct (step_same k s1 s2 b SH SE OU LI) as [SH' [SE' OU']].
    apply IH; try assumption. apply step_lineinv, LI.
Qed.

(** * one window of the chunked loop = the reference run over the same bytes *)
Definition G (x : bytes) : st := run 0 x (mk 0 0 [] [] []).

Lemma G_app x y : G (x ++ y) = run 0 y (G x).
Proof. unfold G. apply run_app. Qed.
Lemma G_off x : off (G x) = len x.
Proof. unfold G. destruct (run_track 0 x (mk 0 0 [] [] [])) as [A _]. rewrite A. cbn [off]. lia. Qed.

(** [a] ends at a line boundary of the file *)
Definition at_boundary (a : bytes) : Prop := lrev (G a) = [] /\ ls (G a) = len a.

Lemma window_run a c f sn o :
  at_boundary a -> sn = seen (G (a ++ c)) -> o = out (G (a ++ c)) ->
  seen (run (len a) (c ++ f) (mk 0 0 [] sn o)) = seen (G (a ++ c ++ f))
  /\ out (run (len a) (c ++ f) (mk 0 0 [] sn o)) = out (G (a ++ c ++ f)).
Proof.
  intros [B1 B2] SN O. rewrite !G_app, run_app. rewrite G_app in SN, O.
  set (k := len a). set (s0 := mk 0 0 [] sn o).
  assert (SH : shifted k (G a) s0).
  { unfold shifted, s0. cbn [off ls lrev]. rewrite G_off, B1, B2. repeat split. }
  destruct (run_rescan k c (G a) s0 SH) as [SH1 [S1 O1]].
  { unfold s0. cbn [seen]. rewrite SN. auto. }
  assert (LI : lineinv (run k c s0)).
  { apply run_lineinv. unfold lineinv, s0. cbn [off ls lrev]. rewrite len_nil. lia. }
  destruct (run_same k f (run 0 c (G a)) (run k c s0) SH1) as [_ [S2 O2]].
  - rewrite S1. unfold s0. cbn [seen]. symmetry. exact SN.
  - rewrite O1. unfold s0. cbn [out]. symmetry. exact O.
  - exact LI.
  - rewrite (run_app 0 c f). split; symmetry; assumption.
Qed.

(** * the carry *)
Lemma carry_start_snoc w b :
  carry_start (w ++ [b]) = if is_eol b then len w + 1 else carry_start w.
Proof.
  unfold carry_start. fold cs_f. rewrite fold_left_app.
  pose proof (cs_fst w 0 0) as F. destruct (fold_left cs_f w (0, 0)) as [i s]. cbn [fst] in F.
  cbn [fold_left cs_f snd]. rewrite F. destruct (is_eol b); [lia|reflexivity].
Qed.

Definition noeol (b : N) : bool := negb (is_eol b).

(** the window splits at [carry_start] into a part that ends with an end-of-line (or is empty)
    and a part without any end-of-line *)
Lemma carry_split : forall w, exists h t,
  w = h ++ t /\ len h = carry_start w /\ forallb noeol t = true
  /\ (h = [] \/ exists x e, h = x ++ [e] /\ is_eol e = true).
Proof.
  induction w as [|b w IH] using rev_ind.
  - exists [], []. repeat split. now left.
  - rewrite carry_start_snoc. destruct (is_eol b) eqn:E.
    + exists (w ++ [b]), []. rewrite app_nil_r, len_app. repeat split.
      right. exists w, b. split; [reflexivity|exact E].
    + destruct IH as [h [t [W [L [T HB]]]]]. exists h, (t ++ [b]).
      rewrite app_assoc, <- W. repeat split; [exact L| |exact HB].
      rewrite forallb_app, T. cbn [forallb]. unfold noeol. rewrite E. reflexivity.
Qed.

Lemma boundary_extend a h :
  at_boundary a -> (h = [] \/ exists x e, h = x ++ [e] /\ is_eol e = true) -> at_boundary (a ++ h).
Proof.
  intros [B1 B2] [->|[x [e [-> E]]]].
  - rewrite app_nil_r. split; assumption.
  - unfold at_boundary. rewrite G_app.
    destruct (run_track 0 (x ++ [e]) (G a)) as [_ [L R]]. rewrite L, R.
    destruct (after_eol_end x e (lrev (G a)) (off (G a)) (ls (G a)) E) as [A1 A2].
    rewrite A1, A2, G_off, (len_app a). split; reflexivity.
Qed.

(** * every line of the file has at most CARRY_CAP bytes (end-of-line excluded) *)
Fixpoint short_from (n : N) (seg : bytes) : bool :=
  match seg with
  | [] => true
  | b :: r => if is_eol b then short_from 0 r else (n + 1 <=? CARRY_CAP) && short_from (n + 1) r
  end.
Definition short_lines (file : bytes) : bool := short_from 0 file.

Lemma short_noeol : forall t n r, forallb noeol t = true -> short_from n (t ++ r) = true ->
  t = [] \/ n + len t <= CARRY_CAP.
Proof.
  induction t as [|b t IH]; intros n r T S; [now left|]. right.
  cbn [forallb] in T. apply andb_true_iff in T. destruct T as [T1 T2].
  unfold noeol in T1. apply negb_true_iff in T1.
  cbn [app short_from] in S. rewrite T1 in S. apply andb_true_iff in S. destruct S as [S1 S2].
  apply N.leb_le in S1. rewrite len_cons.
  destruct (IH (n + 1) r T2 S2) as [->|H]; [rewrite len_nil; lia | lia].
Qed.

Lemma short_after_eol : forall x e n r, is_eol e = true ->
  short_from n ((x ++ [e]) ++ r) = true -> short_from 0 r = true.
Proof.
  induction x as [|b x IH]; intros e n r E S.
  - cbn [app short_from] in S. rewrite E in S. exact S.
  - cbn [app short_from] in S. destruct (is_eol b).
    + eapply IH; [exact E|exact S].
    + apply andb_true_iff in S. destruct S as [_ S]. eapply IH; [exact E|exact S].
Qed.

(** * the chunked loop *)
Lemma chunked_inv : forall fuel chunk rest carry a sn o,
  (1 <= chunk)%nat -> (length rest < fuel)%nat ->
  at_boundary a -> sn = seen (G (a ++ carry)) -> o = out (G (a ++ carry)) ->
  short_from 0 (carry ++ rest) = true ->
  chunked fuel chunk rest carry (len a) sn o = out (G (a ++ carry ++ rest)).
Proof.
  induction fuel as [|f IH]; intros chunk rest carry a sn o CH FU BD SN O SH; [lia|].
  rewrite chunked_step. cbv zeta.
  destruct rest as [|r0 rs].
  - (* end of file *)
    rewrite firstn_nil. cbn [is_nil andb]. rewrite !app_nil_r.
    destruct carry as [|c0 cs]; cbn [is_nil].
    + exact O.
    + destruct (window_run a (c0 :: cs) [] sn o BD SN O) as [_ W2].
      rewrite !app_nil_r in W2. unfold scan_window. cbv beta iota zeta. exact W2.
  - destruct chunk as [|ch]; [lia|].
    set (filled := firstn (S ch) (r0 :: rs)). set (rest' := skipn (S ch) (r0 :: rs)).
    assert (FR : r0 :: rs = filled ++ rest') by (symmetry; apply firstn_skipn).
    assert (NE : is_nil filled = false) by reflexivity.
    rewrite NE. cbn [andb].
    destruct (window_run a carry filled sn o BD SN O) as [W1 W2].
    unfold scan_window. cbv beta iota zeta.
    set (window := carry ++ filled) in *.
    destruct (carry_split window) as [h [t [WS [HL [TN HB]]]]].
    (* the cap never fires *)
    assert (SHW : short_from 0 (window ++ rest') = true).
    { unfold window. rewrite <- app_assoc, <- FR. exact SH. }
    assert (SHT : short_from 0 (t ++ rest') = true).
    { rewrite WS, <- app_assoc in SHW. destruct HB as [->|[x [e [-> E]]]]; [exact SHW|].
      eapply short_after_eol; [exact E|exact SHW]. }
    assert (TL : len t <= CARRY_CAP).
    { destruct (short_noeol t 0 rest' TN SHT) as [->|H]; [rewrite len_nil; unfold CARRY_CAP; lia | lia]. }
    assert (LW : len window = carry_start window + len t) by (rewrite WS at 1; rewrite len_app, HL; reflexivity).
    assert (CAP : (CARRY_CAP <? len window - carry_start window) = false) by (apply N.ltb_ge; lia).
    rewrite CAP.
    assert (SK : skipn (N.to_nat (carry_start window)) window = t).
    { rewrite <- HL. unfold len. rewrite Nat2N.id. rewrite WS. rewrite skipn_app, skipn_all, Nat.sub_diag. reflexivity. }
    rewrite SK.
    replace (len a + carry_start window) with (len (a ++ h)) by (rewrite len_app, HL; reflexivity).
    assert (AW : (a ++ h) ++ t = a ++ carry ++ filled).
    { rewrite <- app_assoc, <- WS. reflexivity. }
    rewrite (IH (S ch) rest' t (a ++ h)); try assumption.
    + rewrite app_assoc, AW, FR, <- !app_assoc. reflexivity.
    + assert (length (r0 :: rs) = length filled + length rest')%nat by (rewrite FR at 1; apply app_length).
      assert (0 < length filled)%nat by (unfold filled; cbn [firstn length]; lia).
      lia.
    + apply boundary_extend; assumption.
    + rewrite AW. exact W1.
    + rewrite AW. exact W2.
Qed.

Lemma boundary_nil : at_boundary [].
Proof. split; reflexivity. Qed.

(** chunking is invisible: any file with short lines, any chunk size, any file size *)
Theorem chunked_whole file chunk : short_lines file = true -> (1 <= chunk)%nat ->
  chunked (S (S (length file))) chunk file [] 0 [] [] = snd (scan_window file 0 [] []).
Proof.
  intros SH CH.
  change 0 with (len []) at 1.
  rewrite (chunked_inv (S (S (length file))) chunk file [] [] [] [] CH); try reflexivity.
  - lia.
  - apply boundary_nil.
  - exact SH.
Qed.

Theorem scan_file_whole file c : short_lines file = true ->
  scan_file c file = isort_off (rev (snd (scan_window file 0 [] []))).
Proof.
  intro SH. unfold scan_file. rewrite chunked_whole; [reflexivity|exact SH|lia].
Qed.

(** scan_finds_all, any file size, any chunk size *)
Theorem scan_file_finds_all d root c : wf d = true -> quiet_doc d = true ->
  short_lines (render d root) = true -> scan_file c (render d root) = offsets d.
Proof.
  intros W Q SH. rewrite (scan_file_whole _ c SH), (scan_window_render d root W Q), rev_involutive.
  apply isort_offsets_from.
Qed.

Theorem recovered_table_any_size d root n : wf d = true -> quiet_doc d = true ->
  short_lines (render d root) = true ->
  tlookup (recover_tbl (render d root)) n = option_map (fun o => (o, 0)) (true_off d n).
Proof.
  intros W Q SH. unfold recover_tbl. rewrite (scan_file_finds_all d root 65536 W Q SH).
  apply add_headers_offsets.
Qed.
