(** C19 — compact / styled objects: after the keyword `obj` anything may follow on the same line
    (a delimiter `[ ( / <`, a comment, white space, the whole object); the header is still found
    at its true offset.  [cdoc] = list (object number, rest) where [rest] is everything between
    `obj` and the line end that closes the object (separator, value, `endobj`, possibly several
    lines); the reference writer puts each object at a line start. *)
From OxVerif Require Import Base.Util C09.Model C09.Tokens C19.Model C19.Proofs.
Require Import Lia.
Open Scope N_scope.

Definition cdoc := list (N * bytes).
Definition render_cobj (o : N * bytes) : bytes := dec (fst o) ++ B " 0 obj" ++ snd o ++ [10].
Fixpoint coffsets_from (o : N) (d : cdoc) : list hdr :=
  match d with
  | [] => []
  | x :: r => (fst x, 0, o) :: coffsets_from (o + len (render_cobj x)) r
  end.
Definition coffsets (d : cdoc) : list hdr := coffsets_from (len HEADER) d.
Definition cbody (d : cdoc) : bytes := flat_map render_cobj d.
(** the file: header, objects, then any cross-reference part [t] without the byte 'j' (intact,
    damaged or absent) *)
Definition crender (d : cdoc) (t : bytes) : bytes := HEADER ++ cbody d ++ t.

(** what follows the first end-of-line of a segment *)
Fixpoint after_line (seg : bytes) : bytes :=
  match seg with
  | [] => []
  | b :: r => if is_eol b then r else after_line r
  end.
Fixpoint first_line (seg : bytes) : bytes :=
  match seg with
  | [] => []
  | b :: r => if is_eol b then [] else b :: first_line r
  end.

(** hypothesis: once the header line is over, no later line of the object looks like a header
    (on the header line itself further `obj` occurrences are absorbed by the de-duplication) *)
Definition cquiet_obj (o : N * bytes) : bool := quiet_from [] (after_line (snd o ++ [10])).
Definition cquiet_doc (d : cdoc) : bool := forallb cquiet_obj d.
Definition cwf (d : cdoc) : bool := forallb (fun o => fst o <=? U32MAX) d.

Lemma step_absorb base s b : is_eol b = false -> memN (base + ls s) (seen s) = true ->
  step base s b = mk (off s + 1) (ls s) (b :: lrev s) (seen s) (out s).
Proof.
  intros E M. unfold step. rewrite E. cbv zeta.
  destruct (obj_shape (b :: lrev s)); [|reflexivity].
  destruct (6 <=? off s); [|reflexivity].
  destruct (parse_obj_header (rev (b :: lrev s))) as [[n g]|]; [|reflexivity].
  rewrite M. reflexivity.
Qed.

Lemma run_absorb base : forall seg s,
  forallb (fun b => negb (is_eol b)) seg = true -> memN (base + ls s) (seen s) = true ->
  run base seg s = mk (off s + len seg) (ls s) (rev seg ++ lrev s) (seen s) (out s).
Proof.
  induction seg as [|b r IH]; intros s H M.
  - destruct s. unfold run, len. cbn [fold_left length N.of_nat rev app Model.off Model.ls Model.lrev Model.seen Model.out].
    rewrite N.add_0_r. reflexivity.
  - cbn [forallb] in H. apply andb_true_iff in H. destruct H as [H1 H2]. apply negb_true_iff in H1.
    unfold run in *. cbn [fold_left]. rewrite (step_absorb base s b H1 M).
    rewrite IH by (cbn [Model.ls Model.seen]; assumption).
    cbn [Model.off Model.ls Model.lrev Model.seen Model.out rev]. rewrite len_cons, <- app_assoc.
    cbn [app]. f_equal. lia.
Qed.

Lemma first_line_noeol : forall seg, forallb (fun b => negb (is_eol b)) (first_line seg) = true.
Proof.
  induction seg as [|b r IH]; [reflexivity|]. cbn [first_line].
  destruct (is_eol b) eqn:E; [reflexivity|]. cbn [forallb]. rewrite E, IH. reflexivity.
Qed.

Lemma split_at_eol : forall x, exists e, is_eol e = true /\
  x ++ [10] = first_line (x ++ [10]) ++ e :: after_line (x ++ [10]).
Proof.
  induction x as [|b r [e [E IH]]].
  - exists 10. split; reflexivity.
  - cbn [app first_line after_line]. destruct (is_eol b) eqn:EB.
    + exists b. split; [exact EB|reflexivity].
    + exists e. split; [exact E|]. cbn [app]. f_equal. exact IH.
Qed.

Lemma after_line_shape : forall x, after_line (x ++ [10]) = [] \/ exists y, after_line (x ++ [10]) = y ++ [10].
Proof.
  induction x as [|b r IH].
  - left. reflexivity.
  - cbn [app after_line]. destruct (is_eol b); [right; exists r; reflexivity|exact IH].
Qed.

Lemma clean_after seg o : (seg = [] \/ exists y, seg = y ++ [10]) ->
  line_after [] seg = [] /\ ls_after o o seg = o + len seg.
Proof.
  intros [->|[y ->]].
  - cbn [line_after ls_after]. rewrite len_nil. split; [reflexivity|lia].
  - apply after_eol_end. reflexivity.
Qed.

Definition CPRE : bytes := [32; 48; 32; 111; 98].

Lemma render_cobj_split (o : N * bytes) fl e al :
  snd o ++ [10] = fl ++ e :: al ->
  render_cobj o = (dec (fst o) ++ CPRE) ++ [106] ++ fl ++ [e] ++ al.
Proof.
  intro H. unfold render_cobj. rewrite H. unfold CPRE.
  change (B " 0 obj") with [32; 48; 32; 111; 98; 106].
  rewrite <- !app_assoc. reflexivity.
Qed.

Lemma render_cobj_len_pos o : 0 < len (render_cobj o).
Proof. unfold render_cobj. rewrite !len_app. unfold len. cbn [length]. lia. Qed.

Lemma run_render_cobj base s o :
  clean s -> fst o <= U32MAX -> cquiet_obj o = true ->
  (forall y, In y (seen s) -> y < base + off s) ->
  run base (render_cobj o) s =
  mk (off s + len (render_cobj o)) (off s + len (render_cobj o)) []
     ((base + off s) :: seen s) ((fst o, 0, base + off s) :: out s).
Proof.
  intros [C1 C2] L Q SN.
  destruct (split_at_eol (snd o)) as [e [E SP]].
  pose proof (first_line_noeol (snd o ++ [10])) as FN.
  pose proof (after_line_shape (snd o)) as AS.
  unfold cquiet_obj in Q.
  remember (first_line (snd o ++ [10])) as fl eqn:Hfl. remember (after_line (snd o ++ [10])) as al eqn:Hal.
  clear Hfl Hal.
  rewrite (render_cobj_split o fl e al SP) at 1.
  rewrite (run_app base (dec (fst o) ++ CPRE)), (run_app base [106]), (run_app base fl), (run_app base [e]).
  pose proof (pre_plain (fst o)) as PL. change PRE with CPRE in PL.
  rewrite (run_quiet base (dec (fst o) ++ CPRE) s)
    by (apply quiet_noj; eapply forallb_impl; [apply plain_noj|exact PL]).
  destruct (after_plain (dec (fst o) ++ CPRE) (lrev s) (off s) (ls s) PL) as [A1 A2].
  rewrite A1, A2, C1, C2, app_nil_r.
  set (o1 := off s + len (dec (fst o) ++ CPRE)).
  assert (O6 : 6 <= o1).
  { unfold o1. rewrite len_app.
    pose proof (dec_nonempty (fst o)). unfold len. destruct (dec (fst o)); [contradiction|].
    unfold CPRE. cbn [length]. lia. }
  unfold run at 4. cbn [fold_left].
  rewrite (step_fire base _ (fst o)); cbn [Model.off Model.ls Model.lrev Model.seen Model.out];
    [| reflexivity | exact O6 | exact L | apply memN_false; exact SN].
  (* the rest of the header line: absorbed by the de-duplication *)
  rewrite (run_absorb base fl); cbn [Model.off Model.ls Model.lrev Model.seen Model.out];
    [| exact FN | unfold memN; cbn [existsb]; rewrite N.eqb_refl; reflexivity].
  unfold run at 2. cbn [fold_left]. rewrite step_eol by exact E.
  cbn [Model.off Model.ls Model.lrev Model.seen Model.out].
  rewrite run_quiet by (cbn [Model.lrev]; exact Q).
  cbn [Model.off Model.ls Model.lrev Model.seen Model.out].
  destruct (clean_after al (o1 + 1 + len fl + 1) AS) as [E1 E2].
  rewrite E1, E2.
  assert (LEN : o1 + 1 + len fl + 1 + len al = off s + len (render_cobj o)).
  { unfold o1. rewrite (render_cobj_split o fl e al SP). rewrite !len_app. unfold len. cbn [length]. lia. }
  rewrite LEN. reflexivity.
Qed.

Lemma run_cbody base : forall d s,
  clean s -> cwf d = true -> cquiet_doc d = true ->
  (forall y, In y (seen s) -> y < base + off s) ->
  off (run base (cbody d) s) = off s + len (cbody d)
  /\ clean (run base (cbody d) s)
  /\ out (run base (cbody d) s) = rev (coffsets_from (base + off s) d) ++ out s
  /\ (forall y, In y (seen (run base (cbody d) s)) -> y < base + off (run base (cbody d) s)).
Proof.
  induction d as [|o r IH]; intros s C U Q SN.
  - unfold cbody, run. cbn [flat_map fold_left coffsets_from rev app]. rewrite len_nil, N.add_0_r.
    repeat split; try apply C; auto.
  - unfold cbody. cbn [flat_map]. fold (cbody r). rewrite run_app.
    unfold cwf in U. cbn [forallb] in U. apply andb_true_iff in U. destruct U as [U1 U2]. apply N.leb_le in U1.
    unfold cquiet_doc in Q. cbn [forallb] in Q. apply andb_true_iff in Q. destruct Q as [Q1 Q2].
    rewrite (run_render_cobj base s o C U1 Q1 SN).
    set (s1 := mk (off s + len (render_cobj o)) (off s + len (render_cobj o)) []
                  ((base + off s) :: seen s) ((fst o, 0, base + off s) :: out s)).
    pose proof (render_cobj_len_pos o) as P.
    assert (C1 : clean s1) by (split; reflexivity).
    assert (SN1 : forall y, In y (seen s1) -> y < base + off s1).
    { unfold s1. cbn [Model.seen Model.off]. intros y [<-|Hy]; [lia|]. specialize (SN y Hy). lia. }
    destruct (IH s1 C1 U2 Q2 SN1) as [A [B0 [C0 D]]].
    repeat split; try apply B0.
    + rewrite A. unfold s1. cbn [Model.off]. rewrite len_app. lia.
    + rewrite C0. unfold s1. cbn [Model.off Model.out coffsets_from rev].
      rewrite <- app_assoc. cbn [app]. rewrite N.add_assoc. reflexivity.
    + exact D.
Qed.

(** scan_finds_all for compact objects: whatever follows `obj` on the header line, and whatever
    cross-reference part [t] (without a byte 'j') follows the objects *)
Lemma scan_window_crender d t : cwf d = true -> cquiet_doc d = true -> forallb noj t = true ->
  snd (scan_window (crender d t) 0 [] []) = rev (coffsets d).
Proof.
  intros W Q T. unfold scan_window, crender. rewrite !run_app, run_header.
  set (s1 := mk 15 15 [] [] []).
  assert (C1 : clean s1) by (split; reflexivity).
  assert (SN1 : forall y, In y (seen s1) -> y < 0 + off s1) by (intros y []).
  destruct (run_cbody 0 d s1 C1 W Q SN1) as [A [[B1 B2] [C0 D]]].
  rewrite run_quiet by (apply quiet_noj, T).
  cbn [snd Model.out]. rewrite C0. unfold s1. cbn [Model.off Model.out].
  rewrite app_nil_r. reflexivity.
Qed.

(** non-vacuity: array / name / string / hex string directly after `obj`, a comment containing the
    text "9 0 obj" after a header, a CR inside an object, `endobj` glued to the value *)
Definition CD_OK : cdoc :=
  [(4, B "[0 0 612 792]endobj"); (5, B "/DeviceRGB endobj"); (6, B "(text)endobj"); (7, B "<4869>endobj");
   (8, B "% 9 0 obj" ++ [13] ++ B "42" ++ [13] ++ B "endobj"); (1, B "<</Type /Catalog>>endobj")].
Lemma compact_nonvacuous : cwf CD_OK = true /\ cquiet_doc CD_OK = true
  /\ scan_file 65536 (crender CD_OK []) = coffsets CD_OK.
Proof. vm_compute. repeat split; reflexivity. Qed.
