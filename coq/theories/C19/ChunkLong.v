(** C19 — the carry argument, general form: lines longer than CARRY_CAP are allowed provided they
    are DEAD (no segment of such a line, cut after an "obj", parses as an object header).  When the
    unterminated tail of a window exceeds the cap, the next window starts in the middle of that
    line; on a dead line neither the whole line nor the truncated one fires, and at the next
    end-of-line both runs are aligned again. *)
From OxVerif Require Import Base.Util C09.Model C09.Tokens C19.Model C19.Proofs C19.Chunk.
Require Import Lia.
Open Scope N_scope.

(** the rest of the current line *)
Fixpoint take_line (seg : bytes) : bytes :=
  match seg with [] => [] | b :: r => if is_eol b then [] else b :: take_line r end.

(** nothing fires up to the next end-of-line, [lr] = reversed part of the line already consumed *)
Fixpoint dq1 (lr seg : bytes) : bool :=
  match seg with
  | [] => true
  | b :: r => if is_eol b then true else negb (fires (b :: lr)) && dq1 (b :: lr) r
  end.

(** no segment of the line fires *)
Fixpoint dead (ln : bytes) : bool :=
  match ln with [] => true | _ :: r => dq1 [] ln && dead r end.

(** every line has at most CARRY_CAP bytes or is dead *)
Fixpoint lines_ok (seg : bytes) (at_start : bool) : bool :=
  match seg with
  | [] => true
  | b :: r =>
    (if at_start then (len (take_line seg) <=? CARRY_CAP) || dead (take_line seg) else true)
    && lines_ok r (is_eol b)
  end.
Definition long_lines_dead (file : bytes) : bool := lines_ok file true.

Lemma noeol_false b : noeol b = true -> is_eol b = false.
Proof. unfold noeol. apply negb_true_iff. Qed.

Lemma dq1_take : forall seg lr, dq1 lr (take_line seg) = dq1 lr seg.
Proof.
  induction seg as [|b r IH]; intro lr; [reflexivity|].
  cbn [take_line dq1]. destruct (is_eol b) eqn:E; [reflexivity|].
  cbn [dq1]. rewrite E, IH. reflexivity.
Qed.

Lemma dq1_app : forall x lr y, forallb noeol x = true -> dq1 lr (x ++ y) = true ->
  dq1 (rev x ++ lr) y = true.
Proof.
  induction x as [|b x IH]; intros lr y N D; [exact D|].
  cbn [forallb] in N. apply andb_true_iff in N. destruct N as [N1 N2]. apply noeol_false in N1.
  cbn [app dq1] in D. rewrite N1 in D. apply andb_true_iff in D. destruct D as [_ D].
  cbn [rev]. rewrite <- app_assoc. cbn [app]. apply IH; assumption.
Qed.

Lemma dead_suffix : forall x y, dead (x ++ y) = true -> dead y = true.
Proof.
  induction x as [|b x IH]; intros y D; [exact D|].
  cbn [app dead] in D. apply andb_true_iff in D. destruct D as [_ D]. apply IH, D.
Qed.

Lemma dead_dq1 ln : dead ln = true -> dq1 [] ln = true.
Proof. destruct ln; [reflexivity|]. cbn [dead]. intro D. apply andb_true_iff in D. apply D. Qed.

Lemma take_line_app : forall x y, forallb noeol x = true -> take_line (x ++ y) = x ++ take_line y.
Proof.
  induction x as [|b x IH]; intros y N; [reflexivity|].
  cbn [forallb] in N. apply andb_true_iff in N. destruct N as [N1 N2]. apply noeol_false in N1.
  cbn [app take_line]. rewrite N1, IH by exact N2. reflexivity.
Qed.

Lemma line_after_noeol : forall x lr, forallb noeol x = true -> line_after lr x = rev x ++ lr.
Proof.
  induction x as [|b x IH]; intros lr N; [reflexivity|].
  cbn [forallb] in N. apply andb_true_iff in N. destruct N as [N1 N2]. apply noeol_false in N1.
  cbn [line_after]. rewrite N1, IH by exact N2. cbn [rev]. rewrite <- app_assoc. reflexivity.
Qed.

Lemma lines_ok_after_eol : forall x e r b, is_eol e = true ->
  lines_ok ((x ++ [e]) ++ r) b = true -> lines_ok r true = true.
Proof.
  induction x as [|c x IH]; intros e r b E L.
  - cbn [app lines_ok] in L. apply andb_true_iff in L. destruct L as [_ L]. rewrite E in L. exact L.
  - cbn [app] in L. change (lines_ok (c :: (x ++ [e]) ++ r) b = true) in L. cbn [lines_ok] in L.
    apply andb_true_iff in L. destruct L as [_ L]. eapply IH; [exact E|exact L].
Qed.

Lemma lines_ok_skip : forall x y b, forallb noeol x = true -> x <> [] ->
  lines_ok (x ++ y) b = true -> lines_ok y false = true.
Proof.
  induction x as [|c x IH]; intros y b N NE L; [contradiction|].
  cbn [forallb] in N. apply andb_true_iff in N. destruct N as [N1 N2]. apply noeol_false in N1.
  cbn [app lines_ok] in L. apply andb_true_iff in L. destruct L as [_ L]. rewrite N1 in L.
  destruct x as [|c' x']; [exact L|].
  eapply IH; [exact N2|discriminate|exact L].
Qed.

(** * the two runs, aligned or inside a dead line *)
Definition rel (k : N) (s1 s2 : st) (rem : bytes) : Prop :=
  off s1 = off s2 + k /\
  ((ls s1 = ls s2 + k /\ lrev s1 = lrev s2)
   \/ (dq1 (lrev s1) rem = true /\ dq1 (lrev s2) rem = true)).

Lemma dq1_step lr b r : is_eol b = false -> dq1 lr (b :: r) = true ->
  fires (b :: lr) = false /\ dq1 (b :: lr) r = true.
Proof.
  intros E D. cbn [dq1] in D. rewrite E in D. apply andb_true_iff in D. destruct D as [D1 D2].
  apply negb_true_iff in D1. split; assumption.
Qed.

Lemma step_dead k s1 s2 b rem :
  off s1 = off s2 + k -> dq1 (lrev s1) (b :: rem) = true -> dq1 (lrev s2) (b :: rem) = true ->
  rel k (step 0 s1 b) (step k s2 b) rem
  /\ seen (step 0 s1 b) = seen s1 /\ out (step 0 s1 b) = out s1
  /\ seen (step k s2 b) = seen s2 /\ out (step k s2 b) = out s2.
Proof.
  intros A D1 D2. destruct (is_eol b) eqn:E.
  - rewrite !step_eol by exact E. unfold rel. cbn [off ls lrev seen out].
    split; [split; [lia | left; split; [lia|reflexivity]] | repeat split].
  - destruct (dq1_step _ _ _ E D1) as [F1 R1]. destruct (dq1_step _ _ _ E D2) as [F2 R2].
    rewrite !step_quiet by assumption. unfold rel. cbn [off ls lrev seen out].
    split; [split; [lia | right; split; assumption] | repeat split].
Qed.

Lemma step_rescan2 k s1 s2 b rem :
  rel k s1 s2 (b :: rem) -> (forall y, In y (seen (step 0 s1 b)) -> In y (seen s2)) ->
  rel k (step 0 s1 b) (step k s2 b) rem
  /\ seen (step k s2 b) = seen s2 /\ out (step k s2 b) = out s2.
Proof.
  intros [A [[B0 C]|[D1 D2]]] SUB.
  - destruct (step_rescan k s1 s2 b (conj A (conj B0 C)) SUB) as [[A' [B' C']] [S O]].
    split; [split; [exact A' | left; split; assumption] | split; assumption].
  - destruct (step_dead k s1 s2 b rem A D1 D2) as [R [_ [_ [S O]]]].
    split; [exact R | split; assumption].
Qed.

Lemma run_rescan2 k : forall c rem s1 s2,
  rel k s1 s2 (c ++ rem) -> (forall y, In y (seen (run 0 c s1)) -> In y (seen s2)) ->
  rel k (run 0 c s1) (run k c s2) rem
  /\ seen (run k c s2) = seen s2 /\ out (run k c s2) = out s2.
Proof.
  induction c as [|b r IH]; intros rem s1 s2 SH SUB.
  - unfold run. cbn [fold_left]. repeat split; apply SH.
  - unfold run in *. cbn [fold_left app] in *.
    assert (SUB1 : forall y, In y (seen (step 0 s1 b)) -> In y (seen s2)).
    { intros y Hy. apply SUB. apply (run_seen_mono 0 r). exact Hy. }
    destruct (step_rescan2 k s1 s2 b (r ++ rem) SH SUB1) as [SH' [S' O']].
    destruct (IH rem (step 0 s1 b) (step k s2 b) SH') as [SH'' [S'' O'']].
    { rewrite S'. exact SUB. }
    split; [exact SH''|]. rewrite S'', O'', S', O'. split; reflexivity.
Qed.

Lemma step_same2 k s1 s2 b rem :
  rel k s1 s2 (b :: rem) -> seen s1 = seen s2 -> out s1 = out s2 -> lineinv s2 ->
  rel k (step 0 s1 b) (step k s2 b) rem
  /\ seen (step 0 s1 b) = seen (step k s2 b) /\ out (step 0 s1 b) = out (step k s2 b).
Proof.
  intros [A [[B0 C]|[D1 D2]]] SE OU LI.
  - destruct (step_same k s1 s2 b (conj A (conj B0 C)) SE OU LI) as [[A' [B' C']] [S O]].
    split; [split; [exact A' | left; split; assumption] | split; assumption].
  - destruct (step_dead k s1 s2 b rem A D1 D2) as [R [S1 [O1 [S2 O2]]]].
    split; [exact R|]. rewrite S1, O1, S2, O2. split; assumption.
Qed.

Lemma run_same2 k : forall f rem s1 s2,
  rel k s1 s2 (f ++ rem) -> seen s1 = seen s2 -> out s1 = out s2 -> lineinv s2 ->
  rel k (run 0 f s1) (run k f s2) rem
  /\ seen (run 0 f s1) = seen (run k f s2) /\ out (run 0 f s1) = out (run k f s2).
Proof.
  induction f as [|b r IH]; intros rem s1 s2 SH SE OU LI.
  - unfold run. cbn [fold_left]. repeat split; try apply SH; assumption.
  - unfold run in *. cbn [fold_left app] in *.
    destruct (step_same2 k s1 s2 b (r ++ rem) SH SE OU LI) as [SH' [SE' OU']].
    apply IH; try assumption. apply step_lineinv, LI.
Qed.

Lemma window_run2 a c f rem sn o :
  (at_boundary a \/ (dq1 (lrev (G a)) ((c ++ f) ++ rem) = true /\ dq1 [] ((c ++ f) ++ rem) = true)) ->
  sn = seen (G (a ++ c)) -> o = out (G (a ++ c)) ->
  seen (run (len a) (c ++ f) (mk 0 0 [] sn o)) = seen (G (a ++ c ++ f))
  /\ out (run (len a) (c ++ f) (mk 0 0 [] sn o)) = out (G (a ++ c ++ f)).
Proof.
  intros MD SN O. rewrite !G_app, run_app. rewrite G_app in SN, O.
  set (k := len a). set (s0 := mk 0 0 [] sn o).
  assert (SH : rel k (G a) s0 (c ++ f ++ rem)).
  { unfold rel, s0. cbn [off ls lrev]. rewrite G_off. split; [reflexivity|].
    rewrite <- app_assoc in MD.
    destruct MD as [[B1 B2]|[D1 D2]]; [left; rewrite B1, B2; split; reflexivity | right; split; assumption]. }
  destruct (run_rescan2 k c (f ++ rem) (G a) s0 SH) as [SH1 [S1 O1]].
  { unfold s0. cbn [seen]. rewrite SN. auto. }
  assert (LI : lineinv (run k c s0)).
  { apply run_lineinv. unfold lineinv, s0. cbn [off ls lrev]. rewrite len_nil. lia. }
  destruct (run_same2 k f rem (run 0 c (G a)) (run k c s0) SH1) as [_ [S2 O2]].
  - rewrite S1. unfold s0. cbn [seen]. symmetry. exact SN.
  - rewrite O1. unfold s0. cbn [out]. symmetry. exact O.
  - exact LI.
  - rewrite (run_app 0 c f). split; symmetry; assumption.
Qed.

(** * the loop invariant: the window starts at a line boundary, or inside a dead line *)
Definition mode (a rem : bytes) : Prop :=
  (at_boundary a /\ lines_ok rem true = true)
  \/ (exists P, lrev (G a) = rev P /\ forallb noeol P = true
                /\ dead (P ++ take_line rem) = true /\ lines_ok rem false = true).

Lemma mode_window a rem : mode a rem ->
  at_boundary a \/ (dq1 (lrev (G a)) rem = true /\ dq1 [] rem = true).
Proof.
  intros [[B _]|[P [LR [NP [D _]]]]]; [now left|right].
  split.
  - rewrite LR, <- dq1_take. rewrite <- (app_nil_r (rev P)). apply dq1_app; [exact NP|].
    apply dead_dq1, D.
  - rewrite <- dq1_take. apply dead_dq1. eapply dead_suffix. exact D.
Qed.

Lemma boundary_after_eol a x e : is_eol e = true -> at_boundary (a ++ x ++ [e]).
Proof.
  intro E. unfold at_boundary. rewrite G_app.
  destruct (run_track 0 (x ++ [e]) (G a)) as [_ [L R]]. rewrite L, R.
  destruct (after_eol_end x e (lrev (G a)) (off (G a)) (ls (G a)) E) as [A1 A2].
  rewrite A1, A2, G_off, (len_app a). split; reflexivity.
Qed.

Lemma mode_extend_h a h r :
  mode a (h ++ r) -> (h = [] \/ exists x e, h = x ++ [e] /\ is_eol e = true) -> mode (a ++ h) r.
Proof.
  intros M [->|[x [e [-> E]]]].
  - rewrite app_nil_r. exact M.
  - left. split; [apply boundary_after_eol, E|].
    destruct M as [[_ L]|[P [_ [_ [_ L]]]]]; eapply lines_ok_after_eol; try exact E; exact L.
Qed.

Lemma lines_ok_start seg : seg <> [] -> lines_ok seg true = true ->
  (len (take_line seg) <=? CARRY_CAP) || dead (take_line seg) = true.
Proof.
  destruct seg as [|b r]; [contradiction|]. intros _ L. cbn [lines_ok] in L.
  apply andb_true_iff in L. apply L.
Qed.

Lemma mode_cap a t1 t2 r :
  mode a ((t1 ++ t2) ++ r) -> forallb noeol (t1 ++ t2) = true -> t1 <> [] ->
  CARRY_CAP < len (t1 ++ t2) -> mode (a ++ t1) (t2 ++ r).
Proof.
  intros M N NE LONG. right.
  pose proof N as N'. rewrite forallb_app in N'. apply andb_true_iff in N'. destruct N' as [N1 N2].
  assert (LR : lrev (G (a ++ t1)) = rev t1 ++ lrev (G a)).
  { rewrite G_app. destruct (run_track 0 t1 (G a)) as [_ [_ R]]. rewrite R. apply line_after_noeol, N1. }
  assert (TL : take_line ((t1 ++ t2) ++ r) = t1 ++ take_line (t2 ++ r)).
  { rewrite <- app_assoc. apply take_line_app, N1. }
  destruct M as [[[B1 _] L]|[P [LP [NP [D L]]]]].
  - exists t1. rewrite LR, B1, app_nil_r. repeat split; [exact N1| |].
    + rewrite <- TL.
      assert (NEs : (t1 ++ t2) ++ r <> []) by (destruct t1; [contradiction|discriminate]).
      pose proof (lines_ok_start _ NEs L) as S. apply orb_true_iff in S. destruct S as [S|S]; [|exact S].
      apply N.leb_le in S. rewrite (take_line_app (t1 ++ t2) r N), len_app in S. lia.
    + rewrite <- app_assoc in L. eapply lines_ok_skip; [exact N1|exact NE|exact L].
  - exists (P ++ t1). rewrite LR, LP, rev_app_distr. repeat split.
    + rewrite forallb_app, NP, N1. reflexivity.
    + rewrite <- app_assoc, <- TL. exact D.
    + rewrite <- app_assoc in L. eapply lines_ok_skip; [exact N1|exact NE|exact L].
Qed.

Lemma split_len : forall (l : bytes) n, n <= len l -> exists x y, l = x ++ y /\ len x = n.
Proof.
  intros l n H. exists (firstn (N.to_nat n) l), (skipn (N.to_nat n) l).
  split; [symmetry; apply firstn_skipn|]. unfold len in *. rewrite firstn_length. lia.
Qed.

Lemma skipn_len_app (x y : bytes) : skipn (N.to_nat (len x)) (x ++ y) = y.
Proof. unfold len. rewrite Nat2N.id, skipn_app, skipn_all, Nat.sub_diag. reflexivity. Qed.

Lemma chunked_inv2 : forall fuel chunk rest carry a sn o,
  (1 <= chunk)%nat -> (length rest < fuel)%nat ->
  mode a (carry ++ rest) -> sn = seen (G (a ++ carry)) -> o = out (G (a ++ carry)) ->
  chunked fuel chunk rest carry (len a) sn o = out (G (a ++ carry ++ rest)).
Proof.
  induction fuel as [|f IH]; intros chunk rest carry a sn o CH FU MD SN O; [lia|].
  rewrite chunked_step. cbv zeta.
  destruct rest as [|r0 rs].
  - rewrite firstn_nil. cbn [is_nil andb]. rewrite !app_nil_r.
    destruct carry as [|c0 cs]; cbn [is_nil].
    + exact O.
    + destruct (window_run2 a (c0 :: cs) [] [] sn o) as [_ W2]; try assumption.
      { rewrite !app_nil_r. rewrite app_nil_r in MD. apply mode_window, MD. }
      rewrite !app_nil_r in W2. unfold scan_window. cbv beta iota zeta. exact W2.
  - destruct chunk as [|ch]; [lia|].
    set (filled := firstn (S ch) (r0 :: rs)). set (rest' := skipn (S ch) (r0 :: rs)).
    assert (FR : r0 :: rs = filled ++ rest') by (symmetry; apply firstn_skipn).
    assert (NE : is_nil filled = false) by reflexivity.
    rewrite NE. cbn [andb].
    assert (MDW : mode a ((carry ++ filled) ++ rest')) by (rewrite <- app_assoc, <- FR; exact MD).
    destruct (window_run2 a carry filled rest' sn o) as [W1 W2]; try assumption.
    { apply mode_window, MDW. }
    unfold scan_window. cbv beta iota zeta.
    set (window := carry ++ filled) in *.
    destruct (carry_split window) as [h [t [WS [HL [TN HB]]]]].
    assert (M0 : mode (a ++ h) (t ++ rest')).
    { apply mode_extend_h; [|exact HB]. rewrite app_assoc, <- WS. exact MDW. }
    assert (LW : len window = carry_start window + len t) by (rewrite WS at 1; rewrite len_app, HL; reflexivity).
    assert (LEN : (length rest' < f)%nat).
    { assert (length (r0 :: rs) = length filled + length rest')%nat by (rewrite FR at 1; apply app_length).
      assert (0 < length filled)%nat by (unfold filled; cbn [firstn length]; lia).
      lia. }
    destruct (CARRY_CAP <? len window - carry_start window) eqn:CAP.
    + (* the tail is longer than the cap: the next window starts inside that line *)
      apply N.ltb_lt in CAP.
      destruct (split_len t (len t - CARRY_CAP)) as [t1 [t2 [TS L1]]]; [lia|].
      assert (L2 : len t = len t1 + len t2) by (rewrite TS at 1; apply len_app).
      assert (NE1 : t1 <> []) by (intro E0; rewrite E0, len_nil in L1; lia).
      assert (ST : len window - CARRY_CAP = len (h ++ t1)) by (rewrite len_app, HL; lia).
      rewrite ST.
      assert (WS2 : window = (h ++ t1) ++ t2) by (rewrite <- app_assoc, <- TS; exact WS).
      rewrite WS2 at 1. rewrite skipn_len_app.
      replace (len a + len (h ++ t1)) with (len ((a ++ h) ++ t1)) by (rewrite !len_app; lia).
      assert (AW : ((a ++ h) ++ t1) ++ t2 = a ++ carry ++ filled).
      { fold window. rewrite WS2, <- !app_assoc. reflexivity. }
      rewrite (IH (S ch) rest' t2 ((a ++ h) ++ t1)); try assumption.
      * rewrite app_assoc, AW, FR, <- !app_assoc. reflexivity.
      * apply mode_cap; [rewrite <- TS; exact M0 | rewrite <- TS; exact TN | exact NE1 | rewrite <- TS; lia].
      * rewrite AW. exact W1.
      * rewrite AW. exact W2.
    + apply N.ltb_ge in CAP.
      assert (SK : skipn (N.to_nat (carry_start window)) window = t).
      { rewrite <- HL. rewrite WS. apply skipn_len_app. }
      rewrite SK.
      replace (len a + carry_start window) with (len (a ++ h)) by (rewrite len_app, HL; reflexivity).
      assert (AW : (a ++ h) ++ t = a ++ carry ++ filled).
      { rewrite <- app_assoc, <- WS. reflexivity. }
      rewrite (IH (S ch) rest' t (a ++ h)); try assumption.
      * rewrite app_assoc, AW, FR, <- !app_assoc. reflexivity.
      * rewrite AW. exact W1.
      * rewrite AW. exact W2.
Qed.

(** chunking is invisible on every file whose long lines are dead *)
Theorem chunked_whole2 file chunk : long_lines_dead file = true -> (1 <= chunk)%nat ->
  chunked (S (S (length file))) chunk file [] 0 [] [] = snd (scan_window file 0 [] []).
Proof.
  intros SH CH.
  change 0 with (len []) at 1.
  rewrite (chunked_inv2 (S (S (length file))) chunk file [] [] [] [] CH); try reflexivity.
  - lia.
  - left. split; [apply boundary_nil | exact SH].
Qed.

Theorem scan_file_whole2 file c : long_lines_dead file = true ->
  scan_file c file = isort_off (rev (snd (scan_window file 0 [] []))).
Proof.
  intro SH. unfold scan_file. rewrite chunked_whole2; [reflexivity|exact SH|lia].
Qed.

(** scan_finds_all: any file size, any chunk size *)
Theorem scan_file_finds_all2 d root c : wf d = true -> quiet_doc d = true ->
  long_lines_dead (render d root) = true -> scan_file c (render d root) = offsets d.
Proof.
  intros W Q SH. rewrite (scan_file_whole2 _ c SH), (scan_window_render d root W Q), rev_involutive.
  apply isort_offsets_from.
Qed.

(** short lines are the special case *)
Lemma short_take : forall seg n, short_from n seg = true ->
  take_line seg = [] \/ n + len (take_line seg) <= CARRY_CAP.
Proof.
  induction seg as [|b r IH]; intros n S; [now left|].
  cbn [short_from take_line] in *. destruct (is_eol b); [now left|]. right.
  apply andb_true_iff in S. destruct S as [S1 S2]. apply N.leb_le in S1.
  rewrite len_cons. destruct (IH (n + 1) S2) as [->|H]; [rewrite len_nil; lia | lia].
Qed.

Lemma short_lines_ok : forall seg n b, short_from n seg = true -> (b = true -> n = 0) ->
  lines_ok seg b = true.
Proof.
  induction seg as [|c r IH]; intros n b S NB; [reflexivity|].
  cbn [lines_ok]. apply andb_true_iff. split.
  - destruct b; [|reflexivity]. rewrite (NB eq_refl) in S. apply orb_true_iff. left. apply N.leb_le.
    destruct (short_take _ _ S) as [->|H]; [rewrite len_nil; unfold CARRY_CAP; lia | lia].
  - cbn [short_from] in S. destruct (is_eol c).
    + eapply IH; [exact S|reflexivity].
    + apply andb_true_iff in S. destruct S as [_ S]. eapply IH; [exact S|discriminate].
Qed.

Lemma short_lines_dead file : short_lines file = true -> long_lines_dead file = true.
Proof. intro S. eapply short_lines_ok; [exact S|reflexivity]. Qed.

(** the recovered table and the fallback, any file size *)
Theorem recovered_table_full d root n : wf d = true -> quiet_doc d = true ->
  long_lines_dead (render d root) = true ->
  tlookup (recover_tbl (render d root)) n = option_map (fun o => (o, 0)) (true_off d n).
Proof.
  intros W Q SH. unfold recover_tbl. rewrite (scan_file_finds_all2 d root 65536 W Q SH).
  apply add_headers_offsets.
Qed.

Theorem recovery_faithful_full d root attempts n : wf d = true -> quiet_doc d = true ->
  long_lines_dead (render d root) = true -> 0 < attempts ->
  exists t, table_used None (render d root) attempts = Some t
            /\ tlookup t n = option_map (fun o => (o, 0)) (true_off d n).
Proof.
  intros W Q L A. unfold table_used, decide. apply N.ltb_lt in A. rewrite A.
  replace (1 =? 0) with false by reflexivity. replace (1 =? 1) with true by reflexivity.
  pose proof (recovered_table_full d root n W Q L) as R.
  assert (NE : recover_tbl (render d root) <> []).
  { unfold recover_tbl. rewrite (scan_file_finds_all2 d root 65536 W Q L). apply offsets_nonempty.
    unfold wf in W. apply andb_true_iff in W. destruct W as [W _]. apply andb_true_iff in W.
    destruct W as [W _]. now apply negb_true_iff in W. }
  destruct (recover_tbl (render d root)) as [|e t] eqn:E; [contradiction|].
  exists (e :: t). split; [reflexivity|exact R].
Qed.


(** a cheaper sufficient condition: every line longer than CARRY_CAP contains no letter 'j' *)
Fixpoint lines_ok_noj (seg : bytes) (at_start : bool) : bool :=
  match seg with
  | [] => true
  | b :: r =>
    (if at_start then (if len (take_line seg) <=? CARRY_CAP then true else forallb noj (take_line seg))
     else true)
    && lines_ok_noj r (is_eol b)
  end.

Lemma dq1_noj : forall seg lr, forallb noj seg = true -> dq1 lr seg = true.
Proof.
  induction seg as [|b r IH]; intros lr H; [reflexivity|].
  cbn [forallb] in H. apply andb_true_iff in H. destruct H as [H1 H2].
  cbn [dq1]. destruct (is_eol b); [reflexivity|].
  rewrite (fires_noj b lr H1). cbn [negb andb]. apply IH, H2.
Qed.
Lemma dead_noj : forall ln, forallb noj ln = true -> dead ln = true.
Proof.
  induction ln as [|b r IH]; intro H; [reflexivity|].
  cbn [dead]. rewrite (dq1_noj _ [] H). cbn [forallb] in H. apply andb_true_iff in H.
  cbn [andb]. apply IH, H.
Qed.
Lemma lines_ok_noj_ok : forall seg b, lines_ok_noj seg b = true -> lines_ok seg b = true.
Proof.
  induction seg as [|c r IH]; intros b H; [reflexivity|].
  cbn [lines_ok_noj] in H. apply andb_true_iff in H. destruct H as [H1 H2].
  cbn [lines_ok]. apply andb_true_iff. split; [|apply IH, H2].
  destruct b; [|reflexivity].
  destruct (len (take_line (c :: r)) <=? CARRY_CAP); [reflexivity|].
  cbn [orb]. apply dead_noj, H1.
Qed.


(** * the side condition as a per-object predicate on the document (like [quiet_doc]):
      every body line longer than CARRY_CAP is dead *)
Definition long_lines_dead_doc (d : doc) : bool :=
  forallb (fun o => lines_ok (snd o ++ S_END) true) d.

Lemma take_line_eol : forall y e r, is_eol e = true -> take_line ((y ++ [e]) ++ r) = take_line (y ++ [e]).
Proof.
  induction y as [|c y IH]; intros e r E.
  - cbn [app take_line]. rewrite E. reflexivity.
  - cbn [app take_line]. destruct (is_eol c); [reflexivity|]. rewrite IH by exact E. reflexivity.
Qed.

Lemma lines_ok_app : forall x e r b, is_eol e = true ->
  lines_ok ((x ++ [e]) ++ r) b = lines_ok (x ++ [e]) b && lines_ok r true.
Proof.
  induction x as [|c x IH]; intros e r b E.
  - cbn [app lines_ok take_line]. rewrite E, andb_true_r. reflexivity.
  - change (((c :: x) ++ [e]) ++ r) with (c :: (x ++ [e]) ++ r).
    change ((c :: x) ++ [e]) with (c :: (x ++ [e])).
    cbn [lines_ok]. rewrite IH by exact E.
    change (c :: (x ++ [e]) ++ r) with (((c :: x) ++ [e]) ++ r).
    rewrite (take_line_eol (c :: x) e r E). cbn [app]. rewrite andb_assoc. reflexivity.
Qed.

Lemma dec_f_len : forall f n acc, (length (dec_f f n acc) <= f + length acc)%nat.
Proof.
  induction f as [|f IH]; intros n acc; [cbn [dec_f]; lia|].
  cbn [dec_f]. destruct (n <? 10); [cbn [length]; lia|].
  specialize (IH (n / 10) ((48 + n mod 10) :: acc)). cbn [length] in IH. lia.
Qed.
Lemma dec_len n : n <= U32MAX -> len (dec n) <= 34.
Proof.
  intro H. unfold dec. pose proof (dec_f_len (S (N.to_nat (N.size n))) n []) as L.
  cbn [length] in L. unfold len.
  assert (N.size n <= 32).
  { destruct (N.eq_dec n 0) as [->|NZ]; [cbn; lia|].
    rewrite N.size_log2 by exact NZ.
    pose proof (N.log2_le_mono n U32MAX H) as M. change (N.log2 U32MAX) with 31 in M. lia. }
  lia.
Qed.

Lemma short_noeol_ok : forall x n r, forallb noeol x = true -> n + len x <= CARRY_CAP ->
  short_from n (x ++ r) = short_from (n + len x) r.
Proof.
  induction x as [|c x IH]; intros n r N L.
  - rewrite len_nil, N.add_0_r. reflexivity.
  - cbn [forallb] in N. apply andb_true_iff in N. destruct N as [N1 N2]. apply noeol_false in N1.
    rewrite len_cons in L. cbn [app short_from]. rewrite N1.
    assert (E : (n + 1 <=? CARRY_CAP) = true) by (apply N.leb_le; lia). rewrite E. cbn [andb].
    rewrite IH by (try exact N2; lia). rewrite len_cons. f_equal. lia.
Qed.

Lemma hdrline_ok n : n <= U32MAX -> lines_ok ((dec n ++ B " 0 obj") ++ [10]) true = true.
Proof.
  intro H. eapply short_lines_ok; [|reflexivity].
  assert (NE : forallb noeol (dec n ++ B " 0 obj") = true).
  { rewrite forallb_app. apply andb_true_iff. split; [|reflexivity].
    eapply forallb_impl; [|apply dec_plain]. intros x Hx. unfold noeol. rewrite (plain_noeol x Hx). reflexivity. }
  rewrite short_noeol_ok; [reflexivity|exact NE|].
  pose proof (dec_len n H). rewrite len_app. unfold CARRY_CAP. change (len (B " 0 obj")) with 6. lia.
Qed.

Lemma noj_take_line : forall seg, forallb noj seg = true -> forallb noj (take_line seg) = true.
Proof.
  induction seg as [|c r IH]; intro H; [reflexivity|].
  cbn [forallb] in H. apply andb_true_iff in H. destruct H as [H1 H2].
  cbn [take_line]. destruct (is_eol c); [reflexivity|]. cbn [forallb]. rewrite H1, IH by exact H2. reflexivity.
Qed.
Lemma noj_lines_ok : forall seg b, forallb noj seg = true -> lines_ok seg b = true.
Proof.
  intros seg b H. apply lines_ok_noj_ok. revert b H.
  induction seg as [|c r IH]; intros b H; [reflexivity|].
  cbn [lines_ok_noj]. apply andb_true_iff. split.
  - destruct b; [|reflexivity]. destruct (len (take_line (c :: r)) <=? CARRY_CAP); [reflexivity|].
    apply noj_take_line, H.
  - cbn [forallb] in H. apply andb_true_iff in H. apply IH, H.
Qed.

Lemma body_lines_ok : forall d R, forallb (fun o => fst o <=? U32MAX) d = true ->
  long_lines_dead_doc d = true -> lines_ok R true = true ->
  lines_ok (body_bytes d ++ R) true = true.
Proof.
  induction d as [|o d IH]; intros R U L HR; [exact HR|].
  cbn [forallb] in U. apply andb_true_iff in U. destruct U as [U1 U2]. apply N.leb_le in U1.
  unfold long_lines_dead_doc in L. cbn [forallb] in L. apply andb_true_iff in L. destruct L as [L1 L2].
  unfold body_bytes. cbn [flat_map]. fold (body_bytes d).
  assert (E : (render_obj o ++ body_bytes d) ++ R
              = ((dec (fst o) ++ B " 0 obj") ++ [10]) ++ ((snd o ++ 10 :: B "endobj") ++ [10]) ++ (body_bytes d ++ R)).
  { unfold render_obj, S_OBJ_NL. rewrite s_end_split. rewrite <- !app_assoc. reflexivity. }
  rewrite E, lines_ok_app by reflexivity. rewrite lines_ok_app by reflexivity.
  rewrite (hdrline_ok _ U1).
  assert (E2 : (snd o ++ 10 :: B "endobj") ++ [10] = snd o ++ S_END).
  { rewrite s_end_split, app_assoc. reflexivity. }
  rewrite E2. cbn [andb]. apply andb_true_iff. split; [exact L1|]. apply IH; assumption.
Qed.

Lemma header_split : HEADER = removelast HEADER ++ [10].
Proof. reflexivity. Qed.

Theorem render_lines_ok d root : wf d = true -> long_lines_dead_doc d = true ->
  long_lines_dead (render d root) = true.
Proof.
  intros W L. unfold long_lines_dead, render. rewrite header_split.
  rewrite lines_ok_app by reflexivity. apply andb_true_iff. split; [vm_compute; reflexivity|].
  apply body_lines_ok; [apply wf_u32, W | exact L | apply noj_lines_ok, tail_noj].
Qed.

(** scan_finds_all, final form: hypotheses on the document only *)
Theorem scan_file_finds_all_doc d root c : wf d = true -> quiet_doc d = true ->
  long_lines_dead_doc d = true -> scan_file c (render d root) = offsets d.
Proof. intros W Q L. apply scan_file_finds_all2; try assumption. apply render_lines_ok; assumption. Qed.

Theorem recovered_table_doc d root n : wf d = true -> quiet_doc d = true ->
  long_lines_dead_doc d = true ->
  tlookup (recover_tbl (render d root)) n = option_map (fun o => (o, 0)) (true_off d n).
Proof. intros W Q L. apply recovered_table_full; try assumption. apply render_lines_ok; assumption. Qed.

Theorem recovery_faithful_doc d root attempts n : wf d = true -> quiet_doc d = true ->
  long_lines_dead_doc d = true -> 0 < attempts ->
  exists t, table_used None (render d root) attempts = Some t
            /\ tlookup t n = option_map (fun o => (o, 0)) (true_off d n).
Proof. intros W Q L A. apply recovery_faithful_full; try assumption. apply render_lines_ok; assumption. Qed.

(** cheaper sufficient condition, per object: long body lines contain no 'j' *)
Definition long_lines_noj_doc (d : doc) : bool :=
  forallb (fun o => lines_ok_noj (snd o ++ S_END) true) d.
Lemma long_lines_noj_doc_ok d : long_lines_noj_doc d = true -> long_lines_dead_doc d = true.
Proof.
  unfold long_lines_noj_doc, long_lines_dead_doc. apply forallb_impl.
  intros o H. apply lines_ok_noj_ok, H.
Qed.
