(** C19 — damaged cross-reference data is reconstructed faithfully.

    MODEL (code-shaped, oxidize-pdf-core/src/parser/xref.rs):
      [parse_obj_header]   = parse_obj_header_bytes   (from_utf8_lossy, trim, split_whitespace,
                             parts[2]=="obj", u32 / u16 parse)
      [step]/[scan_window] = scan_window_for_headers  (every "obj", abs<4 skipped, walk back to the
                             byte after the last LF/CR, parse the line up to and including "obj",
                             de-duplicate by absolute line-start offset)
      [chunked]/[scan_file]= scan_object_headers_chunked (fill a chunk, window = carry ++ chunk,
                             carry from the last line boundary capped at 1024 bytes, final stable sort)
      [add_headers]        = XRefTable::add_headers_latest_wins on an empty table
      [extract_root], [obj_content], [find_catalog], [recover]
                           = extract_root_from_xref_stream, read_object_content,
                             find_catalog_by_content + steps 4a..4d of parse_with_recovery_options,
                             trailer synthesis (/Size = number of entries, /Root = candidate)
      [decide]             = the fallback decision of XRefTable::parse_with_options
    The scan is written as a left fold over the bytes that recognises "obj" when its LAST byte is
    consumed (the code searches for the first byte and then looks back; "obj" cannot overlap itself,
    so the occurrences and their order are the same) — this makes [scan (a ++ b)] compositional.

    SPEC: an abstract single-revision document [doc] = objects in physical order, the reference
    writer [render] and its true offset table [offsets]. *)
From OxVerif Require Import Base.Util C09.Model.
Open Scope N_scope.

Definition len (l : bytes) : N := N.of_nat (length l).
Definition is_eol (b : N) : bool := (b =? 10) || (b =? 13).

(** * parse_obj_header_bytes *)

(** length of the Unicode White_Space character (as UTF-8) at the head of [l]; 0 = none.
    char::is_whitespace: U+0009..U+000D, U+0020, U+0085, U+00A0, U+1680, U+2000..U+200A, U+2028,
    U+2029, U+202F, U+205F, U+3000.  Lead bytes C2/E1/E2/E3 always start a fresh character under
    from_utf8_lossy, so the byte-level reading is exact. *)
Definition ws_len (l : bytes) : nat :=
  match l with
  | [] => O
  | b :: r =>
    if ((9 <=? b) && (b <=? 13)) || (b =? 32) then 1%nat
    else if b =? 194 then
      match r with c :: _ => if (c =? 133) || (c =? 160) then 2%nat else O | _ => O end
    else if b =? 225 then
      match r with c :: e :: _ => if (c =? 154) && (e =? 128) then 3%nat else O | _ => O end
    else if b =? 226 then
      match r with
      | c :: e :: _ =>
        if (c =? 128) && (((128 <=? e) && (e <=? 138)) || (e =? 168) || (e =? 169) || (e =? 175)) then 3%nat
        else if (c =? 129) && (e =? 159) then 3%nat else O
      | _ => O end
    else if b =? 227 then
      match r with c :: e :: _ => if (c =? 128) && (e =? 128) then 3%nat else O | _ => O end
    else O
  end.

Definition flush (cur : bytes) (acc : list bytes) : list bytes :=
  match cur with [] => acc | _ => rev cur :: acc end.

(** str::split_whitespace (leading / trailing white space yields no empty token, so the
    preceding trim() changes nothing); [skip] = remaining bytes of a multi-byte white space *)
Fixpoint split_ws (l : bytes) (skip : nat) (cur : bytes) (acc : list bytes) : list bytes :=
  match l with
  | [] => rev (flush cur acc)
  | b :: r =>
    match skip with
    | S k => split_ws r k cur acc
    | O => match ws_len l with
           | O => split_ws r O (b :: cur) acc
           | S k => split_ws r k [] (flush cur acc)
           end
    end
  end.
Definition tokens (l : bytes) : list bytes := split_ws l O [] [].

(** "…".parse::<uN>(): optional '+', at least one ASCII digit, no overflow *)
Definition parse_uint (maxv : N) (t : bytes) : option N :=
  let ds := match t with c :: r => if c =? 43 then r else t | [] => t end in
  match ds with
  | [] => None
  | _ => if forallb is_digit ds
         then (let v := dval 0 ds in if v <=? maxv then Some v else None)
         else None
  end.

Definition U32MAX : N := 4294967295.
Definition U16MAX : N := 65535.

Definition parse_obj_header (line : bytes) : option (N * N) :=
  match tokens line with
  | t0 :: t1 :: t2 :: _ =>
    if bytes_eqb t2 w_obj then
      match parse_uint U32MAX t0 with
      | None => None
      | Some n => match parse_uint U16MAX t1 with
                  | None => None
                  | Some g => Some (n, g)
                  end
      end
    else None
  | _ => None
  end.

(** * scan_window_for_headers *)
Definition hdr := (N * N * N)%type.      (* object number, generation, absolute offset *)
Definition h_obj (h : hdr) := fst (fst h).
Definition h_gen (h : hdr) := snd (fst h).
Definition h_off (h : hdr) := snd h.

Record st := mk { off : N; ls : N; lrev : bytes; seen : list N; out : list hdr }.

(** the current line (reversed) ends with "obj" *)
Definition obj_shape (lr : bytes) : bool :=
  match lr with
  | j :: b :: o :: _ => (j =? 106) && (b =? 98) && (o =? 111)
  | _ => false
  end.

Definition memN (x : N) (l : list N) : bool := existsb (N.eqb x) l.

(** [off s] = window index of the byte being consumed; at the 'j' of "obj", abs = off - 2 *)
Definition step (base : N) (s : st) (b : N) : st :=
  if is_eol b then mk (off s + 1) (off s + 1) [] (seen s) (out s)
  else
    let lr := b :: lrev s in
    let s' := mk (off s + 1) (ls s) lr (seen s) (out s) in
    if obj_shape lr then
      if 6 <=? off s then                                  (* abs >= 4 *)
        match parse_obj_header (rev lr) with
        | Some (n, g) =>
          let o := base + ls s in
          if memN o (seen s) then s'
          else mk (off s + 1) (ls s) lr (o :: seen s) ((n, g, o) :: out s)
        | None => s'
        end
      else s'
    else s'.

Definition run (base : N) (w : bytes) (s : st) : st := fold_left (step base) w s.

(** (seen, out) after one window; [out] is kept reversed *)
Definition scan_window (w : bytes) (base : N) (sn : list N) (o : list hdr) : list N * list hdr :=
  let s := run base w (mk 0 0 [] sn o) in (seen s, out s).

(** * scan_object_headers_chunked *)
Definition CARRY_CAP : N := 1024.

(** index just after the last LF/CR of [w] (0 if none) *)
Definition carry_start (w : bytes) : N :=
  snd (fold_left (fun '(i, s) b => (i + 1, if is_eol b then i + 1 else s)) w (0, 0)).

Definition is_nil {A} (l : list A) : bool := match l with [] => true | _ => false end.

Fixpoint chunked (fuel : nat) (chunk : nat) (rest carry : bytes) (wbase : N)
         (sn : list N) (o : list hdr) : list hdr :=
  match fuel with
  | O => o
  | S f =>
    let filled := firstn chunk rest in
    let rest' := skipn chunk rest in
    let eof := is_nil filled in
    if eof && is_nil carry then o
    else
      let window := carry ++ filled in
      let '(sn', o') := scan_window window wbase sn o in
      if eof then o'
      else
        let start0 := carry_start window in
        let start := if CARRY_CAP <? len window - start0 then len window - CARRY_CAP else start0 in
        chunked f chunk rest' (skipn (N.to_nat start) window) (wbase + start) sn' o'
  end.

(** stable insertion sort by offset = Vec::sort_by_key(|h| h.offset) *)
Fixpoint ins_off (h : hdr) (l : list hdr) : list hdr :=
  match l with
  | [] => [h]
  | x :: r => if h_off h <=? h_off x then h :: l else x :: ins_off h r
  end.
Fixpoint isort_off (l : list hdr) : list hdr :=
  match l with [] => [] | h :: r => ins_off h (isort_off r) end.
(* stability: elements are inserted from the right end; an element equal to x goes AFTER x only
   if it came after x — we insert the earlier element later, and [<?] puts it before: stable *)

Definition scan_file (chunk : N) (b : bytes) : list hdr :=
  let c := N.to_nat (N.max chunk 1) in
  isort_off (rev (chunked (S (S (length b))) c b [] 0 [] [])).

(** * add_headers_latest_wins (empty table, check_extended = false): objnum -> (offset, gen) *)
Definition tbl := list (N * (N * N)).

Fixpoint upsert (t : tbl) (n : N) (v : N * N) : tbl :=
  match t with
  | [] => [(n, v)]
  | (m, w) :: r => if m =? n then (m, v) :: r else (m, w) :: upsert r n v
  end.
Definition add_headers (hs : list hdr) : tbl :=
  fold_left (fun t h => upsert t (h_obj h) (h_off h, h_gen h)) hs [].

Fixpoint tlookup (t : tbl) (n : N) : option (N * N) :=
  match t with
  | [] => None
  | (m, v) :: r => if m =? n then Some v else tlookup r n
  end.

Fixpoint ins_key (e : N * (N * N)) (l : tbl) : tbl :=
  match l with
  | [] => [e]
  | x :: r => if fst e <? fst x then e :: l else x :: ins_key e r
  end.
Fixpoint sort_tbl (l : tbl) : tbl :=
  match l with [] => [] | e :: r => ins_key e (sort_tbl r) end.

(** * byte-pattern helpers (find_byte_pattern, str::contains on ASCII patterns) *)
Fixpoint prefixb (p l : bytes) : bool :=
  match p, l with
  | [], _ => true
  | a :: p', b :: l' => (a =? b) && prefixb p' l'
  | _ :: _, [] => false
  end.
Fixpoint find_sub (p l : bytes) : option nat :=
  match l with
  | [] => if is_nil p then Some O else None
  | _ :: r => if prefixb p l then Some O else option_map S (find_sub p r)
  end.
Definition contains (p l : bytes) : bool :=
  match find_sub p l with Some _ => true | None => false end.

Definition B (s : string) : bytes := bytes_of_string s.
Definition P_ENDOBJ := B "endobj".
Definition P_CAT := B "/Type /Catalog".
Definition P_CAT2 := B "/Type/Catalog".
Definition P_SIG := B "/Type /Sig".
Definition P_SIG2 := B "/Type/Sig".
Definition P_PAGES := B "/Pages".
Definition P_XREFT := B "/Type /XRef".
Definition P_SPOBJ := B " obj".
Definition P_ROOT := B "/Root ".

(** read_object_content: window at the entry's offset, first "<n> 0 obj", up to the next "endobj" *)
Definition obj_content (file : bytes) (n offs : N) : option bytes :=
  let window := firstn 65536 (skipn (N.to_nat offs) file) in
  match find_sub (dec n ++ B " 0 obj") window with
  | None => None
  | Some st0 =>
    let w2 := skipn st0 window in
    match find_sub P_ENDOBJ w2 with
    | None => None
    | Some e => Some (firstn e w2)
    end
  end.

(** str::lines(): split at LF, a trailing CR of each line removed, no final empty line *)
Fixpoint lines_aux (l cur : bytes) : list bytes :=
  match l with
  | [] => match cur with [] => [] | _ => [rev cur] end
  | b :: r => if b =? 10
              then rev (match cur with 13 :: c => c | _ => cur end) :: lines_aux r []
              else lines_aux r (b :: cur)
  end.
Definition lines (l : bytes) : list bytes := lines_aux l [].

Fixpoint take_to_space (l : bytes) : option bytes :=
  match l with
  | [] => None
  | b :: r => if b =? 32 then Some [] else option_map (cons b) (take_to_space r)
  end.

(** extract_root_from_xref_stream *)
Fixpoint xroot (ls0 : list bytes) (inx : bool) : option N :=
  match ls0 with
  | [] => None
  | l :: r =>
    if contains P_SPOBJ l && match r with nx :: _ => contains P_XREFT nx | [] => false end
    then xroot r true
    else if inx then
      if contains P_ENDOBJ l then xroot r false
      else match find_sub P_ROOT l with
           | Some p =>
             match take_to_space (skipn (p + 6) l) with
             | Some num => match parse_uint U32MAX num with
                           | Some v => Some v
                           | None => xroot r inx
                           end
             | None => xroot r inx
             end
           | None => xroot r inx
           end
    else xroot r inx
  end.
Definition extract_root (file : bytes) : option N := xroot (lines file) false.

(** catalog search: steps 4a-4d; [RUnknown] = the later stages (4e/4f), not modelled *)
Inductive rootres := RFound (n : N) | RUnknown.

Definition content_has (file : bytes) (t : tbl) (n : N) (f : bytes -> bool) : bool :=
  match tlookup t n with
  | Some (o, _) => match obj_content file n o with Some c => f c | None => false end
  | None => false
  end.

Definition is_sig (c : bytes) := contains P_SIG2 c || contains P_SIG c.

Definition find_catalog (file : bytes) (t : tbl) : rootres :=
  let keys := map fst (sort_tbl t) in
  let a := match extract_root file with
           | Some r => match tlookup t r with Some _ => Some r | None => None end
           | None => None end in
  match a with Some r => RFound r | None =>
  match find (fun n => content_has file t n (contains P_CAT)) keys with Some r => RFound r | None =>
  match find (fun n => content_has file t n (fun c => negb (is_sig c) &&
                 (contains P_CAT2 c || contains P_CAT c || contains P_PAGES c))) [1; 2; 3; 4; 5] with
  | Some r => RFound r | None =>
  match find (fun n => content_has file t n (fun c => negb (is_sig c) &&
                 (contains P_CAT2 c || contains P_CAT c || contains P_PAGES c))) keys with
  | Some r => RFound r | None => RUnknown
  end end end end.

(** parse_with_recovery_options: None = Err(InvalidXRef) (no header found);
    otherwise sorted table, /Root, /Size *)
Definition recover (file : bytes) : option (tbl * rootres * N) :=
  let t := add_headers (scan_file 65536 file) in
  match t with
  | [] => None
  | _ => Some (sort_tbl t, find_catalog file t, N.of_nat (length t))
  end.

(** the fallback decision of parse_with_options: 0 primary result, 1 recovery, 2 the primary error *)
Definition decide (primary_ok : bool) (attempts : N) : N :=
  if primary_ok then 0 else if 0 <? attempts then 1 else 2.

(** the table the reader ends up with (parse_with_options): the primary table when the section
    parses — whatever it says —, the scanned table when it does not and recovery is allowed *)
Definition recover_tbl (file : bytes) : tbl := add_headers (scan_file 65536 file).
Definition table_used (primary : option tbl) (file : bytes) (attempts : N) : option tbl :=
  let d := decide (match primary with Some _ => true | None => false end) attempts in
  if d =? 0 then primary
  else if d =? 1 then (match recover_tbl file with [] => None | t => Some t end)
  else None.

(** * SPEC: documents, reference writer, true offsets *)
Definition doc := list (N * bytes).

Definition HEADER : bytes := unhex "255044462d312e340a25e2e3cfd30a".
Definition S_OBJ_NL : bytes := B " 0 obj" ++ [10].
Definition S_END : bytes := 10 :: B "endobj" ++ [10].

Definition render_obj (o : N * bytes) : bytes := dec (fst o) ++ S_OBJ_NL ++ snd o ++ S_END.

Fixpoint offsets_from (o : N) (d : doc) : list hdr :=
  match d with
  | [] => []
  | x :: r => (fst x, 0, o) :: offsets_from (o + len (render_obj x)) r
  end.
Definition offsets (d : doc) : list hdr := offsets_from (len HEADER) d.
Definition body_bytes (d : doc) : bytes := flat_map render_obj d.

(** offset of the (last) definition of object n *)
Definition true_off (d : doc) (n : N) : option N :=
  fold_left (fun acc h => if h_obj h =? n then Some (h_off h) else acc) (offsets d) None.

Definition pad10 (n : N) : bytes := repeat 48 (10 - length (dec n)) ++ dec n.
Definition size_of (d : doc) : N := fold_left N.max (map (fun o => fst o + 1) d) 1.
Definition nseq (n : N) : list N := map N.of_nat (seq 0 (N.to_nat n)).
Definition xref_entry (d : doc) (i : N) : bytes :=
  match (if i =? 0 then None else true_off d i) with
  | Some o => pad10 o ++ B " 00000 n " ++ [10]
  | None => B "0000000000 65535 f " ++ [10]
  end.
Definition tail_bytes (d : doc) (root : N) : bytes :=
  B "xref" ++ [10] ++ B "0 " ++ dec (size_of d) ++ [10]
  ++ flat_map (xref_entry d) (nseq (size_of d))
  ++ B "trailer" ++ [10] ++ B "<< /Size " ++ dec (size_of d) ++ B " /Root " ++ dec root ++ B " 0 R >>" ++ [10]
  ++ B "startxref" ++ [10] ++ dec (len HEADER + len (body_bytes d)) ++ [10] ++ B "%%EOF" ++ [10].

Definition render (d : doc) (root : N) : bytes := HEADER ++ body_bytes d ++ tail_bytes d root.

(** the true table of d as the recovery would have to build it: objnum -> (offset, gen 0), sorted *)
Definition true_tbl (d : doc) : tbl := sort_tbl (add_headers (offsets d)).

(** ** hypotheses of the theorems, as decidable predicates *)
Definition fires (lr : bytes) : bool :=
  obj_shape lr && match parse_obj_header (rev lr) with Some _ => true | None => false end.

(** no line of [seg], cut after an occurrence of "obj", parses as an object header;
    [lr] = the (reversed) part of the current line already consumed *)
Fixpoint quiet_from (lr seg : bytes) : bool :=
  match seg with
  | [] => true
  | b :: r => if is_eol b then quiet_from [] r
              else if fires (b :: lr) then false else quiet_from (b :: lr) r
  end.

(** no_header_like_line_in_bodies *)
Definition quiet_body (o : N * bytes) : bool := quiet_from [] (snd o ++ S_END).
Definition quiet_doc (d : doc) : bool := forallb quiet_body d.

Fixpoint nodupb (l : list N) : bool :=
  match l with [] => true | x :: r => negb (memN x r) && nodupb r end.
Definition wf (d : doc) : bool :=
  negb (is_nil d) && nodupb (map fst d) && forallb (fun o => (0 <? fst o) && (fst o <=? U32MAX)) d.

(** what read_object_content returns for an object of a rendered file (everything before its
    "endobj"), provided the text "endobj" does not occur earlier *)
Definition content_of (o : N * bytes) : bytes := dec (fst o) ++ S_OBJ_NL ++ snd o ++ [10].
Definition endobj_clean (o : N * bytes) : bool :=
  match find_sub P_ENDOBJ (content_of o ++ P_ENDOBJ) with
  | Some k => Nat.eqb k (length (content_of o))
  | None => false
  end.
(** catalog hypotheses: the catalog's text is recognisable, no lower-numbered object carries the
    text "/Type /Catalog", no XRef-stream-looking object in the file *)
Definition cat_hyp (d : doc) (root : N) : bool :=
  forallb endobj_clean d
  && existsb (fun o => (fst o =? root) && contains P_CAT (content_of o)) d
  && forallb (fun o => negb (fst o <? root) || negb (contains P_CAT (content_of o))) d
  && match extract_root (render d root) with None => true | Some _ => false end
  && (length (render d root) <=? 65536)%nat.

(** * Correspondence checkers *)
Definition hdr_eqb (a b : hdr) : bool :=
  (h_obj a =? h_obj b) && (h_gen a =? h_gen b) && (h_off a =? h_off b).
Definition ent_eqb (a b : N * (N * N)) : bool :=
  (fst a =? fst b) && (fst (snd a) =? fst (snd b)) && (snd (snd a) =? snd (snd b)).

Definition root_agrees (m : rootres) (i : option N) : bool :=
  match m with
  | RFound r => match i with Some x => r =? x | None => false end
  | RUnknown => true
  end.

(** one case of channel [scan]:
    file, chunk size, implementation scan, implementation recovery (table sorted by object
    number as (objnum, (offset, gen)), /Root, /Size), and for rendered documents
    ((doc, root), intact): intact = the file is [render d root]; otherwise a damaged version of
    it whose object part [HEADER ++ body_bytes d] is untouched *)
Definition scan_case :=
  (bytes * N * list hdr * option (tbl * option N * N) * option ((doc * N) * bool))%type.

Definition scan_model_ok (c : scan_case) : bool :=
  let '(file, chunk, iscan, irec, od) := c in
  list_eqb hdr_eqb (scan_file chunk file) iscan
  && match recover file, irec with
     | None, None => true
     | Some (t, r, sz), Some (it, ir, isz) => list_eqb ent_eqb t it && root_agrees r ir && (sz =? isz)
     | _, _ => false
     end
  && match od with
     | Some ((d, root), true) => bytes_eqb (render d root) file
     | Some ((d, root), false) => prefixb (HEADER ++ body_bytes d) file
     | None => true
     end.

Definition scan_prop_ok (c : scan_case) : bool :=
  let '(file, chunk, iscan, irec, od) := c in
  match od with
  | None => true
  | Some ((d, root), _) =>
    match irec with
    | Some (it, ir, _) =>
      (* every object of d is found at its true offset (entries for numbers that d does not
         define are not constrained: the property speaks about the objects of the file) *)
      forallb (fun e => match tlookup it (fst e) with
                        | Some v => ent_eqb e (fst e, v)
                        | None => false end) (true_tbl d)
      && match ir with Some x => x =? root | None => false end
    | None => false
    end
  end.

(** code: 1 model differs; 2 the recovered table / root is not the true one; with bit 2 also
    4 = a body has a header-like line (outside [scan_finds_all]'s hypothesis),
    8 = the catalog hypotheses fail (outside [catalog_found]'s hypotheses) *)
Definition scan_code (c : scan_case) : N :=
  let '(file, chunk, iscan, irec, od) := c in
  (if scan_model_ok c then 0 else 1)
  + (if scan_prop_ok c then 0
     else 2 + match od with
              | Some ((d, root), _) => (if wf d && quiet_doc d then 0 else 4) + (if cat_hyp d root then 0 else 8)
              | None => 0
              end).

(** one case of channel [open]: what an open shows = catalog, page count, every object
    (64-bit digests of the canonical serialisations; None = error) *)
Definition oview := (option N * option N * list (option N))%type.
Definition optN_eqb := option_eqb N.eqb.
Definition view_eqb (a b : oview) : bool :=
  let '(c1, p1, o1) := a in let '(c2, p2, o2) := b in
  optN_eqb c1 c2 && optN_eqb p1 p2 && list_eqb optN_eqb o1 o2.
(** the intact open must itself be complete for the comparison to mean anything *)
Definition view_complete (a : oview) : bool :=
  let '(c, p, o) := a in
  match c with Some _ => true | None => false end && match p with Some _ => true | None => false end
  && forallb (fun x => match x with Some _ => true | None => false end) o.

(** attempts (max_recovery_attempts), primary parse ok, path taken by parse_with_options,
    intact view, damaged view *)
Definition open_case := (N * bool * N * oview * oview)%type.
Definition open_code (c : open_case) : N :=
  let '(attempts, pok, path, vi, vd) := c in
  code_of (path =? decide pok attempts)
          (if 0 <? attempts then view_eqb vi vd else true).
