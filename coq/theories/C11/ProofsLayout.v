(** C11 — the layout stage conserves the multiset of non-white-space characters. *)
From OxVerif Require Import Base.Util C25.AnnexD C11.ContentSem C11.Model.
From Coq Require Import Permutation Lia.
Open Scope nat_scope.

Definition cntn (c : N) (l : list cp) : nat := cnt c (nonws l).

Lemma nonws_app a b : nonws (a ++ b) = nonws a ++ nonws b.
Proof. unfold nonws. apply filter_app. Qed.

Lemma nonws_ws l : forallb is_ws l = true -> nonws l = [].
Proof.
  induction l as [|x l IH]; cbn; intro H; [reflexivity|].
  apply andb_true_iff in H. destruct H as [H1 H2]. rewrite H1. cbn. auto.
Qed.

Lemma cnt_app c a b : cnt c (a ++ b) = cnt c a + cnt c b.
Proof. unfold cnt. apply count_occ_app. Qed.

Lemma cntn_app c a b : cntn c (a ++ b) = cntn c a + cntn c b.
Proof. unfold cntn. rewrite nonws_app. apply cnt_app. Qed.

Lemma cntn_ws c l : forallb is_ws l = true -> cntn c l = 0.
Proof. intro H. unfold cntn. rewrite (nonws_ws _ H). reflexivity. Qed.

Lemma text_of_cons f l : text_of (f :: l) = fst f ++ text_of l.
Proof. reflexivity. Qed.

Definition hyc (c : N) (k : nat) : nat := if N.eqb c HY then k else 0.

Lemma hyc_add c a b : hyc c (a + b) = hyc c a + hyc c b.
Proof. unfold hyc. destruct (N.eqb c HY); lia. Qed.

Lemma pop_hy_spec t :
  (pops true t = 0 /\ pop_hy t = t) \/ (pops true t = 1 /\ t = pop_hy t ++ [HY]).
Proof.
  unfold pops, pop_hy. destruct (rev t) as [|c r] eqn:E.
  - left. auto.
  - destruct (N.eqb c HY) eqn:Ec.
    + right. split; [reflexivity|]. apply N.eqb_eq in Ec. subst c.
      rewrite <- (rev_involutive t), E. reflexivity.
    + left. auto.
Qed.

Lemma cntn_hy c : cntn c [HY] = hyc c 1.
Proof.
  unfold cntn. change (nonws [HY]) with [HY]. unfold cnt, hyc. cbn [count_occ].
  destruct (N.eq_dec HY c) as [e|n]; destruct (N.eqb c HY) eqn:E; try reflexivity.
  - subst. rewrite N.eqb_refl in E. discriminate E.
  - apply N.eqb_eq in E. congruence.
Qed.

Lemma cntn_pop c t : cntn c t = cntn c (pop_hy t) + hyc c (pops true t).
Proof.
  destruct (pop_hy_spec t) as [[H1 H2]|[H1 H2]].
  - rewrite H1, H2. unfold hyc. destruct (N.eqb c HY); lia.
  - rewrite H1. rewrite H2 at 1. rewrite cntn_app. f_equal. apply cntn_hy.
Qed.

Lemma merge_go_count g : forall l cur ds, Forall sep_ws ds -> forall c,
  cntn c (text_of (merge_go g cur l ds)) + hyc c (dropped_go (fst cur) l ds)
  = cntn c (fst cur) + cntn c (text_of l).
Proof.
  induction l as [|f r IH]; intros cur ds Hds c.
  - cbn [merge_go dropped_go]. rewrite text_of_cons, cntn_app. change (text_of []) with (@nil cp).
    change (cntn c []) with 0. unfold hyc. destruct (N.eqb c HY); lia.
  - destruct ds as [|[|sep hy] ds'].
    + cbn [merge_go dropped_go]. rewrite !text_of_cons, !cntn_app.
      specialize (IH f [] Hds c). lia.
    + cbn [merge_go dropped_go]. inversion Hds; subst. rewrite !text_of_cons, !cntn_app.
      specialize (IH f ds' H2 c). lia.
    + cbn [merge_go dropped_go]. inversion Hds as [|? ? Hs Hr]; subst. cbn in Hs.
      specialize (IH (join g cur sep hy f) ds' Hr c). unfold join in *. cbn [fst] in IH.
      rewrite hyc_add, text_of_cons, !cntn_app. rewrite !cntn_app, (cntn_ws c sep Hs) in IH.
      destruct hy.
      * rewrite (cntn_pop c (fst cur)). lia.
      * cbn [pops]. unfold hyc in *. destruct (N.eqb c HY); lia.
Qed.

Lemma merge_count g ds l : Forall sep_ws ds -> forall c,
  cntn c (text_of (merge g ds l)) + hyc c (dropped ds l) = cntn c (text_of l).
Proof.
  intros H c. destruct l as [|f r]; [cbn; unfold hyc; destruct (N.eqb c HY); reflexivity|].
  cbn [merge dropped]. rewrite merge_go_count by assumption. rewrite text_of_cons, cntn_app. reflexivity.
Qed.

Lemma perm_count a b : Permutation a b -> forall c, cntn c (text_of a) = cntn c (text_of b).
Proof.
  induction 1; intro c.
  - reflexivity.
  - rewrite !text_of_cons, !cntn_app. rewrite IHPermutation. reflexivity.
  - rewrite !text_of_cons, !cntn_app. lia.
  - rewrite IHPermutation1. apply IHPermutation2.
Qed.

(** what a layout step must be: a reordering, or an adjacent merge with white-space separators *)
Definition step_ok (s : lstep) : Prop :=
  match s with
  | LPerm f => forall l, Permutation (f l) l
  | LMerge o _ => forall l, Forall sep_ws (o l)
  end.
Definition step_nohy (s : lstep) : Prop :=
  match s with LPerm _ => True | LMerge o _ => forall l, Forall no_hy (o l) end.

Theorem layout_count pi : Forall step_ok pi -> forall l c,
  cntn c (text_of (run_layout pi l)) + hyc c (layout_dropped pi l) = cntn c (text_of l).
Proof.
  induction pi as [|s pi IH]; intros H l c.
  - cbn [run_layout layout_dropped]. unfold hyc. destruct (N.eqb c HY); lia.
  - inversion H as [|? ? Hs Hr]; subst. cbn [run_layout layout_dropped].
    rewrite hyc_add. specialize (IH Hr (run_step s l) c).
    destruct s as [f|o g]; cbn [run_step step_dropped step_ok] in *.
    + rewrite <- (perm_count _ _ (Hs l) c). unfold hyc in *. destruct (N.eqb c HY); lia.
    + rewrite <- (merge_count g (o l) l (Hs l) c). lia.
Qed.

Lemma dropped_go_nohy : forall l cur ds, Forall no_hy ds -> dropped_go cur l ds = 0.
Proof.
  induction l as [|f r IH]; intros cur ds H; [reflexivity|].
  destruct ds as [|[|sep hy] ds']; cbn.
  - apply IH. constructor.
  - inversion H; subst. apply IH. assumption.
  - inversion H as [|? ? Hh Hr]; subst. cbn in Hh. subst hy. cbn. apply IH. assumption.
Qed.

Lemma layout_dropped_nohy pi : Forall step_nohy pi -> forall l, layout_dropped pi l = 0.
Proof.
  induction pi as [|s pi IH]; intros H l; [reflexivity|].
  inversion H as [|? ? Hs Hr]; subst. cbn. rewrite (IH Hr).
  destruct s as [f|o g]; cbn in *; [reflexivity|].
  unfold dropped. destruct l; [reflexivity|]. rewrite dropped_go_nohy by apply Hs. reflexivity.
Qed.

(** number of hyphen-dropping joins a pass was asked to make: the hyphens lost never exceed it *)
Fixpoint hy_joins (ds : list decision) : nat :=
  match ds with
  | Join _ true :: r => S (hy_joins r)
  | _ :: r => hy_joins r
  | [] => 0
  end.

Lemma pops_le1 hy t : pops hy t <= 1.
Proof. unfold pops. destruct hy; [|lia]. destruct (rev t); [lia|]. destruct (N.eqb _ _); lia. Qed.

Lemma dropped_go_le : forall l cur ds, dropped_go cur l ds <= hy_joins ds.
Proof.
  induction l as [|f r IH]; intros cur ds; [cbn; lia|].
  destruct ds as [|[|sep hy] ds']; cbn [dropped_go hy_joins].
  - apply IH.
  - apply IH.
  - specialize (IH ((if hy then pop_hy cur else cur) ++ sep ++ fst f) ds').
    pose proof (pops_le1 hy cur). destruct hy; [lia|]. cbn in *. lia.
Qed.

(** a stable sort by any comparison is a reordering *)
Lemma ins_by_perm leb x l : Permutation (ins_by leb x l) (x :: l).
Proof.
  induction l as [|y r IH]; cbn; [reflexivity|].
  destruct (leb x y); [reflexivity|].
  rewrite IH. apply perm_swap.
Qed.
Lemma sort_by_perm leb l : Permutation (sort_by leb l) l.
Proof.
  induction l as [|x r IH]; cbn; [reflexivity|].
  rewrite ins_by_perm. constructor. exact IH.
Qed.

Lemma cnt_perm (a b : list N) : (forall c, cnt c a = cnt c b) -> Permutation a b.
Proof. intro H. apply (Permutation_count_occ N.eq_dec). intro x. apply H. Qed.

Theorem layout_perm pi : Forall step_ok pi -> Forall step_nohy pi -> forall l,
  Permutation (nonws (text_of (run_layout pi l))) (nonws (text_of l)).
Proof.
  intros H1 H2 l. apply cnt_perm. intro c.
  pose proof (layout_count pi H1 l c) as E. rewrite (layout_dropped_nohy pi H2) in E.
  unfold cntn, hyc in E. destruct (N.eqb c HY); lia.
Qed.

Theorem layout_hyphen pi : Forall step_ok pi -> forall l,
  Permutation (nonws (text_of (run_layout pi l)) ++ repeat HY (layout_dropped pi l)) (nonws (text_of l)).
Proof.
  intros H l. apply cnt_perm. intro c. rewrite cnt_app.
  pose proof (layout_count pi H l c) as E. unfold cntn in E. rewrite <- E. f_equal.
  unfold hyc, cnt. generalize (layout_dropped pi l) as k. induction k as [|k IH]; cbn [repeat count_occ].
  - destruct (N.eqb c HY); reflexivity.
  - destruct (N.eq_dec HY c) as [e|n].
    + subst c. rewrite N.eqb_refl in *. lia.
    + destruct (N.eqb c HY) eqn:E'; [apply N.eqb_eq in E'; congruence|]. exact IH.
Qed.
