(** C11 — text extraction conserves every drawn character.
    ISO-shaped content semantics: which character strings a page's content SHOWS
    (ISO 32000-1 9.4 text objects and show operators, 8.4.2 q/Q, 8.10 form XObjects,
    9.6.6 / 9.10 code -> Unicode, 14.6 marked content, 14.8.2.2 artifacts, 14.9.4 ActualText).
    Written from the standard; nothing here looks at the extractor.  Geometry (Td TD Tm T* Tc Tw
    Tz TL Ts cm, the numbers in a TJ array, colour) cannot change WHICH characters are shown, so all
    of it is one constructor [Geom] / [TNum].

    [shown] is partial: [None] = the standard (read conservatively) does not determine the outcome,
    the property is then not evaluated.  The undetermined situations are listed at [shown]. *)
From OxVerif Require Import Base.Util C25.AnnexD.
Open Scope N_scope.

Definition cp := N.     (* a Unicode scalar value *)

(** * Characters: white space and controls are not "characters" for the property *)
Definition is_cc (c : N) : bool := (c <? 32) || ((127 <=? c) && (c <=? 159)).
Definition is_ws (c : N) : bool :=
  (c <=? 32) || ((127 <=? c) && (c <=? 160)) || (c =? 5760) || ((8192 <=? c) && (c <=? 8202))
  || (c =? 8232) || (c =? 8233) || (c =? 8239) || (c =? 8287) || (c =? 12288).
Definition nonws (l : list cp) : list cp := filter (fun c => negb (is_ws c)) l.
Definition HY : N := 45.   (* '-' *)

(** * Syntax *)
Inductive telem := TStr (b : bytes) | TNum.
Inductive op :=
| BT | ET | Tf (f : N) | Tr (m : N) | Geom
| Tj (s : bytes) | TJ (l : list telem) | Quote (s : bytes) | DQuote (s : bytes)
| Qsave | Qrest | Do (x : N)
| BMC (art : bool) | BDC (art : bool) (act : option (list cp)) | EMC.

(** a font as the case supplies it: a simple font with WinAnsiEncoding (Annex D), or a composite
    font with two-byte codes whose ToUnicode CMap is given as code -> string *)
Inductive font := FWin | FMap (m : list (bytes * list cp)).
Record res := mkRes { r_fonts : list (N * font); r_forms : list (N * N) }.
Record form := mkForm { f_ops : list op; f_res : res }.
Definition store := list (N * form).

Fixpoint assocN {A} (k : N) (l : list (N * A)) : option A :=
  match l with [] => None | (a, b) :: r => if a =? k then Some b else assocN k r end.
Fixpoint assocB {A} (k : bytes) (l : list (bytes * A)) : option A :=
  match l with [] => None | (a, b) :: r => if bytes_eqb a k then Some b else assocB k r end.

(** * Code -> Unicode *)
Definition cell_cp (c : cell) : option cp :=
  match c with
  | One x => Some x
  | Two a b => if is_ws a && is_ws b then Some a else None   (* 0xAD hyphen/soft hyphen: open *)
  | Unc => None
  end.
Definition win_cp (b : N) : option cp := cell_cp (nth (N.to_nat b) annex_win Unc).

Fixpoint smap_all {A} (f : A -> option cp) (l : list A) : option (list cp) :=
  match l with
  | [] => Some []
  | x :: r => match f x, smap_all f r with Some c, Some t => Some (c :: t) | _, _ => None end
  end.

Definition good_target (t : list cp) : bool :=
  match t with [] => false | _ => forallb (fun c => negb (is_cc c)) t end.
Definition keys2 {A} (m : list (bytes * A)) : bool := forallb (fun kv => (N.of_nat (length (fst kv)) =? 2)) m.

Fixpoint smap2 (m : list (bytes * list cp)) (b : bytes) : option (list cp) :=
  match b with
  | [] => Some []
  | [_] => None
  | x :: y :: r =>
      match assocB [x; y] m with
      | Some t => if good_target t then
                    match smap2 m r with Some l => Some (t ++ l) | None => None end
                  else None
      | None => None
      end
  end.

(** [None]: a code the encoding leaves undefined, a two-byte code without ToUnicode entry, an odd
    number of bytes, a ToUnicode target that is empty or contains a control code *)
Definition sdecode (f : font) (b : bytes) : option (list cp) :=
  match f with
  | FWin => smap_all win_cp b
  | FMap m => if keys2 m then smap2 m b else None
  end.

(** * Interpreter state *)
Record mcent := mkEnt { e_art : bool; e_act : option (list cp); e_any : bool }.
Record sst := mkS {
  s_in : bool;                                  (* inside BT..ET *)
  s_font : option (N * font);                   (* font selected by Tf (resource name, font) *)
  s_inv : bool;                                 (* text render mode 3 or 7: nothing is painted *)
  s_stack : list (option (N * font) * bool);    (* q/Q: text state is graphics state (9.3.1) *)
  s_mc : list mcent                             (* marked-content nesting, innermost first *)
}.
Definition item := (bool * list cp)%type.       (* painted visibly?, the string *)

Definition in_art (l : list mcent) : bool := existsb e_art l.
Fixpoint find_act (l : list mcent) : option (list cp * nat * bool) :=
  match l with
  | [] => None
  | e :: r => match e_act e with Some t => Some (t, length r, e_any e) | None => find_act r end
  end.
Definition has_act (l : list mcent) : bool := match find_act l with Some _ => true | None => false end.
Fixpoint mark_any (b : bool) (l : list mcent) : list mcent :=
  match l with
  | [] => []
  | e :: r => match e_act e with
              | Some _ => mkEnt (e_art e) (e_act e) (e_any e || b) :: r
              | None => e :: mark_any b r
              end
  end.
Definition is_nil {A} (l : list A) : bool := match l with [] => true | _ => false end.

Definition set_mc (s : sst) (l : list mcent) : sst := mkS (s_in s) (s_font s) (s_inv s) (s_stack s) l.

Definition MAX_Q : nat := 1024.      (* q nesting beyond this is outside the decided domain *)
Definition MAX_FORM_DEPTH : nat := 12. (* form nesting beyond this is outside the decided domain *)

(** one string shown by a show operator *)
Definition sshow (incl : bool) (s : sst) (b : bytes) : option (sst * list item) :=
  if negb (s_in s) then None else
  match s_font s with
  | None => None
  | Some (_, f) =>
      match sdecode f b with
      | None => None
      | Some l =>
          if in_art (s_mc s) && negb incl then Some (s, [])
          else if has_act (s_mc s) then Some (set_mc s (mark_any (negb (is_nil (nonws l))) (s_mc s)), [])
          else Some (s, [(negb (s_inv s), l)])
      end
  end.

Fixpoint sshow_arr (incl : bool) (s : sst) (l : list telem) : option (sst * list item) :=
  match l with
  | [] => Some (s, [])
  | TNum :: r => sshow_arr incl s r
  | TStr b :: r =>
      match sshow incl s b with
      | None => None
      | Some (s1, o1) => match sshow_arr incl s1 r with
                         | None => None
                         | Some (s2, o2) => Some (s2, o1 ++ o2)
                         end
      end
  end.

(** every operator except [Do]; [base] = marked-content depth at the start of this content stream
    (14.6: marked-content sequences are balanced within one content stream) *)
Definition sstep (incl : bool) (fonts : list (N * font)) (base : nat) (s : sst) (o : op)
  : option (sst * list item) :=
  match o with
  | BT => Some (mkS true (s_font s) (s_inv s) (s_stack s) (s_mc s), [])
  | ET => Some (mkS false (s_font s) (s_inv s) (s_stack s) (s_mc s), [])
  | Tf f => Some (mkS (s_in s) (match assocN f fonts with Some x => Some (f, x) | None => None end)
                      (s_inv s) (s_stack s) (s_mc s), [])
  | Tr m => Some (mkS (s_in s) (s_font s) ((m =? 3) || (m =? 7)) (s_stack s) (s_mc s), [])
  | Geom => Some (s, [])
  | Tj b | Quote b | DQuote b => sshow incl s b
  | TJ l => sshow_arr incl s l
  | Qsave => if Nat.ltb (length (s_stack s)) MAX_Q
             then Some (mkS (s_in s) (s_font s) (s_inv s) ((s_font s, s_inv s) :: s_stack s) (s_mc s), [])
             else None
  | Qrest => match s_stack s with
             | [] => None                                   (* unbalanced Q *)
             | (f, i) :: r => Some (mkS (s_in s) f i r (s_mc s), [])
             end
  | BMC a => Some (set_mc s (mkEnt a None false :: s_mc s), [])
  | BDC a act =>
      match act with
      | Some _ => if has_act (s_mc s) then None              (* nested ActualText: open *)
                  else Some (set_mc s (mkEnt a act false :: s_mc s), [])
      | None => Some (set_mc s (mkEnt a None false :: s_mc s), [])
      end
  | EMC =>
      if Nat.leb (length (s_mc s)) base then None            (* EMC closing nothing of this stream *)
      else match s_mc s with
      | [] => None
      | e :: r =>
          match e_act e with
          | None => Some (set_mc s r, [])
          | Some t =>
              if e_any e then
                (if in_art (e :: r) && negb incl then Some (set_mc s r, [])
                 else Some (set_mc s r, [(true, t)]))
              else (if in_art (e :: r) && negb incl then Some (set_mc s r, []) else None)
          end
      end
  | Do _ => None
  end.

(** a content stream, with form XObjects painted by [Do] (8.10.1: q, concat Matrix, paint, Q;
    the form sees only its own resource dictionary).  [d] bounds the nesting depth, [vis] is the
    list of forms being painted (a form painting itself is not a valid file). *)
Section Run.
  Variable incl : bool.
  Variable st : store.
  Variable rec : list N -> form -> sst -> option (sst * list item).   (* paint a form one level down *)

  Fixpoint srun_ops (vis : list N) (r : res) (base : nat) (ops : list op) (s : sst)
    : option (sst * list item) :=
    match ops with
    | [] => if Nat.eqb (length (s_mc s)) base then Some (s, []) else None
    | Do x :: ops' =>
        if s_in s then None else
        match assocN x (r_forms r) with
        | None => srun_ops vis r base ops' s           (* not a form XObject: shows no text *)
        | Some id =>
            if existsb (N.eqb id) vis then None else
            match assocN id st with
            | None => srun_ops vis r base ops' s
            | Some fm =>
                match rec (id :: vis) fm (mkS false None (s_inv s) [] (s_mc s)) with
                | None => None
                | Some (s1, o1) =>
                    match srun_ops vis r base ops' (set_mc s (s_mc s1)) with
                    | None => None
                    | Some (s2, o2) => Some (s2, o1 ++ o2)
                    end
                end
            end
        end
    | o :: ops' =>
        match sstep incl (r_fonts r) base s o with
        | None => None
        | Some (s1, o1) =>
            match srun_ops vis r base ops' s1 with
            | None => None
            | Some (s2, o2) => Some (s2, o1 ++ o2)
            end
        end
    end.
End Run.

Fixpoint srun (incl : bool) (st : store) (d : nat) (vis : list N) (fm : form) (s : sst)
  : option (sst * list item) :=
  match d with
  | O => None
  | S d' => srun_ops incl st (srun incl st d') vis (f_res fm) (length (s_mc s)) (f_ops fm) s
  end.

Definition page := (res * list op * store)%type.
Definition s_init : sst := mkS false None false [] [].

(** The strings a page shows, in content order, each with its visibility.
    [None] (outcome not determined, property not evaluated) when:
    - a show operator occurs outside a text object, with no font selected in the current content
      stream (a form starts with none: text shown in a form before its own Tf is left open), with a
      font name missing from the current resource dictionary, or with a code whose Unicode value
      the font does not determine;
    - Q without q, q nesting beyond 1024, Do inside a text object, a form that paints itself,
      forms nested deeper than 12;
    - marked content not balanced within its content stream, ActualText nested inside ActualText,
      an ActualText span that is not inside a suppressed artifact and shows no non-blank glyph
      (whether replacement text of a span without text belongs to "the text" is left open).
    "Honoured as specified" is taken to mean: the ActualText string stands for everything shown
    between its BDC and the matching EMC (nested forms included), once; content inside an
    /Artifact sequence is not part of the text unless artifacts are asked for. *)
Definition shown (incl : bool) (p : page) : option (list item) :=
  let '(r, ops, st) := p in
  match srun incl st (S MAX_FORM_DEPTH) [] (mkForm ops r) s_init with
  | Some (_, o) => Some o
  | None => None
  end.

Definition all_text (l : list item) : list cp := concat (List.map snd l).
Definition visible_text (l : list item) : list cp :=
  concat (List.map snd (filter (fun i => fst i) l)).
