(** C11 — end-to-end statements assembled from ProofsDecode / ProofsEmit / ProofsLayout,
    and non-vacuity examples. *)
From OxVerif Require Import Base.Util C25.AnnexD C11.ContentSem C11.Model.
From OxVerif Require Export C11.ProofsLayout C11.ProofsDecode C11.ProofsEmit.
From Coq Require Import Permutation Lia.
Open Scope N_scope.

(** emission followed by any layout of the abstract shape *)
Theorem extraction_conserves incl pol p items pi (frs : list frag) :
  shown incl p = Some items ->
  List.map fst frs = fst (emit incl pol p) ->          (* any geometry attached to the pieces *)
  Forall step_ok pi ->
  Permutation (nonws (text_of (run_layout pi frs)) ++ repeat HY (layout_dropped pi frs))
              (nonws (all_text items)).
Proof.
  intros Hs Hf Hpi. destruct (emission_conserves_list incl pol p items Hs) as [E _].
  rewrite <- E, <- Hf. apply (layout_hyphen pi Hpi frs).
Qed.

Theorem extraction_conserves_nohy incl pol p items pi (frs : list frag) :
  shown incl p = Some items -> List.map fst frs = fst (emit incl pol p) ->
  Forall step_ok pi -> Forall step_nohy pi ->
  Permutation (nonws (text_of (run_layout pi frs))) (nonws (all_text items)).
Proof.
  intros Hs Hf H1 H2. destruct (emission_conserves_list incl pol p items Hs) as [E _].
  rewrite <- E, <- Hf. apply (layout_perm pi H1 H2 frs).
Qed.

(** the modelled stages are functions of (options, page): nothing else reaches the output *)
Theorem extraction_deterministic incl pol (p1 p2 : page) pi (l1 l2 : list frag) :
  p1 = p2 -> l1 = l2 -> emit incl pol p1 = emit incl pol p2 /\ run_layout pi l1 = run_layout pi l2.
Proof. intros -> ->. split; reflexivity. Qed.

Lemma stable_sort_ok leb : step_ok (LPerm (sort_by leb)).
Proof. cbn. apply sort_by_perm. Qed.

(** * non-vacuity *)
(** a page with both font kinds, q/Q around a font change, a form with its own /F1, an artifact,
    an ActualText span and invisible text *)
Definition ex_map : list (bytes * list cp) := [([0; 1], [20320]); ([0; 2], [102; 102; 105]); ([0; 3], [45])].
Definition ex_form : form :=
  mkForm [BT; Tf 1; Tj [0; 2]; ET] (mkRes [(1, FMap ex_map)] []).
Definition ex_page : page :=
  (mkRes [(1, FWin); (2, FMap ex_map)] [(1, 20)],
   [BT; Tf 1; Tj [72; 105]; Qsave; Tf 2; TJ [TStr [0; 1]; TNum; TStr [0; 3]]; Qrest; Quote [33; 147]; ET;
    Do 1;
    BMC true; BT; Tf 1; Tj [65]; ET; EMC;
    BDC false (Some [8364; 32; 53]); BT; Tf 1; DQuote [53; 32; 69]; ET; EMC;
    BT; Tf 1; Tr 3; Tj [90]; ET],
   [(20, ex_form)]).

Example ex_shown :
  shown false ex_page
  = Some [(true, [72; 105]); (true, [20320]); (true, [45]); (true, [33; 8220]); (true, [102; 102; 105]);
          (true, [8364; 32; 53]); (false, [90])].
Proof. vm_compute. reflexivity. Qed.

Example ex_emit :
  emit false 0 ex_page = ([[72; 105]; [20320]; [45]; [33; 8220]; [102; 102; 105]; [8364; 32; 53]; [90]], true).
Proof. vm_compute. reflexivity. Qed.

Example ex_shown_incl : exists l, shown true ex_page = Some l /\ In (true, [65]) l.
Proof. eexists. split; [vm_compute; reflexivity|]. cbn. tauto. Qed.

(** a layout: sort by the geometry tag, merge pairs with a space / a dropped line-end hyphen *)
Definition ex_frags : list frag := [([99; 100], 3); ([97; 98; 45], 1); ([120], 2)].
Definition ex_pi : list lstep :=
  [LPerm (sort_by (fun a b => snd a <=? snd b));
   LMerge (fun _ => [Join [] true; Join [32] false]) (fun a _ => a)].
Example ex_layout : text_of (run_layout ex_pi ex_frags) = [97; 98; 120; 32; 99; 100]
                    /\ layout_dropped ex_pi ex_frags = 1%nat.
Proof. vm_compute. split; reflexivity. Qed.
Example ex_pi_ok : Forall step_ok ex_pi.
Proof.
  constructor; [intro l; apply sort_by_perm|].
  constructor; [intro l; repeat constructor|constructor].
Qed.

(** the case checker accepts a faithful run of the example page (also without the invisible Z)
    and rejects a run that lost or duplicated a character *)
Definition ex_em : list (list cp) := [[72; 105]; [20320]; [45]; [33; 8220]; [102; 102; 105]; [8364; 32; 53]; [90]].
Definition ex_txt : list cp := [72; 105; 20320; 45; 10; 33; 8220; 32; 102; 102; 105; 8364; 32; 53; 90].
Example ex_case_ok :
  case_code (ex_page, 0, [([1; 3; 9], ex_txt, ex_em, ex_txt, [[72; 105; 20320; 45]; [33; 8220]; [102; 102; 105]; [8364; 32; 53; 90]]);
                          ([1], ex_txt, ex_em, removelast ex_txt, [removelast ex_txt])]) = 0.
Proof. vm_compute. reflexivity. Qed.
Example ex_case_lost :
  case_code (ex_page, 0, [([1], ex_txt, ex_em, tl ex_txt, [ex_txt])]) = 2
  /\ case_code (ex_page, 0, [([1; 3], ex_txt, ex_em, 72 :: ex_txt, [ex_txt])]) = 2
  /\ case_code (ex_page, 0, [([1], tl ex_txt, ex_em, ex_txt, [ex_txt])]) = 1.
Proof. vm_compute. repeat split; reflexivity. Qed.
