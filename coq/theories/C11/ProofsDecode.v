(** C11 — decode_text agrees with the font tables on every string the fonts determine, up to
    white space and controls. *)
From OxVerif Require Import Base.Util C25.AnnexD C11.ContentSem C11.Model C11.ProofsLayout.
From OxGen Require Import C11Extract.
From Coq Require Import Lia ZifyBool.
Open Scope N_scope.

Lemma nonws_cons (c : N) (r : list N) : nonws (c :: r) = if is_ws c then nonws r else c :: nonws r.
Proof. unfold nonws. cbn [filter]. destruct (is_ws c); reflexivity. Qed.

Lemma ascii_ctl_ws c : ascii_ctl c = true -> is_ws c = true.
Proof. unfold ascii_ctl, is_ws. lia. Qed.

Lemma drop_while_nonws r : nonws (drop_while rm_ctl r) = nonws r /\ (length (drop_while rm_ctl r) <= length r)%nat.
Proof.
  induction r as [|x r [IH1 IH2]]; cbn [drop_while]; [split; [reflexivity|lia]|].
  destruct (rm_ctl x) eqn:E.
  - split; [|cbn [length]; lia]. rewrite IH1, (nonws_cons x r).
    assert (is_ws x = true) as ->; [|reflexivity].
    apply ascii_ctl_ws. unfold rm_ctl in E. apply andb_true_iff in E. tauto.
  - split; [reflexivity|lia].
Qed.

Lemma nonws_san pol : forall fuel sp (l : list N), (length l < fuel)%nat -> nonws (san fuel pol sp l) = nonws l.
Proof.
  induction fuel as [|k IH]; intros sp l Hl; [lia|].
  destruct l as [|c r]; [reflexivity|]. cbn [length] in Hl. cbn [san].
  rewrite (nonws_cons c r).
  destruct (c =? 0) eqn:E0.
  { apply N.eqb_eq in E0. subst c. change (is_ws 0) with true. cbv iota.
    assert (forall r' : list N, nonws r' = nonws r -> (length r' <= length r)%nat ->
            nonws (if sp then san k pol true r' else 32 :: san k pol true r') = nonws r) as A.
    { intros r' H1 H2. destruct sp; [|rewrite nonws_cons; change (is_ws 32) with true; cbv iota];
        rewrite IH by lia; exact H1. }
    destruct r as [|x r2]; [apply A; [reflexivity|lia]|].
    destruct (x =? 3) eqn:E3.
    - apply N.eqb_eq in E3. subst x. apply A; [|cbn [length]; lia].
      rewrite (nonws_cons 3 r2). reflexivity.
    - apply A; [reflexivity|lia]. }
  destruct (c =? 3) eqn:E3.
  { apply N.eqb_eq in E3. subst c. change (is_ws 3) with true. cbv iota. apply IH. lia. }
  destruct (c =? 13) eqn:E13.
  { apply N.eqb_eq in E13. subst c. change (is_ws 13) with true. cbv iota.
    assert (nonws (if pol =? 0 then san k pol sp r
                   else if pol =? 1 then (if sp then san k pol true r else 32 :: san k pol true r)
                   else 13 :: san k pol false r) = nonws r) as A.
    { destruct (pol =? 0); [apply IH; lia|]. destruct (pol =? 1).
      - destruct sp; [|rewrite nonws_cons; change (is_ws 32) with true; cbv iota]; apply IH; lia.
      - rewrite nonws_cons. change (is_ws 13) with true. cbv iota. apply IH. lia. }
    destruct (drop_while_nonws r) as [D1 D2].
    destruct (drop_while rm_ctl r) as [|x r2]; [exact A|].
    destruct (x =? 10) eqn:E10; [|exact A].
    apply N.eqb_eq in E10. subst x. rewrite nonws_cons. change (is_ws 10) with true. cbv iota.
    rewrite IH by (cbn [length] in D2; lia). rewrite <- D1, (nonws_cons 10 r2). reflexivity. }
  destruct ((c =? 9) || (c =? 10)) eqn:E910.
  { rewrite nonws_cons. rewrite IH by lia. reflexivity. }
  destruct (c =? 32) eqn:E32.
  { apply N.eqb_eq in E32. subst c. change (is_ws 32) with true. cbv iota.
    destruct sp; [|rewrite nonws_cons; change (is_ws 32) with true; cbv iota]; apply IH; lia. }
  destruct (ascii_ctl c) eqn:Ea.
  { rewrite (ascii_ctl_ws c Ea). apply IH. lia. }
  rewrite nonws_cons. rewrite IH by lia. reflexivity.
Qed.

Lemma nonws_sanitize pol l : nonws (sanitize pol l) = nonws l.
Proof. unfold sanitize. apply nonws_san. apply Nat.lt_succ_diag_r. Qed.

(** a string that starts with a non-control character survives sanitization as usable text *)
Lemma san_head pol k c r : is_cc c = false -> exists t, san (S k) pol false (c :: r) = c :: t.
Proof.
  intro H. cbn [san].
  assert (c =? 0 = false) as -> by (unfold is_cc in H; lia).
  assert (c =? 3 = false) as -> by (unfold is_cc in H; lia).
  assert (c =? 13 = false) as -> by (unfold is_cc in H; lia).
  assert ((c =? 9) || (c =? 10) = false) as -> by (unfold is_cc in H; lia).
  destruct (c =? 32) eqn:E.
  - apply N.eqb_eq in E. subst c. eexists. reflexivity.
  - assert (ascii_ctl c = false) as -> by (unfold is_cc, ascii_ctl in *; lia). eexists. reflexivity.
Qed.

Lemma usable_sanitize pol c r : is_cc c = false -> usable (sanitize pol (c :: r)) = true.
Proof.
  intro H. unfold sanitize. destruct (san_head pol (length (c :: r)) c r H) as [t Ht].
  unfold cp in *. rewrite Ht. unfold usable. cbn [is_nil negb forallb andb]. rewrite H. reflexivity.
Qed.

(** * the ToUnicode decoder on strings of mapped two-byte codes *)
Lemma keys2_assoc {A} (m : list (bytes * A)) k t : keys2 m = true -> assocB k m = Some t -> length k = 2%nat.
Proof.
  unfold keys2. induction m as [|[a b] m IH]; cbn [assocB forallb]; intros H E; [discriminate|].
  apply andb_true_iff in H. destruct H as [H1 H2]. cbn [fst] in H1.
  destruct (bytes_eqb a k) eqn:Ek.
  - apply bytes_eqb_eq in Ek. subst. lia.
  - apply IH; assumption.
Qed.

Lemma cmap_go_spec m : keys2 m = true -> forall fuel b l, (length b < fuel)%nat ->
  smap2 m b = Some l -> cmap_go fuel m b = l.
Proof.
  intro K. induction fuel as [|k IH]; intros b l Hl E; [lia|].
  destruct b as [|x [|y r]].
  - cbn in E. injection E as <-. reflexivity.
  - cbn in E. discriminate.
  - cbn [smap2] in E. destruct (assocB [x; y] m) as [t|] eqn:Ea; [|discriminate].
    destruct (good_target t); [|discriminate].
    destruct (smap2 m r) as [l'|] eqn:Er; [|discriminate]. injection E as <-.
    cbn [cmap_go]. unfold try_len at 1. cbn [length Nat.leb firstn].
    destruct (assocB [x] m) as [t1|] eqn:E1.
    { apply (keys2_assoc m _ _ K) in E1. cbn in E1. discriminate. }
    unfold try_len at 1. cbn [length Nat.leb firstn skipn]. rewrite Ea.
    f_equal. apply IH; [cbn [length] in Hl; lia|assumption].
Qed.

Lemma good_target_spec t : good_target t = true -> t <> [] /\ forallb (fun c => negb (is_cc c)) t = true.
Proof. destruct t; cbn [good_target]; [discriminate|]. intro H. split; [discriminate|exact H]. Qed.

Lemma smap2_props m : forall b l, smap2 m b = Some l ->
  forallb (fun c => negb (is_cc c)) l = true /\ (l = [] -> b = []).
Proof.
  fix IH 1. intros b l E. destruct b as [|x [|y r]].
  - cbn in E. injection E as <-. split; reflexivity.
  - cbn in E. discriminate.
  - cbn [smap2] in E. destruct (assocB [x; y] m) as [t|]; [|discriminate].
    destruct (good_target t) eqn:G; [|discriminate].
    destruct (smap2 m r) as [l'|] eqn:Er; [|discriminate]. injection E as <-.
    destruct (good_target_spec t G) as [G1 G2]. destruct (IH r l' Er) as [I1 _].
    split; [unfold cp in *; rewrite forallb_app; apply andb_true_iff; split; assumption|].
    intro H. destruct t; [congruence|discriminate].
Qed.

(** * the WinAnsi table of the extractor against Annex D (all 256 codes) *)
Definition win_agree (b : N) : bool :=
  match win_cp b with Some c => (winansi b =? c) && negb (is_cc c) | None => true end.
Lemma win_sweep : allb win_agree 256 = true.
Proof. vm_compute. reflexivity. Qed.

Lemma win_cp_spec b c : win_cp b = Some c -> winansi b = c /\ is_cc c = false.
Proof.
  intro H. destruct (N.ltb_spec b 256) as [L|G].
  - pose proof (allb_spec win_agree 256 win_sweep b L) as A. unfold win_agree in A. rewrite H in A.
    apply andb_true_iff in A. destruct A as [A1 A2]. apply N.eqb_eq in A1.
    apply negb_true_iff in A2. auto.
  - unfold win_cp in H. rewrite nth_overflow in H; [discriminate|].
    change (length annex_win) with 256%nat. lia.
Qed.

Lemma smap_win b : forall l, smap_all win_cp b = Some l ->
  List.map winansi b = l /\ forallb (fun c => negb (is_cc c)) l = true /\ (l = [] -> b = []).
Proof.
  induction b as [|x b IH]; cbn [smap_all]; intros l E.
  - injection E as <-. repeat split; reflexivity.
  - destruct (win_cp x) as [c|] eqn:Ex; [|discriminate].
    destruct (smap_all win_cp b) as [t|]; [|discriminate]. injection E as <-.
    destruct (win_cp_spec x c Ex) as [W1 W2]. destruct (IH t eq_refl) as [I1 [I2 _]].
    cbn [List.map forallb]. rewrite W1, I1, W2, I2. repeat split; try reflexivity. discriminate.
Qed.

(** * decode_text vs the font: equal up to white space, and inside the model *)
Theorem decode_agrees pol f b l : sdecode f b = Some l ->
  exists t, mdecode pol (Some f) b = (t, true) /\ nonws t = nonws l
            /\ (is_nil (nonws l) = false -> is_nil t = false).
Proof.
  intro E.
  assert (raw_decode f b = l /\ forallb (fun c => negb (is_cc c)) l = true /\ (l = [] -> b = [])) as [R1 [R2 R3]].
  { destruct f as [|m]; cbn [sdecode raw_decode] in *.
    - apply smap_win. exact E.
    - destruct (keys2 m) eqn:K; [|discriminate]. destruct (smap2_props m b l E) as [P1 P2].
      split; [|split; assumption]. apply cmap_go_spec; [assumption|lia|assumption]. }
  unfold mdecode. rewrite R1. destruct l as [|c r].
  - rewrite (R3 eq_refl). exists []. cbn. repeat split; try reflexivity. intro H. discriminate.
  - cbn [forallb] in R2. apply andb_true_iff in R2. destruct R2 as [Rc _]. apply negb_true_iff in Rc.
    pose proof (usable_sanitize pol c r Rc) as U. unfold cp in *. rewrite U. exists (sanitize pol (c :: r)).
    split; [reflexivity|]. split; [apply nonws_sanitize|].
    intro H. destruct (sanitize pol (c :: r)) eqn:S; [|reflexivity].
    pose proof (nonws_sanitize pol (c :: r)) as N1. unfold cp in *. rewrite S in N1.
    change (nonws []) with (@nil N) in N1. rewrite <- N1 in H. discriminate H.
Qed.
