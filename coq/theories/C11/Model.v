(** C11 — code-shaped model of text/extraction.rs:
    - [mdecode]: [TextExtractor::decode_text] = [decode_text_with_font] (simple font: the private
      [decode_winansi] table, regenerated from the source into OxGen.C11Extract; ToUnicode font:
      [decode_with_cmap], longest-first 1..4 byte probing with a one-byte skip) followed by
      [sanitize_extracted_text_with_policy] and the [decode_is_usable] gate;
    - [emit]: the operator loop of [process_operations] as a state machine over text only
      (font NAME looked up at show time in the per-page font cache, which a form's resources
      overlay; bounded q/Q stack with its dropped-push counter; marked-content stack with the
      inherited artifact flag; the single pending ActualText run flushed by the matching EMC;
      Form XObject recursion bounded by MAX_XOBJECT_DEPTH);
    - the layout stage abstractly: [lstep] = any permutation-valued reordering (every stable sort)
      or any adjacent-merge pass whose separators are white space, optionally dropping a trailing
      hyphen of the left part.  Geometry is an opaque tag the model never inspects. *)
From OxVerif Require Import Base.Util C25.AnnexD C11.ContentSem.
From OxGen Require Import C11Extract.
Open Scope N_scope.

(** * decode_text *)
Definition winansi (b : N) : cp := match assocN b winansi_arms with Some c => c | None => b end.

Definition try_len (m : list (bytes * list cp)) (b : bytes) (n : nat) : option (list cp * bytes) :=
  if Nat.leb n (length b) then
    match assocB (firstn n b) m with Some t => Some (t, skipn n b) | None => None end
  else None.

Fixpoint cmap_go (fuel : nat) (m : list (bytes * list cp)) (b : bytes) : list cp :=
  match fuel with
  | O => []
  | S k =>
      match b with
      | [] => []
      | _ :: tl =>
          match try_len m b 1 with
          | Some (t, r) => t ++ cmap_go k m r
          | None =>
          match try_len m b 2 with
          | Some (t, r) => t ++ cmap_go k m r
          | None =>
          match try_len m b 3 with
          | Some (t, r) => t ++ cmap_go k m r
          | None =>
          match try_len m b 4 with
          | Some (t, r) => t ++ cmap_go k m r
          | None => cmap_go k m tl
          end end end end
      end
  end.

Definition raw_decode (f : font) (b : bytes) : list cp :=
  match f with
  | FWin => List.map winansi b
  | FMap m => cmap_go (S (length b)) m b
  end.

Definition ascii_ctl (c : N) : bool := (c <? 32) || (c =? 127).
Definition rm_ctl (c : N) : bool := ascii_ctl c && negb ((c =? 0) || (c =? 9) || (c =? 10) || (c =? 13)).
Fixpoint drop_while (p : N -> bool) (l : list N) : list N :=
  match l with [] => [] | x :: r => if p x then drop_while p r else l end.

(** [sanitize_extracted_text_with_policy]; pol: 0 Remove, 1 ReplaceWithSpace, 2 NormalizeLineEnding *)
Fixpoint san (fuel : nat) (pol : N) (sp : bool) (l : list cp) : list cp :=
  match fuel with
  | O => []
  | S k =>
      match l with
      | [] => []
      | c :: r =>
          if c =? 0 then
            let r' := match r with x :: r2 => if x =? 3 then r2 else r | [] => r end in
            if sp then san k pol true r' else 32 :: san k pol true r'
          else if c =? 3 then san k pol sp r
          else if c =? 13 then
            let alone :=
              if pol =? 0 then san k pol sp r
              else if pol =? 1 then (if sp then san k pol true r else 32 :: san k pol true r)
              else 13 :: san k pol false r in
            match drop_while rm_ctl r with
            | x :: r2 => if x =? 10 then 10 :: san k pol false r2 else alone
            | [] => alone
            end
          else if (c =? 9) || (c =? 10) then c :: san k pol (c =? 9) r
          else if c =? 32 then (if sp then san k pol true r else 32 :: san k pol true r)
          else if ascii_ctl c then san k pol sp r
          else c :: san k pol false r
      end
  end.
Definition sanitize (pol : N) (l : list cp) : list cp := san (S (length l)) pol false l.

(** [decode_is_usable]: non-empty and not made of control codes only (space, tab, LF count as text) *)
Definition usable (t : list cp) : bool :=
  negb (is_nil t) && negb (forallb (fun c => is_cc c && negb ((c =? 32) || (c =? 9) || (c =? 10))) t).

(** (text, modelled?).  When the font is not in the cache or the decode is not usable the code
    falls back to an encoding guessed from the resource NAME; that guess is outside this model
    (second component false) except for the empty string, which every fallback maps to "". *)
Definition mdecode (pol : N) (fo : option font) (b : bytes) : list cp * bool :=
  match fo with
  | None => ([], is_nil b)
  | Some f => let t := sanitize pol (raw_decode f b) in
              if usable t then (t, true) else ([], is_nil b)
  end.

(** * the operator loop *)
Record pend := mkP { p_text : list cp; p_depth : nat; p_pop : bool }.
Record mst := mkM {
  m_in : bool;                    (* in_text_object *)
  m_font : option N;              (* state.font_name *)
  m_entries : list (option N);    (* saved_states.entries (font name of each snapshot) *)
  m_dropped : nat;                (* saved_states.dropped *)
  m_mc : list bool;               (* mc_stack: is_artifact (own or inherited), innermost first *)
  m_pend : option pend;           (* pending_actualtext *)
  m_ok : bool                     (* no unmodelled fallback decode so far *)
}.

Definition m_init : mst := mkM false None [] 0 [] None true.
Definition fopt (env : list (N * font)) (n : option N) : option font :=
  match n with Some k => assocN k env | None => None end.

(** one show-text event: the flat path appends [decoded] (or "" under a pending ActualText run),
    [emit_text_fragment] pushes a fragment / marks the pending run populated *)
Definition mshow (incl : bool) (pol : N) (env : list (N * font)) (m : mst) (b : bytes)
  : mst * list (list cp) :=
  if negb (m_in m) then (m, []) else
  let '(t, ok) := mdecode pol (fopt env (m_font m)) b in
  let m1 := mkM (m_in m) (m_font m) (m_entries m) (m_dropped m) (m_mc m) (m_pend m) (m_ok m && ok) in
  if negb incl && existsb (fun x => x) (m_mc m) then (m1, [])
  else match m_pend m with
       | Some p =>
           (mkM (m_in m) (m_font m) (m_entries m) (m_dropped m) (m_mc m)
                (Some (mkP (p_text p) (p_depth p) (p_pop p || negb (is_nil t)))) (m_ok m && ok), [])
       | None => (m1, [t])
       end.

Fixpoint mshow_arr (incl : bool) (pol : N) (env : list (N * font)) (m : mst) (l : list telem)
  : mst * list (list cp) :=
  match l with
  | [] => (m, [])
  | TNum :: r => mshow_arr incl pol env m r
  | TStr b :: r => let '(m1, o1) := mshow incl pol env m b in
                   let '(m2, o2) := mshow_arr incl pol env m1 r in (m2, o1 ++ o2)
  end.

Definition mstep (incl : bool) (pol : N) (env : list (N * font)) (m : mst) (o : op)
  : mst * list (list cp) :=
  match o with
  | BT => (mkM true (m_font m) (m_entries m) (m_dropped m) (m_mc m) (m_pend m) (m_ok m), [])
  | ET => (mkM false (m_font m) (m_entries m) (m_dropped m) (m_mc m) (m_pend m) (m_ok m), [])
  | Tf f => (mkM (m_in m) (Some f) (m_entries m) (m_dropped m) (m_mc m) (m_pend m) (m_ok m), [])
  | Tr _ | Geom => (m, [])
  | Tj b | Quote b | DQuote b => mshow incl pol env m b
  | TJ l => if m_in m then mshow_arr incl pol env m l else (m, [])
  | Qsave =>
      if Nat.ltb (length (m_entries m)) max_q_depth
      then (mkM (m_in m) (m_font m) (m_font m :: m_entries m) (m_dropped m) (m_mc m) (m_pend m) (m_ok m), [])
      else (mkM (m_in m) (m_font m) (m_entries m) (S (m_dropped m)) (m_mc m) (m_pend m) (m_ok m), [])
  | Qrest =>
      match m_dropped m with
      | S k => (mkM (m_in m) (m_font m) (m_entries m) k (m_mc m) (m_pend m) (m_ok m), [])
      | O => match m_entries m with
             | f :: r => (mkM (m_in m) f r O (m_mc m) (m_pend m) (m_ok m), [])
             | [] => (m, [])
             end
      end
  | BMC a =>
      (mkM (m_in m) (m_font m) (m_entries m) (m_dropped m) ((a || hd false (m_mc m)) :: m_mc m) (m_pend m) (m_ok m), [])
  | BDC a act =>
      let pd := match act with
                | Some t => Some (mkP t (length (m_mc m)) false)
                | None => m_pend m
                end in
      (mkM (m_in m) (m_font m) (m_entries m) (m_dropped m) ((a || hd false (m_mc m)) :: m_mc m) pd (m_ok m), [])
  | EMC =>
      match m_mc m with
      | [] => (m, [])
      | a :: r =>
          let m1 := mkM (m_in m) (m_font m) (m_entries m) (m_dropped m) r (m_pend m) (m_ok m) in
          match m_pend m with
          | Some p =>
              if Nat.eqb (S (p_depth p)) (length (m_mc m)) then
                let m2 := mkM (m_in m) (m_font m) (m_entries m) (m_dropped m) r None (m_ok m) in
                if p_pop p then
                  (if negb (a || existsb (fun x => x) r) || incl then (m2, [p_text p]) else (m2, []))
                else (m2, [])
              else (m1, [])
          | None => (m1, [])
          end
      end
  | Do _ => (m, [])
  end.

Section MRun.
  Variable incl : bool.
  Variable pol : N.
  Variable st : store.
  Variable rec : list (N * font) -> form -> mst -> option (mst * list (list cp)).  (* None: depth cap *)

  Fixpoint mrun_ops (env : list (N * font)) (r : res) (ops : list op) (m : mst) : mst * list (list cp) :=
    match ops with
    | [] => (m, [])
    | Do x :: ops' =>
        match assocN x (r_forms r) with
        | None => mrun_ops env r ops' m
        | Some id =>
            match assocN id st with
            | None => mrun_ops env r ops' m
            | Some fm =>
                match rec env fm (mkM false (m_font m) [] 0 (m_mc m) (m_pend m) (m_ok m)) with
                | None => mrun_ops env r ops' m
                | Some (m1, o1) =>
                    let '(m2, o2) := mrun_ops env r ops'
                        (mkM (m_in m) (m_font m) (m_entries m) (m_dropped m) (m_mc m1) (m_pend m1) (m_ok m1)) in
                    (m2, o1 ++ o2)
                end
            end
        end
    | o :: ops' =>
        let '(m1, o1) := mstep incl pol env m o in
        let '(m2, o2) := mrun_ops env r ops' m1 in (m2, o1 ++ o2)
    end.
End MRun.

(** [d] = how many more form levels may be entered (depth < MAX_XOBJECT_DEPTH) *)
Fixpoint mrun (incl : bool) (pol : N) (st : store) (d : nat) (env : list (N * font)) (fm : form) (m : mst)
  : option (mst * list (list cp)) :=
  match d with
  | O => None
  | S d' => Some (mrun_ops incl pol st (mrun incl pol st d') (r_fonts (f_res fm) ++ env) (f_res fm) (f_ops fm) m)
  end.

(** pieces of text in emission order, and whether every decode was inside the model *)
Definition emit (incl : bool) (pol : N) (p : page) : list (list cp) * bool :=
  let '(r, ops, st) := p in
  match mrun incl pol st (S max_xobject_depth) [] (mkForm ops r) m_init with
  | Some (m, o) => (o, m_ok m)
  | None => ([], false)
  end.

(** * the layout stage, abstractly *)
Definition frag := (list cp * N)%type.       (* text, opaque geometry tag *)
Inductive decision := Keep | Join (sep : list cp) (hy : bool).

Definition pop_hy (t : list cp) : list cp :=
  match rev t with c :: r => if c =? HY then rev r else t | [] => t end.
Definition pops (hy : bool) (t : list cp) : nat :=
  if hy then match rev t with c :: _ => if c =? HY then 1%nat else 0%nat | [] => 0%nat end else 0%nat.
Definition join (g : N -> N -> N) (cur : frag) (sep : list cp) (hy : bool) (f : frag) : frag :=
  ((if hy then pop_hy (fst cur) else fst cur) ++ sep ++ fst f, g (snd cur) (snd f)).

(** one pass over adjacent fragments with an accumulator, the shape of merge_close_fragments,
    merge_hyphenated_line_wraps_in_emission_order, build_line_fragment, merge_into_paragraphs,
    reconstruct_text_from_fragments and of the flat path's append_bounded *)
Fixpoint merge_go (g : N -> N -> N) (cur : frag) (l : list frag) (ds : list decision) : list frag :=
  match l with
  | [] => [cur]
  | f :: r =>
      match ds with
      | Join sep hy :: ds' => merge_go g (join g cur sep hy f) r ds'
      | Keep :: ds' => cur :: merge_go g f r ds'
      | [] => cur :: merge_go g f r []
      end
  end.
Fixpoint dropped_go (cur : list cp) (l : list frag) (ds : list decision) : nat :=
  match l with
  | [] => 0%nat
  | f :: r =>
      match ds with
      | Join sep hy :: ds' =>
          (pops hy cur + dropped_go ((if hy then pop_hy cur else cur) ++ sep ++ fst f) r ds')%nat
      | Keep :: ds' => dropped_go (fst f) r ds'
      | [] => dropped_go (fst f) r []
      end
  end.
Definition merge (g : N -> N -> N) (ds : list decision) (l : list frag) : list frag :=
  match l with [] => [] | f :: r => merge_go g f r ds end.
Definition dropped (ds : list decision) (l : list frag) : nat :=
  match l with [] => 0%nat | f :: r => dropped_go (fst f) r ds end.

Inductive lstep :=
| LPerm (f : list frag -> list frag)                               (* sorts, column reordering *)
| LMerge (o : list frag -> list decision) (g : N -> N -> N).       (* decisions from any geometry oracle *)

Definition run_step (s : lstep) (l : list frag) : list frag :=
  match s with LPerm f => f l | LMerge o g => merge g (o l) l end.
Definition step_dropped (s : lstep) (l : list frag) : nat :=
  match s with LPerm _ => 0%nat | LMerge o _ => dropped (o l) l end.
Fixpoint run_layout (pi : list lstep) (l : list frag) : list frag :=
  match pi with [] => l | s :: r => run_layout r (run_step s l) end.
Fixpoint layout_dropped (pi : list lstep) (l : list frag) : nat :=
  match pi with [] => 0%nat | s :: r => (step_dropped s l + layout_dropped r (run_step s l))%nat end.
Definition text_of (l : list frag) : list cp := concat (List.map fst l).

Definition sep_ws (d : decision) : Prop :=
  match d with Join sep _ => forallb is_ws sep = true | Keep => True end.
Definition no_hy (d : decision) : Prop := match d with Join _ hy => hy = false | Keep => True end.

(** a generic stable insertion sort by any comparison: an instance of [LPerm] *)
Fixpoint ins_by (leb : frag -> frag -> bool) (x : frag) (l : list frag) : list frag :=
  match l with [] => [x] | y :: r => if leb x y then x :: l else y :: ins_by leb x r end.
Definition sort_by (leb : frag -> frag -> bool) (l : list frag) : list frag := fold_right (ins_by leb) [] l.

(** * correspondence cases *)
(** UTF-8 transport of the implementation's strings *)
Fixpoint utf8_go (fuel : nat) (b : bytes) : list cp :=
  match fuel with
  | O => []
  | S k =>
      match b with
      | [] => []
      | x :: r =>
          if x <? 128 then x :: utf8_go k r
          else if x <? 224 then
            match r with y :: r1 => ((x - 192) * 64 + (y - 128)) :: utf8_go k r1 | _ => [] end
          else if x <? 240 then
            match r with y :: z :: r1 => ((x - 224) * 4096 + (y - 128) * 64 + (z - 128)) :: utf8_go k r1 | _ => [] end
          else
            match r with y :: z :: w :: r1 =>
              ((x - 240) * 262144 + (y - 128) * 4096 + (z - 128) * 64 + (w - 128)) :: utf8_go k r1 | _ => [] end
      end
  end.
Definition u8 (s : string) : list cp := let b := unhex s in utf8_go (length b) b.

Definition cnt (c : N) (l : list N) : nat := count_occ N.eq_dec l c.
Definition ws_only (t : list cp) : bool := is_nil (nonws t).
Definition keep_text (l : list (list cp)) : list (list cp) := filter (fun t => negb (ws_only t)) l.
Definition cps_eqb := list_eqb N.eqb.

(** [a] is [b] with some '-' deleted ([hy]) / equal to [b] *)
Fixpoint hy_sub (hy : bool) (a b : list cp) : bool :=
  match b with
  | [] => is_nil a
  | y :: b' =>
      match a with
      | x :: a' => if x =? y then hy_sub hy a' b'
                   else if hy && (y =? HY) then hy_sub hy a b' else false
      | [] => hy && (y =? HY) && hy_sub hy a b'
      end
  end.

(** trailing run of '-' of a string: the hyphens a hyphen-merging option may drop *)
Fixpoint lead_hy (l : list cp) : nat :=
  match l with c :: r => if c =? HY then S (lead_hy r) else 0%nat | [] => 0%nat end.
Definition trail_hy (t : list cp) : nat := lead_hy (rev t).
Definition hy_allow (l : list item) : nat := fold_right (fun i a => (trail_hy (snd i) + a)%nat) 0%nat l.

(** the property's predicate on one extracted string [e] against the shown strings:
    every character at most as often as it is shown (invisible text included), and at least as
    often as it is shown visibly, except that with hyphen merging on up to [hy_allow] '-' may be
    missing *)
Definition conserves (hy : bool) (items : list item) (e : list cp) : bool :=
  let E := nonws e in
  let A := nonws (all_text items) in
  let V := nonws (visible_text items) in
  let h := if hy then hy_allow items else 0%nat in
  forallb (fun c => Nat.leb (cnt c E) (cnt c A)) E
  && forallb (fun c => Nat.leb (cnt c V) (cnt c E + (if N.eqb c HY then h else 0%nat))%nat) V.

Definition bit (o n : N) : bool := N.testbit o n.
(** option bits: 0 preserve_layout, 1 sort_by_position, 2 detect_columns, 3 merge_hyphenated,
    4 track_space_decisions, 5 reconstruct_paragraphs, 6 include_artifacts, 7 reorder_columns,
    8 reading_order *)
Definition runrec := (list N * list cp * list (list cp) * list cp * list (list cp))%type.
(*  option codes that produced these outputs | flat text after the loop | emitted fragments | .text | .fragments *)

(** judged once per option code; [em]/[sh] = model and spec results for include_artifacts off / on *)
Definition opt_code (em : bool -> list (list cp) * bool) (sh : bool -> option (list item))
           (flat : list cp) (emitted : list (list cp)) (text : list cp) (frags : list (list cp)) (o : N) : N :=
  let incl := bit o 6 in
  let hy := bit o 3 in
  let collects := bit o 0 || bit o 7 in
  let '(pieces, ok) := em incl in
  let m_ok :=
    negb ok ||
    ((if collects then list_eqb cps_eqb (keep_text emitted) (keep_text pieces) else is_nil emitted)
     && hy_sub hy (nonws flat) (nonws (concat pieces))) in
  let p_ok :=
    match sh incl with
    | None => true
    | Some items =>
        conserves hy items text
        && (if bit o 0 then conserves hy items (concat frags) else true)
    end in
  code_of m_ok p_ok.

Definition run_code (em : bool -> list (list cp) * bool) (sh : bool -> option (list item)) (r : runrec) : N :=
  let '(os, flat, emitted, text, frags) := r in
  fold_left (fun a o => N.lor a (opt_code em sh flat emitted text frags o)) os 0.

Definition case := (page * N * list runrec)%type.
Definition case_code (c : case) : N :=
  let '(p, pol, rs) := c in
  let e0 := emit false pol p in
  let e1 := emit true pol p in
  let s0 := shown false p in
  let s1 := shown true p in
  let em := fun b : bool => if b then e1 else e0 in
  let sh := fun b : bool => if b then s1 else s0 in
  fold_left (fun a r => N.lor a (run_code em sh r)) rs 0.
