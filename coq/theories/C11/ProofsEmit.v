(** C11 — the operator loop emits exactly the shown characters: a simulation between the
    ISO-shaped interpreter [srun] and the code-shaped [mrun], for ALL operator sequences on which
    [shown] is defined. *)
From OxVerif Require Import Base.Util C25.AnnexD C11.ContentSem C11.Model C11.ProofsLayout C11.ProofsDecode.
From OxGen Require Import C11Extract.
From Coq Require Import Lia.
Open Scope nat_scope.

Definition frel (env : list (N * font)) (sf : option (N * font)) (mf : option N) : Prop :=
  match sf with Some (n, f) => mf = Some n /\ assocN n env = Some f | None => True end.

Fixpoint inh (l : list bool) : list bool :=
  match l with [] => [] | a :: r => (a || hd false (inh r)) :: inh r end.

Definition prel (mc : list mcent) (p : option pend) : Prop :=
  match find_act mc, p with
  | None, None => True
  | Some (t, d, a), Some q => p_text q = t /\ p_depth q = d /\ (a = true -> p_pop q = true)
  | _, _ => False
  end.

Fixpoint uniq (mc : list mcent) : Prop :=
  match mc with [] => True | e :: r => uniq r /\ (e_act e <> None -> find_act r = None) end.

Record R (env : list (N * font)) (s : sst) (m : mst) : Prop := mkR {
  R_in : s_in s = m_in m;
  R_font : frel env (s_font s) (m_font m);
  R_stack : Forall2 (fun se me => frel env (fst se) me) (s_stack s) (m_entries m);
  R_drop : m_dropped m = 0;
  R_mc : m_mc m = inh (List.map e_art (s_mc s));
  R_pend : prel (s_mc s) (m_pend m);
  R_uniq : uniq (s_mc s);
  R_ok : m_ok m = true }.

Definition orel (so : list item) (mo : list (list cp)) : Prop :=
  nonws (concat mo) = nonws (all_text so).

Lemma orel_nil : orel [] [].
Proof. reflexivity. Qed.

Lemma orel_app a b x y : orel a x -> orel b y -> orel (a ++ b) (x ++ y).
Proof.
  unfold orel, all_text. intros H1 H2.
  rewrite map_app, !concat_app, !nonws_app, H1, H2. reflexivity.
Qed.

Lemma hd_inh l : hd false (inh l) = existsb (fun x => x) l /\ existsb (fun x => x) (inh l) = existsb (fun x => x) l.
Proof.
  induction l as [|a r [I1 I2]]; [split; reflexivity|].
  cbn [inh hd existsb]. rewrite I2, I1. split; [reflexivity|].
  destruct a, (existsb (fun x => x) r); reflexivity.
Qed.

Lemma in_art_inh mc : existsb (fun x => x) (inh (List.map e_art mc)) = in_art mc.
Proof.
  rewrite (proj2 (hd_inh _)). unfold in_art. induction mc as [|e r IH]; [reflexivity|].
  cbn [List.map existsb]. rewrite IH. reflexivity.
Qed.

Lemma inh_length l : length (inh l) = length l.
Proof. induction l; cbn [inh length]; congruence. Qed.

Lemma find_act_depth mc t d a : find_act mc = Some (t, d, a) -> d < length mc.
Proof.
  induction mc as [|e r IH]; cbn [find_act]; [discriminate|].
  destruct (e_act e); intro H.
  - injection H as _ <- _. cbn [length]. lia.
  - apply IH in H. cbn [length]. lia.
Qed.

Lemma find_act_mark b mc :
  find_act (mark_any b mc) = match find_act mc with Some (t, d, a) => Some (t, d, a || b) | None => None end.
Proof.
  induction mc as [|e r IH]; [reflexivity|]. cbn [mark_any find_act].
  destruct (e_act e) eqn:E; cbn [find_act e_act e_any]; rewrite ?E; [reflexivity|exact IH].
Qed.

Lemma map_art_mark b mc : List.map e_art (mark_any b mc) = List.map e_art mc.
Proof.
  induction mc as [|e r IH]; [reflexivity|]. cbn [mark_any].
  destruct (e_act e); cbn [List.map e_art]; [reflexivity|]. rewrite IH. reflexivity.
Qed.

Lemma uniq_mark b mc : uniq mc -> uniq (mark_any b mc).
Proof.
  induction mc as [|e r IH]; [trivial|]. cbn [mark_any uniq]. intros [U1 U2].
  destruct (e_act e) eqn:E; cbn [uniq e_act].
  - split; [exact U1|]. intros _. apply U2. congruence.
  - split; [apply IH; exact U1|]. rewrite E. intro H. congruence.
Qed.

Lemma assocN_app {A} n (a b : list (N * A)) x : assocN n a = Some x -> assocN n (a ++ b) = Some x.
Proof.
  induction a as [|[k v] a IH]; cbn [assocN app]; [discriminate|].
  destruct (N.eqb k n); [trivial|exact IH].
Qed.

Lemma Forall2_len {A B} (P : A -> B -> Prop) a b : Forall2 P a b -> length a = length b.
Proof. induction 1; cbn [length]; congruence. Qed.

Lemma maxq_le : MAX_Q <= max_q_depth.
Proof. apply Nat.leb_le. vm_compute. reflexivity. Qed.
Lemma maxd_le : MAX_FORM_DEPTH <= max_xobject_depth.
Proof. apply Nat.leb_le. vm_compute. reflexivity. Qed.

Ltac mkR := constructor; cbn [s_in s_font s_stack s_mc s_inv set_mc m_in m_font m_entries m_dropped m_mc m_pend m_ok]; try assumption; try reflexivity.

Section Sim.
  Variables (incl : bool) (pol : N).

  Lemma show_sim env s m b s' so : R env s m -> sshow incl s b = Some (s', so) ->
    exists m' mo, mshow incl pol env m b = (m', mo) /\ R env s' m' /\ orel so mo.
  Proof.
    intros HR E. destruct HR as [Rin Rf Rst Rd Rmc Rp Ru Rok]. unfold sshow in E.
    destruct (s_in s) eqn:Es; cbn [negb] in E; [|discriminate].
    destruct (s_font s) as [[n f]|] eqn:Ef; [|discriminate].
    destruct (sdecode f b) as [l|] eqn:Ed; [|discriminate].
    pose proof Rf as Rf0. unfold frel in Rf0. rewrite ?Ef in Rf0. destruct Rf0 as [Rf1 Rf2].
    destruct (decode_agrees pol f b l Ed) as [t [D1 [D2 D3]]].
    unfold mshow. rewrite <- Rin. cbn [negb]. unfold fopt. rewrite Rf1, Rf2, D1.
    rewrite Rmc, in_art_inh, Rok. cbn [andb].
    destruct (in_art (s_mc s) && negb incl) eqn:Ea.
    - injection E as <- <-. rewrite andb_comm in Ea. rewrite Ea.
      eexists _, _. split; [reflexivity|]. split; [|apply orel_nil]. mkR; try reflexivity; try (rewrite ?Ef; cbn [frel]; split; [reflexivity|assumption]); try (rewrite ?Ef; exact Rf).
    - rewrite andb_comm in Ea. rewrite Ea.
      unfold has_act in E. unfold prel in Rp.
      destruct (find_act (s_mc s)) as [[[t0 d] a]|] eqn:Efa.
      + injection E as <- <-. destruct (m_pend m) as [q|]; [|contradiction].
        destruct Rp as [P1 [P2 P3]].
        eexists _, _. split; [reflexivity|]. split; [|apply orel_nil]. mkR; try reflexivity; try (rewrite ?Ef; cbn [frel]; split; [reflexivity|assumption]); try (rewrite ?Ef; exact Rf).
        * rewrite map_art_mark. reflexivity.
        * unfold prel. rewrite find_act_mark, Efa. cbn [p_text p_depth p_pop].
          split; [exact P1|]. split; [exact P2|]. intro H.
          apply orb_true_iff in H. apply orb_true_iff. destruct H as [H|H]; [left; auto|right].
          apply negb_true_iff in H. rewrite (D3 H). reflexivity.
        * apply uniq_mark. exact Ru.
      + injection E as <- <-. destruct (m_pend m) as [q|] eqn:Ep; [contradiction|].
        eexists _, _. split; [reflexivity|]. split.
        * mkR; try reflexivity; try (rewrite ?Ef; cbn [frel]; split; [reflexivity|assumption]); try (rewrite ?Ef; exact Rf). unfold prel. rewrite Efa, ?Ep. exact I.
        * unfold orel, all_text. cbn [concat List.map snd]. rewrite !app_nil_r. exact D2.
  Qed.

  Lemma show_arr_sim env : forall l s m s' so, R env s m -> sshow_arr incl s l = Some (s', so) ->
    exists m' mo, mshow_arr incl pol env m l = (m', mo) /\ R env s' m' /\ orel so mo.
  Proof.
    induction l as [|e l IH]; intros s m s' so HR E.
    - cbn in E. injection E as <- <-. eexists _, _. split; [reflexivity|]. split; [exact HR|apply orel_nil].
    - destruct e as [b|]; cbn [sshow_arr mshow_arr] in *.
      + destruct (sshow incl s b) as [[s1 o1]|] eqn:E1; [|discriminate].
        destruct (sshow_arr incl s1 l) as [[s2 o2]|] eqn:E2; [|discriminate]. injection E as <- <-.
        destruct (show_sim env s m b s1 o1 HR E1) as [m1 [mo1 [M1 [R1 O1]]]].
        destruct (IH s1 m1 s2 o2 R1 E2) as [m2 [mo2 [M2 [R2 O2]]]].
        rewrite M1, M2. eexists _, _. split; [reflexivity|]. split; [exact R2|apply orel_app; assumption].
      + eapply IH; eassumption.
  Qed.

  Lemma step_sim env fonts base s m o s' so :
    (forall n f, assocN n fonts = Some f -> assocN n env = Some f) ->
    R env s m -> sstep incl fonts base s o = Some (s', so) ->
    exists m' mo, mstep incl pol env m o = (m', mo) /\ R env s' m' /\ orel so mo.
  Proof.
    intros Hext HR E.
    destruct o; cbn [sstep mstep] in *;
      try (eapply show_sim; eassumption).
    - (* BT *) injection E as <- <-. destruct HR as [Rin Rf Rst Rd Rmc Rp Ru Rok]. eexists _, _. split; [reflexivity|].
      split; [mkR|apply orel_nil].
    - (* ET *) injection E as <- <-. destruct HR as [Rin Rf Rst Rd Rmc Rp Ru Rok]. eexists _, _. split; [reflexivity|].
      split; [mkR|apply orel_nil].
    - (* Tf *) injection E as <- <-. destruct HR as [Rin Rf Rst Rd Rmc Rp Ru Rok]. eexists _, _. split; [reflexivity|].
      split; [|apply orel_nil]. mkR. unfold frel.
      destruct (assocN f fonts) eqn:Ea; [|exact I]. split; [reflexivity|]. apply Hext. exact Ea.
    - (* Tr *) injection E as <- <-. destruct HR as [Rin Rf Rst Rd Rmc Rp Ru Rok]. eexists _, _. split; [reflexivity|].
      split; [mkR|apply orel_nil].
    - (* Geom *) injection E as <- <-. eexists _, _. split; [reflexivity|]. split; [exact HR|apply orel_nil].
    - (* TJ *)
      destruct (m_in m) eqn:Em.
      + eapply show_arr_sim; eassumption.
      + (* not in a text object: the spec shows nothing only for an array without strings *)
        destruct HR as [Rin Rf Rst Rd Rmc Rp Ru Rok]. rewrite Em in Rin.
        assert (forall l s0 s1 o1, s_in s0 = false -> sshow_arr incl s0 l = Some (s1, o1) -> s1 = s0 /\ o1 = []) as A.
        { induction l0 as [|e l0 IH0]; intros s0 s1 o1 H0 E0; cbn [sshow_arr] in E0.
          - injection E0 as <- <-. auto.
          - destruct e; [|eapply IH0; eassumption].
            unfold sshow in E0. rewrite H0 in E0. cbn in E0. discriminate. }
        destruct (A l s s' so Rin E) as [-> ->].
        eexists _, _. split; [reflexivity|]. split; [|apply orel_nil].
        constructor; try assumption. rewrite Em. exact Rin.
    - (* Qsave *)
      destruct (Nat.ltb (length (s_stack s)) MAX_Q) eqn:El; [|discriminate]. injection E as <- <-.
      destruct HR as [Rin Rf Rst Rd Rmc Rp Ru Rok].
      apply Nat.ltb_lt in El. pose proof (Forall2_len _ _ _ Rst) as Hlen. pose proof maxq_le.
      assert (Nat.ltb (length (m_entries m)) max_q_depth = true) as -> by (apply Nat.ltb_lt; lia).
      eexists _, _. split; [reflexivity|]. split; [|apply orel_nil].
      constructor; cbn; try assumption. constructor; assumption.
    - (* Qrest *)
      destruct (s_stack s) as [|[f i] r] eqn:Es; [discriminate|]. injection E as <- <-.
      destruct HR as [Rin Rf Rst Rd Rmc Rp Ru Rok]. rewrite ?Es in Rst.
      destruct (m_entries m) as [|me mr] eqn:Em; inversion Rst as [|? ? ? ? F1 F2]; subst.
      rewrite Rd.
      eexists _, _. split; [reflexivity|]. split; [|apply orel_nil]. mkR.
    - (* Do *) discriminate.
    - (* BMC *) injection E as <- <-. destruct HR as [Rin Rf Rst Rd Rmc Rp Ru Rok].
      eexists _, _. split; [reflexivity|]. split; [|apply orel_nil].
      mkR.
      all: try (cbn [List.map inh e_art]; rewrite Rmc; reflexivity).
      all: try (cbn [uniq e_act]; split; [exact Ru|]; intro H; congruence).
      all: try (unfold prel in *; cbn [find_act e_act]; exact Rp).
    - (* BDC *)
      destruct HR as [Rin Rf Rst Rd Rmc Rp Ru Rok].
      destruct act as [t|].
      + unfold has_act in E. destruct (find_act (s_mc s)) eqn:Efa; [discriminate|]. injection E as <- <-.
        eexists _, _. split; [reflexivity|]. split; [|apply orel_nil].
        mkR.
        all: try (cbn [List.map inh e_art]; rewrite Rmc; reflexivity).
        all: try (cbn [uniq e_act]; split; [exact Ru|]; intros _; exact Efa).
        all: try (unfold prel; cbn [find_act e_act e_any p_text p_depth p_pop];
                  rewrite Rmc, inh_length, map_length; repeat split; intro H; discriminate).
      + injection E as <- <-.
        eexists _, _. split; [reflexivity|]. split; [|apply orel_nil].
        mkR.
        all: try (cbn [List.map inh e_art]; rewrite Rmc; reflexivity).
        all: try (cbn [uniq e_act]; split; [exact Ru|]; intro H; congruence).
        all: try (unfold prel in *; cbn [find_act e_act]; exact Rp).
    - (* EMC *)
      destruct (Nat.leb (length (s_mc s)) base); [discriminate|].
      destruct HR as [Rin Rf Rst Rd Rmc Rp Ru Rok].
      destruct (s_mc s) as [|e r] eqn:Emc; [discriminate|].
      cbn [List.map inh] in Rmc. rewrite Rmc.
      cbn [uniq] in Ru. destruct Ru as [Ur Ue].
      unfold prel in Rp. cbn [find_act] in Rp.
      assert (length (inh (List.map e_art r)) = length r) as Hlen by (rewrite inh_length, map_length; reflexivity).
      destruct (e_act e) as [t|] eqn:Eact.
      + (* the ActualText owner closes *)
        destruct (m_pend m) as [q|]; [|contradiction]. destruct Rp as [P1 [P2 P3]].
        rewrite P2. cbn [length]. rewrite Hlen, Nat.eqb_refl.
        assert (find_act r = None) as Fr by (apply Ue; congruence).
        assert ((e_art e || hd false (inh (List.map e_art r))) || existsb (fun x => x) (inh (List.map e_art r))
                = in_art (e :: r)) as Hart.
        { rewrite (proj1 (hd_inh _)), (proj2 (hd_inh _)). unfold in_art. cbn [existsb].
          assert (existsb (fun x => x) (List.map e_art r) = existsb e_art r) as ->.
          { clear. induction r as [|x r IH]; [reflexivity|]. cbn. rewrite IH. reflexivity. }
          destruct (e_art e), (existsb e_art r); reflexivity. }
        rewrite Hart.
        destruct (e_any e) eqn:Eany.
        * rewrite (P3 eq_refl).
          destruct (in_art (e :: r) && negb incl) eqn:Ea; injection E as <- <-.
          -- assert (negb (in_art (e :: r)) || incl = false) as ->.
             { destruct (in_art (e :: r)), incl; cbn in *; congruence. }
             eexists _, _. split; [reflexivity|]. split; [|apply orel_nil].
             mkR; unfold prel; cbn [m_pend]; rewrite ?Fr; exact I.
          -- assert (negb (in_art (e :: r)) || incl = true) as ->.
             { destruct (in_art (e :: r)), incl; cbn in *; congruence. }
             eexists _, _. split; [reflexivity|]. split.
             ++ mkR; unfold prel; cbn [m_pend]; rewrite ?Fr; exact I.
             ++ unfold orel, all_text. cbn [concat List.map snd]. rewrite P1. reflexivity.
        * destruct (in_art (e :: r) && negb incl) eqn:Ea; [|discriminate]. injection E as <- <-.
          assert (negb (in_art (e :: r)) || incl = false) as Hn.
          { destruct (in_art (e :: r)), incl; cbn in *; congruence. }
          exists (mkM (m_in m) (m_font m) (m_entries m) (m_dropped m) (inh (List.map e_art r)) None (m_ok m)), [].
          split; [destruct (p_pop q); [rewrite Hn|]; reflexivity|]. split; [|apply orel_nil].
          mkR; unfold prel; cbn [m_pend]; rewrite ?Fr; exact I.
      + (* an entry without ActualText closes: a pending run, if any, belongs to an outer entry *)
        injection E as <- <-.
        destruct (m_pend m) as [q|] eqn:Ep.
        * destruct (find_act r) as [[[t d] a]|] eqn:Fr; [|contradiction].
          destruct Rp as [P1 [P2 P3]]. pose proof (find_act_depth r t d a Fr) as Hd.
          assert (Nat.eqb (S (p_depth q)) (length ((e_art e || hd false (inh (List.map e_art r))) :: inh (List.map e_art r))) = false) as ->.
          { apply Nat.eqb_neq. cbn [length]. rewrite Hlen, P2. lia. }
          eexists _, _. split; [reflexivity|]. split; [|apply orel_nil].
          mkR; unfold prel; cbn [m_pend]; rewrite ?Fr, ?Ep; auto.
        * eexists _, _. split; [reflexivity|]. split; [|apply orel_nil].
          mkR; unfold prel; cbn [m_pend]; rewrite ?Ep;
            (destruct (find_act r) as [[[? ?] ?]|]; [contradiction|exact I]).
  Qed.

  Variable st : store.

  Section Ops.
    Variable srec : list N -> form -> sst -> option (sst * list item).
    Variable mrec : list (N * font) -> form -> mst -> option (mst * list (list cp)).
    Hypothesis Hrec : forall vis fm env s m s' so,
      R (r_fonts (f_res fm) ++ env) s m -> srec vis fm s = Some (s', so) ->
      exists m' mo, mrec env fm m = Some (m', mo) /\ R (r_fonts (f_res fm) ++ env) s' m' /\ orel so mo.

    Lemma ops_sim vis r base env : (forall n f, assocN n (r_fonts r) = Some f -> assocN n env = Some f) ->
      forall ops s m s' so, R env s m -> srun_ops incl st srec vis r base ops s = Some (s', so) ->
      exists m' mo, mrun_ops incl pol st mrec env r ops m = (m', mo) /\ R env s' m' /\ orel so mo.
    Proof.
      intros Hext. induction ops as [|o ops IH]; intros s m s' so HR E.
      - cbn [srun_ops] in E. destruct (Nat.eqb _ _); [|discriminate]. injection E as <- <-.
        eexists _, _. split; [reflexivity|]. split; [exact HR|apply orel_nil].
      - assert (forall s1 o1 m1 mo1, R env s1 m1 -> orel o1 mo1 ->
                 match srun_ops incl st srec vis r base ops s1 with
                 | Some (s2, o2) => Some (s2, o1 ++ o2) | None => None end = Some (s', so) ->
                 exists m' mo, (let '(m2, o2) := mrun_ops incl pol st mrec env r ops m1 in (m2, mo1 ++ o2)) = (m', mo)
                               /\ R env s' m' /\ orel so mo) as Cont.
        { intros s1 o1 m1 mo1 R1 O1 E1.
          destruct (srun_ops incl st srec vis r base ops s1) as [[s2 o2]|] eqn:E2; [|discriminate].
          injection E1 as <- <-. destruct (IH s1 m1 s2 o2 R1 E2) as [m2 [mo2 [M2 [R2 O2]]]].
          rewrite M2. eexists _, _. split; [reflexivity|]. split; [exact R2|apply orel_app; assumption]. }
        destruct o;
          try (cbn [srun_ops mrun_ops] in *;
               match type of E with
               | match sstep ?i ?f ?b ?s ?o with _ => _ end = _ =>
                   destruct (sstep i f b s o) as [[s1 o1]|] eqn:E1; [|discriminate];
                   destruct (step_sim env f b s m o s1 o1 Hext HR E1) as [m1 [mo1 [M1 [R1 O1]]]];
                   rewrite M1; exact (Cont s1 o1 m1 mo1 R1 O1 E)
               end).
        (* Do *)
        cbn [srun_ops mrun_ops] in *.
        destruct (s_in s) eqn:Ein; [discriminate|].
        destruct (assocN x (r_forms r)) as [id|]; [|eapply IH; eassumption].
        destruct (existsb (N.eqb id) vis); [discriminate|].
        destruct (assocN id st) as [fm|]; [|eapply IH; eassumption].
        destruct (srec (id :: vis) fm (mkS false None (s_inv s) [] (s_mc s))) as [[s1 o1]|] eqn:E1; [|discriminate].
        destruct HR as [Rin Rf Rst Rd Rmc Rp Ru Rok].
        assert (R (r_fonts (f_res fm) ++ env) (mkS false None (s_inv s) [] (s_mc s))
                  (mkM false (m_font m) [] 0 (m_mc m) (m_pend m) (m_ok m))) as Rsub.
        { constructor; cbn; try assumption; try reflexivity; constructor. }
        destruct (Hrec (id :: vis) fm env _ _ s1 o1 Rsub E1) as [m1 [mo1 [M1 [R1 O1]]]].
        rewrite M1. destruct R1 as [Rin1 Rf1 Rst1 Rd1 Rmc1 Rp1 Ru1 Rok1].
        apply (Cont (set_mc s (s_mc s1)) o1
                 (mkM (m_in m) (m_font m) (m_entries m) (m_dropped m) (m_mc m1) (m_pend m1) (m_ok m1)) mo1);
          [|exact O1|exact E].
        constructor; cbn; assumption.
    Qed.
  End Ops.

  Lemma run_sim : forall ds dm, ds <= dm -> forall vis fm env s m s' so,
    R (r_fonts (f_res fm) ++ env) s m -> srun incl st ds vis fm s = Some (s', so) ->
    exists m' mo, mrun incl pol st dm env fm m = Some (m', mo)
                  /\ R (r_fonts (f_res fm) ++ env) s' m' /\ orel so mo.
  Proof.
    induction ds as [|ds IH]; intros dm Hle vis fm env s m s' so HR E; [discriminate|].
    destruct dm as [|dm]; [lia|]. cbn [srun mrun] in *.
    destruct (ops_sim (srun incl st ds) (mrun incl pol st dm)
                (fun vis fm env s m s' so => IH dm (le_S_n _ _ Hle) vis fm env s m s' so)
                vis (f_res fm) (length (s_mc s)) (r_fonts (f_res fm) ++ env)
                (fun n f H => assocN_app n _ env f H) (f_ops fm) s m s' so HR E) as [m' [mo [M [R' O]]]].
    rewrite M. eexists _, _. split; [reflexivity|]. split; assumption.
  Qed.
End Sim.

(** emission conserves the shown characters — in emission order, not only as a multiset —
    and on such pages every decode stays inside the model *)
Theorem emission_conserves_list incl pol p items : shown incl p = Some items ->
  nonws (concat (fst (emit incl pol p))) = nonws (all_text items) /\ snd (emit incl pol p) = true.
Proof.
  destruct p as [[r ops] st]. unfold shown, emit.
  destruct (srun incl st (S MAX_FORM_DEPTH) [] (mkForm ops r) s_init) as [[s' so]|] eqn:E; [|discriminate].
  intro H. injection H as <-.
  assert (R (r_fonts (f_res (mkForm ops r)) ++ []) s_init m_init) as R0.
  { constructor; cbn; try reflexivity; try constructor; exact I. }
  destruct (run_sim incl pol st (S MAX_FORM_DEPTH) (S max_xobject_depth) (le_n_S _ _ maxd_le)
              [] (mkForm ops r) [] s_init m_init s' so R0 E) as [m' [mo [M [R' O]]]].
  rewrite M. cbn [fst snd]. split; [exact O|]. destruct R'. assumption.
Qed.
