(** C27 — proofs about the page-label model: greedy Roman = positional Roman for every n,
    decimal digits, letters (agreement below 28, disagreement from 28 on), range lookup,
    absence of the u32 overflow after the fix, and the written number tree. *)
From OxVerif Require Import Base.Util C27.Model.
From OxGen Require Labels.
Require Import Lia ZifyBool.
Ltac Zify.zify_post_hook ::= Z.div_mod_to_equations.

Local Open Scope N_scope.

(** [lia] does not know N.div / N.modulo: name quotient and remainder with their defining facts *)
Ltac dm a b :=
  let q := fresh "q" in let r := fresh "r" in
  pose proof (N.div_mod a b ltac:(lia)); pose proof (N.mod_lt a b ltac:(lia));
  set (q := a / b) in *; set (r := a mod b) in *; clearbody q r.

(** * Roman numerals *)

Lemma rep_bytes_single k b : rep_bytes k [b] = repeat b k.
Proof. induction k; cbn; [reflexivity | rewrite IHk; reflexivity]. Qed.

Definition roman_tail : list (N * bytes) := tl Labels.roman_values.

Lemma roman_head : Labels.roman_values = (1000, [109]) :: roman_tail.
Proof. reflexivity. Qed.

Lemma roman_cmp_is_ge : Labels.roman_cmp_ge = true.
Proof. reflexivity. Qed.

Lemma roman_table_positive : roman_table_pos = true.
Proof. vm_compute. reflexivity. Qed.

(** the part below 1000: complete sweep of the finite residue domain *)
Lemma roman_low_sweep :
  allb (fun r => bytes_eqb (roman_tab true roman_tail r) (spec_roman false r)) 1000 = true.
Proof. vm_compute. reflexivity. Qed.

Lemma roman_low r : r < 1000 -> roman_tab true roman_tail r = spec_roman false r.
Proof.
  intros H. apply bytes_eqb_eq.
  exact (allb_spec _ _ roman_low_sweep r H).
Qed.

Lemma spec_roman_split u n :
  spec_roman u n = repeat (if u then 77 else 109) (N.to_nat (n / 1000)) ++ spec_roman u (n mod 1000).
Proof.
  unfold spec_roman.
  assert (H0 : (n mod 1000) / 1000 = 0) by (apply N.div_small; apply N.mod_lt; lia).
  rewrite H0. cbn [N.to_nat repeat app].
  pose proof (N.div_mod n 1000 ltac:(lia)) as D.
  set (q := n / 1000) in *. set (r := n mod 1000) in *.
  assert (H1 : (r / 100) mod 10 = (n / 100) mod 10).
  { rewrite D. replace (1000 * q + r) with (r + (q * 10) * 100) by lia.
    rewrite N.div_add by lia. rewrite N.mod_add by lia. reflexivity. }
  assert (H2 : (r / 10) mod 10 = (n / 10) mod 10).
  { rewrite D. replace (1000 * q + r) with (r + (q * 100) * 10) by lia.
    rewrite N.div_add by lia. replace (q * 100) with ((q * 10) * 10) by lia.
    rewrite N.mod_add by lia. reflexivity. }
  assert (H3 : r mod 10 = n mod 10).
  { rewrite D. replace (1000 * q + r) with (r + (q * 100) * 10) by lia.
    rewrite N.mod_add by lia. reflexivity. }
  rewrite H1, H2, H3. reflexivity.
Qed.

(** greedy subtraction over the generated table = positional decomposition, for EVERY n > 0 *)
Lemma roman_greedy_eq_positional n : 0 < n -> to_roman n = spec_roman false n.
Proof.
  intros Hn. unfold to_roman.
  replace (n =? 0) with false by lia.
  rewrite roman_cmp_is_ge, roman_head. cbn [roman_tab while_count].
  rewrite rep_bytes_single.
  replace (n - n / 1000 * 1000) with (n mod 1000) by (dm n 1000; lia).
  rewrite roman_low by (apply N.mod_lt; lia).
  symmetry. apply spec_roman_split.
Qed.

Lemma map_digit_numeral f one five ten d :
  List.map f (digit_numeral one five ten d) = digit_numeral (f one) (f five) (f ten) d.
Proof.
  unfold digit_numeral. destruct d as [|p]; [reflexivity|].
  do 4 (try (destruct p as [p|p|]; try reflexivity)).
Qed.

Lemma map_repeat {A B} (f : A -> B) x k : List.map f (repeat x k) = repeat (f x) k.
Proof. induction k; cbn; [reflexivity | rewrite IHk; reflexivity]. Qed.

Lemma spec_roman_upper n : List.map ascii_upper (spec_roman false n) = spec_roman true n.
Proof.
  unfold spec_roman. rewrite !map_app, map_repeat, !map_digit_numeral. reflexivity.
Qed.

Lemma roman_upper_ok n : 0 < n -> List.map ascii_upper (to_roman n) = spec_roman true n.
Proof. intros H. rewrite roman_greedy_eq_positional by exact H. apply spec_roman_upper. Qed.

(** * Decimal *)

Lemma dec_loop_digits f : forall n acc,
  forallb is_digit acc = true -> forallb is_digit (dec_loop f n acc) = true.
Proof.
  induction f as [|f IH]; intros n acc H; cbn [dec_loop]; [exact H|].
  assert (Hd : forallb is_digit ((48 + n mod 10) :: acc) = true).
  { cbn [forallb]. rewrite H. unfold is_digit. dm n 10. lia. }
  destruct (n <? 10); [exact Hd | apply IH; exact Hd].
Qed.

Definition dstep (a d : N) : N := a * 10 + (d - 48).

Lemma dec_value_from l : forall a,
  fold_left dstep l a = a * 10 ^ N.of_nat (length l) + fold_left dstep l 0.
Proof.
  induction l as [|x l IH]; intros a; cbn [fold_left length].
  - cbn. lia.
  - rewrite IH. rewrite (IH (dstep 0 x)). unfold dstep.
    rewrite Nat2N.inj_succ, N.pow_succ_r'. lia.
Qed.

Lemma dec_value_cons x l : dec_value (x :: l) = (x - 48) * 10 ^ N.of_nat (length l) + dec_value l.
Proof.
  unfold dec_value. change (fun a d => a * 10 + (d - 48)) with dstep.
  cbn [fold_left]. rewrite dec_value_from. unfold dstep. lia.
Qed.

Lemma dec_loop_value f : forall n acc,
  n < 10 ^ N.of_nat f ->
  dec_value (dec_loop f n acc) = n * 10 ^ N.of_nat (length acc) + dec_value acc.
Proof.
  induction f as [|f IH]; intros n acc H; cbn [dec_loop].
  - cbn in H. assert (n = 0) by lia. subst. lia.
  - rewrite Nat2N.inj_succ, N.pow_succ_r' in H.
    destruct (n <? 10) eqn:E.
    + rewrite dec_value_cons. rewrite N.mod_small by lia.
      replace (48 + n - 48) with n by lia. reflexivity.
    + rewrite IH by (apply N.div_lt_upper_bound; lia).
      rewrite dec_value_cons. cbn [length]. rewrite Nat2N.inj_succ, N.pow_succ_r'.
      set (P := 10 ^ N.of_nat (length acc)). clearbody P.
      dm n 10. subst n. nia.
Qed.

Lemma dec_loop_head f : forall n acc,
  0 < n -> n < 10 ^ N.of_nat f ->
  exists h t, dec_loop f n acc = h :: t /\ h <> 48.
Proof.
  induction f as [|f IH]; intros n acc Hp H; cbn [dec_loop].
  - cbn in H. lia.
  - rewrite Nat2N.inj_succ, N.pow_succ_r' in H.
    destruct (n <? 10) eqn:E.
    + exists (48 + n mod 10), acc. split; [reflexivity | rewrite N.mod_small by lia; lia].
    + apply IH; [|apply N.div_lt_upper_bound; lia].
      apply N.div_str_pos. lia.
Qed.

(** the digits of [to_decimal n] are decimal digits, have value n, and no leading zero *)
Lemma decimal_ok n : n < 10 ^ 20 -> spec_decimal_ok n (to_decimal n) = true.
Proof.
  intros H. unfold spec_decimal_ok, to_decimal.
  rewrite dec_loop_digits by reflexivity.
  rewrite dec_loop_value by exact H. cbn [length dec_value fold_left].
  replace (n * 10 ^ N.of_nat 0 + 0 =? n) with true by (cbn; lia).
  cbn [andb].
  destruct (N.eq_dec n 0) as [->|Hn]; [vm_compute; reflexivity|].
  destruct (dec_loop_head 20 n [] ltac:(lia) H) as (h & t & -> & Hh).
  destruct t; [reflexivity|]. apply negb_true_iff. lia.
Qed.

(** * Letters *)

Lemma letters_small_sweep :
  allb (fun n => (n =? 0) || (bytes_eqb (to_letters n true) (spec_letters true n)
                              && bytes_eqb (to_letters n false) (spec_letters false n))) 28 = true.
Proof. vm_compute. reflexivity. Qed.

Lemma letters_ok_upto_27 n up : 0 < n -> n < 28 -> to_letters n up = spec_letters up n.
Proof.
  intros Hp H. pose proof (allb_spec _ _ letters_small_sweep n H) as S. cbn beta in S.
  replace (n =? 0) with false in S by lia. cbn [orb] in S.
  apply andb_true_iff in S. destruct S as [S1 S2].
  destruct up; apply bytes_eqb_eq; assumption.
Qed.

(** refuted at 28: the code yields "AB", §12.4.2 yields "BB" *)
Lemma letters_refuted :
  to_letters 28 true = [65; 66] /\ spec_letters true 28 = [66; 66]
  /\ to_letters 28 false = [97; 98] /\ spec_letters false 28 = [98; 98].
Proof. vm_compute. repeat split. Qed.

Lemma letters_len f base : forall n acc,
  N.of_nat (length (letters_loop f base n acc)) <= N.of_nat (length acc) + n.
Proof.
  induction f as [|f IH]; intros n acc; cbn [letters_loop]; [lia|].
  destruct (n =? 0) eqn:E; [lia|].
  specialize (IH ((n - 1) / Labels.letters_div) ((base + (n - 1) mod Labels.letters_mod) :: acc)).
  cbn [length] in IH. unfold Labels.letters_div in *. dm (n - 1) 26. lia.
Qed.

Lemma letters_long f base n : 53 <= n ->
  N.of_nat (length (letters_loop (S (S f)) base n [])) < (n - 1) / 26 + 1.
Proof.
  intros H. cbn [letters_loop].
  replace (n =? 0) with false by lia.
  unfold Labels.letters_div, Labels.letters_mod.
  dm (n - 1) 26. replace (q =? 0) with false by lia.
  match goal with |- N.of_nat (length (letters_loop ?f ?b ?m ?a)) < _ =>
    pose proof (letters_len f b m a) as L end.
  cbn [length] in L. dm (q - 1) 26. lia.
Qed.

Lemma letters_mid_sweep :
  allb (fun n => (n <? 28) || negb (bytes_eqb (to_letters n true) (spec_letters true n))
                              && negb (bytes_eqb (to_letters n false) (spec_letters false n))) 53 = true.
Proof. vm_compute. reflexivity. Qed.

(** from 28 on the code NEVER produces the label of the standard *)
Lemma letters_differ_from_28 n up : 28 <= n -> to_letters n up <> spec_letters up n.
Proof.
  intros H. destruct (N.ltb_spec n 53) as [Hlt|Hge].
  - pose proof (allb_spec _ _ letters_mid_sweep n Hlt) as S. cbn beta in S.
    replace (n <? 28) with false in S by lia. cbn [orb] in S.
    apply andb_true_iff in S. destruct S as [S1 S2].
    intros E. apply bytes_eqb_eq in E. destruct up; rewrite E in *; discriminate.
  - intros E. apply (f_equal (@length N)) in E.
    unfold spec_letters in E. rewrite repeat_length in E.
    unfold to_letters in E. replace (n =? 0) with false in E by lia.
    pose proof (letters_long 62 (if up then Labels.letters_upper_base else Labels.letters_lower_base) n Hge) as L.
    change (S (S 62)) with 64%nat in L. rewrite E in L. lia.
Qed.

Lemma repeat_char (x : N) : forall l k,
  (N.of_nat (length l) =? k) && forallb (fun b => b =? x) l = true <-> l = repeat x (N.to_nat k).
Proof.
  induction l as [|a l IH]; intros k.
  - cbn [length forallb]. rewrite andb_true_r. split; intros H.
    + assert (k = 0) by lia. subst. reflexivity.
    + destruct (N.to_nat k) eqn:E; [lia | discriminate].
  - cbn [length forallb]. split; intros H.
    + apply andb_true_iff in H. destruct H as [H1 H2]. apply andb_true_iff in H2. destruct H2 as [H2 H3].
      assert (Hk : N.to_nat k = S (N.to_nat (k - 1))) by lia. rewrite Hk. cbn [repeat].
      f_equal; [lia|]. apply IH. apply andb_true_iff. split; [lia | exact H3].
    + destruct (N.to_nat k) eqn:E; [discriminate|]. cbn [repeat] in H. injection H as -> Hl.
      assert (Hn : n = N.to_nat (k - 1)) by lia. rewrite Hn in Hl. apply IH in Hl.
      apply andb_true_iff in Hl. destruct Hl as [H1 H2].
      apply andb_true_iff. split; [lia|]. rewrite N.eqb_refl. exact H2.
Qed.

(** the executable letters check of the spec is equality with [spec_letters] *)
Lemma letters_match_iff up n out : letters_match up n out = true <-> out = spec_letters up n.
Proof. unfold letters_match, spec_letters. apply repeat_char. Qed.

(** * Range lookup *)

Inductive sorted : tree -> Prop :=
| sorted_nil : sorted []
| sorted_cons k v r : sorted r -> (forall k' v', In (k', v') r -> k < k') -> sorted ((k, v) :: r).

Lemma add_range_in t k v x : In x (add_range t k v) -> x = (k, v) \/ In x t.
Proof.
  induction t as [|[k' v'] r IH]; cbn [add_range].
  - intros [H|[]]; auto.
  - destruct (k <? k'); [intros [H|H]; auto|].
    destruct (k =? k'); [intros [H|H]; cbn; auto|].
    intros [H|H]; cbn; [auto|]. destruct (IH H); auto.
Qed.

Lemma add_range_sorted t k v : sorted t -> sorted (add_range t k v).
Proof.
  induction 1 as [|k' v' r Hs IH Hlb]; cbn [add_range].
  - constructor; [constructor | intros ? ? []].
  - destruct (k <? k') eqn:E1.
    + constructor; [constructor; assumption|].
      intros k2 v2 [H|H]; [inversion H; subst; lia | specialize (Hlb _ _ H); lia].
    + destruct (k =? k') eqn:E2.
      * apply N.eqb_eq in E2. subst. constructor; assumption.
      * constructor; [exact IH|].
        intros k2 v2 H. destruct (add_range_in _ _ _ _ H) as [H'|H'].
        -- inversion H'; subst. lia.
        -- eapply Hlb; eauto.
Qed.

Lemma build_sorted_from ops : forall t, sorted t ->
  sorted (fold_left (fun t '(k, v) => add_range t k v) ops t).
Proof.
  induction ops as [|[k v] ops IH]; intros t H; cbn [fold_left]; [exact H|].
  apply IH. apply add_range_sorted. exact H.
Qed.

Lemma build_sorted ops : sorted (build ops).
Proof. apply build_sorted_from. constructor. Qed.

(** the step function of [spec_floor] *)
Definition fstep (page : N) (best : option (N * label)) (e : N * label) : option (N * label) :=
  let '(k, v) := e in
  if k <=? page then
    match best with
    | None => Some (k, v)
    | Some (kb, _) => if kb <=? k then Some (k, v) else best
    end
  else best.

Lemma spec_floor_fold t page : spec_floor t page = fold_left (fstep page) t None.
Proof. reflexivity. Qed.

Lemma fold_all_beyond page r : forall best,
  (forall k v, In (k, v) r -> page < k) -> fold_left (fstep page) r best = best.
Proof.
  induction r as [|[k v] r IH]; intros best H; cbn [fold_left]; [reflexivity|].
  assert (page < k) by (eapply H; left; reflexivity).
  unfold fstep at 2. replace (k <=? page) with false by lia.
  apply IH. intros; eapply H; right; eauto.
Qed.

Lemma find_range_fold page t : sorted t -> forall best,
  (forall kb vb, best = Some (kb, vb) -> forall k v, In (k, v) t -> kb < k) ->
  find_range t page best = fold_left (fstep page) t best.
Proof.
  induction 1 as [|k v r Hs IH Hlb]; intros best Hb; cbn [find_range fold_left]; [reflexivity|].
  destruct (k <=? page) eqn:E.
  - assert (St : fstep page best (k, v) = Some (k, v)).
    { unfold fstep. rewrite E. destruct best as [[kb vb]|]; [|reflexivity].
      assert (kb < k) by (eapply Hb; [reflexivity | left; reflexivity]).
      replace (kb <=? k) with true by lia. reflexivity. }
    rewrite St. apply IH. intros kb vb Hq k2 v2 Hin. inversion Hq; subst. eapply Hlb; eauto.
  - assert (St : fstep page best (k, v) = best) by (unfold fstep; rewrite E; reflexivity).
    rewrite St. symmetry. apply fold_all_beyond.
    intros k2 v2 Hin. specialize (Hlb _ _ Hin). lia.
Qed.

(** the loop with early exit finds exactly the range the standard puts in force *)
Lemma range_lookup_ok t page : sorted t -> find_range t page None = spec_floor t page.
Proof.
  intros H. rewrite spec_floor_fold. apply find_range_fold; [exact H | discriminate].
Qed.

(** BTreeMap::insert semantics of [add_range] *)
Fixpoint lookup_key (t : list (N * label)) (k : N) : option label :=
  match t with
  | [] => None
  | (k', v) :: r => if k' =? k then Some v else lookup_key r k
  end.

Lemma add_range_lookup t k v k2 : sorted t ->
  lookup_key (add_range t k v) k2 = if k =? k2 then Some v else lookup_key t k2.
Proof.
  induction 1 as [|k' v' r Hs IH Hlb]; cbn [add_range lookup_key]; [reflexivity|].
  destruct (k <? k') eqn:E1; [reflexivity|].
  destruct (k =? k') eqn:E2.
  - apply N.eqb_eq in E2. subst. cbn [lookup_key]. destruct (k' =? k2); reflexivity.
  - cbn [lookup_key]. rewrite IH. destruct (k' =? k2) eqn:E3; [|reflexivity].
    apply N.eqb_eq in E3. subst. rewrite E2. reflexivity.
Qed.

(** * No overflow trap (after fix_page_label_start_overflow) *)
Lemma label_no_trap l off :
  l_start l <= u32_max -> off <= u32_max -> format_label l off <> None.
Proof.
  intros H1 H2. unfold format_label, add_u64.
  destruct (style_eqb (l_style l) SNone); [discriminate|].
  unfold u32_max, u64_lim in *. replace (l_start l + off <? 18446744073709551616) with true by lia.
  discriminate.
Qed.

(** the pinned (unfixed) code adds in u32: St = 4294967295, offset 1 overflows *)
Definition add_u32 (a b : N) : option N := if a + b <=? u32_max then Some (a + b) else None.
Lemma label_u32_trap_witness : add_u32 4294967295 1 = None /\ add_u64 4294967295 1 = Some 4294967296.
Proof. vm_compute. split; reflexivity. Qed.

(** * Numeric portion and whole labels *)
Lemma number_ok s n :
  n < 10 ^ 20 -> is_letters s && (28 <=? n) = false ->
  spec_number_ok s n (format_number s n) = true.
Proof.
  intros Hb Hk. destruct s; cbn [spec_number_ok format_number is_letters andb] in *.
  - apply decimal_ok. exact Hb.
  - destruct (N.eq_dec n 0) as [->|Hn]; [reflexivity|].
    rewrite roman_upper_ok by lia. apply orb_true_iff. right. apply bytes_eqb_eq. reflexivity.
  - destruct (N.eq_dec n 0) as [->|Hn]; [reflexivity|].
    rewrite roman_greedy_eq_positional by lia. apply orb_true_iff. right. apply bytes_eqb_eq. reflexivity.
  - destruct (N.eq_dec n 0) as [->|Hn]; [reflexivity|].
    apply orb_true_iff. right. apply letters_match_iff. apply letters_ok_upto_27; lia.
  - destruct (N.eq_dec n 0) as [->|Hn]; [reflexivity|].
    apply orb_true_iff. right. apply letters_match_iff. apply letters_ok_upto_27; lia.
  - reflexivity.
Qed.

Lemma strip_prefix_app p x : strip_prefix p (p ++ x) = Some x.
Proof. induction p; cbn; [reflexivity | rewrite N.eqb_refl; exact IHp]. Qed.

Definition starts_u32 (t : tree) : Prop := forall k l, In (k, l) t -> l_start l <= u32_max.

Lemma fold_fstep_in page t : forall best r,
  fold_left (fstep page) t best = Some r -> In r t \/ best = Some r.
Proof.
  induction t as [|[k v] t IH]; intros best r H; cbn [fold_left] in H; [auto|].
  destruct (IH _ _ H) as [Hi|Hb]; [left; right; exact Hi|].
  unfold fstep in Hb. destruct (k <=? page); [|auto].
  destruct best as [[kb vb]|].
  - destruct (kb <=? k); [left; left; congruence | auto].
  - left; left; congruence.
Qed.

Lemma fold_fstep_le page t : forall best k v,
  (forall kb vb, best = Some (kb, vb) -> kb <= page) ->
  fold_left (fstep page) t best = Some (k, v) -> k <= page.
Proof.
  induction t as [|[k' v'] t IH]; intros best k v Hb H; cbn [fold_left] in H.
  - eapply Hb; eauto.
  - eapply IH; [|exact H]. intros kb vb Hq. unfold fstep in Hq.
    destruct (k' <=? page) eqn:E; [|eauto].
    destruct best as [[kb0 vb0]|].
    + destruct (kb0 <=? k'); [inversion Hq; subst; lia | eauto].
    + inversion Hq; subst; lia.
Qed.

(** MAIN: for every reachable tree state and every page index, outside the known class
    (letter styles with number >= 28) the computed label is the one §12.4.2 defines and the
    computation does not trap. *)
Lemma label_ok t page :
  sorted t -> starts_u32 t -> page <= u32_max ->
  known_letters_class t page = false ->
  spec_label_ok t page (get_label t page) = true.
Proof.
  intros Hs Hst Hp Hk. unfold get_label, spec_label_ok, known_letters_class, label_number in *.
  rewrite range_lookup_ok by exact Hs.
  destruct (spec_floor t page) as [[k l]|] eqn:F; [|reflexivity].
  rewrite spec_floor_fold in F.
  assert (Hin : In (k, l) t) by (destruct (fold_fstep_in _ _ _ _ F); [assumption | discriminate]).
  assert (Hle : k <= page) by (eapply fold_fstep_le; [|exact F]; discriminate).
  pose proof (Hst _ _ Hin) as Hl.
  unfold format_label, add_u64.
  destruct (style_eqb (l_style l) SNone) eqn:Es.
  - assert (l_style l = SNone) as Hn by (destruct (l_style l); cbn in Es; congruence).
    rewrite <- (app_nil_r (match l_prefix l with Some p => p | None => [] end)) at 2.
    rewrite strip_prefix_app, Hn. reflexivity.
  - unfold u32_max, u64_lim in *.
    replace (l_start l + (page - k) <? 18446744073709551616) with true by lia.
    rewrite strip_prefix_app. apply number_ok; [|exact Hk].
    assert (l_start l + (page - k) < 2 ^ 64) by (cbn; lia).
    eapply N.lt_trans; [eassumption | vm_compute; reflexivity].
Qed.

(** * The written number tree read back by a Table-159 reader *)
Lemma name_style_roundtrip s : name_style (to_pdf_name s) = Some s.
Proof. destruct s; reflexivity. Qed.

Lemma read_dict_roundtrip l : read_dict (label_to_dict l) = Some l.
Proof.
  destruct l as [s p st]. unfold read_dict, label_to_dict. cbn [d_S d_P d_St l_style l_prefix l_start].
  rewrite name_style_roundtrip.
  destruct (st =? 1) eqn:E.
  - apply N.eqb_eq in E. subst. reflexivity.
  - replace (0 <=? Z.of_N st)%Z with true by lia. rewrite N2Z.id. reflexivity.
Qed.

Lemma written_labels_read_back t : read_nums (tree_to_dict t) = Some t.
Proof.
  induction t as [|[k l] t IH]; cbn [tree_to_dict List.map read_nums]; [reflexivity|].
  change (List.map (fun '(k, l) => (Z.of_N k, label_to_dict l)) t) with (tree_to_dict t).
  rewrite read_dict_roundtrip, IH.
  replace (0 <=? Z.of_N k)%Z with true by lia. rewrite N2Z.id. reflexivity.
Qed.

(** * Histories: the tree after any operation sequence is the tree built from the ranges added
    so far, so every lookup in a history is the lookup on that range set *)
Lemma state_after_adds ops : forall t,
  state_after t ops = fold_left (fun t '(k, v) => add_range t k v) (adds_of ops) t.
Proof.
  unfold state_after. induction ops as [|o ops IH]; intros t; cbn [fold_left adds_of]; [reflexivity|].
  destruct o; cbn [state_step fold_left adds_of]; apply IH.
Qed.

Lemma history_state ops : state_after [] ops = build (adds_of ops).
Proof. apply state_after_adds. Qed.

Lemma run_ops_app ops1 : forall t ops2,
  run_ops t (ops1 ++ ops2) = run_ops t ops1 ++ run_ops (state_after t ops1) ops2.
Proof.
  unfold state_after. induction ops1 as [|o ops1 IH]; intros t ops2; [reflexivity|].
  destruct o; cbn [app run_ops fold_left state_step]; rewrite IH; reflexivity.
Qed.

(** a lookup issued after ANY sequence of operations answers from the ranges added so far *)
Lemma history_lookup ops p :
  run_ops [] (ops ++ [SGet p]) = run_ops [] ops ++ [SOLabel (get_label (build (adds_of ops)) p)].
Proof. rewrite run_ops_app, history_state. reflexivity. Qed.

Lemma build_in ops : forall t x,
  In x (fold_left (fun t '(k, v) => add_range t k v) ops t) -> In x t \/ In x ops.
Proof.
  induction ops as [|[k v] ops IH]; intros t x H; cbn [fold_left] in H; [auto|].
  destruct (IH _ _ H) as [H1|H1]; [|right; right; exact H1].
  destruct (add_range_in _ _ _ _ H1) as [->|H2]; [right; left; reflexivity | left; exact H2].
Qed.

(** ... and that answer is the §12.4.2 label of the current range set (outside the known class) *)
Lemma history_lookup_ok ops p :
  (forall k l, In (k, l) (adds_of ops) -> l_start l <= u32_max) -> p <= u32_max ->
  known_letters_class (build (adds_of ops)) p = false ->
  spec_label_ok (build (adds_of ops)) p (get_label (state_after [] ops) p) = true.
Proof.
  intros Hs Hp Hk. rewrite history_state. apply label_ok; try assumption.
  - apply build_sorted.
  - intros k l Hin. destruct (build_in _ _ _ Hin) as [[]|H]. eapply Hs; exact H.
Qed.

Example history_nonvacuous :
  let r := {| l_style := SLowerRoman; l_prefix := None; l_start := 1 |} in
  let d := {| l_style := SDecimal; l_prefix := None; l_start := 1 |} in
  let a := {| l_style := SUpperLetters; l_prefix := Some [65; 112; 112; 45]; l_start := 1 |} in
  run_ops [] [SAdd 0 r; SAdd 10 d; SGet 4; SAdd 9 a; SGet 9; SGet 10]
  = [SOLabel (RLabel [118]); SOLabel (RLabel [65; 112; 112; 45; 65]); SOLabel (RLabel [49])].
Proof. vm_compute. reflexivity. Qed.

(** * Non-vacuity examples *)
Example label_ok_nonvacuous :
  let t := build [(0, {| l_style := SLowerRoman; l_prefix := None; l_start := 1 |});
                  (4, {| l_style := SDecimal; l_prefix := Some [65; 45]; l_start := 4294967295 |});
                  (3, {| l_style := SUpperLetters; l_prefix := None; l_start := 26 |})] in
  get_label t 2 = RLabel [105; 105; 105] /\ get_label t 3 = RLabel [90]
  /\ get_label t 5 = RLabel ([65; 45] ++ [52; 50; 57; 52; 57; 54; 55; 50; 57; 54])
  /\ known_letters_class t 5 = false /\ known_letters_class t 3 = false.
Proof. vm_compute. repeat split. Qed.
