(** C27 — code-shaped model of page_labels/page_label.rs and page_label_tree.rs
    (with fix_page_label_start_overflow applied: the numeric portion is computed in u64)
    and the ISO 32000-1 §12.4.2 specification of page labels.
    Labels, prefixes and numerals are byte strings (UTF-8 as the Rust [String]). *)
From OxVerif Require Import Base.Util.
From OxGen Require Labels.

(** * Styles *)
Inductive style := SDecimal | SUpperRoman | SLowerRoman | SUpperLetters | SLowerLetters | SNone.

Definition style_eqb (a b : style) : bool :=
  match a, b with
  | SDecimal, SDecimal | SUpperRoman, SUpperRoman | SLowerRoman, SLowerRoman
  | SUpperLetters, SUpperLetters | SLowerLetters, SLowerLetters | SNone, SNone => true
  | _, _ => false
  end.

Record label := { l_style : style; l_prefix : option bytes; l_start : N }.

(** * Model: PageLabelStyle::format *)

Fixpoint rep_bytes (n : nat) (s : bytes) : bytes :=
  match n with O => [] | S k => s ++ rep_bytes k s end.

(** [to_roman]: `for (value, numeral) in values { while num >= value { push; num -= value } }`.
    The inner while loop is modelled by its closed form: it runs num / value times and
    leaves num mod value (for value > 0; [roman_table_pos] checks that on the generated table).
    With the comparison `>` instead of `>=` it runs (num-1)/value times (num > 0). *)
Definition while_count (ge : bool) (num v : N) : N :=
  if ge then num / v else if num =? 0 then 0 else (num - 1) / v.

Fixpoint roman_tab (ge : bool) (tab : list (N * bytes)) (num : N) : bytes :=
  match tab with
  | [] => []
  | (v, s) :: r =>
      let k := while_count ge num v in
      rep_bytes (N.to_nat k) s ++ roman_tab ge r (num - k * v)
  end.

Definition to_roman (num : N) : bytes :=
  if num =? 0 then [] else roman_tab Labels.roman_cmp_ge Labels.roman_values num.

Definition roman_table_pos : bool := forallb (fun '(v, _) => 0 <? v) Labels.roman_values.

(** [str::to_uppercase] restricted to ASCII (the numerals of the table are ASCII letters) *)
Definition ascii_upper (b : N) : N := if (97 <=? b) && (b <=? 122) then b - 32 else b.

(** [to_letters]: while n > 0 { r = (n-1) % 26; insert(0, base + r); n = (n-1) / 26 }.
    fuel 64 suffices for every u64 (n at least halves per round; [letters_fuel_enough]). *)
Fixpoint letters_loop (fuel : nat) (base n : N) (acc : bytes) : bytes :=
  match fuel with
  | O => acc
  | S f =>
      if n =? 0 then acc
      else letters_loop f base ((n - 1) / Labels.letters_div)
                        ((base + (n - 1) mod Labels.letters_mod) :: acc)
  end.

Definition to_letters (num : N) (upper : bool) : bytes :=
  if num =? 0 then []
  else letters_loop 64 (if upper then Labels.letters_upper_base else Labels.letters_lower_base) num [].

(** [u64::to_string]: decimal digits, most significant first *)
Fixpoint dec_loop (fuel : nat) (n : N) (acc : bytes) : bytes :=
  match fuel with
  | O => acc
  | S f =>
      let acc' := (48 + n mod 10) :: acc in
      if n <? 10 then acc' else dec_loop f (n / 10) acc'
  end.

(** a u64 has at most 20 decimal digits *)
Definition to_decimal (n : N) : bytes := dec_loop 20 n [].

Definition format_number (s : style) (number : N) : bytes :=
  match s with
  | SDecimal => to_decimal number
  | SUpperRoman => List.map ascii_upper (to_roman number)
  | SLowerRoman => to_roman number
  | SUpperLetters => to_letters number true
  | SLowerLetters => to_letters number false
  | SNone => []
  end.

(** * Model: PageLabel::format_label.  [start] and [offset] are u32; the sum is formed in u64
    (after the fix).  The addition is modelled with an explicit trap ([None] = overflow panic of
    the debug profile / wrap of the release profile) so that "no trap" is a theorem, not an
    assumption. *)
Definition u32_max : N := 4294967295.
Definition u64_lim : N := 18446744073709551616.

Definition add_u64 (a b : N) : option N := if a + b <? u64_lim then Some (a + b) else None.

Definition format_label (l : label) (offset : N) : option bytes :=
  let pre := match l_prefix l with Some p => p | None => [] end in
  if style_eqb (l_style l) SNone then Some pre
  else match add_u64 (l_start l) offset with
       | Some number => Some (pre ++ format_number (l_style l) number)
       | None => None
       end.

(** * Model: PageLabelTree — BTreeMap<u32, PageLabel> as a strictly sorted association list *)
Definition tree := list (N * label).

Fixpoint add_range (t : tree) (k : N) (v : label) : tree :=
  match t with
  | [] => [(k, v)]
  | (k', v') :: r =>
      if k <? k' then (k, v) :: t
      else if k =? k' then (k, v) :: r
      else (k', v') :: add_range r k v
  end.

Definition build (ops : list (N * label)) : tree :=
  fold_left (fun t '(k, v) => add_range t k v) ops [].

(** the loop of [get_label]: iterate in key order, remember the last range whose start is
    <= page_index, break at the first start beyond it *)
Fixpoint find_range (t : tree) (page : N) (best : option (N * label)) : option (N * label) :=
  match t with
  | [] => best
  | (k, v) :: r => if k <=? page then find_range r page (Some (k, v)) else best
  end.

Inductive result := RNone | RLabel (b : bytes) | RTrap.

Definition get_label (t : tree) (page : N) : result :=
  match find_range t page None with
  | None => RNone
  | Some (k, l) =>
      match format_label l (page - k) with
      | Some b => RLabel b
      | None => RTrap
      end
  end.

(** * Model: to_dict (number tree /Nums with one label dictionary per range) *)
Record ldict := { d_S : option bytes; d_P : option bytes; d_St : option Z }.

Definition style_index (s : style) : nat :=
  match s with SDecimal => 0 | SUpperRoman => 1 | SLowerRoman => 2
             | SUpperLetters => 3 | SLowerLetters => 4 | SNone => 5 end%nat.

Definition to_pdf_name (s : style) : option bytes :=
  nth (style_index s) Labels.style_names None.

Definition label_to_dict (l : label) : ldict :=
  {| d_S := to_pdf_name (l_style l);
     d_P := l_prefix l;
     d_St := if l_start l =? 1 then None else Some (Z.of_N (l_start l)) |}.

Definition tree_to_dict (t : tree) : list (Z * ldict) :=
  List.map (fun '(k, l) => (Z.of_N k, label_to_dict l)) t.

(** * Specification, written from ISO 32000-1 §12.4.2 (Table 159) *)

(** Roman numerals by positional decomposition: thousands repeat M; each decimal digit d of the
    hundreds/tens/units is written with the (one, five, ten) symbols of its position. *)
Definition digit_numeral (one five ten : N) (d : N) : bytes :=
  match d with
  | 0 => [] | 1 => [one] | 2 => [one; one] | 3 => [one; one; one]
  | 4 => [one; five] | 5 => [five] | 6 => [five; one] | 7 => [five; one; one]
  | 8 => [five; one; one; one] | _ => [one; ten]
  end.

(** lower case: i v x l c d m = 105 118 120 108 99 100 109; upper case = 73 86 88 76 67 68 77 *)
Definition spec_roman (upper : bool) (n : N) : bytes :=
  let c := fun lo up => if upper then up else lo in
  let i := c 105 73 in let v := c 118 86 in let x := c 120 88 in let l := c 108 76 in
  let cc := c 99 67 in let d := c 100 68 in let m := c 109 77 in
  repeat m (N.to_nat (n / 1000))
  ++ digit_numeral cc d m ((n / 100) mod 10)
  ++ digit_numeral x l cc ((n / 10) mod 10)
  ++ digit_numeral i v x (n mod 10).

(** letters: "A to Z for the first 26 pages, AA to ZZ for the next 26, and so on":
    ((n-1)/26 + 1) copies of letter number (n-1) mod 26 *)
Definition spec_letters (upper : bool) (n : N) : bytes :=
  repeat ((if upper then 65 else 97) + (n - 1) mod 26) (N.to_nat ((n - 1) / 26 + 1)).

(** [out = spec_letters upper n], decided without building the (possibly huge) repeated string;
    equivalence proved as [letters_match_iff] *)
Definition letters_match (upper : bool) (n : N) (out : bytes) : bool :=
  (N.of_nat (length out) =? (n - 1) / 26 + 1) &&
  forallb (fun b => b =? (if upper then 65 else 97) + (n - 1) mod 26) out.

(** decimal: the digit string without leading zeros whose value is n — stated as a predicate *)
Definition is_digit (b : N) : bool := (48 <=? b) && (b <=? 57).
Definition dec_value (l : bytes) : N := fold_left (fun a d => a * 10 + (d - 48)) l 0.
Definition spec_decimal_ok (n : N) (l : bytes) : bool :=
  forallb is_digit l && (dec_value l =? n) &&
  match l with [] => false | [_] => true | h :: _ => negb (h =? 48) end.

(** does [out] satisfy the standard for the numeric portion [n] in style [s]?
    Roman and letter styles are defined for n >= 1 only (/St "shall be greater than or equal
    to 1"): n = 0 is unconstrained. *)
Definition spec_number_ok (s : style) (n : N) (out : bytes) : bool :=
  match s with
  | SDecimal => spec_decimal_ok n out
  | SUpperRoman => (n =? 0) || bytes_eqb out (spec_roman true n)
  | SLowerRoman => (n =? 0) || bytes_eqb out (spec_roman false n)
  | SUpperLetters => (n =? 0) || letters_match true n out
  | SLowerLetters => (n =? 0) || letters_match false n out
  | SNone => match out with [] => true | _ => false end
  end.

(** the range in force for a page: among ALL entries (any order), the one with the greatest key
    not exceeding the page index (number tree semantics, §7.9.7 / §12.4.2) *)
Definition spec_floor (t : list (N * label)) (page : N) : option (N * label) :=
  fold_left (fun best '(k, v) =>
               if k <=? page then
                 match best with
                 | None => Some (k, v)
                 | Some (kb, _) => if kb <=? k then Some (k, v) else best
                 end
               else best) t None.

Fixpoint strip_prefix (p l : bytes) : option bytes :=
  match p, l with
  | [], _ => Some l
  | a :: p', b :: l' => if a =? b then strip_prefix p' l' else None
  | _ :: _, [] => None
  end.

(** [spec_label_ok t page r]: r is the label §12.4.2 defines for [page] under the ranges [t]:
    prefix followed by the numeric portion St + (page - first page of the range), unbounded
    integers; no label dictionary in force -> the library reports "no label". *)
Definition spec_label_ok (t : list (N * label)) (page : N) (r : result) : bool :=
  match spec_floor t page, r with
  | None, RNone => true
  | Some (k, l), RLabel b =>
      match strip_prefix (match l_prefix l with Some p => p | None => [] end) b with
      | Some num => spec_number_ok (l_style l) (l_start l + (page - k)) num
      | None => false
      end
  | _, _ => false
  end.

(** the number the label of [page] carries and its style (for classifying the known finding) *)
Definition label_number (t : list (N * label)) (page : N) : option (style * N) :=
  match spec_floor t page with
  | Some (k, l) => Some (l_style l, l_start l + (page - k))
  | None => None
  end.

Definition is_letters (s : style) : bool :=
  match s with SUpperLetters | SLowerLetters => true | _ => false end.

(** known finding C27-letters: letter styles with numeric portion >= 28 *)
Definition known_letters_class (t : list (N * label)) (page : N) : bool :=
  match label_number t page with
  | Some (s, n) => is_letters s && (28 <=? n)
  | None => false
  end.

(** * A reader of the written number tree, from Table 159: /S absent = no numeric portion,
    /P absent = no prefix, /St absent = 1 *)
Definition name_style (n : option bytes) : option style :=
  match n with
  | None => Some SNone
  | Some [68] => Some SDecimal
  | Some [82] => Some SUpperRoman
  | Some [114] => Some SLowerRoman
  | Some [65] => Some SUpperLetters
  | Some [97] => Some SLowerLetters
  | Some _ => None
  end.

Definition read_dict (d : ldict) : option label :=
  match name_style (d_S d) with
  | None => None
  | Some s =>
      match d_St d with
      | None => Some {| l_style := s; l_prefix := d_P d; l_start := 1 |}
      | Some z => if (0 <=? z)%Z then Some {| l_style := s; l_prefix := d_P d; l_start := Z.to_N z |}
                  else None
      end
  end.

Fixpoint read_nums (n : list (Z * ldict)) : option (list (N * label)) :=
  match n with
  | [] => Some []
  | (k, d) :: r =>
      match read_dict d, read_nums r with
      | Some l, Some t => if (0 <=? k)%Z then Some ((Z.to_N k, l) :: t) else None
      | _, _ => None
      end
  end.

(** two labels mean the same to a reader: style, start; absent prefix = empty prefix *)
Definition label_eqb (a b : label) : bool :=
  style_eqb (l_style a) (l_style b) && (l_start a =? l_start b) &&
  bytes_eqb (match l_prefix a with Some p => p | None => [] end)
            (match l_prefix b with Some p => p | None => [] end).

Definition tree_eqb (a b : list (N * label)) : bool :=
  list_eqb (fun x y => (fst x =? fst y) && label_eqb (snd x) (snd y)) a b.

(** * Correspondence cases *)
Definition result_eqb (a b : result) : bool :=
  match a, b with
  | RNone, RNone => true
  | RLabel x, RLabel y => bytes_eqb x y
  | RTrap, RTrap => true
  | _, _ => false
  end.

(** case "label": add_range operations in call order, page index, implementation's answer *)
Definition label_case := (list (N * label) * N * result)%type.

Definition label_code (c : label_case) : N :=
  let '(ops, page, impl) := c in
  code_of (result_eqb (get_label (build ops) page) impl) (spec_label_ok ops page impl).

(** case "fmt": PageLabelStyle::format(number) directly *)
Definition fmt_code (c : style * N * bytes) : N :=
  let '(s, n, impl) := c in
  code_of (bytes_eqb (format_number s n) impl) (spec_number_ok s n impl).

Definition ldict_eqb (a b : ldict) : bool :=
  option_eqb bytes_eqb (d_S a) (d_S b) && option_eqb bytes_eqb (d_P a) (d_P b) &&
  option_eqb Z.eqb (d_St a) (d_St b).

(** case "dict": add_range operations, the implementation's /Nums as (key, dict) pairs.
    bit 1: model to_dict = impl; bit 2: an independent reader of the written tree recovers
    ranges that give every page the label of the authored ranges: same key set in ascending
    order, the last-added label for each key. *)
Definition spec_authored (ops : list (N * label)) (k : N) : option label :=
  fold_left (fun best '(k', v) => if k' =? k then Some v else best) ops None.

Fixpoint ascending (l : list N) : bool :=
  match l with
  | a :: ((b :: _) as r) => (a <? b) && ascending r
  | _ => true
  end.

(** what a page's label consists of under a range set: style, prefix, numeric portion (no numeric
    portion for style None).  Equal meanings give equal labels. *)
Definition label_sem (t : list (N * label)) (page : N) : option (style * bytes * N) :=
  match spec_floor t page with
  | Some (k, l) =>
      Some (l_style l, match l_prefix l with Some p => p | None => [] end,
            if style_eqb (l_style l) SNone then 0 else l_start l + (page - k))
  | None => None
  end.

Definition sem_eqb (a b : option (style * bytes * N)) : bool :=
  match a, b with
  | None, None => true
  | Some (s1, p1, n1), Some (s2, p2, n2) => style_eqb s1 s2 && bytes_eqb p1 p2 && (n1 =? n2)
  | _, _ => false
  end.

(** pages probed around every authored range start: start-1, start, start+1, start+27, and page 0 *)
Definition probe_pages (ops : list (N * label)) : list N :=
  0 :: flat_map (fun '(k, _) => [k - 1; k; k + 1; k + 27]) ops.

(** the written number tree, read by an independent Table-159 reader, gives every probed page the
    label the authored ranges give it (keys ascending, as a number tree requires).  Dropping an
    entry is fine exactly when no label changes. *)
Definition dict_prop_ok (ops : list (N * label)) (nums : list (Z * ldict)) : bool :=
  match read_nums nums with
  | None => false
  | Some t =>
      ascending (List.map fst t) &&
      forallb (fun p => sem_eqb (label_sem ops p) (label_sem t p)) (probe_pages ops)
  end.

Definition dict_code (c : list (N * label) * list (Z * ldict)) : N :=
  let '(ops, nums) := c in
  code_of (list_eqb (fun x y => Z.eqb (fst x) (fst y) && ldict_eqb (snd x) (snd y))
                    (tree_to_dict (build ops)) nums)
          (dict_prop_ok ops nums).

(** * Witness search used by the driver when a generated table no longer satisfies a theorem:
    first number below [n] on which the modelled formatter violates the spec predicate, known
    class (letters >= 28) excluded. *)
Definition fmt_cell_ok (s : style) (n : N) : bool :=
  (is_letters s && (28 <=? n)) || spec_number_ok s n (format_number s n).

Definition styles : list style := [SDecimal; SUpperRoman; SLowerRoman; SUpperLetters; SLowerLetters; SNone].

Definition first_bad_number (bound : N) : list (N * option N) :=
  List.map (fun s => (N.of_nat (style_index s), first_fail (fmt_cell_ok s) bound)) styles.

(** * PageLabelTree as a state machine: interleaved add_range / get_label / get_all_labels / to_dict
    on ONE tree.  The modelled tree has no state besides the range set, so every lookup is a pure
    function of the ranges added so far. *)
Inductive sop := SAdd (k : N) (l : label) | SGet (p : N) | SAll (n : N) | SDict.
Inductive sout := SOLabel (r : result) | SOAll (l : list bytes) | SODict (d : list (Z * ldict)).

Definition state_step (t : tree) (o : sop) : tree :=
  match o with SAdd k l => add_range t k l | _ => t end.

Definition state_after (t : tree) (ops : list sop) : tree := fold_left state_step ops t.

(** get_all_labels: page i -> its label, or the decimal i+1 when no range is in force *)
Definition all_labels (t : tree) (n : N) : list bytes :=
  List.map (fun i => match get_label t i with
                     | RLabel b => b
                     | _ => to_decimal (i + 1)
                     end) (List.map N.of_nat (seq 0 (N.to_nat n))).

Fixpoint run_ops (t : tree) (ops : list sop) : list sout :=
  match ops with
  | [] => []
  | SAdd k l :: r => run_ops (add_range t k l) r
  | SGet p :: r => SOLabel (get_label t p) :: run_ops t r
  | SAll n :: r => SOAll (all_labels t n) :: run_ops t r
  | SDict :: r => SODict (tree_to_dict t) :: run_ops t r
  end.

(** the ranges added so far, in call order *)
Fixpoint adds_of (ops : list sop) : list (N * label) :=
  match ops with
  | [] => []
  | SAdd k l :: r => (k, l) :: adds_of r
  | _ :: r => adds_of r
  end.

Definition sout_eqb (a b : sout) : bool :=
  match a, b with
  | SOLabel x, SOLabel y => result_eqb x y
  | SOAll x, SOAll y => list_eqb bytes_eqb x y
  | SODict x, SODict y => list_eqb (fun p q => Z.eqb (fst p) (fst q) && ldict_eqb (snd p) (snd q)) x y
  | _, _ => false
  end.

(** spec of a history: every lookup is the §12.4.2 label under the ranges added SO FAR ([adds], in
    call order); [lenient] additionally accepts the known letters >= 28 class *)
Definition lookup_ok (lenient : bool) (adds : list (N * label)) (p : N) (r : result) : bool :=
  spec_label_ok adds p r || (lenient && known_letters_class adds p).

Fixpoint all_ok (lenient : bool) (adds : list (N * label)) (i : N) (l : list bytes) : bool :=
  match l with
  | [] => true
  | b :: r => (match spec_floor adds i with
               | None => true            (* no label dictionary in force: not constrained here *)
               | Some _ => lookup_ok lenient adds i (RLabel b)
               end) && all_ok lenient adds (i + 1) r
  end.

Fixpoint history_ok (lenient : bool) (adds : list (N * label)) (ops : list sop) (outs : list sout) : bool :=
  match ops, outs with
  | [], [] => true
  | SAdd k l :: r, _ => history_ok lenient (adds ++ [(k, l)]) r outs
  | SGet p :: r, SOLabel x :: o => lookup_ok lenient adds p x && history_ok lenient adds r o
  | SAll n :: r, SOAll l :: o =>
      (N.of_nat (length l) =? n) && all_ok lenient adds 0 l && history_ok lenient adds r o
  | SDict :: r, SODict d :: o => dict_prop_ok adds d && history_ok lenient adds r o
  | _, _ => false
  end.

(** bit 1: model history <> implementation; bit 2: some lookup / written tree is not what the
    ranges added so far define; +8 when the only failures are in the known letters class *)
Definition seq_code (c : list sop * list sout) : N :=
  let '(ops, outs) := c in
  let m := list_eqb sout_eqb (run_ops [] ops) outs in
  let p := history_ok false [] ops outs in
  code_of m p + (if p then 0 else if history_ok true [] ops outs then 8 else 0).
