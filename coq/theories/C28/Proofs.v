(** C28 — the emitted outline dictionaries are navigable as authored, for every forest. *)
From OxVerif Require Import Base.Util C28.Model.
Open Scope N_scope.

(** custom induction principle for the nested type *)
Fixpoint item_ind' (P : item -> Prop)
  (H : forall l o cs, Forall P cs -> P (Item l o cs)) (i : item) : P i :=
  match i with
  | Item l o cs =>
      H l o cs ((fix go (cs : list item) : Forall P cs :=
                   match cs with
                   | [] => Forall_nil P
                   | c :: r => Forall_cons c (item_ind' P H c) (go r)
                   end) cs)
  end.

Lemma count_all_unfold l o cs : count_all (Item l o cs) = 1 + count_all_list cs.
Proof. reflexivity. Qed.

Lemma count_all_list_cons c r : count_all_list (c :: r) = count_all c + count_all_list r.
Proof. reflexivity. Qed.

Lemma count_all_pos it : 1 <= count_all it.
Proof. destruct it. rewrite count_all_unfold. lia. Qed.

(** ids outside a block *)
Definition outside (lo n : N) (l : list rec) : Prop :=
  forall r, In r l -> r_id r < lo \/ lo + n <= r_id r.
Definition inside (lo n : N) (l : list rec) : Prop :=
  forall r, In r l -> lo <= r_id r /\ r_id r < lo + n.

Lemma outside_app lo n a b : outside lo n (a ++ b) <-> outside lo n a /\ outside lo n b.
Proof.
  unfold outside. split.
  - intros H. split; intros r Hr; apply H; apply in_or_app; auto.
  - intros [Ha Hb] r Hr. apply in_app_or in Hr. destruct Hr; auto.
Qed.

Lemma outside_sub lo n lo' n' l : outside lo n l -> lo <= lo' -> lo' + n' <= lo + n -> outside lo' n' l.
Proof. intros H H1 H2 r Hr. destruct (H r Hr); lia. Qed.

Lemma inside_outside lo n lo' n' l : inside lo n l -> (lo + n <= lo' \/ lo' + n' <= lo) -> outside lo' n' l.
Proof. intros H Hd r Hr. destruct (H r Hr). lia. Qed.

Lemma find_app_outside id pre l : (forall r, In r pre -> r_id r <> id) -> find id (pre ++ l) = find id l.
Proof.
  induction pre as [|r pre IH]; intros H; [reflexivity|].
  cbn [app find]. destruct (r_id r =? id) eqn:E.
  - apply N.eqb_eq in E. exfalso. apply (H r); [left; reflexivity | exact E].
  - apply IH. intros x Hx. apply H. right. exact Hx.
Qed.

Lemma oN_eqb_refl x : oN_eqb x x = true.
Proof. destruct x; cbn; [apply N.eqb_refl | reflexivity]. Qed.
Lemma oZ_eqb_refl x : oZ_eqb x x = true.
Proof. destruct x; cbn; [apply Z.eqb_refl | reflexivity]. Qed.

(** last offset of a non-empty sibling list *)
Lemma last_opt_cons a l : last_opt (a :: l) = match last_opt l with Some x => Some x | None => Some a end.
Proof.
  unfold last_opt. cbn [rev]. destruct (rev l) as [|x r] eqn:E; [reflexivity|]. reflexivity.
Qed.

Section Core.
  Variable base : N.
  Notation idat := (Model.idat base).

  (** what a correct block looks like *)
  Definition item_ok (it : item) : Prop :=
    forall id parent prev next idx pre post,
      base + idx = id + 1 ->
      outside id (count_all it) pre -> outside id (count_all it) post ->
      let res := write_item base it id parent prev next idx in
      snd res + 1 = idx + count_all it /\
      inside id (count_all it) (fst res) /\
      nav_item (pre ++ fst res ++ post) it id parent prev = Some next.

  (** the children chain, given every child is ok *)
  Lemma children_ok parent_id cs : Forall item_ok cs ->
    forall idx prev pre post,
      outside (idat idx) (count_all_list cs) pre -> outside (idat idx) (count_all_list cs) post ->
      let offs := sibling_offsets idx cs in
      let res :=
        write_children_with idat (fun c cid p n i => write_item base c cid parent_id p n i) cs offs prev idx in
      snd res = idx + count_all_list cs /\
      inside (idat idx) (count_all_list cs) (fst res) /\
      forall rs, rs = pre ++ fst res ++ post ->
        nav_list_with (fun c cid p => nav_item rs c cid parent_id p) cs (option_map idat (hd_error offs)) prev
        = Some (match last_opt offs with Some l => Some (idat l) | None => prev end).
  Proof.
    induction 1 as [|c r Hc Hr IH]; intros idx prev pre post Hpre Hpost.
    - cbn. split; [lia|]. split; [intros x []|]. intros rs _. reflexivity.
    - cbv zeta. cbn [sibling_offsets write_children_with hd_error tl option_map].
      rewrite count_all_list_cons in *.
      pose proof (count_all_pos c) as Hpos.
      (* the child's own block *)
      specialize (Hc (idat idx) parent_id prev
                     (option_map idat (hd_error (sibling_offsets (idx + count_all c) r))) (idx + 1)).
      destruct (write_item base c (idat idx) parent_id prev
                  (option_map idat (hd_error (sibling_offsets (idx + count_all c) r))) (idx + 1))
        as [recs1 idx1] eqn:E1. cbv zeta in Hc. cbn [fst snd] in Hc.
      (* the rest *)
      specialize (IH (idx + count_all c) (Some (idat idx))).
      assert (Hidx1 : idx1 = idx + count_all c).
      { specialize (Hc [] []). cbn [app] in Hc.
        destruct Hc as [Hc _]; [unfold Model.idat; lia | intros x [] | intros x [] |]. lia. }
      subst idx1. cbv zeta in IH.
      destruct (write_children_with idat (fun c0 cid p n i => write_item base c0 cid parent_id p n i) r
                  (sibling_offsets (idx + count_all c) r) (Some (idat idx)) (idx + count_all c))
        as [recs2 idx2] eqn:E2. cbv zeta in IH. cbn [fst snd] in IH. cbn [fst snd].
      assert (Hin1 : inside (idat idx) (count_all c) recs1).
      { specialize (Hc [] []). cbn [app] in Hc.
        destruct Hc as [_ [Hc _]]; [unfold Model.idat; lia | intros x [] | intros x [] |]. exact Hc. }
      assert (IH0 := IH [] []). cbn [app] in IH0.
      destruct IH0 as [Hidx2 [Hin2 _]]; [intros x [] | intros x [] |].
      split; [lia|]. split.
      { intros x Hx. apply in_app_or in Hx. destruct Hx as [Hx|Hx].
        - destruct (Hin1 x Hx). lia.
        - destruct (Hin2 x Hx). unfold Model.idat in *. lia. }
      intros rs Hrs. cbn [nav_list_with].
      (* child c sees its block *)
      assert (Hnavc : nav_item rs c (idat idx) parent_id prev
                      = Some (option_map idat (hd_error (sibling_offsets (idx + count_all c) r)))).
      { specialize (Hc pre (recs2 ++ post)).
        destruct Hc as [_ [_ Hc]].
        - unfold Model.idat. lia.
        - eapply outside_sub; [exact Hpre | lia | lia].
        - apply outside_app. split.
          + eapply inside_outside; [exact Hin2|]. right. unfold Model.idat. lia.
          + eapply outside_sub; [exact Hpost | lia | lia].
        - rewrite Hrs, <- app_assoc. exact Hc. }
      rewrite Hnavc.
      (* the remaining siblings see theirs *)
      destruct (IH (pre ++ recs1) post) as [_ [_ IHnav]].
      + apply outside_app. split.
        * eapply outside_sub; [exact Hpre | unfold Model.idat; lia | unfold Model.idat; lia].
        * eapply inside_outside; [exact Hin1|]. left. unfold Model.idat. lia.
      + eapply outside_sub; [exact Hpost | unfold Model.idat; lia | unfold Model.idat; lia].
      + rewrite (IHnav rs) by (rewrite Hrs, <- !app_assoc; reflexivity).
        rewrite last_opt_cons.
        destruct (last_opt (sibling_offsets (idx + count_all c) r)); reflexivity.
  Qed.

  Lemma all_items_ok it : item_ok it.
  Proof.
    induction it as [lbl o cs IHcs] using item_ind'.
    intros id parent prev next idx pre post Hid Hpre Hpost.
    cbv zeta. cbn [write_item].
    pose proof (children_ok id cs IHcs idx None) as Hch. cbv zeta in Hch.
    destruct (write_children_with idat (fun c cid p n i => write_item base c cid id p n i) cs
                (sibling_offsets idx cs) None idx) as [crecs idx'] eqn:E.
    cbv zeta in Hch. cbn [fst snd] in Hch. cbn [fst snd].
    rewrite count_all_unfold in *.
    assert (Hblk : idat idx = id + 1) by (unfold Model.idat; lia).
    destruct (Hch [] []) as [Hidx' [Hin _]]; [intros x [] | intros x [] |].
    split; [lia|]. split.
    { intros x [Hx|Hx].
      - subst x. cbn. lia.
      - destruct (Hin x Hx). lia. }
    set (r0 := {| r_id := id; r_label := lbl; r_parent := parent; r_prev := prev; r_next := next;
                  r_first := option_map idat (hd_error (sibling_offsets idx cs));
                  r_last := option_map idat (last_opt (sibling_offsets idx cs));
                  r_count := item_count (Item lbl o cs) |}).
    cbn [nav_item].
    assert (Hfind : find id (pre ++ (r0 :: crecs) ++ post) = Some r0).
    { rewrite find_app_outside.
      - cbn [app find r_id r0]. rewrite N.eqb_refl. reflexivity.
      - intros x Hx E0. destruct (Hpre x Hx); lia. }
    rewrite Hfind. cbn [r_label r_parent r_prev r_count r_first r_last r_next r0].
    rewrite !N.eqb_refl, oN_eqb_refl. unfold spec_count. rewrite oZ_eqb_refl. cbn [andb].
    destruct (Hch (pre ++ [r0]) post) as [_ [_ Hnav]].
    - rewrite Hblk. apply outside_app. split.
      + eapply outside_sub; [exact Hpre | lia | lia].
      + intros x [Hx|[]]. subst x. cbn. lia.
    - rewrite Hblk. eapply outside_sub; [exact Hpost | lia | lia].
    - rewrite (Hnav (pre ++ (r0 :: crecs) ++ post)).
      2:{ rewrite <- !app_assoc. reflexivity. }
      destruct (last_opt (sibling_offsets idx cs)); cbn [option_map]; rewrite oN_eqb_refl; reflexivity.
  Qed.
End Core.

(** * main theorem: for every forest the written outline is navigable as authored *)
Theorem written_outline_navigable root items :
  let '(first, last, count, recs) := write_tree root items in
  navigable root items first last count recs = true.
Proof.
  unfold write_tree.
  assert (Hall : Forall (item_ok (root + 1)) items).
  { apply Forall_forall. intros x _. apply all_items_ok. }
  pose proof (children_ok (root + 1) root items Hall 0 None [] []) as H. cbv zeta in H.
  destruct (write_children_with (idat (root + 1))
              (fun c cid p n i => write_item (root + 1) c cid root p n i) items
              (sibling_offsets 0 items) None 0) as [recs idx'].
  cbv zeta in H. cbn [fst snd] in H.
  destruct H as [_ [_ Hnav]]; [intros x [] | intros x [] |].
  unfold navigable. rewrite (Hnav recs) by (cbn [app]; rewrite app_nil_r; reflexivity).
  destruct (last_opt (sibling_offsets 0 items)); cbn [option_map]; rewrite oN_eqb_refl, Z.eqb_refl; reflexivity.
Qed.

(** every written dictionary has a distinct id inside the reserved block *)
Theorem written_ids_in_block root items :
  let '(_, _, _, recs) := write_tree root items in
  forall r, In r recs -> root + 1 <= r_id r /\ r_id r < root + 1 + count_all_list items.
Proof.
  unfold write_tree.
  assert (Hall : Forall (item_ok (root + 1)) items).
  { apply Forall_forall. intros x _. apply all_items_ok. }
  pose proof (children_ok (root + 1) root items Hall 0 None [] []) as H. cbv zeta in H.
  destruct (write_children_with (idat (root + 1))
              (fun c cid p n i => write_item (root + 1) c cid root p n i) items
              (sibling_offsets 0 items) None 0) as [recs idx'].
  cbv zeta in H. cbn [fst snd] in H.
  destruct H as [_ [Hin _]]; [intros x [] | intros x [] |].
  intros r Hr. destruct (Hin r Hr) as [H1 H2]. unfold idat in *. lia.
Qed.

(** Table 153 /Count: sign convention and magnitude *)
Theorem count_sign_convention lbl o c cs :
  item_count (Item lbl o (c :: cs)) =
  Some (if o then Z.of_N (count_visible_list (c :: cs)) else (- Z.of_N (count_visible_list (c :: cs)))%Z).
Proof. destruct o; reflexivity. Qed.

Theorem count_absent_without_children lbl o : item_count (Item lbl o []) = None.
Proof. destruct o; reflexivity. Qed.

(** the pinned (pre-fix) sibling-link computation, for the record: ids taken as if siblings
    were contiguous.  With a non-last sibling that has children, /Next of the first root item
    names its own child. *)
Definition pinned_next_of_first_root (root : N) (items : list item) : option N :=
  match items with _ :: _ :: _ => Some (root + 1 + 1) | _ => None end.

Theorem pinned_links_refuted : exists root items,
  let '(_, _, _, recs) := write_tree root items in
  match find (root + 1) recs with
  | Some r => r_next r <> pinned_next_of_first_root root items
  | None => False
  end.
Proof.
  exists 10, [Item 1 true [Item 2 true []]; Item 3 true []].
  vm_compute. discriminate.
Qed.

(** * Destinations: the writer's page-number translation (fix_dest_page_reference) *)
From Coq Require Import Lia.

Lemma index_of_nth : forall ids n id, NoDup ids -> nth_error ids n = Some id ->
  index_of id ids = Some (N.of_nat n).
Proof.
  induction ids as [|x r IH]; intros n id Hnd Hn.
  - destruct n; discriminate.
  - inversion Hnd as [|? ? Hnotin Hnd']; subst. destruct n as [|m]; cbn [nth_error] in Hn.
    + injection Hn as ->. cbn [index_of]. rewrite N.eqb_refl. reflexivity.
    + cbn [index_of]. destruct (x =? id) eqn:E.
      * apply N.eqb_eq in E. subst. exfalso. apply Hnotin. eapply nth_error_In. exact Hn.
      * rewrite (IH m id Hnd' Hn). cbn [option_map]. f_equal. lia.
Qed.

(** FIXED code: a destination authored by page number p of the document is written as a
    reference that resolves to page p (page object ids are pairwise distinct) *)
Theorem page_number_dest_resolves : forall page_ids p,
  NoDup page_ids -> (N.to_nat p < length page_ids)%nat ->
  dest_resolves (Some p) (written_page_number page_ids p) = true.
Proof.
  intros ids p Hnd Hlt. unfold written_page_number, resolve_destination_page.
  replace (Z.of_N p <? 0)%Z with false by (symmetry; apply Z.ltb_ge; lia).
  replace (Z.to_nat (Z.of_N p)) with (N.to_nat p) by lia.
  destruct (nth_error ids (N.to_nat p)) as [id|] eqn:E.
  - cbn [read_target]. rewrite (index_of_nth ids _ id Hnd E). cbn [dest_resolves].
    rewrite N2Nat.id. apply N.eqb_refl.
  - apply nth_error_None in E. lia.
Qed.

(** a number that names no page of the document is left as authored *)
Theorem page_number_out_of_range_untouched : forall page_ids p,
  (length page_ids <= N.to_nat p)%nat ->
  resolve_destination_page page_ids (OInt (Z.of_N p)) = OInt (Z.of_N p).
Proof.
  intros ids p H. unfold resolve_destination_page.
  replace (Z.of_N p <? 0)%Z with false by (symmetry; apply Z.ltb_ge; lia).
  replace (Z.to_nat (Z.of_N p)) with (N.to_nat p) by lia.
  apply nth_error_None in H. rewrite H. reflexivity.
Qed.

Theorem negative_and_refs_untouched : forall page_ids,
  (forall n, (n < 0)%Z -> resolve_destination_page page_ids (OInt n) = OInt n)
  /\ (forall id, resolve_destination_page page_ids (ORef id) = ORef id)
  /\ resolve_destination_page page_ids OOther = OOther.
Proof.
  intro ids. repeat split. intros n Hn. unfold resolve_destination_page.
  replace (n <? 0)%Z with true by (symmetry; apply Z.ltb_lt; exact Hn). reflexivity.
Qed.

(** record of the PINNED behaviour (known finding C28-dest-bare-page-number, fixed): without the
    translation no destination authored by page number resolves *)
Theorem pinned_page_number_dest_unresolved : forall page_ids p,
  dest_resolves (Some p) (written_page_number_pinned page_ids p) = false.
Proof. reflexivity. Qed.

Example page_number_dest_nonvacuous :
  NoDup [4; 9; 14] /\ (N.to_nat 2 < length [4; 9; 14])%nat
  /\ written_page_number [4; 9; 14] 2 = WRef (Some 2)
  /\ written_page_number [4; 9; 14] 3 = WInt 3.
Proof.
  split; [repeat constructor; cbn; intuition discriminate|].
  split; [cbn; lia|]. split; vm_compute; reflexivity.
Qed.
