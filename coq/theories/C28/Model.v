(** C28 — outlines: code-shaped model of [write_outline_tree] / [write_outline_item]
    (writer/pdf_writer/mod.rs) and [outline_item_to_dict] (structure/outline.rs): object-id
    reservation, recursive emission, sibling links, /Count; and the §12.3.3 navigability
    specification as an executable checker over the emitted dictionaries. *)
From OxVerif Require Import Base.Util.
Open Scope N_scope.

(** an authored outline item: a label standing for title+destination, the open flag, children *)
Inductive item := Item (label : N) (open : bool) (children : list item).

Definition label_of (i : item) := match i with Item l _ _ => l end.
Definition open_of (i : item) := match i with Item _ o _ => o end.
Definition children_of (i : item) := match i with Item _ _ c => c end.

(** [OutlineItem::count_all], [count_visible] *)
Fixpoint count_all (i : item) : N :=
  match i with Item _ _ cs => 1 + fold_right (fun c a => count_all c + a) 0 cs end.
Fixpoint count_visible (i : item) : N :=
  match i with
  | Item _ o cs => 1 + (if o then fold_right (fun c a => count_visible c + a) 0 cs else 0)
  end.
Definition count_all_list (cs : list item) : N := fold_right (fun c a => count_all c + a) 0 cs.
Definition count_visible_list (cs : list item) : N := fold_right (fun c a => count_visible c + a) 0 cs.

(** one emitted outline-item dictionary *)
Record rec := {
  r_id : N; r_label : N; r_parent : N;
  r_prev : option N; r_next : option N;
  r_first : option N; r_last : option N;
  r_count : option Z   (* /Count, absent for items without children *)
}.

(** /Count of [outline_item_to_dict]: open -> visible descendants; closed -> minus the
    descendants that become visible when the item is opened *)
Definition item_count (i : item) : option Z :=
  match i with
  | Item _ _ [] => None
  | Item _ true cs => Some (Z.of_N (count_visible_list cs))
  | Item _ false cs => Some (- Z.of_N (count_visible_list cs))%Z
  end.

(** Reserved ids are consecutive: [all_ids[k] = base + k].  The recursion threads [id_index]
    exactly as the code does; sibling links are taken from the running offsets (start of each
    sibling's block = previous start + its subtree size). *)
Fixpoint sibling_offsets (start : N) (cs : list item) : list N :=
  match cs with
  | [] => []
  | c :: r => start :: sibling_offsets (start + count_all c) r
  end.

Definition nth_opt (l : list N) (i : nat) : option N := nth_error l i.

Section Emit.
  Variable base : N.    (* all_ids[0] *)
  Definition idat (k : N) : N := base + k.

  (** returns the records (pre-order) and the new id_index *)
  Fixpoint write_item (it : item) (item_id parent : N) (prev next : option N) (idx : N) {struct it}
    : list rec * N :=
    match it with
    | Item lbl o cs =>
        let offs := sibling_offsets idx cs in
        let first := match offs with [] => None | f :: _ => Some (idat f) end in
        let last := match rev offs with [] => None | l :: _ => Some (idat l) end in
        let fix write_children (cs : list item) (i : nat) (idx : N) {struct cs} : list rec * N :=
          match cs with
          | [] => ([], idx)
          | c :: r =>
              let child_id := idat idx in
              let cprev := match i with O => None | S j => option_map idat (nth_opt offs j) end in
              let cnext := option_map idat (nth_opt offs (S i)) in
              let '(recs1, idx1) := write_item c child_id item_id cprev cnext (idx + 1) in
              let '(recs2, idx2) := write_children r (S i) idx1 in
              (recs1 ++ recs2, idx2)
          end in
        let '(crecs, idx') := write_children cs O idx in
        ({| r_id := item_id; r_label := lbl; r_parent := parent; r_prev := prev; r_next := next;
            r_first := first; r_last := last; r_count := item_count it |} :: crecs, idx')
    end.
End Emit.

(** root: (first, last, count) of the /Outlines dictionary and all item records.
    The root gets id [root]; item ids are [root+1 ...]. *)
Definition write_tree (root : N) (items : list item) : option N * option N * Z * list rec :=
  let base := root + 1 in
  let offs := sibling_offsets 0 items in
  let first := match offs with [] => None | f :: _ => Some (base + f) end in
  let last := match rev offs with [] => None | l :: _ => Some (base + l) end in
  let fix go (cs : list item) (i : nat) (idx : N) {struct cs} : list rec :=
    match cs with
    | [] => []
    | c :: r =>
        let item_id := base + idx in
        let prev := match i with O => None | S j => option_map (N.add base) (nth_opt offs j) end in
        let next := option_map (N.add base) (nth_opt offs (S i)) in
        let '(recs, idx1) := write_item base c item_id root prev next (idx + 1) in
        recs ++ go r (S i) idx1
    end in
  (first, last, Z.of_N (count_visible_list items), go items O 0).

(** * §12.3.3 navigability, as a checker over emitted dictionaries *)
Fixpoint find (id : N) (rs : list rec) : option rec :=
  match rs with
  | [] => None
  | r :: t => if r_id r =? id then Some r else find id t
  end.

Definition oN_eqb := option_eqb N.eqb.
Definition oZ_eqb := option_eqb Z.eqb.

(** Table 153 /Count: open -> number of visible descendants; closed -> minus the number of
    descendants visible if the item were opened; no children -> absent *)
Definition spec_count (it : item) : option Z := item_count it.

(** walking /First and /Next from [cur] reproduces the authored sibling list [cs] whose
    parent is [parent]; [prev] is the id /Prev must name; returns the id of the last item *)
Fixpoint nav_item (rs : list rec) (it : item) (id parent : N) (prev : option N) {struct it} : option (option N) :=
  (* returns Some next_link when the item at [id] is consistent with [it] *)
  match it with
  | Item lbl o cs =>
      match find id rs with
      | None => None
      | Some r =>
          let fix nav_list (cs : list item) (cur : option N) (prev : option N) {struct cs} : option (option N) :=
            (* returns Some last_id when the chain starting at cur matches cs *)
            match cs, cur with
            | [], None => Some prev
            | [], Some _ => None
            | _ :: _, None => None
            | c :: t, Some cid =>
                match nav_item rs c cid id prev with
                | None => None
                | Some nxt => nav_list t nxt (Some cid)
                end
            end in
          if (r_label r =? lbl) && (r_parent r =? parent) && oN_eqb (r_prev r) prev
             && oZ_eqb (r_count r) (spec_count it)
          then
            match nav_list cs (r_first r) None with
            | Some lst => if oN_eqb (r_last r) lst then Some (r_next r) else None
            | None => None
            end
          else None
      end
  end.

Fixpoint nav_list_top (rs : list rec) (root : N) (cs : list item) (cur prev : option N) : option (option N) :=
  match cs, cur with
  | [], None => Some prev
  | [], Some _ => None
  | _ :: _, None => None
  | c :: t, Some cid =>
      match nav_item rs c cid root prev with
      | None => None
      | Some nxt => nav_list_top rs root t nxt (Some cid)
      end
  end.

(** the whole outline is navigable as authored *)
Definition navigable (root : N) (items : list item) (first last : option N) (count : Z) (rs : list rec) : bool :=
  match nav_list_top rs root items first None with
  | Some lst => oN_eqb last lst && (count =? Z.of_N (count_visible_list items))%Z
  | None => false
  end.

(** * correspondence case *)
Definition rec_eqb (a b : rec) : bool :=
  (r_id a =? r_id b) && (r_label a =? r_label b) && (r_parent a =? r_parent b)
  && oN_eqb (r_prev a) (r_prev b) && oN_eqb (r_next a) (r_next b)
  && oN_eqb (r_first a) (r_first b) && oN_eqb (r_last a) (r_last b) && oZ_eqb (r_count a) (r_count b).

Fixpoint insert_rec (x : rec) (l : list rec) : list rec :=
  match l with
  | [] => [x]
  | y :: t => if r_id x <=? r_id y then x :: l else y :: insert_rec x t
  end.
Definition sort_recs (l : list rec) := fold_right insert_rec [] l.

(** case: authored forest, root id the implementation used, root First/Last/Count, item records.
    bit 1: differs from the model's emission; bit 2: not navigable as authored *)
Definition outline_code (c : list item * N * option N * option N * Z * list rec) : N :=
  let '(items, root, first, last, count, rs) := c in
  let '(mf, ml, mc, mrs) := write_tree root items in
  code_of (oN_eqb mf first && oN_eqb ml last && (mc =? count)%Z && list_eqb rec_eqb (sort_recs mrs) (sort_recs rs))
          (navigable root items first last count rs).
