(** C28 — outlines: code-shaped model of [write_outline_tree] / [write_outline_item]
    (writer/pdf_writer/mod.rs) and [outline_item_to_dict] (structure/outline.rs): object-id
    reservation, recursive emission, sibling links, /Count; and the §12.3.3 navigability
    specification as an executable checker over the emitted dictionaries. *)
From OxVerif Require Import Base.Util.
Open Scope N_scope.

(** an authored outline item: a label standing for title+destination, the open flag, children *)
Inductive item := Item (label : N) (open : bool) (children : list item).

Definition label_of (i : item) := match i with Item l _ _ => l end.
Definition open_of (i : item) := match i with Item _ o _ => o end.
Definition children_of (i : item) := match i with Item _ _ c => c end.

(** [OutlineItem::count_all], [count_visible] *)
Fixpoint count_all (i : item) : N :=
  match i with Item _ _ cs => 1 + fold_right (fun c a => count_all c + a) 0 cs end.
Fixpoint count_visible (i : item) : N :=
  match i with
  | Item _ o cs => 1 + (if o then fold_right (fun c a => count_visible c + a) 0 cs else 0)
  end.
Definition count_all_list (cs : list item) : N := fold_right (fun c a => count_all c + a) 0 cs.
Definition count_visible_list (cs : list item) : N := fold_right (fun c a => count_visible c + a) 0 cs.

(** one emitted outline-item dictionary *)
Record rec := {
  r_id : N; r_label : N; r_parent : N;
  r_prev : option N; r_next : option N;
  r_first : option N; r_last : option N;
  r_count : option Z   (* /Count, absent for items without children *)
}.

(** /Count of [outline_item_to_dict]: open -> visible descendants; closed -> minus the
    descendants that become visible when the item is opened *)
Definition item_count (i : item) : option Z :=
  match i with
  | Item _ _ [] => None
  | Item _ true cs => Some (Z.of_N (count_visible_list cs))
  | Item _ false cs => Some (- Z.of_N (count_visible_list cs))%Z
  end.

(** Reserved ids are consecutive: [all_ids[k] = base + k].  The recursion threads [id_index]
    exactly as the code does; sibling links are taken from the running offsets (start of each
    sibling's block = previous start + its subtree size). *)
Fixpoint sibling_offsets (start : N) (cs : list item) : list N :=
  match cs with
  | [] => []
  | c :: r => start :: sibling_offsets (start + count_all c) r
  end.

(** children of one parent: [offs] is the remaining tail of the parent's child_offsets, [prev]
    the id link handed to the next child, [idx] the running id_index.  The child's own id comes
    from the running [idx] (as in the code); the links come from the offsets. *)
Section WriteChildren.
  Variable idat : N -> N.
  Variable W : item -> N -> option N -> option N -> N -> list rec * N.
  Fixpoint write_children_with (cs : list item) (offs : list N) (prev : option N) (idx : N) {struct cs}
    : list rec * N :=
    match cs with
    | [] => ([], idx)
    | c :: r =>
        let child_id := idat idx in
        let cnext := option_map idat (hd_error (tl offs)) in
        let '(recs1, idx1) := W c child_id prev cnext (idx + 1) in
        let '(recs2, idx2) := write_children_with r (tl offs) (option_map idat (hd_error offs)) idx1 in
        (recs1 ++ recs2, idx2)
    end.
End WriteChildren.

Definition last_opt (l : list N) : option N := match rev l with [] => None | x :: _ => Some x end.

Section Emit.
  Variable base : N.    (* all_ids[0] *)
  Definition idat (k : N) : N := base + k.

  (** returns the records (pre-order) and the new id_index *)
  Fixpoint write_item (it : item) (item_id parent : N) (prev next : option N) (idx : N) {struct it}
    : list rec * N :=
    match it with
    | Item lbl o cs =>
        let offs := sibling_offsets idx cs in
        let first := option_map idat (hd_error offs) in
        let last := option_map idat (last_opt offs) in
        let '(crecs, idx') :=
          write_children_with idat (fun c cid p n i => write_item c cid item_id p n i) cs offs None idx in
        ({| r_id := item_id; r_label := lbl; r_parent := parent; r_prev := prev; r_next := next;
            r_first := first; r_last := last; r_count := item_count it |} :: crecs, idx')
    end.
End Emit.

(** root: (first, last, count) of the /Outlines dictionary and all item records.
    The root gets id [root]; reserved item ids are [root+1 ...]. *)
Definition write_tree (root : N) (items : list item) : option N * option N * Z * list rec :=
  let base := root + 1 in
  let offs := sibling_offsets 0 items in
  let '(recs, _) :=
    write_children_with (idat base) (fun c cid p n i => write_item base c cid root p n i) items offs None 0 in
  (option_map (idat base) (hd_error offs), option_map (idat base) (last_opt offs),
   Z.of_N (count_visible_list items), recs).

(** * §12.3.3 navigability, as a checker over emitted dictionaries *)
Fixpoint find (id : N) (rs : list rec) : option rec :=
  match rs with
  | [] => None
  | r :: t => if r_id r =? id then Some r else find id t
  end.

Definition oN_eqb := option_eqb N.eqb.
Definition oZ_eqb := option_eqb Z.eqb.

(** Table 153 /Count: open -> number of visible descendants; closed -> minus the number of
    descendants visible if the item were opened; no children -> absent *)
Definition spec_count (it : item) : option Z := item_count it.

(** walking /Next from [cur] reproduces the authored sibling list [cs]; [prev] is the id /Prev of
    the next item must name; returns the id of the last item of the chain ([prev] when empty) *)
Section NavList.
  Variable nav : item -> N -> option N -> option (option N).
  Fixpoint nav_list_with (cs : list item) (cur prev : option N) {struct cs} : option (option N) :=
    match cs, cur with
    | [], None => Some prev
    | [], Some _ => None
    | _ :: _, None => None
    | c :: t, Some cid =>
        match nav c cid prev with
        | None => None
        | Some nxt => nav_list_with t nxt (Some cid)
        end
    end.
End NavList.

(** [nav_item rs it id parent prev = Some nx]: the dictionary [id] carries the authored label, names
    [parent] as /Parent and [prev] as /Prev, has the Table-153 /Count, its /First.../Next chain
    reproduces the authored children with consistent /Prev and /Parent, /Last names the last child;
    [nx] is its /Next link *)
Fixpoint nav_item (rs : list rec) (it : item) (id parent : N) (prev : option N) {struct it} : option (option N) :=
  match it with
  | Item lbl o cs =>
      match find id rs with
      | None => None
      | Some r =>
          if (r_label r =? lbl) && (r_parent r =? parent) && oN_eqb (r_prev r) prev
             && oZ_eqb (r_count r) (spec_count it)
          then
            match nav_list_with (fun c cid p => nav_item rs c cid id p) cs (r_first r) None with
            | Some lst => if oN_eqb (r_last r) lst then Some (r_next r) else None
            | None => None
            end
          else None
      end
  end.

(** the whole outline is navigable as authored *)
Definition navigable (root : N) (items : list item) (first last : option N) (count : Z) (rs : list rec) : bool :=
  match nav_list_with (fun c cid p => nav_item rs c cid root p) items first None with
  | Some lst => oN_eqb last lst && (count =? Z.of_N (count_visible_list items))%Z
  | None => false
  end.

(** * correspondence case *)
Definition rec_eqb (a b : rec) : bool :=
  (r_id a =? r_id b) && (r_label a =? r_label b) && (r_parent a =? r_parent b)
  && oN_eqb (r_prev a) (r_prev b) && oN_eqb (r_next a) (r_next b)
  && oN_eqb (r_first a) (r_first b) && oN_eqb (r_last a) (r_last b) && oZ_eqb (r_count a) (r_count b).

Fixpoint insert_rec (x : rec) (l : list rec) : list rec :=
  match l with
  | [] => [x]
  | y :: t => if r_id x <=? r_id y then x :: l else y :: insert_rec x t
  end.
Definition sort_recs (l : list rec) := fold_right insert_rec [] l.

(** case: authored forest, root id the implementation used, root First/Last/Count, item records.
    bit 1: differs from the model's emission; bit 2: not navigable as authored *)
Definition outline_code (c : list item * N * option N * option N * Z * list rec) : N :=
  let '(items, root, first, last, count, rs) := c in
  let '(mf, ml, mc, mrs) := write_tree root items in
  code_of (oN_eqb mf first && oN_eqb ml last && (mc =? count)%Z && list_eqb rec_eqb (sort_recs mrs) (sort_recs rs))
          (navigable root items first last count rs).

(** * destinations: every item resolves to the authored page (12.3.2.2: the first element of an
    explicit destination is an indirect reference to the page object) *)
Inductive wdest := WNone | WInt (n : Z) | WRef (page_index : option N) | WOther.

Definition dest_resolves (authored : option N) (w : wdest) : bool :=
  match authored, w with
  | None, WNone => true
  | Some p, WRef (Some q) => p =? q
  | _, _ => false
  end.

(** the PINNED (pre-fix) deviation, kept as a diagnostic only: the authored 0-based page number
    written as a bare integer.  Known finding C28-dest-bare-page-number is fixed by
    fix_dest_page_reference, so it no longer excuses anything: every unresolved destination is bit 2. *)
Definition dest_is_bare_page_number (authored : option N) (w : wdest) : bool :=
  match authored, w with
  | Some p, WInt n => (n =? Z.of_N p)%Z
  | _, _ => false
  end.

Definition dest_code (c : list (N * option N * wdest)) : N :=
  let bad := filter (fun '(_, a, w) => negb (dest_resolves a w)) c in
  match bad with
  | [] => 0
  | _ => 2
  end.

(** * the writer's translation (fix_dest_page_reference, [PdfWriter::resolve_destination_page]).
    [Destination::to_array] serialises [PageDestination::PageNumber n] as [Integer n] and
    [PageRef id] as [Reference id]; when the outline /Dest arrays and the leaves of the /Dests name
    tree are emitted, a leading [Integer n] with [0 <= n < page_ids.len()] is replaced by
    [Reference page_ids[n]]; anything else is left as authored. *)
Inductive wobj := OInt (n : Z) | ORef (id : N) | OOther.

Definition resolve_destination_page (page_ids : list N) (o : wobj) : wobj :=
  match o with
  | OInt n =>
      if (n <? 0)%Z then OInt n                                   (* usize::try_from(n) fails *)
      else match nth_error page_ids (Z.to_nat n) with             (* self.page_ids.get(index) *)
           | Some id => ORef id
           | None => OInt n
           end
  | _ => o
  end.

Fixpoint index_of (id : N) (l : list N) : option N :=
  match l with
  | [] => None
  | x :: r => if x =? id then Some 0 else option_map N.succ (index_of id r)
  end.

(** how the written first element is read back (harness: position of the referenced object
    among the page objects of the re-opened file) *)
Definition read_target (page_ids : list N) (o : wobj) : wdest :=
  match o with
  | OInt n => WInt n
  | ORef id => WRef (index_of id page_ids)
  | OOther => WOther
  end.

Definition written_page_number (page_ids : list N) (p : N) : wdest :=
  read_target page_ids (resolve_destination_page page_ids (OInt (Z.of_N p))).
(** the pre-fix writer: no translation *)
Definition written_page_number_pinned (page_ids : list N) (p : N) : wdest :=
  read_target page_ids (OInt (Z.of_N p)).

(** * named destinations: every authored name resolves to the authored page, in EVERY written copy
    of the document (a document may be serialized more than once) *)
Fixpoint assocw (n : bytes) (l : list (bytes * wdest)) : option wdest :=
  match l with
  | [] => None
  | (k, w) :: r => if bytes_eqb k n then Some w else assocw n r
  end.

(** 0 resolves; 1 present but the pinned bare-page-number deviation (diagnostic; a violation since the fix);
    2 anything else (missing, wrong page) *)
Definition name_status (found : list (bytes * wdest)) (a : bytes * N) : N :=
  match assocw (fst a) found with
  | Some w => if dest_resolves (Some (snd a)) w then 0
              else if dest_is_bare_page_number (Some (snd a)) w then 1 else 2
  | None => 2
  end.

Definition names_code (c : list (bytes * N) * list (list (bytes * wdest))) : N :=
  let '(auth, copies) := c in
  let sts := flat_map (fun found => List.map (name_status found) auth) copies in
  if existsb (N.eqb 2) sts then 2
  else if existsb (N.eqb 1) sts then 2
  else 0.
