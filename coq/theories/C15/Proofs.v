(** C15 — proofs about the model in Model.v *)
From OxVerif Require Import Base.Util C15.Model.
From Coq Require Import Sorting.Sorted Lia.

(** * 1. heading paths: the stack walk computes the declarative breadcrumb *)

Lemma forallb_app' {A} (f : A -> bool) l1 l2 : forallb f (l1 ++ l2) = forallb f l1 && forallb f l2.
Proof. induction l1; cbn; [reflexivity|]. rewrite IHl1, andb_assoc. reflexivity. Qed.

Lemma gov_snoc ts x : gov (ts ++ [x]) = retain_lt (fst x) (gov ts) ++ [x].
Proof.
  induction ts as [|t r IH]; cbn [app gov].
  - reflexivity.
  - rewrite forallb_app'. cbn [forallb]. rewrite andb_true_r.
    destruct (forallb (fun t' => fst t <? fst t') r) eqn:E; cbn [andb].
    + destruct (fst t <? fst x) eqn:L.
      * rewrite IH. unfold retain_lt. cbn [filter]. rewrite L. reflexivity.
      * rewrite IH. unfold retain_lt. cbn [filter]. rewrite L. reflexivity.
    + exact IH.
Qed.

Definition titles (lev : elem -> N) (l : list elem) : list (N * text) :=
  map (fun e => (lev e, etext e)) (filter is_title l).

Lemma titles_app lev a b : titles lev (a ++ b) = titles lev a ++ titles lev b.
Proof. unfold titles. rewrite filter_app, map_app. reflexivity. Qed.

Lemma titles_one lev e : titles lev [e] = if is_title e then [(lev e, etext e)] else [].
Proof. unfold titles. cbn. destruct (is_title e); reflexivity. Qed.

Lemma step_gov lev pre e : step lev (gov (titles lev pre)) e = gov (titles lev (pre ++ [e])).
Proof.
  unfold step. rewrite titles_app, titles_one.
  destruct (is_title e).
  - rewrite gov_snoc. reflexivity.
  - rewrite app_nil_r. reflexivity.
Qed.

Lemma walk_gov lev : forall es pre i, (i < length es)%nat ->
  nth_error (walk lev (gov (titles lev pre)) es) i
  = Some (map snd (gov (titles lev (pre ++ firstn (S i) es)))).
Proof.
  induction es as [|e r IH]; intros pre i Hi; [cbn in Hi; lia|].
  cbn [walk]. rewrite step_gov. destruct i as [|i].
  - cbn [nth_error firstn]. reflexivity.
  - cbn [nth_error]. rewrite IH by (cbn in Hi; lia).
    change (firstn (S (S i)) (e :: r)) with (e :: firstn (S i) r).
    rewrite <- app_assoc. reflexivity.
Qed.

(** for every level function (in particular the bucket ranks of the code) *)
Theorem walk_is_governing lev es i : (i < length es)%nat ->
  nth_error (walk lev [] es) i = Some (governing lev es i).
Proof.
  intro Hi. exact (walk_gov lev es [] i Hi).
Qed.

Theorem heading_path_is_governing es i : (i < length es)%nat ->
  nth_error (assign es) i = Some (governing (lev_of es) es i).
Proof. apply walk_is_governing. Qed.

Lemma walk_length lev : forall es st, length (walk lev st es) = length es.
Proof. induction es; intros; cbn; [reflexivity|]. rewrite IHes. reflexivity. Qed.

Lemma nth_error_ext {A} : forall (a b : list A), (forall i, nth_error a i = nth_error b i) -> a = b.
Proof.
  induction a as [|x a IH]; destruct b as [|y b]; intro H; try reflexivity.
  - specialize (H 0%nat). discriminate.
  - specialize (H 0%nat). discriminate.
  - pose proof (H 0%nat) as H0. cbn in H0. injection H0 as ->. f_equal.
    apply IH. intro i. exact (H (S i)).
Qed.

Lemma nth_error_map_seq {A} (f : nat -> A) : forall n s i, (i < n)%nat ->
  nth_error (map f (seq s n)) i = Some (f (s + i)%nat).
Proof.
  induction n; intros s i Hi; [lia|]. cbn [seq map]. destruct i.
  - cbn. rewrite Nat.add_0_r. reflexivity.
  - cbn [nth_error]. rewrite IHn by lia. f_equal. f_equal. lia.
Qed.

Theorem assign_is_governing_all es : assign es = governing_all es.
Proof.
  apply nth_error_ext. intro i. unfold governing_all.
  destruct (Nat.lt_ge_cases i (length es)) as [Hi|Hi].
  - rewrite heading_path_is_governing by exact Hi.
    rewrite nth_error_map_seq by exact Hi. reflexivity.
  - rewrite (proj2 (nth_error_None _ _)) by (unfold assign; rewrite walk_length; exact Hi).
    symmetry. apply nth_error_None. rewrite map_length, seq_length. exact Hi.
Qed.

(** corollaries about the declarative breadcrumb itself *)
Lemma gov_incl ts t : In t (gov ts) -> In t ts.
Proof.
  induction ts as [|a r IH]; cbn; [tauto|].
  destruct (forallb _ r); cbn; intuition.
Qed.

(** levels strictly increase from root to leaf *)
Lemma gov_levels_increasing ts : StronglySorted (fun a b => fst a < fst b) (gov ts).
Proof.
  induction ts as [|a r IH]; cbn; [constructor|].
  destruct (forallb (fun t' => fst a <? fst t') r) eqn:E; [|exact IH].
  constructor; [exact IH|]. apply Forall_forall. intros x Hx.
  apply gov_incl in Hx. rewrite forallb_forall in E. apply N.ltb_lt. exact (E x Hx).
Qed.

(** the leaf of the breadcrumb is the latest title *)
Lemma gov_last ts x : last_opt (gov (ts ++ [x])) = Some x.
Proof. rewrite gov_snoc. unfold last_opt. rewrite rev_app_distr. reflexivity. Qed.

(** * 2. page sets *)
Lemma memb_In x l : memb x l = true <-> In x l.
Proof.
  unfold memb. rewrite existsb_exists. split.
  - intros [y [Hy E]]. apply N.eqb_eq in E. subst. exact Hy.
  - intro H. exists x. split; [exact H | apply N.eqb_refl].
Qed.

Lemma insert_asc_In x l p : In p (insert_asc x l) <-> p = x \/ In p l.
Proof.
  induction l as [|y r IH]; cbn.
  - intuition.
  - destruct (x <? y); cbn; [intuition|]. rewrite IH. intuition.
Qed.

Lemma sort_asc_In l p : In p (sort_asc l) <-> In p l.
Proof.
  induction l as [|y r IH]; cbn; [tauto|].
  rewrite insert_asc_In, IH. intuition.
Qed.

Lemma insert_asc_sorted x l : Sorted N.lt l -> ~ In x l -> Sorted N.lt (insert_asc x l).
Proof.
  induction l as [|y r IH]; intros Hs Hn; cbn.
  - repeat constructor.
  - destruct (x <? y) eqn:E.
    + constructor; [exact Hs|]. constructor. apply N.ltb_lt. exact E.
    + apply N.ltb_ge in E. assert (y < x) by (cbn in Hn; lia).
      inversion Hs as [|? ? Hs' Hd]; subst. constructor.
      * apply IH; [exact Hs' | cbn in Hn; tauto].
      * destruct r as [|z r']; cbn.
        -- constructor. exact H.
        -- destruct (x <? z); constructor; [exact H|]. inversion Hd; assumption.
Qed.

Lemma sort_asc_sorted l : NoDup l -> Sorted N.lt (sort_asc l).
Proof.
  induction 1 as [|x l Hn Hd IH]; cbn; [constructor|].
  apply insert_asc_sorted; [exact IH|]. rewrite sort_asc_In. exact Hn.
Qed.

Lemma dedup_first_spec : forall l seen,
  NoDup (dedup_first seen l) /\ forall p, In p (dedup_first seen l) <-> In p l /\ ~ In p seen.
Proof.
  induction l as [|x r IH]; intro seen; cbn.
  - split; [constructor | tauto].
  - destruct (memb x seen) eqn:E.
    + destruct (IH seen) as [Hd Hi]. split; [exact Hd|]. intro p. rewrite Hi.
      apply memb_In in E. split; [tauto|]. intros [[->|H] Hn]; tauto.
    + assert (~ In x seen) as Hx by (rewrite <- memb_In, E; discriminate).
      destruct (IH (x :: seen)) as [Hd Hi]. split.
      * constructor; [|exact Hd]. rewrite Hi. cbn. tauto.
      * intro p. cbn. rewrite Hi. cbn. split.
        -- intros [<-|[H1 H2]]; tauto.
        -- intros [[<-|H1] H2]; [tauto|]. destruct (N.eq_dec x p); [tauto|]. right. tauto.
Qed.

Lemma sorted_strictly_asc l : Sorted N.lt l -> strictly_asc l = true.
Proof.
  induction 1 as [|x r Hs IH Hd]; [reflexivity|].
  destruct r as [|y r']; [reflexivity|].
  change (strictly_asc (x :: y :: r')) with ((x <? y) && strictly_asc (y :: r')).
  rewrite IH. inversion Hd; subst. rewrite (proj2 (N.ltb_lt _ _)) by assumption. reflexivity.
Qed.

(** the page list of a chunk is strictly ascending (hence duplicate-free) and contains
    exactly the pages of the chunk's elements *)
Theorem pages_exact ps :
  Sorted N.lt (collect_pages ps) /\ forall p, In p (collect_pages ps) <-> In p ps.
Proof.
  unfold collect_pages. destruct ps as [|f r]; [split; [constructor | tauto]|].
  destruct (forallb (N.eqb f) (f :: r)) eqn:E.
  - split; [repeat constructor|]. intro p. rewrite forallb_forall in E. split.
    + intros [<-|[]]. left. reflexivity.
    + intro H. left. apply E in H. apply N.eqb_eq in H. exact H.
  - destruct (dedup_first_spec (f :: r) []) as [Hd Hi]. split.
    + apply sort_asc_sorted. exact Hd.
    + intro p. rewrite sort_asc_In, Hi. cbn. tauto.
Qed.

Theorem pages_ok_collect ps : pages_ok ps (collect_pages ps) = true.
Proof.
  destruct (pages_exact ps) as [Hs Hi]. unfold pages_ok.
  rewrite (sorted_strictly_asc _ Hs). cbn [andb].
  apply andb_true_iff. split; apply forallb_forall; intros p Hp; apply memb_In; apply Hi; exact Hp.
Qed.

(** strictly ascending lists with the same members are equal: [pages_ok] pins the output *)
Lemma sorted_lt_head_min x l : Sorted N.lt (x :: l) -> forall y, In y l -> x < y.
Proof.
  intros Hs. apply Sorted_StronglySorted in Hs; [|intros a b c; apply N.lt_trans].
  inversion Hs as [|? ? _ Hf]; subst. rewrite Forall_forall in Hf. exact Hf.
Qed.

Lemma sorted_set_unique : forall a b, Sorted N.lt a -> Sorted N.lt b ->
  (forall p, In p a <-> In p b) -> a = b.
Proof.
  induction a as [|x a IH]; intros b Ha Hb H.
  - destruct b as [|y b]; [reflexivity|]. exfalso. apply (H y). left. reflexivity.
  - destruct b as [|y b]; [exfalso; apply (H x); left; reflexivity|].
    pose proof (sorted_lt_head_min _ _ Ha) as Ma. pose proof (sorted_lt_head_min _ _ Hb) as Mb.
    assert (x = y) as ->.
    { destruct (proj1 (H x) (or_introl eq_refl)) as [E|E]; [symmetry; exact E|].
      destruct (proj2 (H y) (or_introl eq_refl)) as [E'|E']; [exact E'|].
      apply Mb in E. apply Ma in E'. lia. }
    f_equal. inversion Ha; inversion Hb; subst. apply IH; try assumption.
    intro p. split; intro Hp.
    + destruct (proj1 (H p) (or_intror Hp)) as [E|E]; [|exact E]. subst. apply Ma in Hp. lia.
    + destruct (proj2 (H p) (or_intror Hp)) as [E|E]; [|exact E]. subst. apply Mb in Hp. lia.
Qed.

(** * 3. ids and links *)
Section IdProofs.
  Variable h : text -> bytes.

  (** ids depend only on (doc hash, index, full text): the other content of the chunks is ignored *)
  Lemma ids_from_text_only dh : forall c1 c2 i,
    map c_full_text c1 = map c_full_text c2 -> ids_from h dh i c1 = ids_from h dh i c2.
  Proof.
    induction c1 as [|a c1 IH]; destruct c2 as [|b c2]; intros i E; try discriminate; [reflexivity|].
    cbn in E. injection E as E1 E2. cbn. rewrite E1. f_equal. apply IH. exact E2.
  Qed.

  Lemma ids_from_length dh : forall cs i, length (ids_from h dh i cs) = length cs.
  Proof. induction cs; intros; cbn; [reflexivity|]. rewrite IHcs. reflexivity. Qed.

  Lemma link_length : forall ids p, length (link p ids) = length ids.
  Proof. induction ids; intros; cbn; [reflexivity|]. rewrite IHids. reflexivity. Qed.

  Lemma build_ids_gen (f : chunk_in -> list N) : forall cs ids lk,
    length ids = length cs -> length lk = length cs ->
    map o_id (map (fun '(c, id, (p, n)) => {| o_pages := f c; o_id := id; o_prev := p; o_next := n |})
                  (combine (combine cs ids) lk)) = ids.
  Proof.
    induction cs as [|c cs IH]; intros [|i ids] [|[p n] lk] H1 H2; try discriminate; [reflexivity|].
    cbn. f_equal. apply IH; cbn in *; lia.
  Qed.

  Theorem build_ids dh cs : map o_id (build h dh cs) = ids_from h dh 0 cs.
  Proof.
    unfold build. apply build_ids_gen.
    - apply ids_from_length.
    - rewrite link_length. apply ids_from_length.
  Qed.

  (** [ids_deterministic]: immediate for a Gallina function; the content is that the ids of a
      document are a function of its doc hash and of the sequence of chunk full texts only *)
  Theorem ids_deterministic dh cs1 cs2 :
    map c_full_text cs1 = map c_full_text cs2 ->
    map o_id (build h dh cs1) = map o_id (build h dh cs2).
  Proof. intro E. rewrite !build_ids. apply ids_from_text_only. exact E. Qed.

  Lemma hd_error_nth {A} (l : list A) : hd_error l = nth_error l 0.
  Proof. destruct l; reflexivity. Qed.

  (** link_chunks: prev is the id of the previous chunk (none for the first), next that of
      the following chunk (none for the last) *)
  Theorem link_spec : forall ids p i,
    nth_error (link p ids) i =
    match nth_error ids i with
    | None => None
    | Some _ => Some (match i with O => p | S j => nth_error ids j end, nth_error ids (S i))
    end.
  Proof.
    induction ids as [|a r IH]; intros p i.
    - destruct i; reflexivity.
    - destruct i as [|j]; cbn [link nth_error].
      + rewrite hd_error_nth. reflexivity.
      + rewrite IH. destruct (nth_error r j); [|reflexivity]. destruct j; reflexivity.
  Qed.
End IdProofs.

(** * 4. The document level (known finding C15-breadcrumb-page-reset, fixed by
      fix_breadcrumb_across_pages) *)
Definition xA : text := [65].
Definition witness_pages : list (list elem) :=
  [[{| is_title := true; fsize := Some 144; etext := xA |};
    {| is_title := false; fsize := Some 80; etext := [112] |}];
   [{| is_title := false; fsize := Some 80; etext := [113] |}]].

Lemma map_fst_pair {A B} (f : A -> B) l : map fst (map (fun x => (x, f x)) l) = l.
Proof. induction l as [|a r IH]; [reflexivity|]. cbn. rewrite IH. reflexivity. Qed.

Lemma do_partition_paths_document pages : do_partition_paths pages = assign_document pages.
Proof. unfold do_partition_paths, assign_document. rewrite map_fst_pair. reflexivity. Qed.

(** FIXED code: every element of a multi-page document carries the declarative breadcrumb of
    the WHOLE document (titles of earlier pages included; ranks from the document's buckets) *)
Theorem document_breadcrumb_governing pages :
  do_partition_paths pages = governing_all (concat pages).
Proof. rewrite do_partition_paths_document. apply assign_is_governing_all. Qed.

Theorem document_breadcrumb_governing_nth pages i : (i < length (concat pages))%nat ->
  nth_error (do_partition_paths pages) i
  = Some (governing (lev_of (concat pages)) (concat pages) i).
Proof. intro H. rewrite do_partition_paths_document. apply heading_path_is_governing. exact H. Qed.

(** the former witness on the fixed code: the paragraph on the second page keeps heading "A" *)
Example document_breadcrumb_witness_fixed :
  do_partition_paths witness_pages = [[xA]; [xA]; [xA]]
  /\ (2 < length (concat witness_pages))%nat.
Proof. split; [vm_compute; reflexivity | cbn; lia]. Qed.

(** record of the PINNED behaviour, about the pre-fix definition [assign_per_page]: the
    paragraph on the second page loses the heading that governs it *)
Lemma per_page_pinned_refuted :
  exists pages, assign_per_page pages <> governing_all (concat pages).
Proof.
  exists witness_pages. rewrite <- assign_is_governing_all. vm_compute. discriminate.
Qed.

Definition MultiPage (pages : list (list elem)) : Prop := (2 <= length pages)%nat.

Lemma assign_nil : assign [] = [].
Proof. reflexivity. Qed.

(** the repair changes nothing for documents of at most one page *)
Theorem per_page_ok_single pages : ~ MultiPage pages -> assign_per_page pages = do_partition_paths pages.
Proof.
  rewrite do_partition_paths_document.
  unfold MultiPage, assign_per_page, assign_document. intro H.
  destruct pages as [|p [|q r]]; cbn [flat_map concat].
  - reflexivity.
  - rewrite !app_nil_r. reflexivity.
  - exfalso. apply H. cbn. lia.
Qed.

Example per_page_ok_single_nonvacuous :
  ~ MultiPage [hd [] witness_pages]
  /\ assign_per_page [hd [] witness_pages] = [[xA]; [xA]].
Proof. split; [unfold MultiPage; cbn; lia | vm_compute; reflexivity]. Qed.

Example governing_nonvacuous :
  let es := map mk_elem [(true, Some 192, [65]); (true, Some 144, [66]); (false, None, [112]);
                         (true, Some 140, [67]); (true, Some 96, [68]); (true, Some 192, [69])] in
  assign es = [[[65]]; [[65]; [66]]; [[65]; [66]]; [[65]; [67]]; [[65]; [67]; [68]]; [[69]]].
Proof. vm_compute. reflexivity. Qed.
