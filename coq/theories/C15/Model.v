(** C15 — code-shaped model of the logic of the document-to-chunks pipeline
    (pipeline/partition.rs [assign_heading_paths], pipeline/rag.rs [collect_pages],
    pipeline/chunk_metadata.rs [content_chunk_id], [link_chunks], parser/document.rs
    [build_rag_chunks]) and the declarative specifications they are proved against.

    NOT modelled: the geometric/heuristic partitioning of text fragments into elements
    (observed end-to-end by the harness only), the chunker itself (that is C14).

    Abstraction of f64 font sizes: a size is a natural number of units (the harness uses
    1/8 pt, sizes in (0, 1000] pt) or "unknown" ([None]: no size, NaN, infinite, <= 0).
    The only float computation in the code is [(b - s).abs() <= b * 0.05]; for dyadic
    sizes k/8 below 2^10 the subtraction is exact, and b * 0.05_f64 rounds to exactly
    b/20 whenever b/20 is representable (relative excess of the constant is 2^-54, below
    half an ulp) and is otherwise at distance >= 1/160 from |b - s| while the rounding
    error is < 1e-13: so the float comparison equals the rational one, 20*|b-s| <= b. *)
From OxVerif Require Import Base.Util.

Definition text := bytes.

Record elem := { is_title : bool; fsize : option N; etext : text }.

(** * assign_heading_paths *)

(** [s.is_finite() && s > 0.0] *)
Definition valid (s : N) : bool := 0 <? s.
Definition absdiff (a b : N) : N := if a <=? b then b - a else a - b.
(** [(b - s).abs() <= b * 0.05] *)
Definition near (b s : N) : bool := 20 * absdiff b s <=? b.

(** sizes of Title elements: filter Title, filter_map font_size, filter finite && > 0 *)
Definition size_of (e : elem) : list N :=
  if is_title e then
    match fsize e with
    | Some s => if valid s then [s] else []
    | None => []
    end
  else [].
Definition title_sizes (es : list elem) : list N := flat_map size_of es.

(** [sizes.sort_by(|a, b| b.partial_cmp(a))]: descending (equal keys are equal values) *)
Fixpoint insert_desc (x : N) (l : list N) : list N :=
  match l with
  | [] => [x]
  | y :: r => if y <? x then x :: l else y :: insert_desc x r
  end.
Definition sort_desc (l : list N) : list N := fold_right insert_desc [] l.

(** [for s in sizes { if !buckets.iter().any(|b| (b - s).abs() <= b * 0.05) { buckets.push(s) } }] *)
Fixpoint mk_buckets (acc sizes : list N) : list N :=
  match sizes with
  | [] => acc
  | s :: r => if existsb (fun b => near b s) acc then mk_buckets acc r
              else mk_buckets (acc ++ [s]) r
  end.
Definition buckets (es : list elem) : list N := mk_buckets [] (sort_desc (title_sizes es)).

(** [u8::try_from(n).unwrap_or(u8::MAX)] *)
Definition to_level (n : N) : N := N.min n 255.
Definition len {A} (l : list A) : N := N.of_nat (length l).

(** first bucket (0-based i) with [(s - b).abs() <= b * 0.05] gives [to_level(i + 1)] *)
Fixpoint find_bucket (i : N) (bs : list N) (s : N) : option N :=
  match bs with
  | [] => None
  | b :: r => if near b s then Some (i + 1) else find_bucket (i + 1) r s
  end.

Definition level_of (bs : list N) (sz : option N) : N :=
  match sz with
  | Some s =>
      if valid s then
        match find_bucket 0 bs s with
        | Some l => to_level l
        | None => to_level (N.max (len bs) 1)
        end
      else to_level (len bs + 1)
  | None => to_level (len bs + 1)
  end.

(** [stack.retain(|(lvl, _)| *lvl < level)] *)
Definition retain_lt (level : N) (st : list (N * text)) : list (N * text) :=
  filter (fun p => fst p <? level) st.

Definition step (lev : elem -> N) (st : list (N * text)) (e : elem) : list (N * text) :=
  if is_title e then retain_lt (lev e) st ++ [(lev e, etext e)] else st.

(** the walk: output = heading_path of every element, in order *)
Fixpoint walk (lev : elem -> N) (st : list (N * text)) (es : list elem) : list (list text) :=
  match es with
  | [] => []
  | e :: r => let st' := step lev st e in map snd st' :: walk lev st' r
  end.

(** the buckets are computed once per call (as in the code), not once per element *)
Definition lev_of (es : list elem) : elem -> N :=
  let bs := buckets es in fun e => level_of bs (fsize e).
Definition assign (es : list elem) : list (list text) := let lev := lev_of es in walk lev [] es.

(** [path.last().cloned()] *)
Definition last_opt {A} (l : list A) : option A :=
  match rev l with [] => None | x :: _ => Some x end.
Definition parents (es : list elem) : list (option text) := map last_opt (assign es).

(** * Declarative breadcrumb (written from the property, not from the stack code):
    among the titles seen up to and including the element, a title belongs to the
    breadcrumb iff EVERY later title (up to the element) is strictly deeper; the
    breadcrumb lists those titles in document order. *)
Fixpoint gov (ts : list (N * text)) : list (N * text) :=
  match ts with
  | [] => []
  | t :: r => if forallb (fun t' => fst t <? fst t') r then t :: gov r else gov r
  end.

Definition titles_upto (lev : elem -> N) (es : list elem) (i : nat) : list (N * text) :=
  map (fun e => (lev e, etext e)) (filter is_title (firstn (S i) es)).

Definition governing (lev : elem -> N) (es : list elem) (i : nat) : list text :=
  map snd (gov (titles_upto lev es i)).

(** the same chain read from the leaf upwards: the latest title, then the latest earlier
    title of strictly smaller level, and so on ("latest titles with strictly decreasing
    rank").  [rts] is the reversed title list, [bound] the level to go below. *)
Fixpoint chain_back (bound : option N) (rts : list (N * text)) : list (N * text) :=
  match rts with
  | [] => []
  | t :: r =>
      if match bound with None => true | Some b => fst t <? b end
      then chain_back (Some (fst t)) r ++ [t]
      else chain_back bound r
  end.

(** * collect_pages *)
Fixpoint insert_asc (x : N) (l : list N) : list N :=
  match l with
  | [] => [x]
  | y :: r => if x <? y then x :: l else y :: insert_asc x r
  end.
Definition sort_asc (l : list N) : list N := fold_right insert_asc [] l.

Definition memb (x : N) (l : list N) : bool := existsb (N.eqb x) l.

(** [if seen.insert(p) { pages.push(p) }] *)
Fixpoint dedup_first (seen l : list N) : list N :=
  match l with
  | [] => []
  | p :: r => if memb p seen then dedup_first seen r else p :: dedup_first (p :: seen) r
  end.

(** input: the page of every element of the chunk, in order *)
Definition collect_pages (ps : list N) : list N :=
  match ps with
  | [] => []
  | f :: _ => if forallb (N.eqb f) ps then [f] else sort_asc (dedup_first [] ps)
  end.

(** executable form of "exactly the pages the content came from" *)
Fixpoint strictly_asc (l : list N) : bool :=
  match l with
  | x :: ((y :: _) as r) => (x <? y) && strictly_asc r
  | _ => true
  end.
Definition pages_ok (ps out : list N) : bool :=
  strictly_asc out && forallb (fun p => memb p out) ps && forallb (fun p => memb p ps) out.

(** * chunk ids and links *)
Definition digit (n : N) : N := 48 + n.
Fixpoint dec_fuel (fuel : nat) (n : N) (acc : bytes) : bytes :=
  match fuel with
  | O => acc
  | S f => if n <? 10 then digit n :: acc else dec_fuel f (n / 10) (digit (n mod 10) :: acc)
  end.
(** decimal rendering of a usize ([format!("{index}")]); 20 digits suffice for 2^64 *)
Definition dec (n : N) : bytes := dec_fuel 40 n [].

Record chunk_in := { c_pages : list N; c_full_text : text; c_other : N }.
Record chunk_out := { o_pages : list N; o_id : bytes; o_prev : option bytes; o_next : option bytes }.

Section Ids.
  (** first 8 bytes of SHA-256 of the text, lower-case hex (crate sha2): assumed a function *)
  Variable hash8hex : text -> bytes.

  (** [format!("{doc_id}:{index}")] *)
  Definition chunk_id (doc_hash : option bytes) (index : N) (full_text : text) : bytes :=
    (match doc_hash with Some h => h | None => hash8hex full_text end) ++ [58] ++ dec index.

  Fixpoint ids_from (doc_hash : option bytes) (i : N) (cs : list chunk_in) : list bytes :=
    match cs with
    | [] => []
    | c :: r => chunk_id doc_hash i (c_full_text c) :: ids_from doc_hash (i + 1) r
    end.

  (** link_chunks: prev = ids[i-1] (i > 0), next = ids.get(i+1) *)
  Fixpoint link (prev : option bytes) (ids : list bytes) : list (option bytes * option bytes) :=
    match ids with
    | [] => []
    | x :: r => (prev, hd_error r) :: link (Some x) r
    end.

  (** build_rag_chunks: enumerate, id from (doc hash, index, full text), pages, then link *)
  Definition build (doc_hash : option bytes) (cs : list chunk_in) : list chunk_out :=
    let ids := ids_from doc_hash 0 cs in
    map (fun '(c, id, (p, n)) => {| o_pages := collect_pages (c_pages c); o_id := id; o_prev := p; o_next := n |})
        (combine (combine cs ids) (link None ids)).
End Ids.

(** * Correspondence checkers *)
Definition text_eqb : text -> text -> bool := bytes_eqb.
Definition path_eqb : list text -> list text -> bool := list_eqb text_eqb.

Definition mk_elem (t : bool * option N * bytes) : elem :=
  let '(b, s, x) := t in {| is_title := b; fsize := s; etext := x |}.

(** heading-path case: elements, implementation's heading_path and parent_heading per element *)
Definition hp_case := (list (bool * option N * bytes) * (list (list bytes) * list (option bytes)))%type.

Definition governing_all (es : list elem) : list (list text) :=
  let lev := lev_of es in map (governing lev es) (seq 0 (length es)).

Definition hp_code (c : hp_case) : N :=
  let '(raw, (ipaths, iparents)) := c in
  let es := map mk_elem raw in
  let m := assign es in
  code_of (list_eqb path_eqb m ipaths && list_eqb (option_eqb text_eqb) (map last_opt m) iparents)
          (list_eqb path_eqb (governing_all es) ipaths
           && list_eqb (option_eqb text_eqb) (map last_opt ipaths) iparents).

(** page case: pages of the elements, implementation's page list *)
Definition pg_code (c : list N * list N) : N :=
  let '(ps, out) := c in
  code_of (list_eqb N.eqb (collect_pages ps) out) (pages_ok ps out).

(** id case: doc hash, (pages, full_text) per chunk, implementation's (pages, id, prev, next).
    The hash is learned from the implementation's own output (first id computed for a text)
    — the model then demands that ids are THE function of (doc hash, index, text) of the
    prescribed shape, and the property bit that the links are the neighbours' ids, that ids
    are pairwise distinct and that equal texts got equal prefixes. *)
Definition id_case := (option bytes * list (list N * bytes) * list (list N * bytes * option bytes * option bytes))%type.

Fixpoint take_until_colon (l : bytes) : bytes :=
  match l with
  | [] => []
  | b :: r => if b =? 58 then [] else b :: take_until_colon r
  end.

Fixpoint learn (ins : list (list N * bytes)) (outs : list (list N * bytes * option bytes * option bytes))
  : list (bytes * bytes) :=
  match ins, outs with
  | (_, t) :: ri, (_, id, _, _) :: ro => (t, take_until_colon id) :: learn ri ro
  | _, _ => []
  end.

Fixpoint lookup_text (tbl : list (bytes * bytes)) (t : bytes) : bytes :=
  match tbl with
  | [] => []
  | (t', h) :: r => if bytes_eqb t' t then h else lookup_text r t
  end.

Definition out_eqb (a : chunk_out) (b : list N * bytes * option bytes * option bytes) : bool :=
  let '(pg, id, p, n) := b in
  list_eqb N.eqb (o_pages a) pg && bytes_eqb (o_id a) id
  && option_eqb bytes_eqb (o_prev a) p && option_eqb bytes_eqb (o_next a) n.

Fixpoint list_eqb2 {A B} (f : A -> B -> bool) (a : list A) (b : list B) : bool :=
  match a, b with
  | [], [] => true
  | x :: a', y :: b' => f x y && list_eqb2 f a' b'
  | _, _ => false
  end.

Fixpoint nodupb (l : list bytes) : bool :=
  match l with
  | [] => true
  | x :: r => negb (existsb (bytes_eqb x) r) && nodupb r
  end.

Definition is_hex16 (h : bytes) : bool :=
  (N.of_nat (length h) =? 16)
  && forallb (fun b => ((48 <=? b) && (b <=? 57)) || ((97 <=? b) && (b <=? 102))) h.

Definition id_code (c : id_case) : N :=
  let '(dh, ins, outs) := c in
  let tbl := learn ins outs in
  let cs := map (fun '(pg, t) => {| c_pages := pg; c_full_text := t; c_other := 0 |}) ins in
  let m := build (lookup_text tbl) dh cs in
  let ids := map (fun '(_, id, _, _) => id) outs in
  let links := map (fun '(_, _, p, n) => (p, n)) outs in
  code_of (list_eqb2 out_eqb m outs)
          (nodupb ids
           && list_eqb2 (fun a b => option_eqb bytes_eqb (fst a) (fst b) && option_eqb bytes_eqb (snd a) (snd b))
                        (link None ids) links
           && match dh with
              | Some _ => true
              | None => forallb (fun '(_, h) => is_hex16 h) tbl
              end
           && list_eqb2 (fun i o => pages_ok (fst i) (let '(pg, _, _, _) := o in pg)) ins outs).

(** * The document level.  [PdfDocument::do_partition_pages] (parser/document.rs) runs the
    partitioner — and with it [assign_heading_paths] — once per page and concatenates the
    elements.  After fix_breadcrumb_across_pages it then runs [assign_heading_paths] once more
    over the concatenation.  That pass reads only (is Title, font size, text) of an element,
    never an existing path, and overwrites [heading_path]/[parent_heading] of EVERY element, so
    the per-page paths are discarded and the result is [assign] of the whole document:
    the stack and the size buckets no longer restart at a page break. *)
Definition assign_document (pages : list (list elem)) : list (list text) := assign (concat pages).
Definition do_partition_paths (pages : list (list elem)) : list (list text) :=
  let per_page := map (fun pg => (pg, assign pg)) pages in   (* what the partitioner returns per page *)
  assign (concat (map fst per_page)).                         (* the final whole-document pass *)

(** the PINNED (pre-fix) behaviour: per-page paths were the final answer.  Kept only as the
    subject of [per_page_pinned_refuted] / [per_page_ok_single]. *)
Definition assign_per_page (pages : list (list elem)) : list (list text) := flat_map assign pages.

(** end-to-end case: per chunk (pages of the authored blocks its words come from, the
    implementation's page_numbers), and the three observations made by the harness:
    every authored word exactly once and paragraphs intact; breadcrumbs = authored
    structure; identical serialisation in three runs.  Bits: 1 model, 2 pages, 4 content,
    8 breadcrumb, 16 determinism. *)
Definition e2e_case := (list (list N * list N) * (bool * bool * bool))%type.
Definition e2e_code (c : e2e_case) : N :=
  let '(pgs, (once, crumbs, determ)) := c in
  code_of (forallb (fun ab => list_eqb N.eqb (collect_pages (fst ab)) (snd ab)) pgs)
          (forallb (fun ab => pages_ok (fst ab) (snd ab)) pgs)
  + (if once then 0 else 4) + (if crumbs then 0 else 8) + (if determ then 0 else 16).
