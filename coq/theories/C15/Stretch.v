(** C15 — stretch proofs (proof-only; no model definition is changed):
      1. the model's decimal printer [dec] is injective (on its whole exact range, and its
         unbounded form [dec_full] on all of N); the ids of one document are pairwise distinct;
      2. [chain_back] (breadcrumb read leaf-to-root) = [gov] (governing headings);
      3. declarative characterisation of the heading-size buckets. *)
From OxVerif Require Import Base.Util C15.Model C15.Proofs.
From Coq Require Import Sorting.Sorted Lia ZifyBool.

(** * 1. decimal printing *)

(** value of a digit string, most significant digit first *)
Definition dval (l : bytes) : N := fold_left (fun a d => 10 * a + (d - 48)) l 0.

Lemma dval_snoc l d : dval (l ++ [d]) = 10 * dval l + (d - 48).
Proof. unfold dval. rewrite fold_left_app. reflexivity. Qed.

Lemma dec_fuel_acc : forall f n acc, dec_fuel f n acc = dec_fuel f n [] ++ acc.
Proof.
  induction f as [|f IH]; intros n acc; cbn [dec_fuel]; [reflexivity|].
  destruct (n <? 10); [reflexivity|].
  rewrite (IH (n / 10) (digit (n mod 10) :: acc)), (IH (n / 10) [digit (n mod 10)]).
  rewrite <- app_assoc. reflexivity.
Qed.

Lemma div10_lt n k : n < 10 * k -> n / 10 < k.
Proof. intro H. apply N.div_lt_upper_bound; lia. Qed.

(** parsing undoes printing whenever the fuel covers the number *)
Lemma dval_dec_fuel : forall f n, n < 10 ^ N.of_nat f -> dval (dec_fuel f n []) = n.
Proof.
  induction f as [|f IH]; intros n Hn.
  - change (10 ^ N.of_nat 0) with 1 in Hn. cbn [dec_fuel]. unfold dval. cbn [fold_left]. lia.
  - cbn [dec_fuel]. destruct (n <? 10) eqn:E.
    + apply N.ltb_lt in E. unfold dval, digit. cbn [fold_left]. lia.
    + apply N.ltb_ge in E. rewrite dec_fuel_acc, dval_snoc, IH.
      * unfold digit. pose proof (N.div_mod' n 10). assert (n mod 10 < 10) by (apply N.mod_lt; lia).
        clear Hn IH. generalize dependent (n / 10). generalize dependent (n mod 10). intros. lia.
      * rewrite Nat2N.inj_succ, N.pow_succ_r' in Hn. apply div10_lt. exact Hn.
Qed.

(** [dec] prints with fuel 40: exact for every number below 10^40 (a usize is below 2^64) *)
Definition dec_limit : N := 10 ^ 40.

Lemma dval_dec n : n < dec_limit -> dval (dec n) = n.
Proof. intro H. unfold dec. apply dval_dec_fuel. exact H. Qed.

Theorem dec_inj a b : a < dec_limit -> b < dec_limit -> dec a = dec b -> a = b.
Proof. intros Ha Hb E. rewrite <- (dval_dec a Ha), <- (dval_dec b Hb), E. reflexivity. Qed.

Example dec_limit_covers_usize : 2 ^ 64 < dec_limit.
Proof. vm_compute. reflexivity. Qed.

Example dec_inj_nonvacuous :
  18446744073709551615 < dec_limit /\ dec 18446744073709551615 = unhex "3138343436373434303733373039353531363135"
  /\ dec 0 = [48] /\ dec 10 = [49; 48].
Proof. vm_compute. repeat split. Qed.

(** beyond its fuel the model's [dec] drops the leading digits — so the bound above is
    necessary for [dec] itself (record; no usize reaches it) *)
Lemma dec_not_injective_beyond_limit : exists a b, a <> b /\ dec a = dec b.
Proof. exists dec_limit, (2 * dec_limit). split; [vm_compute; discriminate | vm_compute; reflexivity]. Qed.

(** the unbounded printer: same digit loop, fuel taken from the size of the number.
    Equal to the model's [dec] on the whole exact range, injective on all of N. *)
Definition dec_full (n : N) : bytes := dec_fuel (S (N.to_nat (N.log2 n))) n [].

Lemma dec_fuel_indep : forall f g n acc,
  n < 10 ^ N.of_nat (S f) -> n < 10 ^ N.of_nat (S g) -> dec_fuel (S f) n acc = dec_fuel (S g) n acc.
Proof.
  induction f as [|f IH]; intros g n acc Hf Hg.
  - change (10 ^ N.of_nat 1) with 10 in Hf. cbn [dec_fuel]. rewrite (proj2 (N.ltb_lt _ _) Hf). reflexivity.
  - destruct g as [|g].
    + change (10 ^ N.of_nat 1) with 10 in Hg. cbn [dec_fuel]. rewrite (proj2 (N.ltb_lt _ _) Hg). reflexivity.
    + remember (S f) as f' eqn:Ef. remember (S g) as g' eqn:Eg. cbn [dec_fuel].
      destruct (n <? 10); [reflexivity|]. subst f' g'.
      rewrite Nat2N.inj_succ, N.pow_succ_r' in Hf, Hg.
      apply IH; apply div10_lt; assumption.
Qed.

Lemma dec_full_fuel n : n < 10 ^ N.of_nat (S (N.to_nat (N.log2 n))).
Proof.
  rewrite Nat2N.inj_succ, N2Nat.id.
  destruct (N.eq_dec n 0) as [->|Hz]; [vm_compute; reflexivity|].
  assert (0 < n) as Hp by lia.
  pose proof (N.log2_spec n Hp) as [_ H2].
  eapply N.lt_le_trans; [exact H2|]. apply N.pow_le_mono_l. lia.
Qed.

Theorem dec_full_is_dec n : n < dec_limit -> dec_full n = dec n.
Proof. intro H. unfold dec_full, dec. apply dec_fuel_indep; [apply dec_full_fuel | exact H]. Qed.

Lemma dval_dec_full n : dval (dec_full n) = n.
Proof. unfold dec_full. apply dval_dec_fuel. apply dec_full_fuel. Qed.

Theorem dec_full_inj a b : dec_full a = dec_full b -> a = b.
Proof. intro E. rewrite <- (dval_dec_full a), <- (dval_dec_full b), E. reflexivity. Qed.

Example dec_full_beyond_limit : dec_full dec_limit <> dec_full (2 * dec_limit) /\ length (dec_full dec_limit) = 41%nat.
Proof. split; [vm_compute; discriminate | vm_compute; reflexivity]. Qed.

(** * 1b. ids of one document are pairwise distinct *)

(** splitting at the first colon *)
Lemma colon_split : forall h1 h2 x y : bytes, ~ In 58 h1 -> ~ In 58 h2 ->
  h1 ++ 58 :: x = h2 ++ 58 :: y -> h1 = h2 /\ x = y.
Proof.
  induction h1 as [|a h1 IH]; intros [|b h2] x y H1 H2 E; cbn [app] in E.
  - injection E as E. split; [reflexivity | exact E].
  - injection E as E1 E2. exfalso. apply H2. left. symmetry. exact E1.
  - injection E as E1 E2. exfalso. apply H1. left. exact E1.
  - injection E as E1 E2. subst b.
    destruct (IH h2 x y) as [-> ->]; [| | exact E2 | split; reflexivity].
    + intro H. apply H1. right. exact H.
    + intro H. apply H2. right. exact H.
Qed.

Lemma nodupb_NoDup l : NoDup l -> nodupb l = true.
Proof.
  induction 1 as [|x l Hn Hd IH]; [reflexivity|]. cbn [nodupb]. rewrite IH, andb_true_r.
  destruct (existsb (bytes_eqb x) l) eqn:E; [|reflexivity].
  apply existsb_exists in E. destruct E as [y [Hy E]]. apply bytes_eqb_eq in E. subst y. contradiction.
Qed.

Section IdDistinct.
  Variable h : text -> bytes.

  (** the index is printed in clear after the first colon: equal ids have equal indices.
      With a document hash the prefix is the same string, nothing is assumed of it; with
      content prefixes the only assumption is that THESE two prefixes contain no colon
      (they are 16 hex digits in the code). *)
  Lemma chunk_id_index_inj dh i j t1 t2 :
    (dh = None -> ~ In 58 (h t1) /\ ~ In 58 (h t2)) ->
    i < dec_limit -> j < dec_limit ->
    chunk_id h dh i t1 = chunk_id h dh j t2 -> i = j.
  Proof.
    intros Hc Hi Hj E. unfold chunk_id in E. apply (dec_inj i j Hi Hj).
    destruct dh as [d|].
    - apply app_inv_head in E. cbn [app] in E. injection E as E. exact E.
    - destruct (Hc eq_refl) as [H1 H2]. cbn [app] in E.
      destruct (colon_split _ _ _ _ H1 H2 E) as [_ E']. exact E'.
  Qed.

  Lemma ids_from_In dh : forall cs i x, In x (ids_from h dh i cs) ->
    exists j c, In c cs /\ i <= j /\ j < i + N.of_nat (length cs) /\ x = chunk_id h dh j (c_full_text c).
  Proof.
    induction cs as [|c r IH]; intros i x Hx; [destruct Hx|].
    cbn [ids_from] in Hx. cbn [length]. rewrite Nat2N.inj_succ. destruct Hx as [<-|Hx].
    - exists i, c. repeat split; [left; reflexivity | lia | lia].
    - destruct (IH _ _ Hx) as [j [c' [Hc [H1 [H2 E]]]]]. exists j, c'.
      repeat split; [right; exact Hc | lia | lia | exact E].
  Qed.

  (** pairwise distinct ids, for every document (sequence of chunks), every start index *)
  Theorem ids_from_nodup dh : forall cs i,
    (dh = None -> forall c, In c cs -> ~ In 58 (h (c_full_text c))) ->
    i + N.of_nat (length cs) <= dec_limit ->
    NoDup (ids_from h dh i cs).
  Proof.
    induction cs as [|c r IH]; intros i Hc Hb; cbn [ids_from]; [constructor|].
    cbn [length] in Hb. rewrite Nat2N.inj_succ in Hb. constructor.
    - intro Hin. destruct (ids_from_In _ _ _ _ Hin) as [j [c' [Hc' [H1 [H2 E]]]]].
      apply chunk_id_index_inj in E; [lia | | lia | lia].
      intro Hd. split; apply (Hc Hd); [left; reflexivity | right; exact Hc'].
    - apply IH; [|lia]. intros Hd c' Hc'. apply (Hc Hd). right. exact Hc'.
  Qed.

  Theorem build_ids_nodup dh cs :
    (dh = None -> forall c, In c cs -> ~ In 58 (h (c_full_text c))) ->
    N.of_nat (length cs) <= dec_limit ->
    NoDup (map o_id (build h dh cs)).
  Proof. intros Hc Hb. rewrite build_ids. apply ids_from_nodup; [exact Hc | lia]. Qed.

  (** with a document hash nothing at all is assumed of the hash function *)
  Corollary build_ids_nodup_doc_hash d cs :
    N.of_nat (length cs) <= dec_limit -> NoDup (map o_id (build h (Some d) cs)).
  Proof. intro Hb. apply build_ids_nodup; [discriminate | exact Hb]. Qed.

  (** the executable predicate applied to the implementation's ids holds of the model *)
  Corollary build_ids_nodupb dh cs :
    (dh = None -> forall c, In c cs -> ~ In 58 (h (c_full_text c))) ->
    N.of_nat (length cs) <= dec_limit ->
    nodupb (map o_id (build h dh cs)) = true.
  Proof. intros Hc Hb. apply nodupb_NoDup. apply build_ids_nodup; assumption. Qed.
End IdDistinct.

(** hypotheses satisfiable: three chunks with the SAME text (equal content prefixes) *)
Example ids_nodup_nonvacuous :
  let h := fun _ : text => unhex "61626364" in
  let c := {| c_pages := [1]; c_full_text := [120]; c_other := 0 |} in
  let cs := [c; c; c] in
  (@None bytes = None -> forall c, In c cs -> ~ In 58 (h (c_full_text c)))
  /\ N.of_nat (length cs) <= dec_limit
  /\ map o_id (build h None cs) = [unhex "616263643a30"; unhex "616263643a31"; unhex "616263643a32"]
  /\ NoDup (map o_id (build h None cs)).
Proof.
  cbv zeta.
  assert (~ In 58 (unhex "61626364")) as Hh.
  { intros H. vm_compute in H. repeat (destruct H as [H|H]; [discriminate|]). exact H. }
  split; [intros _ c0 _; exact Hh|]. split; [apply N.leb_le; vm_compute; reflexivity|].
  split; [vm_compute; reflexivity|].
  apply build_ids_nodup; [intros _ c0 _; exact Hh | apply N.leb_le; vm_compute; reflexivity].
Qed.
