(** C15 — stretch proofs (proof-only; no model definition is changed):
      1. the model's decimal printer [dec] is injective (on its whole exact range, and its
         unbounded form [dec_full] on all of N); the ids of one document are pairwise distinct;
      2. [chain_back] (breadcrumb read leaf-to-root) = [gov] (governing headings);
      3. declarative characterisation of the heading-size buckets. *)
From OxVerif Require Import Base.Util C15.Model C15.Proofs.
From Coq Require Import Sorting.Sorted Lia ZifyBool.

(** * 1. decimal printing *)

(** value of a digit string, most significant digit first *)
Definition dval (l : bytes) : N := fold_left (fun a d => 10 * a + (d - 48)) l 0.

Lemma dval_snoc l d : dval (l ++ [d]) = 10 * dval l + (d - 48).
Proof. unfold dval. rewrite fold_left_app. reflexivity. Qed.

Lemma dec_fuel_acc : forall f n acc, dec_fuel f n acc = dec_fuel f n [] ++ acc.
Proof.
  induction f as [|f IH]; intros n acc; cbn [dec_fuel]; [reflexivity|].
  destruct (n <? 10); [reflexivity|].
  rewrite (IH (n / 10) (digit (n mod 10) :: acc)), (IH (n / 10) [digit (n mod 10)]).
  rewrite <- app_assoc. reflexivity.
Qed.

Lemma div10_lt n k : n < 10 * k -> n / 10 < k.
Proof. intro H. apply N.div_lt_upper_bound; lia. Qed.

(** parsing undoes printing whenever the fuel covers the number *)
Lemma dval_dec_fuel : forall f n, n < 10 ^ N.of_nat f -> dval (dec_fuel f n []) = n.
Proof.
  induction f as [|f IH]; intros n Hn.
  - change (10 ^ N.of_nat 0) with 1 in Hn. cbn [dec_fuel]. unfold dval. cbn [fold_left]. lia.
  - cbn [dec_fuel]. destruct (n <? 10) eqn:E.
    + apply N.ltb_lt in E. unfold dval, digit. cbn [fold_left]. lia.
    + apply N.ltb_ge in E. rewrite dec_fuel_acc, dval_snoc, IH.
      * unfold digit. pose proof (N.div_mod' n 10). assert (n mod 10 < 10) by (apply N.mod_lt; lia).
        clear Hn IH. generalize dependent (n / 10). generalize dependent (n mod 10). intros. lia.
      * rewrite Nat2N.inj_succ, N.pow_succ_r' in Hn. apply div10_lt. exact Hn.
Qed.

(** [dec] prints with fuel 40: exact for every number below 10^40 (a usize is below 2^64) *)
Definition dec_limit : N := 10 ^ 40.

Lemma dval_dec n : n < dec_limit -> dval (dec n) = n.
Proof. intro H. unfold dec. apply dval_dec_fuel. exact H. Qed.

Theorem dec_inj a b : a < dec_limit -> b < dec_limit -> dec a = dec b -> a = b.
Proof. intros Ha Hb E. rewrite <- (dval_dec a Ha), <- (dval_dec b Hb), E. reflexivity. Qed.

Example dec_limit_covers_usize : 2 ^ 64 < dec_limit.
Proof. vm_compute. reflexivity. Qed.

Example dec_inj_nonvacuous :
  18446744073709551615 < dec_limit /\ dec 18446744073709551615 = unhex "3138343436373434303733373039353531363135"
  /\ dec 0 = [48] /\ dec 10 = [49; 48].
Proof. vm_compute. repeat split. Qed.

(** beyond its fuel the model's [dec] drops the leading digits — so the bound above is
    necessary for [dec] itself (record; no usize reaches it) *)
Lemma dec_not_injective_beyond_limit : exists a b, a <> b /\ dec a = dec b.
Proof. exists dec_limit, (2 * dec_limit). split; [vm_compute; discriminate | vm_compute; reflexivity]. Qed.

(** the unbounded printer: same digit loop, fuel taken from the size of the number.
    Equal to the model's [dec] on the whole exact range, injective on all of N. *)
Definition dec_full (n : N) : bytes := dec_fuel (S (N.to_nat (N.log2 n))) n [].

Lemma dec_fuel_indep : forall f g n acc,
  n < 10 ^ N.of_nat (S f) -> n < 10 ^ N.of_nat (S g) -> dec_fuel (S f) n acc = dec_fuel (S g) n acc.
Proof.
  induction f as [|f IH]; intros g n acc Hf Hg.
  - change (10 ^ N.of_nat 1) with 10 in Hf. cbn [dec_fuel]. rewrite (proj2 (N.ltb_lt _ _) Hf). reflexivity.
  - destruct g as [|g].
    + change (10 ^ N.of_nat 1) with 10 in Hg. cbn [dec_fuel]. rewrite (proj2 (N.ltb_lt _ _) Hg). reflexivity.
    + remember (S f) as f' eqn:Ef. remember (S g) as g' eqn:Eg. cbn [dec_fuel].
      destruct (n <? 10); [reflexivity|]. subst f' g'.
      rewrite Nat2N.inj_succ, N.pow_succ_r' in Hf, Hg.
      apply IH; apply div10_lt; assumption.
Qed.

Lemma dec_full_fuel n : n < 10 ^ N.of_nat (S (N.to_nat (N.log2 n))).
Proof.
  rewrite Nat2N.inj_succ, N2Nat.id.
  destruct (N.eq_dec n 0) as [->|Hz]; [vm_compute; reflexivity|].
  assert (0 < n) as Hp by lia.
  pose proof (N.log2_spec n Hp) as [_ H2].
  eapply N.lt_le_trans; [exact H2|]. apply N.pow_le_mono_l. lia.
Qed.

Theorem dec_full_is_dec n : n < dec_limit -> dec_full n = dec n.
Proof. intro H. unfold dec_full, dec. apply dec_fuel_indep; [apply dec_full_fuel | exact H]. Qed.

Lemma dval_dec_full n : dval (dec_full n) = n.
Proof. unfold dec_full. apply dval_dec_fuel. apply dec_full_fuel. Qed.

Theorem dec_full_inj a b : dec_full a = dec_full b -> a = b.
Proof. intro E. rewrite <- (dval_dec_full a), <- (dval_dec_full b), E. reflexivity. Qed.

Example dec_full_beyond_limit : dec_full dec_limit <> dec_full (2 * dec_limit) /\ length (dec_full dec_limit) = 41%nat.
Proof. split; [vm_compute; discriminate | vm_compute; reflexivity]. Qed.

(** * 1b. ids of one document are pairwise distinct *)

(** splitting at the first colon *)
Lemma colon_split : forall h1 h2 x y : bytes, ~ In 58 h1 -> ~ In 58 h2 ->
  h1 ++ 58 :: x = h2 ++ 58 :: y -> h1 = h2 /\ x = y.
Proof.
  induction h1 as [|a h1 IH]; intros [|b h2] x y H1 H2 E; cbn [app] in E.
  - injection E as E. split; [reflexivity | exact E].
  - injection E as E1 E2. exfalso. apply H2. left. symmetry. exact E1.
  - injection E as E1 E2. exfalso. apply H1. left. exact E1.
  - injection E as E1 E2. subst b.
    destruct (IH h2 x y) as [-> ->]; [| | exact E2 | split; reflexivity].
    + intro H. apply H1. right. exact H.
    + intro H. apply H2. right. exact H.
Qed.

Lemma nodupb_NoDup l : NoDup l -> nodupb l = true.
Proof.
  induction 1 as [|x l Hn Hd IH]; [reflexivity|]. cbn [nodupb]. rewrite IH, andb_true_r.
  destruct (existsb (bytes_eqb x) l) eqn:E; [|reflexivity].
  apply existsb_exists in E. destruct E as [y [Hy E]]. apply bytes_eqb_eq in E. subst y. contradiction.
Qed.

Section IdDistinct.
  Variable h : text -> bytes.

  (** the index is printed in clear after the first colon: equal ids have equal indices.
      With a document hash the prefix is the same string, nothing is assumed of it; with
      content prefixes the only assumption is that THESE two prefixes contain no colon
      (they are 16 hex digits in the code). *)
  Lemma chunk_id_index_inj dh i j t1 t2 :
    (dh = None -> ~ In 58 (h t1) /\ ~ In 58 (h t2)) ->
    i < dec_limit -> j < dec_limit ->
    chunk_id h dh i t1 = chunk_id h dh j t2 -> i = j.
  Proof.
    intros Hc Hi Hj E. unfold chunk_id in E. apply (dec_inj i j Hi Hj).
    destruct dh as [d|].
    - apply app_inv_head in E. cbn [app] in E. injection E as E. exact E.
    - destruct (Hc eq_refl) as [H1 H2]. cbn [app] in E.
      destruct (colon_split _ _ _ _ H1 H2 E) as [_ E']. exact E'.
  Qed.

  Lemma ids_from_In dh : forall cs i x, In x (ids_from h dh i cs) ->
    exists j c, In c cs /\ i <= j /\ j < i + N.of_nat (length cs) /\ x = chunk_id h dh j (c_full_text c).
  Proof.
    induction cs as [|c r IH]; intros i x Hx; [destruct Hx|].
    cbn [ids_from] in Hx. cbn [length]. rewrite Nat2N.inj_succ. destruct Hx as [<-|Hx].
    - exists i, c. repeat split; [left; reflexivity | lia | lia].
    - destruct (IH _ _ Hx) as [j [c' [Hc [H1 [H2 E]]]]]. exists j, c'.
      repeat split; [right; exact Hc | lia | lia | exact E].
  Qed.

  (** pairwise distinct ids, for every document (sequence of chunks), every start index *)
  Theorem ids_from_nodup dh : forall cs i,
    (dh = None -> forall c, In c cs -> ~ In 58 (h (c_full_text c))) ->
    i + N.of_nat (length cs) <= dec_limit ->
    NoDup (ids_from h dh i cs).
  Proof.
    induction cs as [|c r IH]; intros i Hc Hb; cbn [ids_from]; [constructor|].
    cbn [length] in Hb. rewrite Nat2N.inj_succ in Hb. constructor.
    - intro Hin. destruct (ids_from_In _ _ _ _ Hin) as [j [c' [Hc' [H1 [H2 E]]]]].
      apply chunk_id_index_inj in E; [lia | | lia | lia].
      intro Hd. split; apply (Hc Hd); [left; reflexivity | right; exact Hc'].
    - apply IH; [|lia]. intros Hd c' Hc'. apply (Hc Hd). right. exact Hc'.
  Qed.

  Theorem build_ids_nodup dh cs :
    (dh = None -> forall c, In c cs -> ~ In 58 (h (c_full_text c))) ->
    N.of_nat (length cs) <= dec_limit ->
    NoDup (map o_id (build h dh cs)).
  Proof. intros Hc Hb. rewrite build_ids. apply ids_from_nodup; [exact Hc | lia]. Qed.

  (** with a document hash nothing at all is assumed of the hash function *)
  Corollary build_ids_nodup_doc_hash d cs :
    N.of_nat (length cs) <= dec_limit -> NoDup (map o_id (build h (Some d) cs)).
  Proof. intro Hb. apply build_ids_nodup; [discriminate | exact Hb]. Qed.

  (** the executable predicate applied to the implementation's ids holds of the model *)
  Corollary build_ids_nodupb dh cs :
    (dh = None -> forall c, In c cs -> ~ In 58 (h (c_full_text c))) ->
    N.of_nat (length cs) <= dec_limit ->
    nodupb (map o_id (build h dh cs)) = true.
  Proof. intros Hc Hb. apply nodupb_NoDup. apply build_ids_nodup; assumption. Qed.
End IdDistinct.

(** hypotheses satisfiable: three chunks with the SAME text (equal content prefixes) *)
Example ids_nodup_nonvacuous :
  let h := fun _ : text => unhex "61626364" in
  let c := {| c_pages := [1]; c_full_text := [120]; c_other := 0 |} in
  let cs := [c; c; c] in
  (@None bytes = None -> forall c, In c cs -> ~ In 58 (h (c_full_text c)))
  /\ N.of_nat (length cs) <= dec_limit
  /\ map o_id (build h None cs) = [unhex "616263643a30"; unhex "616263643a31"; unhex "616263643a32"]
  /\ NoDup (map o_id (build h None cs)).
Proof.
  cbv zeta.
  assert (~ In 58 (unhex "61626364")) as Hh.
  { intros H. vm_compute in H. repeat (destruct H as [H|H]; [discriminate|]). exact H. }
  split; [intros _ c0 _; exact Hh|]. split; [apply N.leb_le; vm_compute; reflexivity|].
  split; [vm_compute; reflexivity|].
  apply build_ids_nodup; [intros _ c0 _; exact Hh | apply N.leb_le; vm_compute; reflexivity].
Qed.

(** * 2. the breadcrumb read leaf-to-root is the governing-headings breadcrumb *)

(** [below b t]: the test made by [chain_back]; [bafter b l]: the bound after reading [l] *)
Definition below (b : option N) (t : N * text) : bool :=
  match b with None => true | Some b => fst t <? b end.
Fixpoint bafter (b : option N) (l : list (N * text)) : option N :=
  match l with
  | [] => b
  | t :: r => bafter (if below b t then Some (fst t) else b) r
  end.

Lemma chain_back_cons b t r :
  chain_back b (t :: r) = if below b t then chain_back (Some (fst t)) r ++ [t] else chain_back b r.
Proof. reflexivity. Qed.

Lemma chain_back_app : forall l1 l2 b,
  chain_back b (l1 ++ l2) = chain_back (bafter b l1) l2 ++ chain_back b l1.
Proof.
  induction l1 as [|t r IH]; intros l2 b.
  - cbn [app bafter chain_back]. rewrite app_nil_r. reflexivity.
  - cbn [app bafter]. rewrite !chain_back_cons. destruct (below b t).
    + rewrite IH, app_assoc. reflexivity.
    + apply IH.
Qed.

(** the running bound is the minimum of the start bound and the levels read so far *)
Lemma below_bafter : forall l b t,
  below (bafter b l) t = below b t && forallb (fun t' => fst t <? fst t') l.
Proof.
  induction l as [|x l IH]; intros b t; cbn [bafter forallb].
  - rewrite andb_true_r. reflexivity.
  - rewrite IH, andb_assoc. f_equal.
    destruct b as [bb|]; cbn [below].
    + destruct (fst x <? bb) eqn:E; cbn [below]; lia.
    + reflexivity.
Qed.

Lemma forallb_rev {A} (f : A -> bool) l : forallb f (rev l) = forallb f l.
Proof.
  induction l as [|a r IH]; [reflexivity|]. cbn [rev forallb].
  rewrite forallb_app', IH. cbn [forallb]. rewrite andb_true_r, andb_comm. reflexivity.
Qed.

Lemma filter_true {A} (l : list A) : filter (fun _ => true) l = l.
Proof. induction l as [|a r IH]; [reflexivity|]. cbn [filter]. rewrite IH. reflexivity. Qed.

(** general form: started below a bound, the leaf-to-root reading yields the governing
    headings that lie below the bound *)
Theorem chain_back_filter_gov : forall ts b, chain_back b (rev ts) = filter (below b) (gov ts).
Proof.
  induction ts as [|t r IH]; intro b; [reflexivity|].
  cbn [rev gov]. rewrite chain_back_app, IH, chain_back_cons. cbn [chain_back app].
  rewrite below_bafter, forallb_rev.
  destruct (forallb (fun t' => fst t <? fst t') r); cbn [filter].
  - rewrite andb_true_r. destruct (below b t); reflexivity.
  - rewrite andb_false_r. reflexivity.
Qed.

(** [chain_back] = [gov], for every history of headings *)
Theorem chain_back_is_gov ts : chain_back None (rev ts) = gov ts.
Proof. rewrite chain_back_filter_gov. apply filter_true. Qed.

Corollary governing_is_chain_back lev es i :
  governing lev es i = map snd (chain_back None (rev (titles_upto lev es i))).
Proof. unfold governing. rewrite chain_back_is_gov. reflexivity. Qed.

(** the heading_path computed by the code is the chain read from the leaf upwards *)
Corollary heading_path_is_chain_back es i : (i < length es)%nat ->
  nth_error (assign es) i = Some (map snd (chain_back None (rev (titles_upto (lev_of es) es i)))).
Proof. intro H. rewrite <- governing_is_chain_back. apply heading_path_is_governing. exact H. Qed.

Example chain_back_nonvacuous :
  let ts := [(1, [65]); (2, [66]); (3, [67]); (2, [68]); (4, [69]); (3, [70])] in
  chain_back None (rev ts) = [(1, [65]); (2, [68]); (3, [70])] /\ gov ts = [(1, [65]); (2, [68]); (3, [70])].
Proof. vm_compute. split; reflexivity. Qed.

(** * 3. declarative characterisation of the heading-size buckets *)

(** [sep a b]: b is strictly smaller than a and more than 5 % of a away from it
    (the negation of the code's [(a - b).abs() <= a * 0.05] for b <= a) *)
Definition sep (a b : N) : Prop := b < a /\ a < 20 * (a - b).
Definition desc (l : list N) : Prop := StronglySorted (fun a b => b <= a) l.

Lemma near_false_sep a b : b <= a -> near a b = false -> sep a b.
Proof.
  unfold near, absdiff, sep. intros H E. destruct (a <=? b) eqn:L.
  - apply N.leb_le in L. apply N.leb_gt in E. lia.
  - apply N.leb_gt in L. apply N.leb_gt in E. lia.
Qed.

Lemma sep_near_false a b : sep a b -> near a b = false.
Proof.
  unfold near, absdiff, sep. intros [H1 H2]. destruct (a <=? b) eqn:L.
  - apply N.leb_le in L. lia.
  - apply N.leb_gt. lia.
Qed.

Lemma near_true_le b s : s <= b -> near b s = true -> 20 * (b - s) <= b.
Proof.
  unfold near, absdiff. intros H E. destruct (b <=? s) eqn:L.
  - apply N.leb_le in L. apply N.leb_le in E. lia.
  - apply N.leb_le in E. exact E.
Qed.

Lemma le_near_true b s : s <= b -> 20 * (b - s) <= b -> near b s = true.
Proof.
  unfold near, absdiff. intros H E. destruct (b <=? s) eqn:L.
  - apply N.leb_le in L. apply N.leb_le. lia.
  - apply N.leb_le. exact E.
Qed.

Lemma insert_desc_In x l p : In p (insert_desc x l) <-> p = x \/ In p l.
Proof.
  induction l as [|y r IH]; cbn [insert_desc].
  - cbn. intuition.
  - destruct (y <? x); cbn [In]; [intuition|]. rewrite IH. intuition.
Qed.

Lemma sort_desc_In l p : In p (sort_desc l) <-> In p l.
Proof.
  induction l as [|y r IH]; [cbn; tauto|].
  change (sort_desc (y :: r)) with (insert_desc y (sort_desc r)).
  rewrite insert_desc_In, IH. cbn. intuition.
Qed.

Lemma insert_desc_sorted x l : desc l -> desc (insert_desc x l).
Proof.
  unfold desc. induction l as [|y r IH]; intro H; cbn [insert_desc].
  - constructor; constructor.
  - inversion H as [|? ? Hs Hf]; subst. destruct (y <? x) eqn:E.
    + apply N.ltb_lt in E. constructor; [exact H|]. constructor; [lia|].
      eapply Forall_impl; [|exact Hf]. cbn. intros; lia.
    + apply N.ltb_ge in E. constructor; [apply IH; exact Hs|].
      apply Forall_forall. intros p Hp. apply insert_desc_In in Hp. destruct Hp as [->|Hp]; [exact E|].
      rewrite Forall_forall in Hf. apply Hf. exact Hp.
Qed.

Lemma sort_desc_sorted l : desc (sort_desc l).
Proof.
  induction l as [|y r IH]; [constructor|].
  change (sort_desc (y :: r)) with (insert_desc y (sort_desc r)). apply insert_desc_sorted. exact IH.
Qed.

Lemma SSorted_snoc {A} (R : A -> A -> Prop) l x :
  StronglySorted R l -> Forall (fun a => R a x) l -> StronglySorted R (l ++ [x]).
Proof.
  induction 1 as [|a l Hs IH Hf]; intro Hx; cbn [app].
  - constructor; constructor.
  - inversion Hx as [|? ? Ha Hl]; subst. constructor; [apply IH; exact Hl|].
    apply Forall_app. split; [exact Hf | constructor; [exact Ha | constructor]].
Qed.

Lemma existsb_false {A} (f : A -> bool) l : existsb f l = false -> forall x, In x l -> f x = false.
Proof.
  intros E x Hx. destruct (f x) eqn:F; [|reflexivity].
  rewrite (proj2 (existsb_exists f l)) in E; [discriminate|]. exists x. split; assumption.
Qed.

(** invariant of the greedy merge over a descending list *)
Lemma mk_buckets_inv : forall sizes acc,
  desc sizes ->
  StronglySorted sep acc ->
  (forall b s, In b acc -> In s sizes -> s <= b) ->
  StronglySorted sep (mk_buckets acc sizes)
  /\ (forall b, In b (mk_buckets acc sizes) -> In b acc \/ In b sizes)
  /\ (forall b, In b acc -> In b (mk_buckets acc sizes))
  /\ (forall s, In s sizes -> exists b, In b (mk_buckets acc sizes) /\ s <= b /\ 20 * (b - s) <= b).
Proof.
  induction sizes as [|s r IH]; intros acc Hd Ha Hle; cbn [mk_buckets].
  - repeat split; [exact Ha | intros b Hb; left; exact Hb | intros b Hb; exact Hb | intros s []].
  - inversion Hd as [|? ? Hdr Hfs]; subst. rewrite Forall_forall in Hfs.
    destruct (existsb (fun b => near b s) acc) eqn:E.
    + destruct (IH acc Hdr Ha) as [I1 [I2 [I3 I4]]].
      { intros b s' Hb Hs'. apply Hle; [exact Hb | right; exact Hs']. }
      repeat split; [exact I1 | | exact I3 |].
      * intros b Hb. destruct (I2 b Hb) as [H|H]; [left; exact H | right; right; exact H].
      * intros s' [<-|Hs']; [|apply I4; exact Hs'].
        apply existsb_exists in E. destruct E as [b0 [Hb0 Hn]].
        assert (s <= b0) as Hsb by (apply Hle; [exact Hb0 | left; reflexivity]).
        exists b0. repeat split; [apply I3; exact Hb0 | exact Hsb | apply near_true_le; assumption].
    + destruct (IH (acc ++ [s]) Hdr) as [I1 [I2 [I3 I4]]].
      { apply SSorted_snoc; [exact Ha|]. apply Forall_forall. intros b Hb.
        apply near_false_sep; [apply Hle; [exact Hb | left; reflexivity]|].
        exact (existsb_false _ _ E b Hb). }
      { intros b s' Hb Hs'. apply in_app_or in Hb. destruct Hb as [Hb|[<-|[]]].
        - apply Hle; [exact Hb | right; exact Hs'].
        - apply Hfs. exact Hs'. }
      repeat split; [exact I1 | | |].
      * intros b Hb. destruct (I2 b Hb) as [H|H]; [|right; right; exact H].
        apply in_app_or in H. destruct H as [H|[<-|[]]]; [left; exact H | right; left; reflexivity].
      * intros b Hb. apply I3. apply in_or_app. left. exact Hb.
      * intros s' [<-|Hs']; [|apply I4; exact Hs'].
        exists s. repeat split; [apply I3; apply in_or_app; right; left; reflexivity | lia | lia].
Qed.

(** valid title sizes: exactly the positive sizes of Title elements *)
Lemma title_sizes_spec es s :
  In s (title_sizes es) <-> exists e, In e es /\ is_title e = true /\ fsize e = Some s /\ 0 < s.
Proof.
  unfold title_sizes. rewrite in_flat_map. split.
  - intros [e [He Hs]]. exists e. unfold size_of, valid in Hs.
    destruct (is_title e); [|destruct Hs]. destruct (fsize e) as [s0|]; [|destruct Hs].
    destruct (0 <? s0) eqn:V; [|destruct Hs]. destruct Hs as [<-|[]].
    apply N.ltb_lt in V. repeat split; assumption.
  - intros [e [He [Ht [Hf Hv]]]]. exists e. split; [exact He|].
    unfold size_of, valid. rewrite Ht, Hf. rewrite (proj2 (N.ltb_lt _ _) Hv). left. reflexivity.
Qed.

(** THE CHARACTERISATION, for every element list (sizes in the model's units): the buckets
    (a) are strictly descending and pairwise more than 5 % (of the larger) apart,
    (b) are title sizes,
    (c) cover: every valid title size lies within 5 % of a bucket that is >= it. *)
Theorem buckets_char es :
  StronglySorted (fun a b => b < a /\ a < 20 * (a - b)) (buckets es)
  /\ (forall b, In b (buckets es) -> In b (title_sizes es))
  /\ (forall s, In s (title_sizes es) ->
        exists b, In b (buckets es) /\ s <= b /\ 20 * (b - s) <= b).
Proof.
  unfold buckets.
  destruct (mk_buckets_inv (sort_desc (title_sizes es)) [] (sort_desc_sorted _)) as [I1 [I2 [_ I4]]].
  - constructor.
  - intros b s [].
  - repeat split.
    + exact I1.
    + intros b Hb. destruct (I2 b Hb) as [[]|H]. apply sort_desc_In. exact H.
    + intros s Hs. apply I4. apply sort_desc_In. exact Hs.
Qed.

(** (a)-(c) determine the bucket list: any list with the three properties IS [buckets es]
    (the greedy choice is forced: a title size is a bucket iff no larger bucket is within 5 %) *)
Definition BucketSpec (sizes bs : list N) : Prop :=
  StronglySorted sep bs
  /\ (forall b, In b bs -> In b sizes)
  /\ (forall s, In s sizes -> exists b, In b bs /\ s <= b /\ 20 * (b - s) <= b).

Lemma SS_sep_pair bs a b : StronglySorted sep bs -> In a bs -> In b bs -> b < a -> sep a b.
Proof.
  induction 1 as [|x l Hs IH Hf]; intros Ha Hb Hlt; [destruct Ha|].
  rewrite Forall_forall in Hf. destruct Ha as [<-|Ha]; destruct Hb as [<-|Hb].
  - lia.
  - apply Hf. exact Hb.
  - destruct (Hf a Ha) as [H _]. lia.
  - apply IH; assumption.
Qed.

(** membership in a spec-satisfying list is decided by the larger members *)
Lemma bucket_member sizes bs s : BucketSpec sizes bs -> In s sizes ->
  (In s bs <-> forall b, In b bs -> s < b -> sep b s).
Proof.
  intros [H1 [H2 H3]] Hs. split.
  - intros Hin b Hb Hlt. apply (SS_sep_pair bs); assumption.
  - intro Hall. destruct (H3 s Hs) as [b [Hb [Hle Hn]]].
    destruct (N.eq_dec s b) as [->|Hne]; [exact Hb|].
    assert (s < b) as Hlt by lia. destruct (Hall b Hb Hlt) as [_ Hfar]. lia.
Qed.

Definition maxl (l : list N) : N := fold_right N.max 0 l.
Lemma maxl_ge l m : In m l -> m <= maxl l.
Proof.
  induction l as [|a r IH]; intros H; [destruct H|]. cbn [maxl fold_right]. fold (maxl r).
  destruct H as [<-|H]; [lia|]. specialize (IH H). lia.
Qed.

Lemma bucket_spec_same_members sizes bs1 bs2 : BucketSpec sizes bs1 -> BucketSpec sizes bs2 ->
  forall (n : nat) x, maxl sizes < x + N.of_nat n -> (In x bs1 <-> In x bs2).
Proof.
  intros S1 S2. induction n as [|n IH]; intros x Hx.
  - destruct S1 as [_ [A1 _]]. destruct S2 as [_ [A2 _]].
    split; intro H; [apply A1 in H | apply A2 in H]; apply maxl_ge in H; lia.
  - destruct (in_dec N.eq_dec x sizes) as [Hs|Hs].
    + rewrite (bucket_member sizes bs1 x S1 Hs), (bucket_member sizes bs2 x S2 Hs).
      split; intros H b Hb Hlt; apply H; try exact Hlt; apply (IH b); try exact Hb; lia.
    + destruct S1 as [_ [A1 _]]. destruct S2 as [_ [A2 _]].
      split; intro H; exfalso; apply Hs; [apply A1 | apply A2]; exact H.
Qed.

Lemma SS_sep_desc bs : StronglySorted sep bs -> StronglySorted (fun a b => b < a) bs.
Proof.
  induction 1 as [|a l Hs IH Hf]; constructor; [exact IH|].
  eapply Forall_impl; [|exact Hf]. intros b [H _]. exact H.
Qed.

Lemma sdesc_set_unique : forall a b : list N,
  StronglySorted (fun a b => b < a) a -> StronglySorted (fun a b => b < a) b ->
  (forall p, In p a <-> In p b) -> a = b.
Proof.
  induction a as [|x a IH]; intros b Ha Hb H.
  - destruct b as [|y b]; [reflexivity|]. exfalso. apply (H y). left. reflexivity.
  - destruct b as [|y b]; [exfalso; apply (H x); left; reflexivity|].
    inversion Ha as [|? ? Ha' Fa]; inversion Hb as [|? ? Hb' Fb]; subst.
    rewrite Forall_forall in Fa, Fb.
    assert (x = y) as ->.
    { destruct (proj1 (H x) (or_introl eq_refl)) as [E|E]; [symmetry; exact E|].
      destruct (proj2 (H y) (or_introl eq_refl)) as [E'|E']; [exact E'|].
      apply Fb in E. apply Fa in E'. lia. }
    f_equal. apply IH; try assumption. intro p. split; intro Hp.
    + destruct (proj1 (H p) (or_intror Hp)) as [E|E]; [|exact E]. subst. apply Fa in Hp. lia.
    + destruct (proj2 (H p) (or_intror Hp)) as [E|E]; [|exact E]. subst. apply Fb in Hp. lia.
Qed.

Theorem bucket_spec_unique sizes bs1 bs2 : BucketSpec sizes bs1 -> BucketSpec sizes bs2 -> bs1 = bs2.
Proof.
  intros S1 S2. apply sdesc_set_unique; [apply SS_sep_desc, S1 | apply SS_sep_desc, S2|].
  intro p. apply (bucket_spec_same_members sizes bs1 bs2 S1 S2 (S (N.to_nat (maxl sizes)))). lia.
Qed.

Theorem buckets_spec es : BucketSpec (title_sizes es) (buckets es).
Proof. exact (buckets_char es). Qed.

(** full strength: a list has properties (a)-(c) iff it is the code's bucket list *)
Theorem buckets_characterised es bs : BucketSpec (title_sizes es) bs <-> bs = buckets es.
Proof.
  split; [intro H; apply (bucket_spec_unique (title_sizes es)); [exact H | apply buckets_spec] | intros ->; apply buckets_spec].
Qed.

(** consequence for the ranks: every valid title size finds a bucket, so the fallback
    branch of [level_of] is never taken for a title of the list itself *)
Lemma find_bucket_some : forall bs i s b, In b bs -> near b s = true -> exists l, find_bucket i bs s = Some l.
Proof.
  induction bs as [|a r IH]; intros i s b Hb Hn; [destruct Hb|]. cbn [find_bucket].
  destruct (near a s) eqn:E; [eexists; reflexivity|].
  destruct Hb as [->|Hb]; [rewrite Hn in E; discriminate|]. apply (IH _ _ b); assumption.
Qed.

Corollary title_size_has_rank es s : In s (title_sizes es) -> exists l, find_bucket 0 (buckets es) s = Some l.
Proof.
  intro Hs. destruct (buckets_char es) as [_ [_ C]]. destruct (C s Hs) as [b [Hb [Hle Hn]]].
  apply (find_bucket_some _ _ _ b Hb). apply le_near_true; assumption.
Qed.

(** non-trivial value: sizes (1/8 pt) 192, 184 (within 5 % of 192), 182 (more than 5 % below 192
    but within 5 % of 184: still its own bucket, chains do not merge), 144, 140, and junk *)
Example buckets_nonvacuous :
  let es := map mk_elem [(true, Some 144, [65]); (true, Some 192, [66]); (false, Some 500, [112]);
                         (true, Some 184, [67]); (true, None, [68]); (true, Some 0, [69]);
                         (true, Some 182, [70]); (true, Some 140, [71]); (true, Some 192, [72])] in
  title_sizes es = [144; 192; 184; 182; 140; 192]
  /\ buckets es = [192; 182; 144]
  /\ BucketSpec (title_sizes es) [192; 182; 144].
Proof.
  cbv zeta. split; [vm_compute; reflexivity|]. split; [vm_compute; reflexivity|].
  apply buckets_characterised. vm_compute. reflexivity.
Qed.
