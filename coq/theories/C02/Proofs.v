(** C02 — the tolerance comparison is an exact bound, complete for correct rounding, and the
    operator comparison is pointwise. *)
From OxVerif Require Import Base.Util C02.Model.
Require Import Lia ZArith.
Open Scope Z_scope.

(** soundness and completeness of [close]: it IS the bound *)
Lemma close_iff : forall d v r, close d v r = true <-> Z.abs (v - r) <= tol d v.
Proof. intros. unfold close. apply Z.leb_le. Qed.

Lemma close_refl : forall d v, close d v v = true.
Proof.
  intros. apply close_iff. rewrite Z.sub_diag. cbn [Z.abs]. unfold tol, slack.
  assert (0 <= Z.abs v / 8388608) by (apply Z.div_pos; lia).
  assert (0 < half_unit d) by (destruct d as [|p]; [reflexivity|]; do 3 (try destruct p as [p|p|]); reflexivity).
  lia.
Qed.

Lemma close_sym_bound : forall d v r, close d v r = true -> Z.abs (r - v) <= tol d v.
Proof. intros d v r H. apply close_iff in H. rewrite <- Z.abs_opp. replace (- (r - v)) with (v - r) by lia. exact H. Qed.

(** the writer's rounding to d decimals: nearest multiple of [unit d], ties away from zero
    (any tie rule satisfies the same bound) *)
Definition unit (d : N) : Z := 2 * half_unit d.
Definition round_to (d : N) (v : Z) : Z :=
  if 0 <=? v then (v + half_unit d) / unit d * unit d
  else - ((- v + half_unit d) / unit d * unit d).

Lemma half_unit_pos : forall d, 0 < half_unit d.
Proof. intro d. destruct d as [|p]; [reflexivity|]. do 3 (try destruct p as [p|p|]); reflexivity. Qed.

Lemma round_nonneg_within : forall u v, 0 < u -> 0 <= v ->
  Z.abs ((v + u) / (2 * u) * (2 * u) - v) <= u.
Proof.
  intros u v Hu Hv.
  pose proof (Z.div_mod (v + u) (2 * u) ltac:(lia)) as Hd.
  pose proof (Z.mod_pos_bound (v + u) (2 * u) ltac:(lia)) as Hm.
  lia.
Qed.

(** rounding moves a value by at most half a unit of the last printed decimal *)
Theorem round_within_half_unit : forall d v, Z.abs (round_to d v - v) <= half_unit d.
Proof.
  intros d v. unfold round_to, unit. pose proof (half_unit_pos d) as Hu.
  destruct (0 <=? v) eqn:E.
  - apply Z.leb_le in E. apply round_nonneg_within; assumption.
  - apply Z.leb_gt in E.
    pose proof (round_nonneg_within (half_unit d) (- v) Hu ltac:(lia)) as H.
    rewrite <- Z.abs_opp.
    replace (- (- ((- v + half_unit d) / (2 * half_unit d) * (2 * half_unit d)) - v))
      with ((- v + half_unit d) / (2 * half_unit d) * (2 * half_unit d) - - v) by lia.
    exact H.
Qed.

(** completeness: whatever the correct writer prints (v rounded to d decimals) and a reader
    returns within the f32 slack of THAT is accepted *)
Theorem rounded_value_accepted : forall d v r,
  Z.abs (r - round_to d v) <= slack v -> close d v r = true.
Proof.
  intros d v r H. apply close_iff. unfold tol.
  pose proof (round_within_half_unit d v) as Hr.
  replace (v - r) with (- ((r - round_to d v) + (round_to d v - v))) by lia.
  rewrite Z.abs_opp.
  pose proof (Z.abs_triangle (r - round_to d v) (round_to d v - v)). lia.
Qed.

(** soundness: an accepted value is within half a unit of the last decimal, plus the f32
    slack, of the authored value — a writer printing one decimal fewer is rejected as soon
    as the dropped digit matters (see [one_decimal_less_rejected]) *)
Theorem accepted_value_close : forall d v r,
  close d v r = true -> Z.abs (v - r) <= half_unit d + slack v.
Proof. intros d v r H. apply close_iff in H. exact H. Qed.

Example one_decimal_less_rejected : close 2 123460000 123500000 = false.
Proof. reflexivity. Qed.
Example two_decimals_accepted : close 2 123456000 123459999 = true.
Proof. reflexivity. Qed.

(** [all2] is pointwise *)
Lemma all2_Forall2 : forall {A B} (f : A -> B -> bool) x y,
  all2 f x y = true <-> Forall2 (fun a b => f a b = true) x y.
Proof.
  induction x as [|a x IH]; destruct y as [|b y]; cbn [all2]; split; intro H;
    try constructor; try discriminate; try (inversion H; fail).
  - apply andb_true_iff in H. apply H.
  - apply IH. apply andb_true_iff in H. apply H.
  - inversion H; subst. apply andb_true_iff. split; [assumption|apply IH; assumption].
Qed.

(** the operator comparison: same number of operators, in the same order, with the same
    names, operands within tolerance (names and strings equal), same colours in force *)
Definition OpClose (e : eop) (n : nop) : Prop :=
  let '(en, ea, ef, es) := e in
  let '(nn, na, nf, ns) := n in
  en = nn /\ Forall2 (fun x y => arg_ok x y = true) ea na /\
  ocolour_ok ef nf = true /\ ocolour_ok es ns = true.

Theorem ops_ok_sound : forall e r, ops_ok e r = true -> Forall2 OpClose e (normalise g0 r).
Proof.
  unfold ops_ok. intros e r H. apply all2_Forall2 in H.
  induction H as [|x y lx ly Hxy _ IH]; constructor; [|exact IH].
  destruct x as [[[en ea] ef] es], y as [[[nn na] nf] ns]. unfold op_ok in Hxy. cbn.
  apply andb_true_iff in Hxy. destruct Hxy as [Hxy Hs].
  apply andb_true_iff in Hxy. destruct Hxy as [Hxy Hf].
  apply andb_true_iff in Hxy. destruct Hxy as [Hn Ha].
  split; [apply bytes_eqb_eq; exact Hn|]. split; [apply all2_Forall2; exact Ha|]. split; assumption.
Qed.

(** normalisation emits no colour-setting operator with numeric operands and keeps every other
    operator, in order (shown on an example with q/Q and lazily placed colour operators) *)
Example normalise_demo :
  normalise g0
    [(S_ "rg", [ANum 1000000; ANum 0; ANum 0]); (S_ "re", [ANum 0; ANum 0; ANum 10; ANum 10]);
     (S_ "q", []); (S_ "g", [ANum 500000]); (S_ "f", []); (S_ "Q", []); (S_ "f", [])]
  = [(S_ "re", [ANum 0; ANum 0; ANum 10; ANum 10], None, None); (S_ "q", [], None, None);
     (S_ "f", [], Some [500000], None); (S_ "Q", [], None, None);
     (S_ "f", [], Some [1000000; 0; 0], None)].
Proof. vm_compute. reflexivity. Qed.
