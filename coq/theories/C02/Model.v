(** C02 — judging the read-back of a written document against its authoring program.
    Numbers are integers in millionths (exact values of the authoring program, and the
    reader's f32 operands converted by the harness).  The writer's documented rounding is
    d decimals (2 coordinates/widths/matrices, 3 device colours, 4 sc/SC, 6 object reals);
    the reader parses into f32.  [tol d v] is the bound within which the value read back
    must lie; Proofs.v shows the comparison is exactly that bound and that every value
    produced by correct rounding followed by a correctly rounded f32 parse passes.

    Colour operators are graphics STATE: the library emits them lazily (right before the
    painting operator, and again inside every text object).  The comparison therefore
    interprets them: the sequence is normalised to the non-colour operators, every painting
    operator annotated with the fill / stroke colour in force (ISO 32000-1 8.6.8, 8.4.2 q/Q),
    initial colour DeviceGray 0. *)
From OxVerif Require Import Base.Util.
Open Scope Z_scope.

Inductive arg := ANum (v : Z) | AName (n : bytes) | AStr (s : bytes).
Definition rop : Type := bytes * list arg.

Inductive earg := ENum (v : Z) (d : N) | EName (n : bytes) | EStr (s : bytes).
Definition colour := list Z.            (* 1, 3 or 4 components in millionths *)
Definition eop : Type := bytes * list earg * option colour * option colour.   (* name args fill stroke *)
Definition nop : Type := bytes * list arg * option colour * option colour.

Definition half_unit (d : N) : Z :=
  match d with
  | 0%N => 500000 | 1%N => 50000 | 2%N => 5000 | 3%N => 500 | 4%N => 50 | 5%N => 5 | _ => 1
  end.
(** f32 parse: relative 2^-24, taken generously as 2^-23; +2 for the two conversions to millionths *)
Definition slack (v : Z) : Z := Z.abs v / 8388608 + 2.
Definition tol (d : N) (v : Z) : Z := half_unit d + slack v.
Definition close (d : N) (v r : Z) : bool := Z.abs (v - r) <=? tol d v.

Definition arg_ok (e : earg) (a : arg) : bool :=
  match e, a with
  | ENum v d, ANum r => close d v r
  | EName n, AName m => bytes_eqb n m
  | EStr s, AStr t => bytes_eqb s t
  | _, _ => false
  end.

Fixpoint all2 {A B} (f : A -> B -> bool) (x : list A) (y : list B) : bool :=
  match x, y with
  | [], [] => true
  | a :: x', b :: y' => f a b && all2 f x' y'
  | _, _ => false
  end.

Definition colour_ok (e r : colour) : bool := all2 (close 3) e r.
Definition ocolour_ok (e r : option colour) : bool :=
  match e, r with
  | None, None => true
  | Some a, Some b => colour_ok a b
  | _, _ => false
  end.

Definition op_ok (e : eop) (n : nop) : bool :=
  let '(en, ea, ef, es) := e in
  let '(nn, na, nf, ns) := n in
  bytes_eqb en nn && all2 arg_ok ea na && ocolour_ok ef nf && ocolour_ok es ns.

(** * colour-state interpretation of the operators read back *)
Definition S_ (s : string) : bytes := bytes_of_string s.
Definition nums (l : list arg) : option (list Z) :=
  fold_right (fun a acc => match a, acc with ANum v, Some r => Some (v :: r) | _, _ => None end) (Some []) l.

Definition is_op (s : string) (n : bytes) : bool := bytes_eqb (S_ s) n.

Record gst := { g_fill : colour; g_stroke : colour; g_stack : list (colour * colour) }.
Definition g0 : gst := {| g_fill := [0]; g_stroke := [0]; g_stack := [] |}.

Definition norm_step (s : gst) (o : rop) : gst * list nop :=
  let '(n, a) := o in
  let setf := is_op "g" n || is_op "rg" n || is_op "k" n in
  let sets := is_op "G" n || is_op "RG" n || is_op "K" n in
  if setf then
    match nums a with
    | Some c => ({| g_fill := c; g_stroke := g_stroke s; g_stack := g_stack s |}, [])
    | None => (s, [(n, a, None, None)])
    end
  else if sets then
    match nums a with
    | Some c => ({| g_fill := g_fill s; g_stroke := c; g_stack := g_stack s |}, [])
    | None => (s, [(n, a, None, None)])
    end
  else if is_op "q" n then
    ({| g_fill := g_fill s; g_stroke := g_stroke s; g_stack := (g_fill s, g_stroke s) :: g_stack s |},
     [(n, a, None, None)])
  else if is_op "Q" n then
    (match g_stack s with
     | (f, k) :: r => {| g_fill := f; g_stroke := k; g_stack := r |}
     | [] => s
     end, [(n, a, None, None)])
  else if is_op "f" n || is_op "F" n || is_op "f*" n || is_op "Tj" n || is_op "TJ" n then
    (s, [(n, a, Some (g_fill s), None)])
  else if is_op "S" n || is_op "s" n then (s, [(n, a, None, Some (g_stroke s))])
  else if is_op "B" n || is_op "B*" n || is_op "b" n || is_op "b*" n then
    (s, [(n, a, Some (g_fill s), Some (g_stroke s))])
  else (s, [(n, a, None, None)]).

Fixpoint normalise (s : gst) (l : list rop) : list nop :=
  match l with
  | [] => []
  | o :: r => let '(s', out) := norm_step s o in out ++ normalise s' r
  end.

Definition ops_ok (e : list eop) (r : list rop) : bool := all2 op_ok e (normalise g0 r).

(** * pages, images, document *)
(** image: name, width, height, decoded sample bytes *)
Definition image : Type := bytes * N * N * bytes.
Definition image_ok (e r : image) : bool :=
  let '(en, ew, eh, ed) := e in
  let '(rn, rw, rh, rd) := r in
  bytes_eqb en rn && (ew =? rw)%N && (eh =? rh)%N && bytes_eqb ed rd.

(** page: MediaBox (4 numbers, 6 decimals), rotation, operators, images, number of annotations *)
Definition epage : Type := list Z * Z * list eop * list image * N.
Definition rpage : Type := list Z * Z * list rop * list image * N.

Definition box_ok (e r : list Z) : bool := all2 (close 6) e r.

Definition page_code (e : epage) (r : rpage) : N :=
  let '(eb, er, eo, ei, ea) := e in
  let '(rb, rr, ro, ri, ra) := r in
  ((if box_ok eb rb then 0 else 4) + (if (er =? rr)%Z then 0 else 8) + (if ops_ok eo ro then 0 else 16)
   + (if all2 image_ok ei ri then 0 else 32) + (if (ea =? ra)%N then 0 else 64))%N.

(** document: read ok, pages, info strings (title, author, subject as written) *)
Definition doc_case : Type := bool * list epage * list rpage * list bytes * list bytes.

Definition doc_code (c : doc_case) : N :=
  let '(read_ok, ep, rp, em, rm) := c in
  if negb read_ok then 2%N else
  let pc := if (N.of_nat (length ep) =? N.of_nat (length rp))%N
            then fold_left N.lor (List.map (fun x => page_code (fst x) (snd x)) (combine ep rp)) 0%N
            else 128%N in
  let mc := if all2 bytes_eqb em rm then 0%N else 256%N in
  (if ((pc =? 0) && (mc =? 0))%N then 0 else 2 + pc + mc)%N.
