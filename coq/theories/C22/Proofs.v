(** C22 — proofs: inductive invariant of the batch transition system and the terminal theorem. *)
From OxVerif Require Import Base.Util C22.Model.
Close Scope N_scope.
Open Scope nat_scope.
Set Implicit Arguments.
Arguments Nat.ltb : simpl never.
Arguments Nat.eqb : simpl never.
Arguments Nat.leb : simpl never.

(** * list helpers *)
Lemma lsum_app A (f : A -> nat) a b : lsum f (a ++ b) = lsum f a + lsum f b.
Proof. induction a; cbn; lia. Qed.

Lemma lsum_upd A (f : A -> nat) l w x old :
  nth_error l w = Some old -> lsum f (upd l w x) + f old = lsum f l + f x.
Proof.
  revert w. induction l as [|y l IH]; intros [|w] H; cbn in *; try discriminate.
  - injection H as ->. lia.
  - specialize (IH _ H). lia.
Qed.

Lemma length_upd A (l : list A) w x : length (upd l w x) = length l.
Proof. revert w. induction l; intros [|w]; cbn; auto. Qed.

Lemma nth_error_upd_same A (l : list A) w x : w < length l -> nth_error (upd l w x) w = Some x.
Proof. revert w. induction l; intros [|w] H; cbn in *; try lia; auto. apply IHl. lia. Qed.

Lemma nth_error_upd_other A (l : list A) w x j : j <> w -> nth_error (upd l w x) j = nth_error l j.
Proof.
  revert w j. induction l; intros [|w] [|j] H; cbn in *; try congruence; auto.
Qed.

Lemma In_upd A (l : list A) w x y : In y (upd l w x) -> y = x \/ In y l.
Proof.
  revert w. induction l; intros [|w] H; cbn in *; auto.
  - destruct H; auto.
  - destruct H; auto. apply IHl in H. tauto.
Qed.

Lemma In_upd_keep A (l : list A) w x y old :
  nth_error l w = Some old -> In y l -> y <> old -> In y (upd l w x).
Proof.
  revert w. induction l; intros [|w] H Hin Hne; cbn in *; try discriminate.
  - injection H as ->. destruct Hin; [congruence|auto].
  - destruct Hin; [auto|right; eapply IHl; eauto].
Qed.

Lemma In_upd_new A (l : list A) w x : w < length l -> In x (upd l w x).
Proof. intro H. eapply nth_error_In. apply nth_error_upd_same. exact H. Qed.

Lemma nth_error_lt A (l : list A) w x : nth_error l w = Some x -> w < length l.
Proof. intro H. apply nth_error_Some. congruence. Qed.

Lemma lsum_zero_all A (f : A -> nat) l : (forall x, In x l -> f x = 0) -> lsum f l = 0.
Proof. induction l; cbn; intros H; auto. rewrite H, IHl; auto. Qed.

Lemma lsum_in_le A (f : A -> nat) l x : In x l -> f x <= lsum f l.
Proof. induction l; cbn; intros []; subst; try lia. specialize (IHl H). lia. Qed.

(** * counting where job [i] is *)
Definition eqn (i j : nat) : nat := if j =? i then 1 else 0.
Definition occ (i : nat) (l : list nat) : nat := lsum (eqn i) l.
Definition holds (i : nat) (st : wstate) : nat :=
  match st with
  | WStart j | WCheck j | WCancelled j | WFlag j | WDone j | WFail j => eqn i j
  | WIdle | WExited => 0
  end.
Definition infl (i : nat) (x : nat * rkind) : nat := eqn i (fst x).
Definition filled (i : nat) (sl : list (option (nat * rkind))) : nat :=
  match nth_error sl i with Some (Some _) => 1 | _ => 0 end.
Definition cnt (i : nat) (s : state) : nat :=
  occ i (queue s) + lsum (holds i) (workers s) + lsum (infl i) (inflight s) + filled i (slots s).
Definition dposd (c : cfg) (d : dpc) : nat :=
  match d with DCheck i | DCancel i | DEnq i => i | DClose | DDone => n c end.
Definition dpos (c : cfg) (s : state) : nat := dposd c (dp s).

(** job not yet past its flag check *)
Definition prew (i : nat) (st : wstate) : nat :=
  match st with WStart j | WCheck j => eqn i j | _ => 0 end.
Definition pre (i : nat) (s : state) : nat := occ i (queue s) + lsum (prew i) (workers s).

Definition isrun (st : wstate) : nat :=
  match st with WCheck _ | WCancelled _ | WFlag _ | WDone _ | WFail _ => 1 | _ => 0 end.
Definition ispost (st : wstate) : nat :=
  match st with WFlag _ | WDone _ | WFail _ => 1 | _ => 0 end.
Definition skind (K : rkind) (x : option (nat * rkind)) : nat :=
  match x with Some p => kindis K p | None => 0 end.

Definition seenP (P : label -> bool) (rt : list label) : Prop := exists e, In e rt /\ P e = true.
Definition lateP (P : label -> bool) (j : nat) (rt : list label) : Prop :=
  exists a b w, rt = a ++ LStart w j :: b /\ seenP P b.

(** * the invariant *)
Record Inv (c : cfg) (s : state) : Prop := {
  i_len : length (slots s) = n c;
  i_dpos : dpos c s <= n c;
  i_dlt : match dp s with DCheck i | DCancel i | DEnq i => i < n c | _ => True end;
  i_cnt : forall i, cnt i s = if i <? dpos c s then 1 else 0;
  i_slot : forall j x r, nth_error (slots s) j = Some (Some (x, r)) -> x = j;
  i_run : running s = lsum isrun (workers s);
  i_comp : completed s = kcount RSuccess (inflight s) + lsum (skind RSuccess) (slots s);
  i_failc : failed s = kcount RFailed (inflight s) + lsum (skind RFailed) (slots s);
  i_closed : closed s = match dp s with DDone => true | _ => false end;
  i_exit : In WExited (workers s) -> closed s = true /\ queue s = [];
  i_flag : seenP is_flag (rtrace s) -> flag s = true;
  i_ran : forall j, In j (ran s) -> pre j s = 0 /\ j < dpos c s /\ ~ lateP is_flag j (rtrace s);
  i_ranlen : length (ran s) = completed s + failed s + lsum ispost (workers s);
  i_failtr : soe c = true -> forall a b w f, rtrace s = a ++ LFail w f :: b -> seenP is_flag b;
  i_failst : soe c = true -> forall f, In (WFail f) (workers s) -> seenP is_flag (rtrace s);
  i_wlen : length (workers s) = k c
}.

Lemma lsum_repeat0 A (f : A -> nat) x m : f x = 0 -> lsum f (repeat x m) = 0.
Proof. intro H. induction m; cbn; lia. Qed.

Lemma nth_error_repeat_None A (x : A) m j y : nth_error (repeat x m) j = Some y -> y = x.
Proof. intro H. apply nth_error_In in H. apply repeat_spec in H. exact H. Qed.

Lemma next_dpos c j : j <= n c -> dposd c (next c j) = j.
Proof.
  intro H. unfold dposd, next. destruct (Nat.ltb_spec j (n c)); lia.
Qed.

Lemma inv_init c : Inv c (init c).
Proof.
  assert (D : dpos c (init c) = 0).
  { unfold dpos, init. cbn [dp]. apply next_dpos. lia. }
  constructor; try rewrite D; cbn.
  - apply repeat_length.
  - lia.
  - unfold next. destruct (Nat.ltb_spec 0 (n c)); auto.
  - intro i. unfold cnt, filled. cbn.
    rewrite lsum_repeat0 by reflexivity.
    destruct (nth_error (repeat None (n c)) i) as [[p|]|] eqn:E; auto.
    apply nth_error_repeat_None in E. discriminate.
  - intros j x r H. apply nth_error_repeat_None in H. discriminate.
  - rewrite lsum_repeat0; reflexivity.
  - rewrite lsum_repeat0; reflexivity.
  - rewrite lsum_repeat0; reflexivity.
  - unfold next. destruct (n c); reflexivity.
  - intro H. apply repeat_spec in H. discriminate.
  - intros [e [[] _]].
  - intros j [].
  - rewrite lsum_repeat0; reflexivity.
  - intros _ a b w f H. destruct a; discriminate.
  - intros _ f H. apply repeat_spec in H. discriminate.
  - apply repeat_length.
Qed.

(** * facts about seenP / lateP under a new event *)
Lemma seenP_cons P e rt : seenP P (e :: rt) <-> P e = true \/ seenP P rt.
Proof.
  split.
  - intros [x [[->|H] Hp]]; [auto|right; exists x; auto].
  - intros [H|[x [H Hp]]]; [exists e; cbn; auto|exists x; cbn; auto].
Qed.

Lemma lateP_seen P j rt : lateP P j rt -> seenP P rt.
Proof.
  intros [a [b [w [-> [e [H Hp]]]]]]. exists e. split; auto.
  apply in_or_app. right. right. exact H.
Qed.

Lemma lateP_cons P j e rt :
  lateP P j (e :: rt) -> lateP P j rt \/ ((exists w, e = LStart w j) /\ seenP P rt).
Proof.
  intros [a [b [w [H S]]]]. destruct a as [|x a]; cbn in H; injection H as -> ->.
  - right. split; eauto.
  - left. exists a, b, w. auto.
Qed.

(** * inversion of a step *)
Lemma step_log c s l s' : step c s l = Some s' -> exists s0, step0 c s l = Some s0 /\ s' = log l s0.
Proof.
  unfold step. destruct (step0 c s l); cbn; intro H; [injection H as <-; eauto|discriminate].
Qed.

Ltac gd :=
  match goal with
  | H : guard (?i =? ?j) _ = Some _ |- _ =>
      destruct (Nat.eqb_spec i j); cbn [guard] in H; [subst|discriminate]
  end.

(** worker-step preliminaries: the stepping worker's old state is known *)
Ltac winv H :=
  match type of H with
  | context [nth_error (workers ?s) ?w] =>
      let E := fresh "Ew" in
      destruct (nth_error (workers s) w) as [[]|] eqn:E; try discriminate H
  end.

Lemma eqn_refl i : eqn i i = 1.
Proof. unfold eqn. rewrite Nat.eqb_refl. reflexivity. Qed.

Lemma eqn_cases i j : (i = j /\ eqn i j = 1) \/ (i <> j /\ eqn i j = 0).
Proof. unfold eqn. destruct (Nat.eqb_spec j i); [left|right]; split; congruence. Qed.

Lemma filled_upd_same sl i x : i < length sl -> filled i (upd sl i (Some x)) = 1.
Proof. intro H. unfold filled. rewrite nth_error_upd_same; auto. Qed.

Lemma filled_upd_other sl i j x : j <> i -> filled j (upd sl i x) = filled j sl.
Proof. intro H. unfold filled. rewrite nth_error_upd_other; auto. Qed.

Lemma kcount_app K a b : kcount K (a ++ b) = kcount K a + kcount K b.
Proof. apply lsum_app. Qed.

(** * preservation *)
Section Preserve.
Variable c : cfg.

(** counting part, proved first *)
Record Inv1 (s : state) : Prop := {
  j_len : length (slots s) = n c;
  j_dpos : dpos c s <= n c;
  j_dlt : match dp s with DCheck i | DCancel i | DEnq i => i < n c | _ => True end;
  j_cnt : forall i, cnt i s = if i <? dpos c s then 1 else 0;
  j_slot : forall j x r, nth_error (slots s) j = Some (Some (x, r)) -> x = j
}.

Lemma Inv_Inv1 s : Inv c s -> Inv1 s.
Proof. intros []. constructor; auto. Qed.

Lemma cnt_le1 s i : Inv1 s -> cnt i s <= 1.
Proof. intros H. rewrite (j_cnt H). destruct (i <? dpos c s); lia. Qed.

Lemma held_lt s w st i : Inv1 s -> nth_error (workers s) w = Some st -> holds i st = 1 -> i < dpos c s.
Proof.
  intros H Hw Hh. pose proof (j_cnt H i) as C.
  destruct (Nat.ltb_spec i (dpos c s)); auto.
  unfold cnt in C. apply nth_error_In in Hw. pose proof (lsum_in_le (holds i) _ _ Hw). lia.
Qed.

Lemma next_lt j : j < n c -> match next c (S j) with DCheck i | DCancel i | DEnq i => i < n c | _ => True end.
Proof. intros. unfold next. destruct (Nat.ltb_spec (S j) (n c)); auto. Qed.

Lemma ltb_S i j : (i <? S j) = (i <? j) || (i =? j).
Proof.
  destruct (Nat.ltb_spec i (S j)), (Nat.ltb_spec i j), (Nat.eqb_spec i j); cbn; auto; lia.
Qed.

Ltac wcount s w i0 :=
  repeat match goal with
  | E : nth_error (workers s) w = Some ?old |- context [lsum ?f (upd (workers s) w ?x)] =>
      let L := fresh "L" in
      pose proof (@lsum_upd _ f (workers s) w x _ E) as L;
      generalize dependent (lsum f (upd (workers s) w x)); intros
  end.

Lemma step_Inv1 s l s' : Inv1 s -> step c s l = Some s' -> Inv1 s'.
Proof.
  intros I H. apply step_log in H. destruct H as [s0 [H ->]].
  destruct I as [I1 I2 I3 I4 I5].
  destruct l; cbn [step0] in H.
  - (* LDCheck *)
    destruct (dp s) eqn:D; try discriminate. gd. injection H as <-.
    unfold dpos in *. rewrite D in I2, I4. cbn in *.
    constructor; cbn; auto.
    + unfold dpos. cbn. destruct (flag s); cbn; lia.
    + destruct (flag s); auto.
    + intro j. specialize (I4 j). unfold cnt, occ, dpos in *. cbn. destruct (flag s); cbn; auto.
  - (* LDCancel *)
    destruct (dp s) eqn:D; try discriminate. gd. injection H as <-.
    unfold dpos in *. rewrite D in I2, I4. cbn in *.
    constructor; cbn; auto.
    + unfold dpos. cbn. rewrite next_dpos; lia.
    + apply next_lt; auto.
    + intro j. unfold dpos. cbn.
      rewrite next_dpos by lia. specialize (I4 j). unfold cnt, occ in *. cbn.
      rewrite lsum_app. cbn. unfold infl at 2. cbn. rewrite ltb_S.
      destruct (eqn_cases j i0) as [[-> ->]|[Hn ->]].
      * rewrite Nat.eqb_refl, Nat.ltb_irrefl in *. cbn. lia.
      * destruct (Nat.eqb_spec j i0); [congruence|]. rewrite orb_false_r. lia.
  - (* LDEnq *)
    destruct (dp s) eqn:D; try discriminate. gd. injection H as <-.
    unfold dpos in *. rewrite D in I2, I4. cbn in *.
    constructor; cbn; auto.
    + unfold dpos. cbn. rewrite next_dpos; lia.
    + apply next_lt; auto.
    + intro j. unfold dpos. cbn.
      rewrite next_dpos by lia. specialize (I4 j). unfold cnt in *. cbn.
      unfold occ in *. rewrite lsum_app. cbn. rewrite ltb_S.
      destruct (eqn_cases j i0) as [[-> ->]|[Hn ->]].
      * rewrite Nat.eqb_refl, Nat.ltb_irrefl in *. cbn. lia.
      * destruct (Nat.eqb_spec j i0); [congruence|]. rewrite orb_false_r. lia.
  - (* LDClose *)
    destruct (dp s) eqn:D; try discriminate. injection H as <-.
    unfold dpos in *. rewrite D in I2, I4. cbn in *.
    constructor; cbn; auto.
  - (* LRecv *)
    winv H. destruct (queue s) as [|i q] eqn:Q.
    + destruct (closed s); try discriminate. injection H as <-.
      constructor; cbn; auto. intro j. specialize (I4 j). unfold cnt, occ, dpos in *. cbn.
      rewrite Q in *. wcount s w j. cbn in *. lia.
    + injection H as <-.
      constructor; cbn; auto. intro j. specialize (I4 j). unfold cnt, occ, dpos in *. cbn.
      rewrite Q in *. wcount s w j. cbn in *. lia.
  - (* LStart *)
    winv H. gd. injection H as <-.
    constructor; cbn; auto. intro j. specialize (I4 j). unfold cnt, occ, dpos in *. cbn.
    wcount s w j. cbn in *. lia.
  - (* LCheck *)
    winv H. gd. injection H as <-.
    destruct (flag s).
    + constructor; cbn; auto. intro j. specialize (I4 j). unfold cnt, occ, dpos in *. cbn.
      wcount s w j. cbn in *. lia.
    + constructor; cbn; auto. intro j. specialize (I4 j). unfold cnt, occ, dpos in *. cbn.
      wcount s w j. destruct (outcome_of c i0), (soe c); cbn in *; lia.
  - (* LCancelled *)
    winv H. gd. injection H as <-.
    constructor; cbn; auto. intro j. specialize (I4 j). unfold cnt, occ, dpos in *. cbn.
    rewrite lsum_app. cbn. unfold infl at 2. cbn. wcount s w j. cbn in *. lia.
  - (* LFlag *)
    winv H. gd. injection H as <-.
    constructor; cbn; auto. intro j. specialize (I4 j). unfold cnt, occ, dpos in *. cbn.
    wcount s w j. cbn in *. lia.
  - (* LDone *)
    winv H. gd. injection H as <-.
    constructor; cbn; auto. intro j. specialize (I4 j). unfold cnt, occ, dpos in *. cbn.
    rewrite lsum_app. cbn. unfold infl at 2. cbn. wcount s w j. cbn in *. lia.
  - (* LFail *)
    winv H. gd. injection H as <-.
    constructor; cbn; auto. intro j. specialize (I4 j). unfold cnt, occ, dpos in *. cbn.
    rewrite lsum_app. cbn. unfold infl at 2. cbn. wcount s w j. cbn in *. lia.
  - (* LStore *)
    destruct (inflight s) as [|[j r] rest] eqn:F; try discriminate. gd. injection H as <-.
    assert (Hlt : j < n c).
    { pose proof (I4 j) as C. unfold cnt in C. rewrite F in C. cbn in C.
      unfold infl at 1 in C. cbn in C. rewrite eqn_refl in C.
      destruct (Nat.ltb_spec j (dpos c s)); lia. }
    constructor; cbn; auto.
    + rewrite length_upd. auto.
    + intro i. specialize (I4 i). unfold cnt, occ, dpos in *. cbn. rewrite F in I4. cbn in I4.
      unfold infl at 1 in I4. cbn in I4.
      destruct (eqn_cases i j) as [[-> E]|[Hn E]]; rewrite E in I4.
      * rewrite filled_upd_same by lia.
        assert (filled j (slots s) = 0).
        { destruct (j <? dposd c (dp s)); lia. }
        lia.
      * rewrite filled_upd_other by auto. lia.
    + intros i x r0 Hn. destruct (Nat.eq_dec i j) as [->|Hne].
      * rewrite nth_error_upd_same in Hn by lia. congruence.
      * rewrite nth_error_upd_other in Hn by auto. eauto.
  - (* LCancel *)
    injection H as <-. constructor; cbn; auto.
Qed.

(** progress counters and execution-log length *)
Record Inv2 (s : state) : Prop := {
  p_run : running s = lsum isrun (workers s);
  p_comp : completed s = kcount RSuccess (inflight s) + lsum (skind RSuccess) (slots s);
  p_failc : failed s = kcount RFailed (inflight s) + lsum (skind RFailed) (slots s);
  p_ranlen : length (ran s) = completed s + failed s + lsum ispost (workers s);
  p_wlen : length (workers s) = k c
}.

Lemma store_slot_empty s j r rest :
  Inv1 s -> inflight s = (j, r) :: rest -> nth_error (slots s) j = Some None /\ j < n c.
Proof.
  intros I F. pose proof (j_cnt I j) as C. unfold cnt in C. rewrite F in C. cbn in C.
  unfold infl at 1 in C. cbn in C. rewrite eqn_refl in C.
  assert (j < dpos c s) by (destruct (Nat.ltb_spec j (dpos c s)); lia).
  pose proof (j_dpos I). pose proof (j_len I).
  assert (Hf : filled j (slots s) = 0) by (destruct (j <? dpos c s); lia).
  unfold filled in Hf. destruct (nth_error (slots s) j) as [[p|]|] eqn:E; try discriminate.
  - split; auto. lia.
  - apply nth_error_None in E. lia.
Qed.

Ltac wc s w :=
  repeat match goal with
  | E : nth_error (workers s) w = Some ?old |- context [lsum ?f (upd (workers s) w ?x)] =>
      let L := fresh "L" in
      pose proof (@lsum_upd _ f (workers s) w x _ E) as L;
      generalize dependent (lsum f (upd (workers s) w x)); intros
  end.

Lemma step_Inv2 s l s' : Inv1 s -> Inv2 s -> step c s l = Some s' -> Inv2 s'.
Proof.
  intros I1 I H. apply step_log in H. destruct H as [s0 [H ->]].
  destruct I as [P1 P2 P3 P4 P5]. unfold kcount in *.
  destruct l; cbn [step0] in H.
  - destruct (dp s) eqn:D; try discriminate. gd. injection H as <-. constructor; cbn; auto.
  - destruct (dp s) eqn:D; try discriminate. gd. injection H as <-.
    constructor; cbn; auto; rewrite lsum_app; cbn; lia.
  - destruct (dp s) eqn:D; try discriminate. gd. injection H as <-. constructor; cbn; auto.
  - destruct (dp s) eqn:D; try discriminate. injection H as <-. constructor; cbn; auto.
  - winv H. destruct (queue s) as [|i q] eqn:Q.
    + destruct (closed s); try discriminate. injection H as <-.
      constructor; cbn; auto; try rewrite length_upd; auto; wc s w; cbn in *; lia.
    + injection H as <-.
      constructor; cbn; auto; try rewrite length_upd; auto; wc s w; cbn in *; lia.
  - winv H. gd. injection H as <-.
    constructor; cbn; auto; try rewrite length_upd; auto; wc s w; cbn in *; lia.
  - winv H. gd. injection H as <-. destruct (flag s).
    + constructor; cbn; auto; try rewrite length_upd; auto; wc s w; cbn in *; lia.
    + constructor; cbn; auto; try rewrite length_upd; auto; wc s w;
        destruct (outcome_of c i0), (soe c); cbn in *; lia.
  - winv H. gd. injection H as <-.
    constructor; cbn; auto; try rewrite length_upd; auto; repeat rewrite lsum_app; wc s w; cbn in *; lia.
  - winv H. gd. injection H as <-.
    constructor; cbn; auto; try rewrite length_upd; auto; wc s w; cbn in *; lia.
  - winv H. gd. injection H as <-.
    constructor; cbn; auto; try rewrite length_upd; auto; repeat rewrite lsum_app; wc s w; cbn in *; lia.
  - winv H. gd. injection H as <-.
    constructor; cbn; auto; try rewrite length_upd; auto; repeat rewrite lsum_app; wc s w; cbn in *; lia.
  - destruct (inflight s) as [|[j r] rest] eqn:F; try discriminate. gd. injection H as <-.
    destruct (store_slot_empty I1 F) as [E Hlt].
    pose proof (@lsum_upd _ (skind RSuccess) (slots s) j (Some (j, r)) _ E) as L1.
    pose proof (@lsum_upd _ (skind RFailed) (slots s) j (Some (j, r)) _ E) as L2.
    constructor; cbn in *; auto; lia.
  - injection H as <-. constructor; cbn; auto.
Qed.

(** channel closing / worker exit *)
Record Inv3 (s : state) : Prop := {
  c_closed : closed s = match dp s with DDone => true | _ => false end;
  c_exit : In WExited (workers s) -> closed s = true /\ queue s = []
}.

Lemma next_not_done j : match next c j with DDone => true | _ => false end = false.
Proof. unfold next. destruct (j <? n c); reflexivity. Qed.

Ltac exi s w I :=
  let X := fresh "X" in
  intro X; apply In_upd in X; destruct X as [X|X]; [try discriminate X|apply I in X; cbn in *; auto].

Lemma step_Inv3 s l s' : Inv3 s -> step c s l = Some s' -> Inv3 s'.
Proof.
  intros I H. apply step_log in H. destruct H as [s0 [H ->]].
  destruct I as [C1 C2].
  destruct l; cbn [step0] in H.
  - destruct (dp s) eqn:D; try discriminate. gd. injection H as <-.
    constructor; cbn; auto. destruct (flag s); auto.
  - destruct (dp s) eqn:D; try discriminate. gd. injection H as <-.
    constructor; cbn; auto. rewrite next_not_done. auto.
  - destruct (dp s) eqn:D; try discriminate. gd. injection H as <-.
    constructor; cbn; auto. rewrite next_not_done. auto.
    intro X. apply C2 in X. destruct X. congruence.
  - destruct (dp s) eqn:D; try discriminate. injection H as <-.
    constructor; cbn; auto. intro X. apply C2 in X. tauto.
  - winv H. destruct (queue s) as [|i q] eqn:Q.
    + destruct (closed s) eqn:CL; try discriminate. injection H as <-.
      constructor; cbn; auto. congruence.
    + injection H as <-. constructor; cbn; auto.
      exi s w C2. destruct X. discriminate.
  - winv H. gd. injection H as <-. constructor; cbn; auto. exi s w C2.
  - winv H. gd. injection H as <-. destruct (flag s).
    + constructor; cbn; auto. exi s w C2.
    + constructor; cbn; auto. exi s w C2. destruct (outcome_of c i0), (soe c); discriminate.
  - winv H. gd. injection H as <-. constructor; cbn; auto. exi s w C2.
  - winv H. gd. injection H as <-. constructor; cbn; auto. exi s w C2.
  - winv H. gd. injection H as <-. constructor; cbn; auto. exi s w C2.
  - winv H. gd. injection H as <-. constructor; cbn; auto. exi s w C2.
  - destruct (inflight s) as [|[j r] rest] eqn:F; try discriminate. gd. injection H as <-.
    constructor; cbn; auto.
  - injection H as <-. constructor; cbn; auto.
Qed.

(** flag / trace / execution log *)
Ltac sinv H :=
  repeat match type of H with
  | match ?x with _ => _ end = Some _ => destruct x eqn:?; try discriminate H
  | guard (?i =? ?j) _ = Some _ => destruct (Nat.eqb_spec i j); cbn [guard] in H; [subst|discriminate H]
  | (if ?b then _ else _) = Some _ => destruct b eqn:?; try discriminate H
  end; injection H as <-.

Ltac ifs := repeat match goal with |- context [if ?b then _ else _] => destruct b eqn:? end.

Lemma flag_mono s l s0 : step0 c s l = Some s0 -> flag s = true -> flag s0 = true.
Proof. intros H F. destruct l; cbn [step0] in H; sinv H; ifs; cbn; auto; congruence. Qed.

Lemma step0_rtrace s l s0 : step0 c s l = Some s0 -> rtrace s0 = rtrace s.
Proof. intros H. destruct l; cbn [step0] in H; sinv H; ifs; cbn; auto. Qed.

Lemma flag_set s w i s0 : step0 c s (LFlag w i) = Some s0 -> flag s0 = true.
Proof. intros H. cbn [step0] in H; sinv H; cbn; auto. Qed.

Lemma fail_from s w f s0 : step0 c s (LFail w f) = Some s0 -> In (WFail f) (workers s).
Proof. intros H. cbn [step0] in H; sinv H. eapply nth_error_In; eauto. Qed.

Lemma failst_step s l s0 f :
  step0 c s l = Some s0 -> In (WFail f) (workers s0) ->
  In (WFail f) (workers s) \/ is_flag l = true \/ soe c = false.
Proof.
  intros H X. destruct l; cbn [step0] in H; sinv H; cbn in *; auto;
    try (apply In_upd in X; destruct X as [X|X]; [try discriminate X|auto]).
  - destruct (flag s); cbn in X; apply In_upd in X; destruct X as [X|X]; auto; try discriminate X.
    destruct (outcome_of c i0), (soe c); auto; discriminate X.
Qed.

Lemma ran_step s l s0 j :
  step0 c s l = Some s0 -> In j (ran s0) ->
  In j (ran s) \/ (exists w, l = LCheck w j /\ flag s = false /\ nth_error (workers s) w = Some (WCheck j)).
Proof.
  intros H X. destruct l; cbn [step0] in H; sinv H; cbn in *; auto.
  destruct (flag s) eqn:F; cbn in X; auto. destruct X as [<-|X]; auto. right. eauto.
Qed.

Lemma start_pre s w j s0 : step0 c s (LStart w j) = Some s0 -> 1 <= pre j s.
Proof.
  intros H. cbn [step0] in H; sinv H. unfold pre.
  match goal with E : nth_error _ _ = Some (WStart ?i) |- _ => apply nth_error_In in E;
    pose proof (lsum_in_le (prew i) _ _ E) as L end.
  cbn in L. rewrite eqn_refl in L. lia.
Qed.

Lemma prew_le_holds j st : prew j st <= holds j st.
Proof. destruct st; cbn; lia. Qed.

Lemma lsum_le A (f g : A -> nat) l : (forall x, f x <= g x) -> lsum f l <= lsum g l.
Proof. intro H. induction l; cbn; auto. specialize (H a). lia. Qed.

Lemma pre_le_cnt s j : pre j s <= cnt j s.
Proof.
  unfold pre, cnt. pose proof (lsum_le (prew j) (holds j) (workers s) (prew_le_holds j)). lia.
Qed.

Lemma pre_step s l s0 j :
  Inv1 s -> step0 c s l = Some s0 -> pre j s = 0 -> j < dpos c s ->
  pre j s0 = 0 /\ j < dpos c s0.
Proof.
  intros I H P D. pose proof (j_dlt I) as DL. unfold pre, occ, dpos in *.
  destruct l; cbn [step0] in H.
  - destruct (dp s) eqn:E; try discriminate. gd. injection H as <-. cbn in *.
    destruct (flag s); cbn; auto.
  - destruct (dp s) eqn:E; try discriminate. gd. injection H as <-. cbn in *.
    rewrite next_dpos by lia. split; [auto|lia].
  - destruct (dp s) eqn:E; try discriminate. gd. injection H as <-. cbn in *.
    rewrite next_dpos by lia. rewrite lsum_app. cbn.
    destruct (eqn_cases j i0) as [[-> X]|[Hn ->]]; lia.
  - destruct (dp s) eqn:E; try discriminate. injection H as <-. cbn in *. auto.
  - winv H. destruct (queue s) as [|i q] eqn:Q.
    + destruct (closed s); try discriminate. injection H as <-. cbn in *.
      rewrite Q in *. split; auto. wc s w. cbn in *. lia.
    + injection H as <-. cbn in *. try rewrite Q in *. split; auto. wc s w. cbn in *. lia.
  - winv H. gd. injection H as <-. cbn in *. split; auto. wc s w. cbn in *. lia.
  - winv H. gd. injection H as <-. destruct (flag s); cbn in *; split; auto; wc s w;
      try destruct (outcome_of c i0), (soe c); cbn in *; lia.
  - winv H. gd. injection H as <-. cbn in *. split; auto. wc s w. cbn in *. lia.
  - winv H. gd. injection H as <-. cbn in *. split; auto. wc s w. cbn in *. lia.
  - winv H. gd. injection H as <-. cbn in *. split; auto. wc s w. cbn in *. lia.
  - winv H. gd. injection H as <-. cbn in *. split; auto. wc s w. cbn in *. lia.
  - destruct (inflight s) as [|[j0 r] rest] eqn:F; try discriminate. gd. injection H as <-.
    cbn in *. auto.
  - injection H as <-. cbn in *. auto.
Qed.

Lemma check_pre s w j s0 :
  Inv1 s -> step0 c s (LCheck w j) = Some s0 -> pre j s0 = 0 /\ j < dpos c s0.
Proof.
  intros I H. cbn [step0] in H. winv H. gd. injection H as <-.
  pose proof (pre_le_cnt s i) as P1. pose proof (cnt_le1 i I) as P2.
  assert (D : i < dpos c s) by (eapply held_lt; eauto; cbn; apply eqn_refl).
  unfold pre, occ in *. destruct (flag s); cbn; (split; [|exact D]); wc s w;
    try destruct (outcome_of c i), (soe c); cbn in *; rewrite ?eqn_refl in *; lia.
Qed.

Record Inv4 (s : state) : Prop := {
  t_flag : seenP is_flag (rtrace s) -> flag s = true;
  t_ran : forall j, In j (ran s) -> pre j s = 0 /\ j < dpos c s /\ ~ lateP is_flag j (rtrace s);
  t_failtr : soe c = true -> forall a b w f, rtrace s = a ++ LFail w f :: b -> seenP is_flag b;
  t_failst : soe c = true -> forall f, In (WFail f) (workers s) -> seenP is_flag (rtrace s)
}.

Lemma step_Inv4 s l s' : Inv1 s -> Inv4 s -> step c s l = Some s' -> Inv4 s'.
Proof.
  intros I1 I H. apply step_log in H. destruct H as [s0 [H ->]].
  destruct I as [T1 T2 T3 T4]. pose proof (@step0_rtrace _ _ _ H) as RT.
  constructor; cbn [log rtrace flag ran workers]; rewrite RT.
  - (* flag *)
    intro S. apply seenP_cons in S. destruct S as [S|S].
    + destruct l; try discriminate S. change (flag s0 = true). eapply flag_set; eauto.
    + change (flag s0 = true). eapply flag_mono; eauto.
  - (* ran *)
    intros j X. change (In j (ran s0)) in X.
    change (pre j (log l s0)) with (pre j s0). change (dpos c (log l s0)) with (dpos c s0).
    destruct (@ran_step _ _ _ _ H X) as [Y|[w [-> [F E]]]].
    + destruct (T2 _ Y) as [A [B C]].
      destruct (@pre_step _ _ _ _ I1 H A B) as [A' B']. repeat split; auto.
      intro L. apply lateP_cons in L. destruct L as [L|[[w ->] L]]; [tauto|].
      pose proof (@start_pre _ _ _ _ H). lia.
    + destruct (@check_pre _ _ _ _ I1 H) as [A' B']. repeat split; auto.
      intro L. apply lateP_cons in L. destruct L as [L|[[w' L'] L]]; [|discriminate L'].
      apply lateP_seen in L. apply T1 in L. congruence.
  - (* LFail preceded by a flag event *)
    intros SO a b w f E. destruct a as [|x a]; cbn in E; injection E as E1 E2.
    + subst l. rewrite <- E2. eapply T4; auto. eapply fail_from; eauto.
    + eapply T3; eauto.
  - (* WFail state implies a flag event *)
    intros SO f X. change (In (WFail f) (workers s0)) in X.
    apply seenP_cons. destruct (@failst_step _ _ _ _ H X) as [Y|[Y|Y]]; [right; eapply T4; eauto|auto|congruence].
Qed.

Lemma inv_split s : Inv c s <-> (Inv1 s /\ Inv2 s /\ Inv3 s /\ Inv4 s).
Proof.
  split.
  - intros []. split; [|split; [|split]]; constructor; auto.
  - intros [[] [[] [[] []]]]. constructor; auto.
Qed.

Lemma step_Inv s l s' : Inv c s -> step c s l = Some s' -> Inv c s'.
Proof.
  intros I H. apply inv_split in I. destruct I as [A [B [C D]]]. apply inv_split.
  split; [|split; [|split]].
  - eapply step_Inv1; eauto.
  - eapply step_Inv2; eauto.
  - eapply step_Inv3; eauto.
  - eapply step_Inv4; eauto.
Qed.

End Preserve.

Theorem batch_inv_holds c s : reachable c s -> Inv c s.
Proof. induction 1; [apply inv_init|eapply step_Inv; eauto]. Qed.

(** * terminal states *)
Lemma step_none_step0 c s l : step c s l = None -> step0 c s l = None.
Proof. unfold step. destruct (step0 c s l); cbn; congruence. Qed.

Lemma terminal_shape c s :
  Inv c s -> terminal c s ->
  dp s = DDone /\ (forall w st, nth_error (workers s) w = Some st -> st = WExited) /\ inflight s = [].
Proof.
  intros I T.
  assert (D : dp s = DDone).
  { destruct (dp s) eqn:E; auto.
    - assert (X : LDCheck i <> LCancel) by discriminate.
      apply T, step_none_step0 in X. cbn in X. rewrite E, Nat.eqb_refl in X. discriminate.
    - assert (X : LDCancel i <> LCancel) by discriminate.
      apply T, step_none_step0 in X. cbn in X. rewrite E, Nat.eqb_refl in X. discriminate.
    - assert (X : LDEnq i <> LCancel) by discriminate.
      apply T, step_none_step0 in X. cbn in X. rewrite E, Nat.eqb_refl in X. discriminate.
    - assert (X : LDClose <> LCancel) by discriminate.
      apply T, step_none_step0 in X. cbn in X. rewrite E in X. discriminate. }
  split; [exact D|]. split.
  - intros w st E. pose proof (i_closed I) as CL. rewrite D in CL.
    destruct st; auto.
    + assert (X : LRecv w <> LCancel) by discriminate.
      apply T, step_none_step0 in X. cbn in X. rewrite E, CL in X. destruct (queue s); discriminate.
    + assert (X : LStart w i <> LCancel) by discriminate.
      apply T, step_none_step0 in X. cbn in X. rewrite E, Nat.eqb_refl in X. discriminate.
    + assert (X : LCheck w i <> LCancel) by discriminate.
      apply T, step_none_step0 in X. cbn in X. rewrite E, Nat.eqb_refl in X. discriminate.
    + assert (X : LCancelled w i <> LCancel) by discriminate.
      apply T, step_none_step0 in X. cbn in X. rewrite E, Nat.eqb_refl in X. discriminate.
    + assert (X : LFlag w i <> LCancel) by discriminate.
      apply T, step_none_step0 in X. cbn in X. rewrite E, Nat.eqb_refl in X. discriminate.
    + assert (X : LDone w i <> LCancel) by discriminate.
      apply T, step_none_step0 in X. cbn in X. rewrite E, Nat.eqb_refl in X. discriminate.
    + assert (X : LFail w i <> LCancel) by discriminate.
      apply T, step_none_step0 in X. cbn in X. rewrite E, Nat.eqb_refl in X. discriminate.
  - destruct (inflight s) as [|[j r] rest] eqn:F; auto.
    assert (X : LStore j <> LCancel) by discriminate.
    apply T, step_none_step0 in X. cbn in X. rewrite F, Nat.eqb_refl in X. discriminate.
Qed.

Lemma all_exited_sum (f : wstate -> nat) ws :
  f WExited = 0 -> (forall w st, nth_error ws w = Some st -> st = WExited) -> lsum f ws = 0.
Proof.
  intros F H. apply lsum_zero_all. intros x X. apply In_nth_error in X. destruct X as [w X].
  apply H in X. subst. exact F.
Qed.

Lemma flatten_seq (sl : list (option (nat * rkind))) off :
  (forall i, i < length sl -> exists r, nth_error sl i = Some (Some (off + i, r))) ->
  map fst (flatten sl) = seq off (length sl).
Proof.
  revert off. induction sl as [|x sl IH]; intros off H; cbn; auto.
  destruct (H 0) as [r E]; [cbn; lia|]. cbn in E. injection E as ->. cbn.
  rewrite Nat.add_0_r. f_equal. apply IH. intros i Hi.
  destruct (H (S i)) as [r' E]; [cbn; lia|]. cbn in E. exists r'. replace (S off + i) with (off + S i) by lia. exact E.
Qed.

Lemma kcount_flatten K sl : kcount K (flatten sl) = lsum (skind K) sl.
Proof.
  unfold kcount. induction sl as [|[p|] sl IH]; cbn; auto.
Qed.

Lemma stop_strong c s : Inv c s -> stop_clause is_flag (rev (rtrace s)) (rev (ran s)).
Proof.
  intros I t1 e t2 w j t3 E P X. apply in_rev in X.
  destruct (i_ran I _ X) as [_ [_ NL]]. apply NL.
  apply (f_equal (@rev label)) in E. rewrite rev_involutive in E.
  exists (rev t3), (rev t2 ++ e :: rev t1), w. split.
  - rewrite E. rewrite rev_app_distr. cbn. rewrite rev_app_distr. cbn.
    repeat rewrite <- app_assoc. cbn. reflexivity.
  - exists e. split; auto. apply in_or_app. right. left. reflexivity.
Qed.

Lemma stop_weak c s : Inv c s -> soe c = true -> stop_clause is_fail (rev (rtrace s)) (rev (ran s)).
Proof.
  intros I SO t1 e t2 w j t3 E P X. apply in_rev in X.
  destruct (i_ran I _ X) as [_ [_ NL]]. apply NL.
  apply (f_equal (@rev label)) in E. rewrite rev_involutive in E.
  destruct e; try discriminate P.
  assert (R : rtrace s = (rev t3 ++ LStart w j :: rev t2) ++ LFail w0 i :: rev t1).
  { rewrite E. rewrite rev_app_distr. cbn. rewrite rev_app_distr. cbn.
    repeat rewrite <- app_assoc. cbn. reflexivity. }
  pose proof (i_failtr I SO _ _ _ _ R) as [x [Hx Px]].
  exists (rev t3), (rev t2 ++ LFail w0 i :: rev t1), w. split.
  - rewrite R. rewrite <- app_assoc. reflexivity.
  - exists x. split; auto. apply in_or_app. right. right. exact Hx.
Qed.

Lemma terminal_common c s (P : label -> bool) :
  1 <= k c -> Inv c s -> terminal c s ->
  (soe c = true -> stop_clause P (rev (rtrace s)) (rev (ran s))) ->
  BatchSpecP P c (obs_of c s).
Proof.
  intros K I T ST. destruct (terminal_shape I T) as [D [W F]].
  assert (Q : queue s = []).
  { pose proof (i_wlen I) as WL. destruct (nth_error (workers s) 0) as [st|] eqn:E.
    - pose proof (W _ _ E). subst. apply nth_error_In in E. apply (i_exit I E).
    - apply nth_error_None in E. lia. }
  assert (SL : forall i, i < length (slots s) -> exists r, nth_error (slots s) i = Some (Some (0 + i, r))).
  { intros i Hi. rewrite (i_len I) in Hi. pose proof (i_cnt I i) as C.
    unfold cnt, dpos in C. rewrite D, Q, F in C. cbn in C.
    rewrite (all_exited_sum (holds i)) in C by auto.
    destruct (Nat.ltb_spec i (n c)); [|lia]. unfold filled in C.
    destruct (nth_error (slots s) i) as [[[x r]|]|] eqn:E; try discriminate.
    pose proof (i_slot I _ E). subst. eauto. }
  pose proof (kcount_flatten RSuccess (slots s)) as K1.
  pose proof (kcount_flatten RFailed (slots s)) as K2.
  unfold BatchSpecP, obs_of. cbn. unfold kcount in *.
  pose proof (i_comp I) as C1. pose proof (i_failc I) as C2. pose proof (i_run I) as C3.
  pose proof (i_ranlen I) as C4. rewrite F in C1, C2. cbn in C1, C2.
  rewrite (all_exited_sum isrun) in C3 by auto.
  rewrite (all_exited_sum ispost) in C4 by auto.
  rewrite rev_length.
  repeat split; auto; try lia.
  rewrite (flatten_seq (slots s) 0 SL). rewrite (i_len I). reflexivity.
Qed.

(** the executable specification implies the declarative one *)
Lemma memb_In j l : memb j l = true <-> In j l.
Proof.
  induction l; cbn; split; try discriminate; try tauto.
  - intro H. apply orb_true_iff in H. destruct H as [H|H]; [left; apply Nat.eqb_eq; auto|right; apply IHl; auto].
  - intros [->|H]; apply orb_true_iff; [left; apply Nat.eqb_refl|right; apply IHl; auto].
Qed.

Lemma late_starts_seen P tr w j t3 : tr = t3 -> forall pre, In j (late_starts P true (pre ++ LStart w j :: t3)).
Proof.
  intros _ pre. induction pre as [|e pre IH]; cbn.
  - left. reflexivity.
  - destruct e; cbn; auto.
Qed.

Lemma late_starts_spec P seen tr t1 e t2 w j t3 :
  tr = t1 ++ e :: t2 ++ LStart w j :: t3 -> P e = true -> In j (late_starts P seen tr).
Proof.
  intros -> Pe. revert seen. induction t1 as [|x t1 IH]; intro seen.
  - cbn [app late_starts]. rewrite Pe, orb_true_r.
    assert (X : In j (late_starts P true (t2 ++ LStart w j :: t3))) by (apply (late_starts_seen P w j (eq_refl t3))).
    destruct e; auto. destruct seen; [right|]; exact X.
  - cbn [app late_starts]. destruct x; auto. destruct seen; [right|]; apply IH.
Qed.

Lemma stop_b_sound P tr rn : stop_b P tr rn = true -> stop_clause P tr rn.
Proof.
  unfold stop_b. intros H t1 e t2 w j t3 E Pe X.
  rewrite forallb_forall in H. specialize (H j (@late_starts_spec P false _ _ _ _ _ _ _ E Pe)).
  apply negb_true_iff in H. apply memb_In in X. congruence.
Qed.

Lemma spec_b_sound P c o : spec_b P c o = true -> BatchSpecP P c o.
Proof.
  unfold spec_b, BatchSpecP. intro H.
  repeat (apply andb_true_iff in H; destruct H as [H ?]).
  repeat match goal with X : (_ =? _) = true |- _ => apply Nat.eqb_eq in X end.
  repeat split; auto.
  - apply (list_eqb_spec Nat.eqb); auto. intros. apply Nat.eqb_eq.
  - intro SO. apply stop_b_sound.
    match goal with X : negb _ || _ = true |- _ => rewrite SO in X; exact X end.
Qed.

Lemma terminal_b_sound c s : terminal_b c s = true -> terminal c s.
Proof.
  unfold terminal_b. intro H. apply andb_true_iff in H. destruct H as [H F].
  apply andb_true_iff in H. destruct H as [D W]. rewrite forallb_forall in W.
  assert (WX : forall w st, nth_error (workers s) w = Some st -> st = WExited).
  { intros w st E. apply nth_error_In in E. apply W in E. destruct st; try discriminate; auto. }
  intros l NL. unfold step.
  destruct l; cbn [step0]; try (destruct (dp s); try discriminate; reflexivity);
    try (destruct (nth_error (workers s) w) as [st|] eqn:E; [apply WX in E; subst|]; reflexivity).
  - destruct (inflight s); [reflexivity|discriminate].
  - congruence.
Qed.

Lemma run_reachable_from c ls : forall s s', reachable c s -> run c s ls = Some s' -> reachable c s'.
Proof.
  induction ls as [|l ls IH]; cbn; intros s s' R H.
  - injection H as <-. exact R.
  - destruct (step c s l) as [s1|] eqn:E; [|discriminate]. eapply IH; [|exact H].
    eapply reach_step; eauto.
Qed.

Lemma run_reachable c ls s : run c (init c) ls = Some s -> reachable c s.
Proof. apply run_reachable_from. constructor. Qed.

Theorem terminal_ok c s : 1 <= k c -> terminal c s -> reachable c s -> BatchSpec c (obs_of c s).
Proof.
  intros K T R. pose proof (batch_inv_holds R) as I.
  apply terminal_common; auto. intros _. apply stop_strong with (c := c). exact I.
Qed.

Theorem terminal_ok_weak c s : 1 <= k c -> terminal c s -> reachable c s -> BatchSpecW c (obs_of c s).
Proof.
  intros K T R. pose proof (batch_inv_holds R) as I.
  apply terminal_common; auto. intros SO. apply stop_weak with (c := c); auto.
Qed.

(** whenever the controlled-run judge accepts (code 0 on bit 1), the theorem applies to the
    observation; stated for completeness of the tie *)
Theorem accepted_run_spec c ls s :
  1 <= k c -> run c (init c) ls = Some s -> terminal_b c s = true -> BatchSpec c (obs_of c s).
Proof.
  intros K R T. apply terminal_ok; auto. apply terminal_b_sound; auto. eapply run_reachable; eauto.
Qed.
