(** C22 — small-step model of batch/worker.rs [WorkerPool::process_jobs] + batch/mod.rs
    [BatchProcessor::execute] (after fix_batch_panic + fix_batch_stop_on_error) and the
    property's specification.

    Threads: the dispatcher (the thread calling process_jobs), k workers, the result
    collector, and an external canceller.  One transition = the code between two
    consecutive [sched_point] hooks of one thread; every such segment touches the shared
    state (cancel flag, job channel, result channel, progress atomics) at one program
    point (progress atomics are read by nobody before the end, so "atomic counter update
    + channel send" is kept as one step).  A schedule is any list of labels; [step]
    returns [None] when the label is not enabled. *)
From OxVerif Require Import Base.Util.
Close Scope N_scope.
Open Scope nat_scope.

Inductive outcome := OOk | OErr | OPanic.
Inductive rkind := RSuccess | RFailed | RCancelled.

(** worker program counter: [WIdle] = about to lock+recv; the others carry the job index *)
Inductive wstate :=
| WIdle | WStart (i : nat) | WCheck (i : nat) | WCancelled (i : nat)
| WFlag (i : nat) | WDone (i : nat) | WFail (i : nat) | WExited.

(** dispatcher program counter *)
Inductive dpc := DCheck (i : nat) | DCancel (i : nat) | DEnq (i : nat) | DClose | DDone.

Inductive label :=
| LDCheck (i : nat)        (* dispatcher: load [cancelled] for job i *)
| LDCancel (i : nat)       (* dispatcher: send (i, Cancelled) *)
| LDEnq (i : nat)          (* dispatcher: wrap job i and send it to the workers *)
| LDClose                  (* dispatcher: drop both senders (then joins) *)
| LRecv (w : nat)          (* worker w: lock, recv: a job, or exit on closed+empty *)
| LStart (w i : nat)       (* wrapper: progress.start_job() *)
| LCheck (w i : nat)       (* wrapper: load [cancelled]; if clear run the operation *)
| LCancelled (w i : nat)   (* wrapper: progress.cancel_job(); send (i, Cancelled) *)
| LFlag (w i : nat)        (* wrapper, failure under stop_on_error: store [cancelled] *)
| LDone (w i : nat)        (* wrapper: complete_job(); send (i, Success) *)
| LFail (w i : nat)        (* wrapper: fail_job(); send (i, Failed) *)
| LStore (i : nat)         (* collector: results[i] = Some(result) for the oldest message *)
| LCancel.                 (* external: cancelled.store(true) *)

Record cfg := { n : nat; outs : list outcome; soe : bool; k : nat }.

Record state := {
  dp : dpc; queue : list nat; closed : bool; workers : list wstate;
  inflight : list (nat * rkind); slots : list (option (nat * rkind)); flag : bool;
  running : nat; completed : nat; failed : nat;
  ran : list nat;            (* execution log, newest first *)
  rtrace : list label        (* all steps so far, newest first (ghost) *)
}.

Definition set_dp x s := {| dp := x; queue := queue s; closed := closed s; workers := workers s; inflight := inflight s; slots := slots s; flag := flag s; running := running s; completed := completed s; failed := failed s; ran := ran s; rtrace := rtrace s |}.
Definition set_queue x s := {| dp := dp s; queue := x; closed := closed s; workers := workers s; inflight := inflight s; slots := slots s; flag := flag s; running := running s; completed := completed s; failed := failed s; ran := ran s; rtrace := rtrace s |}.
Definition set_closed x s := {| dp := dp s; queue := queue s; closed := x; workers := workers s; inflight := inflight s; slots := slots s; flag := flag s; running := running s; completed := completed s; failed := failed s; ran := ran s; rtrace := rtrace s |}.
Definition set_workers x s := {| dp := dp s; queue := queue s; closed := closed s; workers := x; inflight := inflight s; slots := slots s; flag := flag s; running := running s; completed := completed s; failed := failed s; ran := ran s; rtrace := rtrace s |}.
Definition set_inflight x s := {| dp := dp s; queue := queue s; closed := closed s; workers := workers s; inflight := x; slots := slots s; flag := flag s; running := running s; completed := completed s; failed := failed s; ran := ran s; rtrace := rtrace s |}.
Definition set_slots x s := {| dp := dp s; queue := queue s; closed := closed s; workers := workers s; inflight := inflight s; slots := x; flag := flag s; running := running s; completed := completed s; failed := failed s; ran := ran s; rtrace := rtrace s |}.
Definition set_flag x s := {| dp := dp s; queue := queue s; closed := closed s; workers := workers s; inflight := inflight s; slots := slots s; flag := x; running := running s; completed := completed s; failed := failed s; ran := ran s; rtrace := rtrace s |}.
Definition set_running x s := {| dp := dp s; queue := queue s; closed := closed s; workers := workers s; inflight := inflight s; slots := slots s; flag := flag s; running := x; completed := completed s; failed := failed s; ran := ran s; rtrace := rtrace s |}.
Definition set_completed x s := {| dp := dp s; queue := queue s; closed := closed s; workers := workers s; inflight := inflight s; slots := slots s; flag := flag s; running := running s; completed := x; failed := failed s; ran := ran s; rtrace := rtrace s |}.
Definition set_failed x s := {| dp := dp s; queue := queue s; closed := closed s; workers := workers s; inflight := inflight s; slots := slots s; flag := flag s; running := running s; completed := completed s; failed := x; ran := ran s; rtrace := rtrace s |}.
Definition set_ran x s := {| dp := dp s; queue := queue s; closed := closed s; workers := workers s; inflight := inflight s; slots := slots s; flag := flag s; running := running s; completed := completed s; failed := failed s; ran := x; rtrace := rtrace s |}.
Definition log l s := {| dp := dp s; queue := queue s; closed := closed s; workers := workers s; inflight := inflight s; slots := slots s; flag := flag s; running := running s; completed := completed s; failed := failed s; ran := ran s; rtrace := l :: rtrace s |}.

(** replace element [i] (no effect beyond the end) *)
Fixpoint upd {A} (l : list A) (i : nat) (x : A) : list A :=
  match l, i with
  | [], _ => []
  | _ :: r, O => x :: r
  | y :: r, S j => y :: upd r j x
  end.

Definition next (c : cfg) (j : nat) : dpc := if j <? n c then DCheck j else DClose.
Definition outcome_of (c : cfg) (i : nat) : outcome := nth i (outs c) OOk.
Definition setw (w : nat) (x : wstate) (s : state) := set_workers (upd (workers s) w x) s.
Definition send (i : nat) (r : rkind) (s : state) := set_inflight (inflight s ++ [(i, r)]) s.
Definition guard {A} (b : bool) (x : option A) : option A := if b then x else None.

Definition init (c : cfg) : state :=
  {| dp := next c 0; queue := []; closed := false; workers := repeat WIdle (k c);
     inflight := []; slots := repeat None (n c); flag := false;
     running := 0; completed := 0; failed := 0; ran := []; rtrace := [] |}.

Definition step0 (c : cfg) (s : state) (l : label) : option state :=
  match l with
  | LDCheck i =>
      match dp s with
      | DCheck j => guard (i =? j) (Some (set_dp (if flag s then DCancel i else DEnq i) s))
      | _ => None end
  | LDCancel i =>
      match dp s with
      | DCancel j => guard (i =? j) (Some (set_dp (next c (S i)) (send i RCancelled s)))
      | _ => None end
  | LDEnq i =>
      match dp s with
      | DEnq j => guard (i =? j) (Some (set_dp (next c (S i)) (set_queue (queue s ++ [i]) s)))
      | _ => None end
  | LDClose =>
      match dp s with
      | DClose => Some (set_dp DDone (set_closed true s))
      | _ => None end
  | LRecv w =>
      match nth_error (workers s) w with
      | Some WIdle =>
          match queue s with
          | i :: q => Some (setw w (WStart i) (set_queue q s))
          | [] => if closed s then Some (setw w WExited s) else None
          end
      | _ => None end
  | LStart w i =>
      match nth_error (workers s) w with
      | Some (WStart j) => guard (i =? j) (Some (setw w (WCheck i) (set_running (S (running s)) s)))
      | _ => None end
  | LCheck w i =>
      match nth_error (workers s) w with
      | Some (WCheck j) =>
          guard (i =? j)
            (Some (if flag s then setw w (WCancelled i) s
                   else setw w (match outcome_of c i with
                                | OOk => WDone i
                                | _ => if soe c then WFlag i else WFail i
                                end) (set_ran (i :: ran s) s)))
      | _ => None end
  | LCancelled w i =>
      match nth_error (workers s) w with
      | Some (WCancelled j) =>
          guard (i =? j) (Some (setw w WIdle (send i RCancelled (set_running (pred (running s)) s))))
      | _ => None end
  | LFlag w i =>
      match nth_error (workers s) w with
      | Some (WFlag j) => guard (i =? j) (Some (setw w (WFail i) (set_flag true s)))
      | _ => None end
  | LDone w i =>
      match nth_error (workers s) w with
      | Some (WDone j) =>
          guard (i =? j) (Some (setw w WIdle (send i RSuccess
                   (set_completed (S (completed s)) (set_running (pred (running s)) s)))))
      | _ => None end
  | LFail w i =>
      match nth_error (workers s) w with
      | Some (WFail j) =>
          guard (i =? j) (Some (setw w WIdle (send i RFailed
                   (set_failed (S (failed s)) (set_running (pred (running s)) s)))))
      | _ => None end
  | LStore i =>
      match inflight s with
      | (j, r) :: rest =>
          guard (i =? j) (Some (set_slots (upd (slots s) i (Some (i, r))) (set_inflight rest s)))
      | [] => None end
  | LCancel => Some (set_flag true s)
  end.

Definition step (c : cfg) (s : state) (l : label) : option state :=
  option_map (log l) (step0 c s l).

Fixpoint run (c : cfg) (s : state) (ls : list label) : option state :=
  match ls with
  | [] => Some s
  | l :: r => match step c s l with Some s' => run c s' r | None => None end
  end.

Inductive reachable (c : cfg) : state -> Prop :=
| reach_init : reachable c (init c)
| reach_step s l s' : reachable c s -> step c s l = Some s' -> reachable c s'.

(** nothing but the external cancel can happen any more *)
Definition terminal (c : cfg) (s : state) : Prop :=
  forall l, l <> LCancel -> step c s l = None.

(** * What the caller observes at the end *)
Record obs := {
  o_results : list (nat * rkind);   (* BatchSummary.results: (job id from job_name, kind) *)
  o_total : nat; o_succ : nat; o_fail : nat;          (* BatchSummary counters *)
  o_completed : nat; o_failed : nat; o_running : nat; (* ProgressInfo *)
  o_ran : list nat;                 (* jobs whose operation was executed, in order *)
  o_trace : list label              (* steps in order *)
}.

Definition flatten {A} (l : list (option A)) : list A :=
  flat_map (fun x => match x with Some r => [r] | None => [] end) l.

Definition rkind_eqb (a b : rkind) : bool :=
  match a, b with
  | RSuccess, RSuccess | RFailed, RFailed | RCancelled, RCancelled => true
  | _, _ => false
  end.

Fixpoint lsum {A} (f : A -> nat) (l : list A) : nat :=
  match l with [] => 0 | x :: r => f x + lsum f r end.

Definition kindis (K : rkind) (x : nat * rkind) : nat := if rkind_eqb (snd x) K then 1 else 0.
Definition kcount (K : rkind) (l : list (nat * rkind)) : nat := lsum (kindis K) l.

(** BatchProcessor::execute: counts over the flattened collector slots *)
Definition obs_of (c : cfg) (s : state) : obs :=
  let rs := flatten (slots s) in
  {| o_results := rs; o_total := n c;
     o_succ := kcount RSuccess rs; o_fail := kcount RFailed rs;
     o_completed := completed s; o_failed := failed s; o_running := running s;
     o_ran := rev (ran s); o_trace := rev (rtrace s) |}.

(** * Specification (written from the property statement) *)
Definition is_flag (l : label) : bool := match l with LFlag _ _ => true | _ => false end.
Definition is_fail (l : label) : bool := match l with LFail _ _ => true | _ => false end.

(** a job whose [start_job] comes after a failure-recording event [e] (P e) never ran *)
Definition stop_clause (P : label -> bool) (tr : list label) (rn : list nat) : Prop :=
  forall t1 e t2 w j t3, tr = t1 ++ e :: t2 ++ LStart w j :: t3 -> P e = true -> ~ In j rn.

Definition BatchSpecP (P : label -> bool) (c : cfg) (o : obs) : Prop :=
  map fst (o_results o) = seq 0 (n c)
  /\ o_total o = n c
  /\ o_succ o = kcount RSuccess (o_results o)
  /\ o_fail o = kcount RFailed (o_results o)
  /\ o_completed o = kcount RSuccess (o_results o)
  /\ o_failed o = kcount RFailed (o_results o)
  /\ o_running o = 0
  /\ length (o_ran o) = o_completed o + o_failed o
  /\ (soe c = true -> stop_clause P (o_trace o) (o_ran o)).

(** "failure recorded" = the flag store of the failing job (the earliest of flag store,
    fail_job, result send — hence the strongest reading) *)
Definition BatchSpec := BatchSpecP is_flag.
(** weaker reading used on free-running logs (hook arrival order): recorded = the
    fail_job hook, which the failing thread reaches after its flag store completed *)
Definition BatchSpecW := BatchSpecP is_fail.

(** ** executable version of the specification *)
Fixpoint memb (j : nat) (l : list nat) : bool :=
  match l with [] => false | x :: r => (x =? j) || memb j r end.

(** jobs whose LStart comes after an event satisfying P *)
Fixpoint late_starts (P : label -> bool) (seen : bool) (tr : list label) : list nat :=
  match tr with
  | [] => []
  | e :: r =>
      match e with
      | LStart _ j => if seen then j :: late_starts P (seen || P e) r else late_starts P (seen || P e) r
      | _ => late_starts P (seen || P e) r
      end
  end.

Definition stop_b (P : label -> bool) (tr : list label) (rn : list nat) : bool :=
  forallb (fun j => negb (memb j rn)) (late_starts P false tr).

Definition spec_b (P : label -> bool) (c : cfg) (o : obs) : bool :=
  list_eqb Nat.eqb (map fst (o_results o)) (seq 0 (n c))
  && (o_total o =? n c)
  && (o_succ o =? kcount RSuccess (o_results o))
  && (o_fail o =? kcount RFailed (o_results o))
  && (o_completed o =? kcount RSuccess (o_results o))
  && (o_failed o =? kcount RFailed (o_results o))
  && (o_running o =? 0)
  && (length (o_ran o) =? o_completed o + o_failed o)
  && (negb (soe c) || stop_b P (o_trace o) (o_ran o)).

(** * Correspondence cases (numbers travel as N) *)
Inductive xlabel :=
| XDCheck (i : N) | XDCancel (i : N) | XDEnq (i : N) | XDClose | XRecv (w : N)
| XStart (w i : N) | XCheck (w i : N) | XCancelled (w i : N) | XFlag (w i : N)
| XDone (w i : N) | XFail (w i : N) | XStore (i : N) | XCancel.

Definition lab (x : xlabel) : label :=
  let t := N.to_nat in
  match x with
  | XDCheck i => LDCheck (t i) | XDCancel i => LDCancel (t i) | XDEnq i => LDEnq (t i)
  | XDClose => LDClose | XRecv w => LRecv (t w)
  | XStart w i => LStart (t w) (t i) | XCheck w i => LCheck (t w) (t i)
  | XCancelled w i => LCancelled (t w) (t i) | XFlag w i => LFlag (t w) (t i)
  | XDone w i => LDone (t w) (t i) | XFail w i => LFail (t w) (t i)
  | XStore i => LStore (t i) | XCancel => LCancel
  end.

(** implementation observation as written by the harness *)
Record xobs := {
  x_results : list (N * rkind); x_total : N; x_succ : N; x_fail : N;
  x_completed : N; x_failed : N; x_running : N; x_ran : list N
}.

Record xcase := {
  x_n : N; x_outs : list outcome; x_soe : bool; x_k : N;
  x_trace : list xlabel;     (* controlled: released steps in order; free: hook arrivals *)
  x_obs : xobs
}.

Definition cfg_of (x : xcase) : cfg :=
  {| n := N.to_nat (x_n x); outs := x_outs x; soe := x_soe x; k := N.to_nat (x_k x) |}.

Definition obs_of_x (x : xcase) : obs :=
  let o := x_obs x in let t := N.to_nat in
  {| o_results := map (fun p => (t (fst p), snd p)) (x_results o);
     o_total := t (x_total o); o_succ := t (x_succ o); o_fail := t (x_fail o);
     o_completed := t (x_completed o); o_failed := t (x_failed o); o_running := t (x_running o);
     o_ran := map t (x_ran o); o_trace := map lab (x_trace x) |}.

Definition pair_eqb (a b : nat * rkind) : bool := (fst a =? fst b) && rkind_eqb (snd a) (snd b).

Definition obs_eqb (a b : obs) : bool :=
  list_eqb pair_eqb (o_results a) (o_results b)
  && (o_total a =? o_total b) && (o_succ a =? o_succ b) && (o_fail a =? o_fail b)
  && (o_completed a =? o_completed b) && (o_failed a =? o_failed b)
  && (o_running a =? o_running b)
  && (length (o_ran a) =? length (o_ran b))
  && forallb (fun j => memb j (o_ran b)) (o_ran a)
  && forallb (fun j => memb j (o_ran a)) (o_ran b).

(** every non-cancel label disabled (decidable form of [terminal] for concrete states) *)
Definition terminal_b (c : cfg) (s : state) : bool :=
  match dp s with DDone => true | _ => false end
  && forallb (fun w => match w with WExited => true | _ => false end) (workers s)
  && match inflight s with [] => true | _ => false end.

(** controlled run: the observed label sequence must be a run of the model that ends in a
    terminal state whose observation equals the implementation's (bit 1); the
    implementation's observation must satisfy the specification (bit 2) *)
Definition ctl_code (x : xcase) : N :=
  let c := cfg_of x in
  let o := obs_of_x x in
  let m := match run c (init c) (o_trace o) with
           | Some s => terminal_b c s && obs_eqb (obs_of c s) o
           | None => false
           end in
  code_of m (spec_b is_flag c o).

(** free-running: only the specification, with hook-arrival order (weak reading) *)
Definition free_code (x : xcase) : N :=
  code_of true (spec_b is_fail (cfg_of x) (obs_of_x x)).
