(** C16 — code-shaped model of the page operations (operations/{split,merge,reorder,
    rotate,page_extraction}.rs, operations/mod.rs [PageRange::get_indices], page.rs
    [Page::from_parsed_with_content], [Page::set_rotation]) on documents as page lists,
    and the specification "the output is exactly the requested selection/permutation,
    every page preserved, rotation added modulo 360". *)
From OxVerif Require Import Base.Util.
Require Import Coq.Sorting.Permutation.
Open Scope N_scope.

(** a page as far as the property looks at it: boxes, /Rotate, decoded content streams,
    markers of the resources (font names) *)
Record page := { media : list Z; crop : option (list Z); rotate : Z; content : list bytes; res : list N }.
Definition doc := list page.

(** * Page copy ([from_parsed_with_content] -> writer -> reader) *)
(** i64 -> i32 truncation of the parser's [as i32] *)
Definition wrap32 (z : Z) : Z := ((z + 2147483648) mod 4294967296 - 2147483648)%Z.

(** every stream followed by a newline, all in one stream *)
Definition cat_streams (ss : list bytes) : bytes := flat_map (fun s => s ++ [10]) ss.

(** after fix_c16_page_boxes.patch the copy keeps MediaBox (origin included) and CropBox *)
Definition copy_page (p : page) : page :=
  {| media := media p; crop := crop p; rotate := wrap32 (rotate p);
     content := [cat_streams (content p)]; res := res p |}.

(** * Rotation arithmetic *)
Definition i64_ok (z : Z) : bool := ((-9223372036854775808 <=? z) && (z <=? 9223372036854775807))%Z.

(** [Page::set_rotation]: rem_euclid 360, then snap to a quadrant *)
Definition snap (n : Z) : Z :=
  if (n <=? 44)%Z then 0%Z else if (n <=? 134)%Z then 90%Z else if (n <=? 224)%Z then 180%Z
  else if (n <=? 315)%Z then 270%Z else 0%Z.
Definition set_rotation (r : Z) : Z := snap (r mod 360)%Z.

(** [create_rotated_page] after fix_c16_rotate_overflow.patch: the sum is taken in i64;
    [None] = arithmetic trap *)
Definition rot_combine (r a : Z) : option Z :=
  let s := (wrap32 r + a)%Z in
  if i64_ok s then Some (set_rotation (s mod 360)%Z) else None.

(** [RotationAngle::from_degrees]: truncating [%], +360 if negative, quadrants only *)
Definition from_degrees (d : Z) : option Z :=
  let n := Z.rem d 360 in
  let n := if (n <? 0)%Z then (n + 360)%Z else n in
  if (n =? 0)%Z || (n =? 90)%Z || (n =? 180)%Z || (n =? 270)%Z then Some n else None.

Definition rotate_page (p : page) (a : Z) : option page :=
  match rot_combine (rotate p) a with
  | Some r => Some {| media := media p; crop := crop p; rotate := r;
                      content := [cat_streams (content p)]; res := res p |}
  | None => None
  end.

(** * PageRange *)
Inductive prange := RAll | RSingle (i : N) | RRange (a b : N) | RList (l : list N).

Fixpoint nseq (start : N) (len : nat) : list N :=
  match len with O => [] | S k => start :: nseq (N.succ start) k end.

Definition get_indices (r : prange) (total : N) : option (list N) :=
  match r with
  | RAll => Some (nseq 0 (N.to_nat total))
  | RSingle i => if total <=? i then None else Some [i]
  | RRange a b => if total <=? a then None else if total <=? b then None
                  else Some (if b <? a then [] else nseq a (N.to_nat (b - a + 1)))
  | RList l => if forallb (fun i => i <? total) l then Some l else None
  end.

Definition pick (d : doc) (i : N) : option page := nth_error d (N.to_nat i).

(** copy the pages with the given indices; [None] if one is missing *)
Fixpoint copy_sel (d : doc) (l : list N) : option (list page) :=
  match l with
  | [] => Some []
  | i :: l' => match pick d i, copy_sel d l' with
               | Some p, Some r => Some (copy_page p :: r)
               | _, _ => None
               end
  end.

Definition total (d : doc) : N := N.of_nat (length d).

(** [extract_range] of split.rs *)
Definition extract_range (d : doc) (r : prange) : option (list page) :=
  match get_indices r (total d) with
  | Some [] => None
  | Some l => copy_sel d l
  | None => None
  end.

Fixpoint all_some {A} (l : list (option A)) : option (list A) :=
  match l with
  | [] => Some []
  | Some x :: l' => match all_some l' with Some r => Some (x :: r) | None => None end
  | None :: _ => None
  end.

(** [SplitMode::ChunkSize]: the while loop, with fuel = number of pages *)
Fixpoint chunk_ranges (fuel : nat) (start k tot : N) : list prange :=
  match fuel with
  | O => []
  | S f => if start <? tot
           then RRange start (N.min (start + k - 1) (tot - 1)) :: chunk_ranges f (start + k) k tot
           else []
  end.

(** [SplitMode::SplitAt] *)
Fixpoint split_at_ranges (pts : list N) (start tot : N) : list prange :=
  match pts with
  | [] => if start <? tot then [RRange start (tot - 1)] else []
  | sp :: pts' => if (0 <? sp) && (sp <? tot)
                  then RRange start (sp - 1) :: split_at_ranges pts' sp tot
                  else split_at_ranges pts' start tot
  end.

Inductive op :=
| OSplitSingle | OSplitChunk (k : N) | OSplitRanges (l : list prange) | OSplitAt (l : list N)
| OMerge (l : list (N * option prange)) | OSplitMerge (k : N)
| OExtractPages (l : list N) | OExtractRange (r : prange) | OExtractPage (i : N)
| OReorder (l : list N) | OReverse | OSwap (a b : N) | OMove (a b : N)
| ORotate (r : prange) (angle : Z).

Definition split_with (d : doc) (ranges : list prange) : option (list (list page)) :=
  if total d =? 0 then None else all_some (List.map (extract_range d) ranges).

Definition split_chunk (d : doc) (k : N) : option (list (list page)) :=
  if k =? 0 then None   (* ChunkSize(0) is outside the model: the loop does not advance *)
  else split_with d (chunk_ranges (length d) 0 k (total d)).

(** [PdfMerger::merge] *)
Fixpoint merge_inputs (ds : list doc) (l : list (N * option prange)) : option (list page) :=
  match l with
  | [] => Some []
  | (di, r) :: l' =>
      match nth_error ds (N.to_nat di) with
      | Some d =>
          match get_indices (match r with Some r => r | None => RAll end) (total d) with
          | Some idx => match copy_sel d idx, merge_inputs ds l' with
                        | Some a, Some b => Some (a ++ b)
                        | _, _ => None
                        end
          | None => None
          end
      | None => None
      end
  end.

(** [PageExtractor::extract_pages] *)
Definition extract_pages (d : doc) (l : list N) : option (list page) :=
  if forallb (fun i => i <? total d) l then
    match l with [] => None | _ => copy_sel d l end
  else None.

(** [PageReorderer::reorder] *)
Definition reorder (d : doc) (l : list N) : option (list page) :=
  if total d =? 0 then None
  else match l with
       | [] => None
       | _ => if forallb (fun i => i <? total d) l then copy_sel d l else None
       end.

Fixpoint remove_at {A} (n : nat) (l : list A) : list A :=
  match n, l with
  | O, _ :: t => t
  | S k, x :: t => x :: remove_at k t
  | _, [] => []
  end.
Fixpoint insert_at {A} (n : nat) (x : A) (l : list A) : list A :=
  match n, l with
  | O, _ => x :: l
  | S k, y :: t => y :: insert_at k x t
  | S _, [] => [x]
  end.
Fixpoint set_at {A} (n : nat) (x : A) (l : list A) : list A :=
  match n, l with
  | O, _ :: t => x :: t
  | S k, y :: t => y :: set_at k x t
  | _, [] => []
  end.

Definition ident (d : doc) : list N := nseq 0 (length d).

Fixpoint rotate_all (d : doc) (idx : list N) (a : Z) (i : N) : option (list page) :=
  match d with
  | [] => Some []
  | p :: d' =>
      match (if existsb (N.eqb i) idx then rotate_page p a else Some (copy_page p)),
            rotate_all d' idx a (N.succ i) with
      | Some q, Some r => Some (q :: r)
      | _, _ => None
      end
  end.

Definition one (o : option (list page)) : option (list (list page)) :=
  match o with Some l => Some [l] | None => None end.

Definition op_model (ds : list doc) (o : op) : option (list (list page)) :=
  let d := match ds with d :: _ => d | [] => [] end in
  match o with
  | OSplitSingle => split_with d (List.map RSingle (ident d))
  | OSplitChunk k => split_chunk d k
  | OSplitRanges l => split_with d l
  | OSplitAt pts => split_with d (split_at_ranges pts 0 (total d))
  | OMerge l => match l with [] => None | _ => one (merge_inputs ds l) end
  | OSplitMerge k =>
      match split_chunk d k with
      | Some parts => match parts with
                      | [] => None
                      | _ => one (merge_inputs parts (List.map (fun i => (i, None)) (nseq 0 (length parts))))
                      end
      | None => None
      end
  | OExtractPages l => one (extract_pages d l)
  | OExtractRange r => match get_indices r (total d) with Some l => one (extract_pages d l) | None => None end
  | OExtractPage i => if total d <=? i then None else one (copy_sel d [i])
  | OReorder l => one (reorder d l)
  | OReverse => one (reorder d (rev (ident d)))
  | OSwap a b =>
      if (total d <=? a) || (total d <=? b) then None
      else one (reorder d (set_at (N.to_nat a) b (set_at (N.to_nat b) a (ident d))))
  | OMove a b =>
      if (total d <=? a) || (total d <=? b) then None
      else one (reorder d (insert_at (N.to_nat b) a (remove_at (N.to_nat a) (ident d))))
  | ORotate r angle =>
      match from_degrees angle with
      | Some a => match get_indices r (total d) with
                  | Some idx => one (rotate_all d idx a 0)
                  | None => None
                  end
      | None => None
      end
  end.

(** * Specification *)
Definition is_ws (b : N) : bool := (b =? 10) || (b =? 13) || (b =? 32) || (b =? 9) || (b =? 12) || (b =? 0).
Fixpoint dropws (l : bytes) : bytes :=
  match l with [] => [] | b :: l' => if is_ws b then dropws l' else l end.
(** content modulo trailing white space *)
Definition trim (l : bytes) : bytes := rev (dropws (rev l)).
(** several content streams stand for their concatenation with white space between *)
Fixpoint join (ss : list bytes) : bytes :=
  match ss with
  | [] => []
  | [s] => s
  | s :: ss' => s ++ [10] ++ join ss'
  end.
Definition canon (ss : list bytes) : bytes := trim (join ss).

Definition zlist_eqb := list_eqb Z.eqb.
Definition inclb (a b : list N) : bool := forallb (fun x => existsb (N.eqb x) b) a.

(** [out] is source page [src] with [extra] degrees added: same boxes (origin included),
    same decoded content, all resources present, rotation = original + extra (mod 360) *)
Definition same_page (src : page) (extra : Z) (out : page) : bool :=
  zlist_eqb (media src) (media out)
  && option_eqb zlist_eqb (crop src) (crop out)
  && bytes_eqb (canon (content src)) (canon (content out))
  && inclb (res src) (res out)
  && (((rotate out - (wrap32 (rotate src) + extra)) mod 360 =? 0)%Z
      || negb ((wrap32 (rotate src) mod 90 =? 0)%Z)).
      (* a /Rotate that is not a multiple of 90 is not a valid rotation: nothing is demanded of it *)

(** the requested selection: per output document the list of (source doc, page, extra angle);
    [None] = the request is not a valid one (nothing is demanded then) *)
Definition req := (N * N * Z)%type.

Definition range_sel (r : prange) (tot : N) : option (list N) :=
  match r with
  | RAll => Some (nseq 0 (N.to_nat tot))
  | RSingle i => if i <? tot then Some [i] else None
  | RRange a b => if (a <=? b) && (b <? tot) then Some (nseq a (N.to_nat (b - a + 1))) else None
  | RList l => if forallb (fun i => i <? tot) l then Some l else None
  end.

Definition nonempty {A} (o : option (list A)) : option (list A) :=
  match o with Some [] => None | _ => o end.

Definition on_doc (di : N) (l : list N) : list req := List.map (fun i => (di, i, 0%Z)) l.

Fixpoint chunks (fuel : nat) (k : nat) (l : list N) : list (list N) :=
  match fuel with
  | O => []
  | S f => match l with [] => [] | _ => firstn k l :: chunks f k (skipn k l) end
  end.

Fixpoint strictly_inc (lo : N) (l : list N) (hi : N) : bool :=
  match l with [] => true | x :: l' => (lo <? x) && (x <? hi) && strictly_inc x l' hi end.

Fixpoint segments (pts : list N) (start tot : N) : list (list N) :=
  match pts with
  | [] => [nseq start (N.to_nat (tot - start))]
  | sp :: pts' => nseq start (N.to_nat (sp - start)) :: segments pts' sp tot
  end.

Definition spec_req (ds : list doc) (o : op) : option (list (list req)) :=
  let d := match ds with d :: _ => d | [] => [] end in
  let n := total d in
  let ids := nseq 0 (length d) in
  if n =? 0 then None else
  match o with
  | OSplitSingle => Some (List.map (fun i => on_doc 0 [i]) ids)
  | OSplitChunk k => if k =? 0 then None else Some (List.map (on_doc 0) (chunks (length d) (N.to_nat k) ids))
  | OSplitRanges l =>
      match all_some (List.map (fun r => nonempty (range_sel r n)) l) with
      | Some sels => Some (List.map (on_doc 0) sels)
      | None => None
      end
  | OSplitAt pts => if strictly_inc 0 pts n then Some (List.map (on_doc 0) (segments pts 0 n)) else None
  | OMerge l =>
      match l with
      | [] => None
      | _ =>
        match all_some (List.map (fun '(di, r) =>
                 match nth_error ds (N.to_nat di) with
                 | Some dd => match range_sel (match r with Some r => r | None => RAll end) (total dd) with
                              | Some s => Some (on_doc di s) | None => None end
                 | None => None
                 end) l) with
        | Some parts => match concat parts with [] => None | y => Some [y] end
        | None => None
        end
      end
  | OSplitMerge k => if k =? 0 then None else Some [on_doc 0 ids]     (* merging the parts gives back the original sequence *)
  | OExtractPages l => if forallb (fun i => i <? n) l then
                         match l with [] => None | _ => Some [on_doc 0 l] end else None
  | OExtractRange r => match nonempty (range_sel r n) with Some s => Some [on_doc 0 s] | None => None end
  | OExtractPage i => if i <? n then Some [on_doc 0 [i]] else None
  | OReorder l => if forallb (fun i => i <? n) l then
                    match l with [] => None | _ => Some [on_doc 0 l] end else None
  | OReverse => Some [on_doc 0 (rev ids)]
  | OSwap a b => if (a <? n) && (b <? n) then
                   Some [on_doc 0 (List.map (fun i => if i =? a then b else if i =? b then a else i) ids)]
                 else None
  | OMove a b => if (a <? n) && (b <? n) then
                   Some [on_doc 0 (insert_at (N.to_nat b) a (remove_at (N.to_nat a) ids))]
                 else None
  | ORotate r angle =>
      if (angle mod 90 =? 0)%Z then
        match range_sel r n with
        | Some s => Some [List.map (fun i => (0, i, if existsb (N.eqb i) s then angle else 0%Z)) ids]
        | None => None
        end
      else None
  end.

Definition req_ok (ds : list doc) (r : req) (out : page) : bool :=
  let '(di, i, extra) := r in
  match nth_error ds (N.to_nat di) with
  | Some d => match pick d i with Some src => same_page src extra out | None => false end
  | None => false
  end.

Fixpoint all2 {A B} (f : A -> B -> bool) (a : list A) (b : list B) : bool :=
  match a, b with
  | [], [] => true
  | x :: a', y :: b' => f x y && all2 f a' b'
  | _, _ => false
  end.

Definition spec_ok (ds : list doc) (o : op) (impl : option (list (list page))) : bool :=
  match spec_req ds o with
  | None => true
  | Some want =>
      match impl with
      | Some outs => all2 (all2 (req_ok ds)) want outs
      | None => false
      end
  end.

(** * Case checker *)
Definition page_eqb (a b : page) : bool :=
  zlist_eqb (media a) (media b) && option_eqb zlist_eqb (crop a) (crop b) && (rotate a =? rotate b)%Z
  && list_eqb bytes_eqb (content a) (content b) && list_eqb N.eqb (res a) (res b).

Definition outs_eqb := option_eqb (list_eqb (list_eqb page_eqb)).

Definition case := (list doc * op * option (list (list page)))%type.

Definition case_code (c : case) : N :=
  let '(ds, o, impl) := c in
  code_of (outs_eqb (op_model ds o) impl) (spec_ok ds o impl).
