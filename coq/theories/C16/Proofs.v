(** C16 — proofs about the page-operation model. *)
From OxVerif Require Import Base.Util C16.Model.
Require Import Lia ZArith Coq.Sorting.Permutation.
Ltac Zify.zify_post_hook ::= Z.div_mod_to_equations.
Open Scope N_scope.

(** * Rotation *)
Lemma wrap32_range : forall z, (-2147483648 <= wrap32 z <= 2147483647)%Z.
Proof. intro z. unfold wrap32. lia. Qed.

Lemma wrap32_id : forall z, (-2147483648 <= z <= 2147483647)%Z -> wrap32 z = z.
Proof. intros z H. unfold wrap32. lia. Qed.

(** no arithmetic trap for any /Rotate value of the file and any quadrant angle *)
Lemma rotate_no_trap_proof : forall r a, (0 <= a <= 270)%Z -> rot_combine r a <> None.
Proof.
  intros r a Ha. unfold rot_combine. pose proof (wrap32_range r).
  assert (E : i64_ok (wrap32 r + a) = true).
  { unfold i64_ok. apply andb_true_iff. split; apply Z.leb_le; lia. }
  rewrite E. discriminate.
Qed.

Lemma snap_quadrant : forall n, (0 <= n < 360)%Z -> (n mod 90 = 0)%Z -> snap n = n.
Proof.
  intros n Hn Hm. unfold snap.
  assert (n = 0 \/ n = 90 \/ n = 180 \/ n = 270)%Z by lia.
  destruct H as [->|[->|[->| ->]]]; reflexivity.
Qed.

(** rotation' = (r + a) mod 360 for every /Rotate that is a multiple of 90 — negative and
    beyond 360 included — and every quadrant angle *)
Lemma rotate_mod_360_proof : forall r a,
  (-2147483648 <= r <= 2147483647)%Z -> (r mod 90 = 0)%Z ->
  (a = 0 \/ a = 90 \/ a = 180 \/ a = 270)%Z ->
  rot_combine r a = Some ((r + a) mod 360)%Z.
Proof.
  intros r a Hr Hm Ha. unfold rot_combine. rewrite (wrap32_id r Hr).
  assert (E : i64_ok (r + a) = true).
  { unfold i64_ok. apply andb_true_iff. split; apply Z.leb_le; lia. }
  rewrite E. f_equal. unfold set_rotation. rewrite Z.mod_mod by lia.
  apply snap_quadrant.
  - apply Z.mod_pos_bound. lia.
  - assert ((r + a) mod 90 = 0)%Z by (destruct Ha as [->|[->|[->| ->]]]; lia).
    lia.
Qed.

(** * The page copy preserves the page *)
Lemma zlist_eqb_refl : forall l, zlist_eqb l l = true.
Proof. intro l. apply (list_eqb_spec Z.eqb Z.eqb_eq). reflexivity. Qed.

Lemma inclb_refl : forall l, inclb l l = true.
Proof.
  intro l. unfold inclb. apply forallb_forall. intros x Hx. apply existsb_exists.
  exists x. split; auto. apply N.eqb_refl.
Qed.

Lemma dropws_ws_app : forall l, dropws (10 :: l) = dropws l.
Proof. reflexivity. Qed.

Lemma trim_snoc_nl : forall l, trim (l ++ [10]) = trim l.
Proof. intro l. unfold trim. rewrite rev_app_distr. cbn [rev app]. rewrite dropws_ws_app. reflexivity. Qed.

Lemma cat_streams_join : forall ss, ss <> [] -> cat_streams ss = join ss ++ [10].
Proof.
  induction ss as [|s ss IH]; intro H; [congruence|].
  destruct ss as [|s' ss].
  - cbn. rewrite app_nil_r. reflexivity.
  - assert (IH' := IH ltac:(discriminate)).
    change (cat_streams (s :: s' :: ss)) with ((s ++ [10]) ++ cat_streams (s' :: ss)).
    rewrite IH'. change (join (s :: s' :: ss)) with (s ++ [10] ++ join (s' :: ss)).
    rewrite <- !app_assoc. reflexivity.
Qed.

Lemma canon_copy : forall ss, canon [cat_streams ss] = canon ss.
Proof.
  intro ss. unfold canon. cbn [join]. destruct ss as [|s ss].
  - reflexivity.
  - rewrite cat_streams_join by discriminate. apply trim_snoc_nl.
Qed.

Lemma option_zlist_refl : forall o, option_eqb zlist_eqb o o = true.
Proof. intros [l|]; cbn; auto. apply zlist_eqb_refl. Qed.

Lemma bytes_eqb_refl : forall l, bytes_eqb l l = true.
Proof. intro l. apply bytes_eqb_eq. reflexivity. Qed.

(** a copied page is the same page: boxes (origin included), crop box, content modulo
    trailing white space, resources, rotation modulo 360 (exactly: the i32 reading) *)
Lemma copy_preserves_page : forall p, same_page p 0 (copy_page p) = true.
Proof.
  intro p. unfold same_page, copy_page. cbn [media crop rotate content res].
  rewrite zlist_eqb_refl, option_zlist_refl, canon_copy, bytes_eqb_refl, inclb_refl.
  cbn [andb]. replace (wrap32 (rotate p) - (wrap32 (rotate p) + 0))%Z with 0%Z by lia.
  reflexivity.
Qed.

(** a rotated page: everything preserved, rotation = original + angle (mod 360) *)
Lemma rotate_preserves_page : forall p a q,
  (a = 0 \/ a = 90 \/ a = 180 \/ a = 270)%Z -> (wrap32 (rotate p) mod 90 = 0)%Z ->
  rotate_page p a = Some q -> same_page p a q = true.
Proof.
  intros p a q Ha Hm H. unfold rotate_page in H.
  pose proof (wrap32_range (rotate p)) as Hr.
  assert (Hc : rot_combine (rotate p) a = Some ((wrap32 (rotate p) + a) mod 360)%Z).
  { unfold rot_combine.
    assert (E : i64_ok (wrap32 (rotate p) + a) = true).
    { unfold i64_ok. apply andb_true_iff. split; apply Z.leb_le; lia. }
    rewrite E. f_equal. unfold set_rotation. rewrite Z.mod_mod by lia.
    apply snap_quadrant; [apply Z.mod_pos_bound; lia|].
    assert ((wrap32 (rotate p) + a) mod 90 = 0)%Z by (destruct Ha as [->|[->|[->| ->]]]; lia). lia. }
  rewrite Hc in H. inversion H; subst q; clear H.
  unfold same_page. cbn [media crop rotate content res].
  rewrite zlist_eqb_refl, option_zlist_refl, canon_copy, bytes_eqb_refl, inclb_refl.
  cbn [andb]. apply orb_true_iff. left. apply Z.eqb_eq.
  set (s := (wrap32 (rotate p) + a)%Z). rewrite Zminus_mod, Z.mod_mod, Z.sub_diag by lia. reflexivity.
Qed.

(** * Selections *)
Lemma copy_sel_spec : forall d l out, copy_sel d l = Some out ->
  out = List.map (fun i => copy_page (nth (N.to_nat i) d (Build_page [] None 0 [] []))) l
  /\ Forall (fun i => i < total d) l.
Proof.
  induction l as [|i l IH]; cbn [copy_sel]; intros out H.
  - inversion H. split; constructor.
  - unfold pick in H. destruct (nth_error d (N.to_nat i)) as [p|] eqn:Hp; [|discriminate].
    destruct (copy_sel d l) as [r|]; [|discriminate]. inversion H; subst out.
    destruct (IH r eq_refl) as [-> Hall]. split.
    + cbn [List.map]. f_equal. f_equal. symmetry. apply nth_error_nth. exact Hp.
    + constructor; auto. unfold total.
      assert (N.to_nat i < length d)%nat by (apply nth_error_Some; congruence). lia.
Qed.

(** extraction returns exactly the requested pages, in the requested order, each copied *)
Lemma extract_is_selection_proof : forall d l out,
  op_model [d] (OExtractPages l) = Some [out] ->
  out = List.map (fun i => copy_page (nth (N.to_nat i) d (Build_page [] None 0 [] []))) l
  /\ Forall (fun i => i < total d) l /\ l <> [].
Proof.
  intros d l out H. cbn [op_model] in H. unfold one, extract_pages in H.
  destruct (forallb (fun i => i <? total d) l); [|discriminate].
  destruct l as [|i l]; [discriminate|].
  destruct (copy_sel d (i :: l)) as [r|] eqn:Hc; [|discriminate]. inversion H; subst r.
  destruct (copy_sel_spec _ _ _ Hc). repeat split; auto. discriminate.
Qed.

Lemma nseq_seq : forall len start, nseq (N.of_nat start) len = List.map N.of_nat (seq start len).
Proof.
  induction len as [|len IH]; intro start; cbn [nseq seq List.map]; auto.
  f_equal. rewrite <- Nat2N.inj_succ. apply IH.
Qed.

Lemma map_nth_seq : forall {A} (d : list A) (dflt : A), List.map (fun i => nth i d dflt) (seq 0 (length d)) = d.
Proof.
  intros A d dflt. induction d as [|x d IH]; cbn [length seq List.map]; auto.
  f_equal. rewrite <- seq_shift, map_map. exact IH.
Qed.

(** reordering by a permutation of the page indices yields a permutation of the (copied) pages *)
Lemma reorder_is_permutation_proof : forall d l out,
  Permutation l (ident d) ->
  op_model [d] (OReorder l) = Some [out] ->
  Permutation out (List.map copy_page d).
Proof.
  intros d l out Hp H. cbn [op_model] in H. unfold one, reorder in H.
  destruct (total d =? 0); [discriminate|].
  destruct l as [|i l]; [discriminate|].
  destruct (forallb (fun i0 => i0 <? total d) (i :: l)); [|discriminate].
  destruct (copy_sel d (i :: l)) as [r|] eqn:Hc; [|discriminate]. inversion H; subst r.
  destruct (copy_sel_spec _ _ _ Hc) as [-> _].
  set (f := fun i0 : N => copy_page (nth (N.to_nat i0) d (Build_page [] None 0 [] []))).
  apply Permutation_trans with (List.map f (ident d)).
  - apply Permutation_map. exact Hp.
  - unfold ident. change (nseq 0 (length d)) with (nseq (N.of_nat 0) (length d)).
    rewrite (nseq_seq (length d) 0). rewrite map_map. unfold f.
    rewrite <- (map_nth_seq d (Build_page [] None 0 [] [])) at 2. rewrite map_map.
    erewrite map_ext; [apply Permutation_refl|].
    intro a. cbv beta. rewrite Nat2N.id. reflexivity.
Qed.

(** * Split then merge *)
(** the chunks requested by a split partition the page sequence: concatenating them in
    order gives back the original sequence *)
Lemma chunks_concat : forall fuel k (l : list N), (0 < k)%nat -> (length l <= fuel)%nat ->
  concat (chunks fuel k l) = l.
Proof.
  induction fuel as [|f IH]; intros k l Hk Hl.
  - destruct l; [reflexivity|cbn in Hl; lia].
  - destruct l as [|x l]; [reflexivity|].
    cbn [chunks concat]. rewrite IH; auto.
    + apply firstn_skipn.
    + rewrite skipn_length. cbn [length] in *. lia.
Qed.

Lemma chunks_nonempty : forall fuel k (l : list N), (0 < k)%nat -> Forall (fun c => c <> []) (chunks fuel k l).
Proof.
  induction fuel as [|f IH]; intros k l Hk; cbn [chunks]; [constructor|].
  destruct l as [|x l]; constructor; auto.
  destruct k; [lia|]. discriminate.
Qed.
