(** C16 — merging the parts of a split document gives back the original page sequence
    (model level: ChunkSize split followed by a merge of all parts). *)
From OxVerif Require Import Base.Util C16.Model C16.Proofs.
Require Import Lia.
Open Scope N_scope.

Fixpoint lchunks {A} (fuel : nat) (k : nat) (l : list A) : list (list A) :=
  match fuel with
  | O => []
  | S f => match l with [] => [] | _ => firstn k l :: lchunks f k (skipn k l) end
  end.

Lemma lchunks_concat : forall {A} fuel k (l : list A), (0 < k)%nat -> (length l <= fuel)%nat ->
  concat (lchunks fuel k l) = l.
Proof.
  induction fuel as [|f IH]; intros k l Hk Hl.
  - destruct l; [reflexivity|cbn in Hl; lia].
  - destruct l as [|x l]; [reflexivity|].
    cbn [lchunks concat]. rewrite IH; auto.
    + apply firstn_skipn.
    + rewrite skipn_length. cbn [length] in *. lia.
Qed.

Lemma skipn_nth : forall {A} (d : list A) n p, nth_error d n = Some p -> skipn n d = p :: skipn (S n) d.
Proof.
  induction d as [|x d IH]; intros [|n] p H; cbn in *; try discriminate.
  - inversion H. reflexivity.
  - apply IH. exact H.
Qed.

Lemma skipn_add : forall {A} (d : list A) a b, skipn b (skipn a d) = skipn (a + b) d.
Proof.
  induction d as [|x d IH]; intros a b.
  - rewrite !skipn_nil. reflexivity.
  - destruct a; cbn [skipn Nat.add]; auto.
Qed.

Lemma copy_sel_nseq : forall d len start, (start + len <= length d)%nat ->
  copy_sel d (nseq (N.of_nat start) len) = Some (List.map copy_page (firstn len (skipn start d))).
Proof.
  induction len as [|len IH]; intros start H; [reflexivity|].
  cbn [nseq copy_sel]. unfold pick. rewrite Nat2N.id.
  destruct (nth_error d start) as [p|] eqn:Hp.
  2:{ apply nth_error_None in Hp. lia. }
  rewrite <- Nat2N.inj_succ. rewrite IH by lia.
  rewrite (skipn_nth _ _ _ Hp). reflexivity.
Qed.

Section Chunks.
Variable d : doc.
Variable k : N.
Hypothesis Hk : k <> 0.
Let kk := N.to_nat k.

Lemma chunk_head : forall s, (s < length d)%nat ->
  extract_range d (RRange (N.of_nat s) (N.min (N.of_nat s + k - 1) (total d - 1)))
  = Some (List.map copy_page (firstn kk (skipn s d))).
Proof.
  intros s Hs. unfold extract_range, get_indices, total.
  set (a := N.of_nat s). set (b := N.min (a + k - 1) (N.of_nat (length d) - 1)).
  assert (Ha : a < N.of_nat (length d)) by (unfold a; lia).
  assert (Hb1 : a <= b) by (unfold b; lia).
  assert (Hb2 : b < N.of_nat (length d)) by (unfold b; lia).
  replace (N.of_nat (length d) <=? a) with false by (symmetry; apply N.leb_gt; lia).
  replace (N.of_nat (length d) <=? b) with false by (symmetry; apply N.leb_gt; lia).
  replace (b <? a) with false by (symmetry; apply N.ltb_ge; lia).
  set (len := N.to_nat (b - a + 1)).
  assert (Hlen : len = Nat.min kk (length d - s)) by (unfold len, b, a, kk; lia).
  assert (Hpos : (0 < len)%nat) by (unfold len; lia).
  destruct len as [|len'] eqn:El; [lia|].
  cbn [nseq]. change (a :: nseq (N.succ a) len') with (nseq a (S len')).
  unfold a. rewrite copy_sel_nseq by lia. f_equal. f_equal.
  rewrite Hlen. destruct (Nat.min_spec kk (length d - s)) as [[_ ->]|[Hle ->]]; auto.
  rewrite !firstn_all2; auto; rewrite skipn_length; lia.
Qed.

Lemma chunk_all : forall fuel s, (length d - s <= fuel)%nat ->
  all_some (List.map (extract_range d) (chunk_ranges fuel (N.of_nat s) k (total d)))
  = Some (List.map (List.map copy_page) (lchunks fuel kk (skipn s d))).
Proof.
  induction fuel as [|f IH]; intros s Hf.
  - reflexivity.
  - cbn [chunk_ranges]. unfold total at 1.
    destruct (N.of_nat s <? N.of_nat (length d)) eqn:E.
    + apply N.ltb_lt in E. assert (Hs : (s < length d)%nat) by lia.
      cbn [List.map all_some]. rewrite chunk_head by exact Hs.
      replace (N.of_nat s + k) with (N.of_nat (s + kk)) by (unfold kk; lia).
      rewrite IH by (unfold kk; lia).
      destruct (skipn s d) as [|x r] eqn:Esk.
      { exfalso. assert (length (skipn s d) = (length d - s)%nat) by apply skipn_length.
        rewrite Esk in H. cbn in H. lia. }
      cbn [lchunks List.map]. rewrite <- Esk. rewrite skipn_add. reflexivity.
    + apply N.ltb_ge in E. assert (Hs : (length d <= s)%nat) by lia.
      rewrite skipn_all2 by exact Hs. reflexivity.
Qed.
End Chunks.

Lemma merge_all : forall (parts pre : list doc),
  merge_inputs (pre ++ parts) (List.map (fun i => (i, @None prange)) (nseq (N.of_nat (length pre)) (length parts)))
  = Some (concat (List.map (List.map copy_page) parts)).
Proof.
  induction parts as [|p ps IH]; intro pre; [reflexivity|].
  cbn [length nseq List.map merge_inputs]. rewrite Nat2N.id.
  rewrite nth_error_app2 by lia. rewrite Nat.sub_diag. cbn [nth_error].
  cbn [get_indices]. unfold total. rewrite Nat2N.id.
  change 0 with (N.of_nat 0). rewrite copy_sel_nseq by (cbn; lia).
  cbn [skipn]. rewrite firstn_all.
  specialize (IH (pre ++ [p])). rewrite <- app_assoc in IH. cbn [app] in IH.
  rewrite app_length in IH. cbn [length] in IH. rewrite Nat.add_1_r in IH.
  rewrite Nat2N.inj_succ in IH. rewrite IH. reflexivity.
Qed.

(** merging the parts of a split document gives back the original page sequence
    (each page copied twice: once by the split, once by the merge) *)
Theorem split_merge_identity_proof : forall d k, d <> [] -> k <> 0 ->
  op_model [d] (OSplitMerge k) = Some [List.map (fun p => copy_page (copy_page p)) d].
Proof.
  intros d k Hd Hk. cbn [op_model]. unfold split_chunk, split_with.
  replace (k =? 0) with false by (symmetry; apply N.eqb_neq; exact Hk).
  assert (Hlen : (0 < length d)%nat) by (destruct d; [congruence|cbn; lia]).
  replace (total d =? 0) with false by (symmetry; apply N.eqb_neq; unfold total; lia).
  change 0 with (N.of_nat 0) at 1. rewrite chunk_all by (exact Hk || lia).
  cbn [skipn].
  set (parts := lchunks (length d) (N.to_nat k) d).
  assert (Hparts : concat parts = d) by (apply lchunks_concat; lia).
  destruct (List.map (List.map copy_page) parts) as [|q qs] eqn:Eq.
  { exfalso. destruct parts; [|discriminate]. cbn in Hparts. congruence. }
  rewrite <- Eq.
  pose proof (merge_all (List.map (List.map copy_page) parts) []) as Hm.
  change ([] ++ List.map (List.map copy_page) parts) with (List.map (List.map copy_page) parts) in Hm.
  change (N.of_nat (@length doc [])) with 0 in Hm. unfold doc in Hm. rewrite Hm.
  unfold one. f_equal. f_equal.
  rewrite <- concat_map, <- concat_map, Hparts, map_map. reflexivity.
Qed.
