(** C20 — proofs: every emitter that sorts before emission is insensitive to the hash maps'
    iteration order (at any nesting depth); every emitter that prints or allocates in iteration
    order is not (witnesses). *)
From OxVerif Require Import Base.Util C09.Model C20.Model.
Require Import Lia ZifyBool Permutation Sorted.

(** * Stable insertion sort on a totally ordered key: the result depends only on the multiset *)
Section SortGen.
  Variables (K A : Type) (leb : K -> K -> bool).
  Hypothesis leb_total : forall a b, leb a b = true \/ leb b a = true.
  Hypothesis leb_trans : forall a b c, leb a b = true -> leb b c = true -> leb a c = true.
  Hypothesis leb_antisym : forall a b, leb a b = true -> leb b a = true -> a = b.

  Fixpoint ins (x : K * A) (l : list (K * A)) : list (K * A) :=
    match l with
    | [] => [x]
    | y :: r => if leb (fst x) (fst y) then x :: l else y :: ins x r
    end.
  Fixpoint srt (l : list (K * A)) : list (K * A) :=
    match l with [] => [] | x :: r => ins x (srt r) end.

  Definition le_kv (x y : K * A) : Prop := leb (fst x) (fst y) = true.

  Lemma ins_perm x l : Permutation (ins x l) (x :: l).
  Proof.
    induction l as [|y r IH]; cbn [ins]; [reflexivity|].
    destruct (leb (fst x) (fst y)); [reflexivity|].
    rewrite IH. apply perm_swap.
  Qed.
  Lemma srt_perm l : Permutation (srt l) l.
  Proof.
    induction l as [|x r IH]; cbn [srt]; [reflexivity|].
    rewrite ins_perm. constructor. exact IH.
  Qed.

  Lemma ins_sorted x l : StronglySorted le_kv l -> StronglySorted le_kv (ins x l).
  Proof.
    induction l as [|y r IH]; intro S; cbn [ins].
    - repeat constructor.
    - inversion S as [|? ? Sr Fy]; subst.
      destruct (leb (fst x) (fst y)) eqn:E.
      + constructor; [exact S|]. constructor; [exact E|].
        eapply Forall_impl; [|exact Fy]. intros z Hz. unfold le_kv in *. eapply leb_trans; eauto.
      + constructor; [apply IH; exact Sr|].
        eapply Permutation_Forall; [symmetry; apply ins_perm|].
        constructor; [|exact Fy]. unfold le_kv.
        destruct (leb_total (fst x) (fst y)) as [H|H]; [congruence|exact H].
  Qed.
  Lemma srt_sorted l : StronglySorted le_kv (srt l).
  Proof. induction l; cbn [srt]; [constructor | apply ins_sorted; assumption]. Qed.

  Lemma nodup_fst_inj (l : list (K * A)) a b :
    NoDup (map fst l) -> In a l -> In b l -> fst a = fst b -> a = b.
  Proof.
    induction l as [|x r IH]; intros N Ha Hb E; [contradiction|].
    cbn [map] in N. inversion N as [|? ? Nx Nr]; subst.
    destruct Ha as [->|Ha], Hb as [->|Hb]; try reflexivity.
    - exfalso. apply Nx. rewrite E. apply in_map. exact Hb.
    - exfalso. apply Nx. rewrite <- E. apply in_map. exact Ha.
    - apply IH; assumption.
  Qed.

  Lemma sorted_perm_eq l1 : forall l2,
    StronglySorted le_kv l1 -> StronglySorted le_kv l2 -> Permutation l1 l2 ->
    NoDup (map fst l1) -> l1 = l2.
  Proof.
    induction l1 as [|a r1 IH]; intros l2 S1 S2 P N.
    - apply Permutation_nil in P. subst. reflexivity.
    - destruct l2 as [|b r2]; [apply Permutation_sym, Permutation_nil_cons in P; contradiction|].
      inversion S1 as [|? ? S1r F1]; inversion S2 as [|? ? S2r F2]; subst.
      assert (Ha : In a (b :: r2)) by (eapply Permutation_in; [exact P | left; reflexivity]).
      assert (Hb : In b (a :: r1)) by (eapply Permutation_in; [symmetry; exact P | left; reflexivity]).
      assert (E : a = b).
      { destruct Ha as [Ha|Ha]; [congruence|]. destruct Hb as [Hb|Hb]; [congruence|].
        rewrite Forall_forall in F1, F2. pose proof (F1 _ Hb) as L1. pose proof (F2 _ Ha) as L2.
        apply (nodup_fst_inj (a :: r1)); [exact N | left; reflexivity | right; exact Hb |].
        apply leb_antisym; assumption. }
      subst b. f_equal. apply IH; try assumption.
      + eapply Permutation_cons_inv. exact P.
      + cbn [map] in N. inversion N. assumption.
  Qed.

  Theorem srt_perm_invariant l l' :
    Permutation l l' -> NoDup (map fst l) -> srt l = srt l'.
  Proof.
    intros P N. apply sorted_perm_eq; try apply srt_sorted.
    - rewrite !srt_perm. exact P.
    - eapply Permutation_NoDup; [|exact N]. apply Permutation_map. symmetry. apply srt_perm.
  Qed.
End SortGen.

(** * The two key orders of the writer *)
Lemma bytes_leb_total a : forall b, bytes_leb a b = true \/ bytes_leb b a = true.
Proof.
  induction a as [|x a IH]; intros [|y b]; cbn [bytes_leb]; auto.
  destruct (x <? y) eqn:E1, (y <? x) eqn:E2; auto.
Qed.
Lemma bytes_leb_trans a : forall b c, bytes_leb a b = true -> bytes_leb b c = true -> bytes_leb a c = true.
Proof.
  induction a as [|x a IH]; intros [|y b] [|z c]; cbn [bytes_leb]; try congruence.
  destruct (x <? y) eqn:E1, (y <? x) eqn:E2, (y <? z) eqn:E3, (z <? y) eqn:E4, (x <? z) eqn:E5, (z <? x) eqn:E6;
    try congruence; try lia; try apply IH.
Qed.
Lemma bytes_leb_antisym a : forall b, bytes_leb a b = true -> bytes_leb b a = true -> a = b.
Proof.
  induction a as [|x a IH]; intros [|y b]; cbn [bytes_leb]; try congruence.
  destruct (x <? y) eqn:E1, (y <? x) eqn:E2; try congruence; try lia.
  intros H1 H2. assert (x = y) by lia. subst. f_equal. apply IH; assumption.
Qed.
Lemma nleb_total a b : (a <=? b) = true \/ (b <=? a) = true. Proof. lia. Qed.
Lemma nleb_trans a b c : (a <=? b) = true -> (b <=? c) = true -> (a <=? c) = true. Proof. lia. Qed.
Lemma nleb_antisym a b : (a <=? b) = true -> (b <=? a) = true -> a = b. Proof. lia. Qed.

Lemma sort_kv_is_srt {A} (l : list (bytes * A)) : sort_kv l = srt bytes A bytes_leb l.
Proof.
  induction l as [|x r IH]; [reflexivity|]. cbn [sort_kv srt]. rewrite IH.
  generalize (srt bytes A bytes_leb r). intro s. induction s as [|y s IHs]; [reflexivity|].
  cbn [ins_kv ins]. destruct (bytes_leb (fst x) (fst y)); [reflexivity|]. f_equal. exact IHs.
Qed.
Lemma sort_n_is_srt {A} (l : list (N * A)) : sort_n l = srt N A N.leb l.
Proof.
  induction l as [|x r IH]; [reflexivity|]. cbn [sort_n srt]. rewrite IH.
  generalize (srt N A N.leb r). intro s. induction s as [|y s IHs]; [reflexivity|].
  cbn [ins_n ins]. destruct (fst x <=? fst y); [reflexivity|]. f_equal. exact IHs.
Qed.

Theorem sort_kv_perm_invariant {A} (l l' : list (bytes * A)) :
  Permutation l l' -> NoDup (map fst l) -> sort_kv l = sort_kv l'.
Proof.
  intros. rewrite !sort_kv_is_srt.
  apply srt_perm_invariant; [apply bytes_leb_total | apply bytes_leb_trans | apply bytes_leb_antisym | assumption | assumption].
Qed.
Theorem sort_n_perm_invariant {A} (l l' : list (N * A)) :
  Permutation l l' -> NoDup (map fst l) -> sort_n l = sort_n l'.
Proof.
  intros. rewrite !sort_n_is_srt.
  apply srt_perm_invariant; [apply nleb_total | apply nleb_trans | apply nleb_antisym | assumption | assumption].
Qed.

(** * Dictionaries: one level *)
Lemma map_fst_ser nm (l : list (bytes * obj)) :
  map fst (map (fun '(k, x) => (k, ser nm x)) l) = map fst l.
Proof. rewrite map_map. apply map_ext. intros [k x]. reflexivity. Qed.

Theorem dict_order_irrelevant l l' :
  Permutation l l' -> NoDup (map fst l) -> ser_sorted l = ser_sorted l'.
Proof.
  intros P N. unfold ser_sorted. cbn [ser].
  rewrite (sort_kv_perm_invariant _ _ (Permutation_map (fun '(k, x) => (k, ser raw_name x)) P));
    [reflexivity | rewrite map_fst_ser; exact N].
Qed.

Theorem xref_dict_order_irrelevant l l' :
  Permutation l l' -> NoDup (map fst l) -> ser_xref_dict l = ser_xref_dict l'.
Proof. intros. unfold ser_xref_dict. f_equal. apply dict_order_irrelevant; assumption. Qed.

(** * Dictionaries: any nesting depth *)
Section ObjInd.
  Variable P : obj -> Prop.
  Hypothesis Hnull : P ONull.
  Hypothesis Hbool : forall b, P (OBool b).
  Hypothesis Hint : forall z, P (OInt z).
  Hypothesis Hreal : forall n m, P (OReal n m).
  Hypothesis Hstr : forall s, P (OStr s).
  Hypothesis Hhex : forall s, P (OHex s).
  Hypothesis Hname : forall n, P (OName n).
  Hypothesis Harr : forall l, Forall P l -> P (OArr l).
  Hypothesis Hdict : forall l, Forall (fun kv => P (snd kv)) l -> P (ODict l).
  Hypothesis Href : forall n g, P (ORef n g).
  Fixpoint obj_ind' (v : obj) : P v :=
    match v with
    | ONull => Hnull | OBool b => Hbool b | OInt z => Hint z | OReal n m => Hreal n m
    | OStr s => Hstr s | OHex s => Hhex s | OName n => Hname n
    | OArr l => Harr l ((fix go (l : list obj) : Forall P l :=
                           match l with [] => Forall_nil _ | x :: r => Forall_cons _ (obj_ind' x) (go r) end) l)
    | ODict l => Hdict l ((fix go (l : list (bytes * obj)) : Forall (fun kv => P (snd kv)) l :=
                           match l with [] => Forall_nil _ | x :: r => Forall_cons _ (obj_ind' (snd x)) (go r) end) l)
    | ORef n g => Href n g
    end.
End ObjInd.

(** the same logical object held in differently ordered hash maps: entries of any dictionary,
    at any depth, may come in any order *)
Inductive operm : obj -> obj -> Prop :=
| op_same v : operm v v
| op_arr l l' : Forall2 operm l l' -> operm (OArr l) (OArr l')
| op_dict l m l' :
    Forall2 (fun a b => fst a = fst b /\ operm (snd a) (snd b)) l m ->
    Permutation m l' -> operm (ODict l) (ODict l').

(** HashMap keys are unique, at every depth *)
Fixpoint keys_nodup (v : obj) : Prop :=
  match v with
  | OArr l => (fix go (l : list obj) : Prop := match l with [] => True | x :: r => keys_nodup x /\ go r end) l
  | ODict l => NoDup (map fst l)
               /\ (fix go (l : list (bytes * obj)) : Prop :=
                     match l with [] => True | x :: r => keys_nodup (snd x) /\ go r end) l
  | _ => True
  end.

Lemma ser_elems_ext f l l' :
  Forall2 (fun a b => f a = f b) l l' -> ser_elems f l = ser_elems f l'.
Proof.
  induction 1 as [|a b r r' E F IH]; [reflexivity|].
  cbn [ser_elems]. change ((fix go (l : list obj) : bytes :=
      match l with [] => [] | v :: r => match r with [] => f v | _ => f v ++ 32 :: go r end end)) with (ser_elems f).
  destruct F as [|a2 b2 r2 r2' E2 F2].
  - exact E.
  - rewrite E. f_equal. f_equal. exact IH.
Qed.

Theorem ser_order_irrelevant nm : forall v, keys_nodup v -> forall v', operm v v' -> ser nm v = ser nm v'.
Proof.
  induction v using obj_ind'; intros KN v' OP;
    try (inversion OP; subst; reflexivity).
  - (* arrays *)
    inversion OP as [|l0 l' F|]; subst; [reflexivity|].
    cbn [ser]. do 2 f_equal. apply ser_elems_ext.
    cbn [keys_nodup] in KN. clear OP. revert KN. induction F as [|a b r r' Hab F IH]; intro KN; constructor.
    + inversion H; subst. apply H2; [apply KN | exact Hab].
    + inversion H; subst. apply IH; [assumption | apply KN].
  - (* dictionaries *)
    inversion OP as [| |l0 m l' F Pm]; subst; [reflexivity|].
    cbn [ser]. cbn [keys_nodup] in KN. destruct KN as [ND KN].
    assert (E : map (fun '(k, x) => (k, ser nm x)) l = map (fun '(k, x) => (k, ser nm x)) m).
    { clear Pm ND OP. revert KN. induction F as [|a b r r' [Hk Hab] F IH]; intro KN; [reflexivity|].
      inversion H; subst. cbn [map]. destruct a as [ka xa], b as [kb xb]. cbn [fst snd] in *. subst kb.
      f_equal; [f_equal; apply H2; [apply KN | exact Hab] | apply IH; [assumption | apply KN]]. }
    rewrite E.
    rewrite (sort_kv_perm_invariant _ _ (Permutation_map (fun '(k, x) => (k, ser nm x)) Pm));
      [reflexivity | rewrite <- E, map_fst_ser; exact ND].
Qed.

(** * Object streams *)
Theorem objstm_order_irrelevant cap l l' :
  Permutation l l' -> NoDup (map fst l) -> pack_sorted cap l = pack_sorted cap l'.
Proof. intros P N. unfold pack_sorted. rewrite (sort_n_perm_invariant l l' P N). reflexivity. Qed.

(** deep form: members serialized from differently ordered maps, buffered in a differently ordered map *)
Theorem objstm_deterministic cap objs m objs' :
  Forall2 (fun a b => fst a = fst b /\ operm (snd a) (snd b)) objs m -> Permutation m objs' ->
  NoDup (map fst objs) -> Forall (fun e => keys_nodup (snd e)) objs ->
  objstm_of cap objs = objstm_of cap objs'.
Proof.
  intros F P N KN. unfold objstm_of.
  assert (E : map (fun '(n, o) => (n, ser raw_name o)) objs = map (fun '(n, o) => (n, ser raw_name o)) m).
  { clear P N. induction F as [|a b r r' [Hk Hab] F IH]; [reflexivity|].
    inversion KN; subst. destruct a as [na oa], b as [nb ob]. cbn [fst snd map] in *. subst nb.
    f_equal; [f_equal; apply ser_order_irrelevant; assumption | apply IH; assumption]. }
  rewrite E. apply objstm_order_irrelevant; [apply Permutation_map; exact P|].
  rewrite <- E. rewrite map_map. erewrite map_ext; [exact N|]. intros [n o]. reflexivity.
Qed.

(** * Cross-reference lookups *)
Theorem xref_order_irrelevant positions positions' maxn :
  Permutation positions positions' -> NoDup (map fst positions) ->
  xref_rows positions maxn = xref_rows positions' maxn.
Proof. intros P N. unfold xref_rows. rewrite (sort_n_perm_invariant _ _ P N). reflexivity. Qed.

(** * Inline streams made indirect inside the loop *)
Theorem externalize_order_irrelevant next l l' :
  Permutation l l' -> NoDup (map fst l) -> externalize_sorted next l = externalize_sorted next l'.
Proof. intros P N. unfold externalize_sorted. rewrite (sort_kv_perm_invariant l l' P N). reflexivity. Qed.

(** generic form: anything computed from the sorted vector *)
Theorem sorted_use_order_irrelevant {A B} (use : list (bytes * A) -> B) l l' :
  Permutation l l' -> NoDup (map fst l) -> use (sort_kv l) = use (sort_kv l').
Proof. intros P N. rewrite (sort_kv_perm_invariant l l' P N). reflexivity. Qed.

(** * Refutations: emitters that follow the iteration order *)
Definition k_size : bytes := [83; 105; 122; 101].
Definition k_type : bytes := [84; 121; 112; 101].
Definition k_N : bytes := [78].
Definition k_D : bytes := [68].

Ltac nodup2 := repeat constructor; cbn; intuition discriminate.

Lemma xrefstream_dict_order_refuted :
  exists l l', Permutation l l' /\ NoDup (map fst l) /\ ser_unsorted l <> ser_unsorted l'.
Proof.
  exists [(k_type, OName [88; 82; 101; 102]); (k_size, OInt 3)],
         [(k_size, OInt 3); (k_type, OName [88; 82; 101; 102])].
  split; [apply perm_swap|]. split; [nodup2|].
  intro H. vm_compute in H. discriminate H.
Qed.

Lemma objstm_unsorted_refuted :
  exists l l', Permutation l l' /\ NoDup (map fst l) /\ pack_unsorted 100 l <> pack_unsorted 100 l'.
Proof.
  exists [(4, [110]); (7, [116])], [(7, [116]); (4, [110])].
  split; [apply perm_swap|]. split; [nodup2|].
  intro H. vm_compute in H. discriminate H.
Qed.

Lemma externalize_order_refuted :
  exists l l', Permutation l l' /\ NoDup (map fst l)
               /\ ext_bytes (externalize_pinned 10 l) <> ext_bytes (externalize_pinned 10 l').
Proof.
  exists [(k_N, SStream [] [110]); (k_D, SStream [] [100])],
         [(k_D, SStream [] [100]); (k_N, SStream [] [110])].
  split; [apply perm_swap|]. split; [nodup2|].
  intro H. vm_compute in H. discriminate H.
Qed.

(** * Non-vacuity: the hypotheses hold on non-trivial values and the conclusions are not trivial *)
Definition ex_inner : list (bytes * obj) := [(k_type, OName [88]); (k_size, OInt 3); (k_N, OArr [OInt 1; ONull])].
Definition ex_inner' : list (bytes * obj) := [(k_N, OArr [OInt 1; ONull]); (k_type, OName [88]); (k_size, OInt 3)].
Definition ex_outer : obj := ODict [(k_D, ODict ex_inner); (k_N, OStr [97])].
Definition ex_outer' : obj := ODict [(k_N, OStr [97]); (k_D, ODict ex_inner')].

Example ex_perm : Permutation ex_inner ex_inner'.
Proof. unfold ex_inner, ex_inner'. apply Permutation_sym. apply (Permutation_cons_app [_; _] []). reflexivity. Qed.
Example ex_nodup : NoDup (map fst ex_inner).
Proof. repeat constructor; cbn; intuition discriminate. Qed.
Example ex_operm : operm ex_outer ex_outer'.
Proof.
  unfold ex_outer, ex_outer'.
  eapply (op_dict _ [(k_D, ODict ex_inner'); (k_N, OStr [97])]).
  - constructor; [split; [reflexivity|]|constructor; [split; [reflexivity|apply op_same]|constructor]].
    cbn [snd]. eapply (op_dict _ ex_inner).
    + unfold ex_inner. repeat (constructor; [split; [reflexivity | apply op_same]|]). constructor.
    + exact ex_perm.
  - apply perm_swap.
Qed.
Example ex_keys_nodup : keys_nodup ex_outer.
Proof. cbn. repeat split; try (repeat constructor; cbn; intuition discriminate). Qed.
Example ex_deep_equal : ser raw_name ex_outer = ser raw_name ex_outer' /\ ex_outer <> ex_outer'.
Proof. split; [vm_compute; reflexivity | discriminate]. Qed.
Example ex_objstm : pack_sorted 2 [(9, [57]); (4, [52]); (7, [55])] = pack_sorted 2 [(4, [52]); (7, [55]); (9, [57])]
                    /\ length (pack_sorted 2 [(9, [57]); (4, [52]); (7, [55])]) = 2%nat.
Proof. split; vm_compute; reflexivity. Qed.
Example ex_externalize :
  externalize_sorted 10 [(k_N, SStream [] [110]); (k_D, SStream [] [100])]
  = externalize_sorted 10 [(k_D, SStream [] [100]); (k_N, SStream [] [110])]
  /\ length (ext_written (externalize_sorted 10 [(k_N, SStream [] [110]); (k_D, SStream [] [100])])) = 2%nat.
Proof. split; vm_compute; reflexivity. Qed.
