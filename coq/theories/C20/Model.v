(** C20 — writing the same document twice gives identical bytes.

    The writer's serializers as functions of the document content AND of the iteration order of
    every hash map they walk (std HashMap/HashSet with RandomState: the order differs per process
    and per map instance, so it is an argument here, never a constant).

    [ser raw_name] (C09.Model) IS the model of PdfWriter::write_object_value /
    write_object_value_to_buffer: the [ODict l] argument lists the entries in the order in which
    [Dictionary::entries()] yields them.  Below: the object-stream packer
    (flush_object_streams + ObjectStreamWriter + ObjectStream::generate_stream_data), the
    cross-reference lookups, the in-loop object-id allocation of the "externalize inline streams"
    helpers, and the two emitter shapes (sorted before emission / printed in iteration order). *)
From OxVerif Require Import Base.Util C09.Model.

(** * 1. Dictionary emitters *)

(** write_object_value, Dictionary arm: collect, sort_by_key(key), print.  [l] = iteration order. *)
Definition ser_sorted (l : list (bytes * obj)) : bytes := ser raw_name (ODict l).

(** an emitter that prints [for (key, value) in dict.iter()] — the shape write_xref_stream and
    XRefStreamWriter::write_xref_stream had on the pinned tree *)
Definition ser_unsorted (l : list (bytes * obj)) : bytes :=
  60 :: 60 :: ser_entries raw_name (map (fun '(k, x) => (k, ser raw_name x)) l) ++ [10; 62; 62].

(** the xref-stream dictionary after the repair: same as every dictionary, followed by LF *)
Definition ser_xref_dict (l : list (bytes * obj)) : bytes := ser_sorted l ++ [10].

(** * 2. Sorting by object number (sort_by_key(|(id,_)| id.number()), stable) *)
Fixpoint ins_n {A} (x : N * A) (l : list (N * A)) : list (N * A) :=
  match l with
  | [] => [x]
  | y :: r => if fst x <=? fst y then x :: l else y :: ins_n x r
  end.
Fixpoint sort_n {A} (l : list (N * A)) : list (N * A) :=
  match l with
  | [] => []
  | x :: r => ins_n x (sort_n r)
  end.

(** * 3. Object streams.  [buffered] = PdfWriter::buffered_objects in iteration order. *)

(** ObjectStream::generate_stream_data before compression: "num off " pairs, then "data " *)
Fixpoint os_index (objs : list (N * bytes)) (off : N) : bytes :=
  match objs with
  | [] => []
  | (n, d) :: r => dec n ++ 32 :: dec off ++ 32 :: os_index r (off + N.of_nat (length d) + 1)
  end.
Fixpoint os_body (objs : list (N * bytes)) : bytes :=
  match objs with
  | [] => []
  | (_, d) :: r => d ++ 32 :: os_body r
  end.
Definition os_payload (objs : list (N * bytes)) : bytes := os_index objs 0 ++ os_body objs.

(** ObjectStreamWriter::add_object: a new stream every [cap] objects (cap = 100) *)
Fixpoint chunks_f {A} (fuel : nat) (cap : nat) (l : list A) : list (list A) :=
  match fuel, l with
  | _, [] => []
  | O, _ => [l]
  | S f, _ => firstn cap l :: chunks_f f cap (skipn cap l)
  end.
Definition chunks {A} (cap : nat) (l : list A) : list (list A) := chunks_f (length l) cap l.

Fixpoint number_from {A} (n : N) (l : list A) : list (N * A) :=
  match l with [] => [] | x :: r => (n, x) :: number_from (N.succ n) r end.

Record objstm := { os_id : N; os_members : list N; os_first : N; os_data : bytes }.

Definition mk_objstm (c : N * list (N * bytes)) : objstm :=
  {| os_id := fst c; os_members := map fst (snd c);
     os_first := N.of_nat (length (os_index (snd c) 0)); os_data := os_payload (snd c) |}.

(** flush_object_streams: sort by id, pack, stream ids from 1_000_000 *)
Definition pack_sorted (cap : nat) (buffered : list (N * bytes)) : list objstm :=
  map mk_objstm (number_from 1000000 (chunks cap (sort_n buffered))).
(** the same packer without the sort (what removing the sort_by_key would give) *)
Definition pack_unsorted (cap : nat) (buffered : list (N * bytes)) : list objstm :=
  map mk_objstm (number_from 1000000 (chunks cap buffered)).

(** compressed_object_map as the xref stream sees it: object -> (stream, index) *)
Definition members_index (s : objstm) : list (N * (N * N)) :=
  map (fun '(i, m) => (m, (os_id s, i))) (number_from 0 (os_members s)).

(** objects to buffer: serialized with the main serializer *)
Definition objstm_of (cap : nat) (objs : list (N * obj)) : list objstm :=
  pack_sorted cap (map (fun '(n, o) => (n, ser raw_name o)) objs).

(** * 4. Cross-reference lookups: write_xref / write_xref_stream collect xref_positions
    (a HashMap) into a vector, sort it by number, then [find] each number 1..max *)
Definition xref_find (n : N) (entries : list (N * N)) : option N :=
  match find (fun e => fst e =? n) entries with Some e => Some (snd e) | None => None end.
Definition xref_rows (positions : list (N * N)) (maxn : N) : list (option N) :=
  map (fun '(n, _) => xref_find n (sort_n positions)) (number_from 1 (repeat tt (N.to_nat maxn))).

(** * 5. Inline streams made indirect inside a loop over a dictionary
    (write_page_with_fonts /AP loop, externalize_streams_in_dict_with_font_refs,
    externalize_nested_streams_in_dict, preserved /Font and /XObject loops): every stream value
    met allocates the NEXT object id and is written at once, so the iteration order decides which
    stream gets which id and in which order the objects appear in the file. *)
Inductive sval :=
| SObj (o : obj)
| SStream (d : list (bytes * obj)) (data : bytes).

Record ext_out := { ext_dict : list (bytes * obj);            (* the rewritten dictionary, as inserted *)
                    ext_written : list (N * (list (bytes * obj) * bytes));  (* objects written, in file order *)
                    ext_next : N }.

Fixpoint ext_iter (next : N) (l : list (bytes * sval)) : ext_out :=
  match l with
  | [] => {| ext_dict := []; ext_written := []; ext_next := next |}
  | (k, SObj o) :: r =>
      let o' := ext_iter next r in
      {| ext_dict := (k, o) :: ext_dict o'; ext_written := ext_written o'; ext_next := ext_next o' |}
  | (k, SStream d data) :: r =>
      let o' := ext_iter (N.succ next) r in
      {| ext_dict := (k, ORef next 0) :: ext_dict o';
         ext_written := (next, (d, data)) :: ext_written o'; ext_next := ext_next o' |}
  end.

(** pinned tree: in iteration order;  repaired tree: entries sorted by key first *)
Definition externalize_pinned (next : N) (l : list (bytes * sval)) : ext_out := ext_iter next l.
Definition externalize_sorted (next : N) (l : list (bytes * sval)) : ext_out := ext_iter next (sort_kv l).

(** bytes that reach the file from one externalisation: the written stream objects, then the dictionary *)
Definition ser_stream (d : list (bytes * obj)) (data : bytes) : bytes :=
  ser_sorted d ++ [10; 115; 116; 114; 101; 97; 109; 10] ++ data
  ++ [10; 101; 110; 100; 115; 116; 114; 101; 97; 109].
Definition ext_bytes (o : ext_out) : bytes :=
  flat_map (fun '(n, (d, data)) => dec n ++ [32; 48; 32; 111; 98; 106; 10] ++ ser_stream d data
                                   ++ [10; 101; 110; 100; 111; 98; 106; 10]) (ext_written o)
  ++ ser_sorted (ext_dict o).

(** * 6. Iteration-site census (coq/Gen/IterSites.v): classes *)
Inductive site_class := SortedBeforeUse | OrderInsensitive | OrderedContainer | EmitsInIterationOrder | Unresolved.
Definition site_class_eqb (a b : site_class) : bool :=
  match a, b with
  | SortedBeforeUse, SortedBeforeUse | OrderInsensitive, OrderInsensitive
  | OrderedContainer, OrderedContainer | EmitsInIterationOrder, EmitsInIterationOrder
  | Unresolved, Unresolved => true
  | _, _ => false
  end.
Definition bad_sites (l : list (string * site_class)) : list string :=
  map fst (filter (fun s => site_class_eqb (snd s) EmitsInIterationOrder || site_class_eqb (snd s) Unresolved) l).

(** * 7. Correspondence cases *)

(** dict channel: the same logical dictionary in two HashMap instances; entries in each instance's
    actual iteration order; the bytes the real serializers produced for each *)
Record dict_case := { dc_a : obj; dc_b : obj; dc_out_a : bytes; dc_out_b : bytes; dc_buf_a : bytes; dc_buf_b : bytes }.
Definition dict_code (c : dict_case) : N :=
  code_of (bytes_eqb (ser raw_name (dc_a c)) (dc_out_a c)
           && bytes_eqb (ser raw_name (dc_b c)) (dc_out_b c)
           && bytes_eqb (ser raw_name (dc_a c)) (dc_buf_a c)
           && bytes_eqb (ser raw_name (dc_b c)) (dc_buf_b c))
          (bytes_eqb (dc_out_a c) (dc_out_b c) && bytes_eqb (dc_buf_a c) (dc_buf_b c)).

(** objstm channel: buffered objects in two iteration orders, what the real packer produced
    (stream id, member numbers, /First, inflated payload) for each *)
Definition os_tuple := (N * list N * N * bytes)%type.
Definition os_tuple_eqb (a b : os_tuple) : bool :=
  let '(i, m, f, d) := a in let '(i', m', f', d') := b in
  (i =? i') && list_eqb N.eqb m m' && (f =? f') && bytes_eqb d d'.
Definition tuple_of (s : objstm) : os_tuple := (os_id s, os_members s, os_first s, os_data s).
Record os_case := { oc_a : list (N * bytes); oc_b : list (N * bytes); oc_cap : N;
                    oc_out_a : list os_tuple; oc_out_b : list os_tuple }.
Definition os_code (c : os_case) : N :=
  code_of (list_eqb os_tuple_eqb (map tuple_of (pack_sorted (N.to_nat (oc_cap c)) (oc_a c))) (oc_out_a c)
           && list_eqb os_tuple_eqb (map tuple_of (pack_sorted (N.to_nat (oc_cap c)) (oc_b c))) (oc_out_b c))
          (list_eqb os_tuple_eqb (oc_out_a c) (oc_out_b c)).

(** xdict channel: the xref-stream dictionary cut out of a written file, its entries handed over
    in a shuffled order *)
Record xd_case := { xd_entries : list (bytes * obj); xd_emitted : bytes }.
Definition xd_code (c : xd_case) : N :=
  code_of (bytes_eqb (ser_xref_dict (xd_entries c)) (xd_emitted c)) true.

(** file channel: digests of every serialization of one document under one configuration
    (same Document twice, a rebuilt Document, fresh processes); only equality is judged here *)
Record file_case := { fc_digests : list bytes }.
Definition all_same (l : list bytes) : bool :=
  match l with [] => true | x :: r => forallb (bytes_eqb x) r end.
Definition file_code (c : file_case) : N := code_of true (all_same (fc_digests c)).
