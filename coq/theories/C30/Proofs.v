(** C30 — proofs: with #XX escaping every name of bytes reads back at both emission sites; every
    name that is a Rust String (valid UTF-8) reads back as the same String, as resource-dictionary key
    and as Do operand (reader after fix_name_utf8); the validation gate implies the regular-name
    condition (under which the escaper changes nothing). *)
From OxVerif Require Import Base.Util C09.Model C09.Tokens C09.FracSweep C09.Proofs C09.Reals C09.Full C30.Model.
From OxVerif Require C21.Tok C21.Model C21.Lexemes.
Require Import Lia ZifyBool.

Lemma valid_char_regular : forall c, valid_char c = true -> regular_char c = true.
Proof. intros c H. unfold valid_char in H. unfold regular_char, is_nd, is_ws. lia. Qed.

Lemma valid_regular : forall n, valid_resource_name n = true -> regular_name n = true.
Proof.
  intros n H. unfold valid_resource_name in H. destruct n as [|c n]; [discriminate|].
  unfold regular_name. rewrite forallb_forall in *. intros x Hx. apply valid_char_regular. apply H. exact Hx.
Qed.

Lemma valid_content_regular : forall n, valid_resource_name n = true -> content_regular_name n = true.
Proof.
  intros n H. unfold valid_resource_name in H. destruct n as [|c n]; [discriminate|].
  unfold content_regular_name. rewrite forallb_forall in *. intros x Hx. specialize (H x Hx).
  unfold valid_char in H. unfold content_regular_char, regular_char, is_nd, is_ws. lia.
Qed.

(** ** the repaired writer: EVERY name of bytes reads back, as bytes, at both sites *)
Lemma name_roundtrip : forall n rest, bytes_ok n = true -> good_rest rest ->
  lex1 (47 :: esc_iso n ++ rest) = (TName n, rest).
Proof. exact lex_esc_iso_name. Qed.

(** C21's escaper model is the same function *)
Lemma esc_same : forall n, C21.Model.esc_name n = esc_iso n.
Proof. induction n as [|c n IH]; [reflexivity|]. cbn [C21.Model.esc_name esc_iso]. rewrite IH. reflexivity. Qed.

Lemma content_name_roundtrip : forall n rest, bytes_ok n = true -> C21.Lexemes.delim_follows rest ->
  Tok.scan_name (esc_iso n ++ rest) = (esc_iso n, rest) /\ Tok.decode_name (esc_iso n) = Some n.
Proof.
  intros n rest H D. rewrite <- esc_same. split; [apply C21.Lexemes.scan_name_esc | apply C21.Lexemes.decode_name_esc]; assumption.
Qed.

(** ** String level: EVERY name that is a Rust String (valid UTF-8; any chars: white space,
    delimiters, '#', controls, 2-, 3- and 4-byte sequences) *)
Lemma ascii_bytes_ok : forall n, ascii_name n = true -> bytes_ok n = true.
Proof. intros n A. apply utf8_valid_bytes_ok, utf8_valid_ascii, A. Qed.
Lemma bytes_eqb_refl : forall n, bytes_eqb n n = true.
Proof. intro n. apply bytes_eqb_eq. reflexivity. Qed.

Lemma key_back_utf8 : forall n, Tok.utf8_valid n = true -> key_back n = Some n.
Proof.
  intros n U. unfold key_back. rewrite (name_roundtrip n [32] (utf8_valid_bytes_ok n U)) by (cbn; auto).
  rewrite (name_string_utf8 n U). reflexivity.
Qed.
Lemma operand_back_utf8 : forall n, Tok.utf8_valid n = true -> operand_back n = Some n.
Proof.
  intros n U. unfold operand_back.
  destruct (content_name_roundtrip n [32; 68; 111; 10] (utf8_valid_bytes_ok n U) eq_refl) as [S D]. rewrite S, D, U. reflexivity.
Qed.
(** key and operand are the SAME String, and it is the user's *)
Lemma key_is_operand : forall n, Tok.utf8_valid n = true -> key_back n = operand_back n /\ key_back n = Some n.
Proof. intros n U. rewrite (key_back_utf8 n U), (operand_back_utf8 n U). split; reflexivity. Qed.

Lemma image_utf8_reads_back : forall n, Tok.utf8_valid n = true -> predicted EImage n = 0.
Proof.
  intros n U. unfold predicted. rewrite (key_back_utf8 n U), (operand_back_utf8 n U).
  cbn [same]. rewrite bytes_eqb_refl. reflexivity.
Qed.
Lemma form_utf8_never_broken : forall n, Tok.utf8_valid n = true -> predicted EForm n <> 2.
Proof.
  intros n U. unfold predicted. destruct (valid_resource_name n); [|discriminate].
  rewrite (key_back_utf8 n U). cbn [same]. rewrite bytes_eqb_refl. discriminate.
Qed.
(** the former ASCII-only statements are instances *)
Lemma key_back_ascii : forall n, ascii_name n = true -> key_back n = Some n.
Proof. intros n A. apply key_back_utf8, utf8_valid_ascii, A. Qed.
Lemma image_ascii_reads_back : forall n, ascii_name n = true -> predicted EImage n = 0.
Proof. intros n A. apply image_utf8_reads_back, utf8_valid_ascii, A. Qed.
Lemma form_ascii_never_broken : forall n, ascii_name n = true -> predicted EForm n <> 2.
Proof. intros n A. apply form_utf8_never_broken, utf8_valid_ascii, A. Qed.
Example utf8_hyp_nonvacuous :
  Tok.utf8_valid [195; 169; 228; 184; 173; 49] = true /\ ascii_name [195; 169; 228; 184; 173; 49] = false
  /\ predicted EImage [195; 169; 228; 184; 173; 49] = 0 /\ predicted EForm [195; 169; 228; 184; 173; 49] = 0
  /\ predicted EImage [240; 159; 152; 128; 32; 35] = 0 /\ predicted EForm [240; 159; 152; 128; 32; 35] = 1
  /\ Tok.utf8_valid [237; 160; 128] = false /\ Tok.utf8_valid [192; 128] = false /\ Tok.utf8_valid [244; 144; 128; 128] = false.
Proof. vm_compute. repeat split; reflexivity. Qed.

Lemma gated_name_reads_back : forall n rest, valid_resource_name n = true -> bytes_ok n = true -> good_rest rest ->
  lex1 (47 :: esc_iso n ++ rest) = (TName n, rest).
Proof. intros. apply name_roundtrip; assumption. Qed.

(** record about the writer before fix_name_escape: names raw *)
Lemma raw_name_refuted_pinned : exists n, lex1 (47 :: n ++ [32]) <> (TName n, [32])
                                   /\ parse (ser raw_name (ODict [(n, ORef 5 0)])) = None
                                   /\ predicted_pinned EImage n = 2
                                   /\ lex1 (47 :: esc_iso n ++ [32]) = (TName n, [32])
                                   /\ parse (ser esc_iso (ODict [(n, ORef 5 0)])) = Some (PDict [(n, PRef 5 0)])
                                   /\ predicted EImage n = 0.
Proof. exists (b "My Image"). vm_compute. repeat split; try reflexivity. discriminate. Qed.

(** RECORD of the reader before fix_name_utf8 ([key_back_pinned], [predicted_latin1_pinned]: one char
    per byte; former finding C30-name-nonascii): the key of a non-ASCII name came back as a different
    String while the content tokenizer decoded UTF-8, so key and operand no longer matched.  With the
    repaired reader ([key_back], [predicted]) the same name reads back at both sites. *)
Lemma nonascii_refuted_pinned : exists n, bytes_ok n = true /\ Tok.utf8_valid n = true /\ ascii_name n = false
  /\ key_back_pinned n = Some [195; 131; 194; 169] /\ operand_back n = Some n
  /\ predicted_latin1_pinned EImage n = 2 /\ predicted_latin1_pinned EForm n = 2
  /\ key_back n = Some n /\ predicted EImage n = 0 /\ predicted EForm n = 0 /\ n = [195; 169].
Proof. exists [195; 169]. vm_compute. repeat split. Qed.

Example gate_nonvacuous : valid_resource_name (b "Im{1") = false /\ valid_resource_name (b "Fm0+x") = true
                          /\ predicted EImage (b "My Image") = 0 /\ predicted EForm (b "My Image") = 1
                          /\ predicted EImage (b "A#20") = 0 /\ predicted EImage (b "Im{1}") = 0
                          /\ predicted EImage [110; 0; 9; 10; 12; 13; 37; 40; 41; 47; 60; 62; 91; 93; 127] = 0
                          /\ predicted_pinned EImage (b "My Image") = 2.
Proof. vm_compute. repeat split. Qed.

(** the judgement of the pages channel says what it should: code 0 iff on every page every name
    resolves to exactly the resource registered there *)
Lemma pages_code_sound : forall c, pages_code c = 0 <->
  forall pg n e f, In (pg, n, e, f) c -> f = Some e.
Proof.
  intro c. unfold pages_code, code_of. split.
  - intro H. destruct (forallb res_ok c) eqn:E; [|discriminate].
    rewrite forallb_forall in E. intros pg n e f Hin. specialize (E _ Hin). cbn in E.
    destruct f as [f|]; [|discriminate]. apply bytes_eqb_eq in E. subst. reflexivity.
  - intro H. assert (E : forallb res_ok c = true).
    { apply forallb_forall. intros [[[pg n] e] f] Hin. rewrite (H _ _ _ _ Hin). cbn. apply bytes_eqb_eq. reflexivity. }
    rewrite E. reflexivity.
Qed.
Example pages_code_nonvacuous :
  pages_code [(0, [73], [1; 2], Some [1; 2]); (1, [73], [3; 4], Some [1; 2])] = 2
  /\ pages_code [(0, [73], [1; 2], Some [1; 2]); (1, [73], [3; 4], Some [3; 4])] = 0.
Proof. vm_compute. split; reflexivity. Qed.
