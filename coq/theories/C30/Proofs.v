(** C30 — proofs: the validation gate implies the regular-name condition under which a raw
    name reads back; the ungated entry points are refuted by a witness. *)
From OxVerif Require Import Base.Util C09.Model C09.Tokens C09.FracSweep C09.Proofs C30.Model.
Require Import Lia ZifyBool.

Lemma valid_char_regular : forall c, valid_char c = true -> regular_char c = true.
Proof. intros c H. unfold valid_char in H. unfold regular_char, is_nd, is_ws. lia. Qed.

Lemma valid_regular : forall n, valid_resource_name n = true -> regular_name n = true.
Proof.
  intros n H. unfold valid_resource_name in H. destruct n as [|c n]; [discriminate|].
  unfold regular_name. rewrite forallb_forall in *. intros x Hx. apply valid_char_regular. apply H. exact Hx.
Qed.

Lemma valid_content_regular : forall n, valid_resource_name n = true -> content_regular_name n = true.
Proof.
  intros n H. unfold valid_resource_name in H. destruct n as [|c n]; [discriminate|].
  unfold content_regular_name. rewrite forallb_forall in *. intros x Hx. specialize (H x Hx).
  unfold valid_char in H. unfold content_regular_char, regular_char, is_nd, is_ws. lia.
Qed.

Lemma gated_name_reads_back : forall n rest, valid_resource_name n = true -> good_rest rest ->
  lex1 (47 :: n ++ rest) = (TName n, rest).
Proof. intros. apply lex1_name; [apply valid_regular|]; assumption. Qed.

Lemma raw_name_refuted : exists n, lex1 (47 :: n ++ [32]) <> (TName n, [32])
                                   /\ parse (ser raw_name (ODict [(n, ORef 5 0)])) = None.
Proof. exists (b "My Image"). vm_compute. split; [discriminate | reflexivity]. Qed.

Example gate_nonvacuous : valid_resource_name (b "Im{1") = false /\ valid_resource_name (b "Fm0+x") = true
                          /\ predicted EImage (b "My Image") = 2 /\ predicted EForm (b "My Image") = 1.
Proof. vm_compute. repeat split. Qed.

(** the judgement of the pages channel says what it should: code 0 iff on every page every name
    resolves to exactly the resource registered there *)
Lemma pages_code_sound : forall c, pages_code c = 0 <->
  forall pg n e f, In (pg, n, e, f) c -> f = Some e.
Proof.
  intro c. unfold pages_code, code_of. split.
  - intro H. destruct (forallb res_ok c) eqn:E; [|discriminate].
    rewrite forallb_forall in E. intros pg n e f Hin. specialize (E _ Hin). cbn in E.
    destruct f as [f|]; [|discriminate]. apply bytes_eqb_eq in E. subst. reflexivity.
  - intro H. assert (E : forallb res_ok c = true).
    { apply forallb_forall. intros [[[pg n] e] f] Hin. rewrite (H _ _ _ _ Hin). cbn. apply bytes_eqb_eq. reflexivity. }
    rewrite E. reflexivity.
Qed.
Example pages_code_nonvacuous :
  pages_code [(0, [73], [1; 2], Some [1; 2]); (1, [73], [3; 4], Some [1; 2])] = 2
  /\ pages_code [(0, [73], [1; 2], Some [1; 2]); (1, [73], [3; 4], Some [3; 4])] = 0.
Proof. vm_compute. split; reflexivity. Qed.
