(** C30 — what happens to a user-chosen resource name: the name-emission sites write it raw
    after '/', in the resource dictionary ("\n/name value") and in the content stream
    ("/name Do\n"); some entry points first pass it through page.rs validate_pdf_resource_name. *)
From OxVerif Require Import Base.Util C09.Model.

(** page.rs validate_pdf_resource_name: non-empty, no NUL HT LF FF CR SP, no ( ) < > [ ] { } / %, no # *)
Definition valid_char (c : N) : bool :=
  negb ((c =? 0) || (c =? 9) || (c =? 10) || (c =? 12) || (c =? 13) || (c =? 32))
  && negb ((c =? 40) || (c =? 41) || (c =? 60) || (c =? 62) || (c =? 91) || (c =? 93)
           || (c =? 123) || (c =? 125) || (c =? 47) || (c =? 37))
  && negb (c =? 35).
Definition valid_resource_name (n : bytes) : bool :=
  match n with [] => false | _ => forallb valid_char n end.

(** parser/content.rs ContentTokenizer::read_name additionally stops at { and } *)
Definition content_regular_char (c : N) : bool := regular_char c && negb (c =? 123) && negb (c =? 125).
Definition content_regular_name (n : bytes) : bool := forallb content_regular_char n.

Inductive entry := EImage | EForm.    (* add_image+draw_image: no gate; add_form_xobject: gate *)

(** outcome codes of the harness: 0 = reads back with this name, 1 = rejected by the API, 2 = broken *)
Definition predicted (e : entry) (n : bytes) : N :=
  match e with
  | EForm => if valid_resource_name n then 0 else 1
  | EImage => if content_regular_name n then 0 else 2   (* key in the dictionary AND operand of Do *)
  end.

Definition api_case := (entry * bytes * N)%type.
Definition api_code (c : api_case) : N :=
  let '(e, n, outcome) := c in
  code_of (predicted e n =? outcome) (negb (outcome =? 2)).

(** * channel pages: a resource name is scoped to its page.  One entry per (page, name):
    the marker (stream bytes) registered on that page under that name, and the decoded stream
    the name resolves to on that page after writing and re-opening (None: missing/unreadable). *)
Definition page_res := (N * bytes * bytes * option bytes)%type.
Definition res_ok (r : page_res) : bool :=
  let '(_, _, expected, found) := r in
  match found with Some f => bytes_eqb expected f | None => false end.
Definition pages_code (c : list page_res) : N := code_of true (forallb res_ok c).
