(** C30 — what happens to a user-chosen resource name: the name-emission sites write it after '/'
    through escape_pdf_name (#XX escaping, fix_name_escape), in the resource dictionary
    ("\n/name value") and in the content stream ("/name Do\n"); some entry points first pass it
    through page.rs validate_pdf_resource_name. *)
From OxVerif Require Import Base.Util C09.Model.
From OxVerif Require C21.Tok.

(** page.rs validate_pdf_resource_name: non-empty, no NUL HT LF FF CR SP, no ( ) < > [ ] { } / %, no # *)
Definition valid_char (c : N) : bool :=
  negb ((c =? 0) || (c =? 9) || (c =? 10) || (c =? 12) || (c =? 13) || (c =? 32))
  && negb ((c =? 40) || (c =? 41) || (c =? 60) || (c =? 62) || (c =? 91) || (c =? 93)
           || (c =? 123) || (c =? 125) || (c =? 47) || (c =? 37))
  && negb (c =? 35).
Definition valid_resource_name (n : bytes) : bool :=
  match n with [] => false | _ => forallb valid_char n end.

(** parser/content.rs ContentTokenizer::read_name additionally stops at { and } (kept: which raw
    names the writer before fix_name_escape could carry into a content stream) *)
Definition content_regular_char (c : N) : bool := regular_char c && negb (c =? 123) && negb (c =? 125).
Definition content_regular_name (n : bytes) : bool := forallb content_regular_char n.

Inductive entry := EImage | EForm.    (* add_image+draw_image: no gate; add_form_xobject: gate *)

(** A name [n] is the UTF-8 byte string of the Rust String the user passed.  After fix_name_escape
    both emission sites write  '/' ++ esc_iso n  (text/encoding.rs escape_pdf_name, modelled in
    C09.Model; C21.Model.esc_name is the same function, see Proofs.v).

    Resource dictionary: the object lexer ([lex1], C09) reads the key's bytes back; the reader AFTER
    fix_name_utf8 turns them into the String through String::from_utf8 when they are valid UTF-8 and
    keeps the one-char-per-byte (Latin-1) view otherwise ([name_string], C09.Model).  The key is the
    user's String iff the two byte strings are equal. *)
Definition key_back (n : bytes) : option bytes :=
  match lex1 (47 :: esc_iso n ++ [32]) with
  | (TName m, 32 :: nil) => Some (name_string m)
  | _ => None
  end.
(** the reader before fix_name_utf8 (always the Latin-1 view): kept for the record lemma only *)
Definition key_back_pinned (n : bytes) : option bytes :=
  match lex1 (47 :: esc_iso n ++ [32]) with
  | (TName m, 32 :: nil) => Some (l1_utf8 m)
  | _ => None
  end.
(** Content stream: "/name Do\n" read by ContentTokenizer::read_name + decode_name ([Tok.scan_name],
    [Tok.decode_name], [Tok.utf8_valid], C21): the decoded bytes are taken as UTF-8. *)
Definition operand_back (n : bytes) : option bytes :=
  let (raw, rest) := Tok.scan_name (esc_iso n ++ [32; 68; 111; 10]) in
  match rest, Tok.decode_name raw with
  | 32 :: 68 :: 111 :: 10 :: nil, Some m => if Tok.utf8_valid m then Some m else None
  | _, _ => None
  end.
Definition same (a : option bytes) (n : bytes) : bool :=
  match a with Some m => bytes_eqb m n | None => false end.

(** outcome codes of the harness: 0 = reads back with this name (as a String), 1 = rejected by the API, 2 = broken *)
Definition predicted (e : entry) (n : bytes) : N :=
  match e with
  | EForm => if valid_resource_name n then (if same (key_back n) n then 0 else 2) else 1
  | EImage => if same (key_back n) n && same (operand_back n) n then 0 else 2   (* key in the dictionary AND operand of Do *)
  end.
(** the Latin-1 reader (before fix_name_utf8) with the escaping writer: kept for the record lemma *)
Definition predicted_latin1_pinned (e : entry) (n : bytes) : N :=
  match e with
  | EForm => if valid_resource_name n then (if same (key_back_pinned n) n then 0 else 2) else 1
  | EImage => if same (key_back_pinned n) n && same (operand_back n) n then 0 else 2
  end.
(** the writer before fix_name_escape (names raw): kept for the record lemma *)
Definition predicted_pinned (e : entry) (n : bytes) : N :=
  match e with
  | EForm => if valid_resource_name n then 0 else 1
  | EImage => if content_regular_name n then 0 else 2
  end.

Definition api_case := (entry * bytes * N)%type.
Definition api_code (c : api_case) : N :=
  let '(e, n, outcome) := c in
  code_of (predicted e n =? outcome) (negb (outcome =? 2)).

(** * channel pages: a resource name is scoped to its page.  One entry per (page, name):
    the marker (stream bytes) registered on that page under that name, and the decoded stream
    the name resolves to on that page after writing and re-opening (None: missing/unreadable). *)
Definition page_res := (N * bytes * bytes * option bytes)%type.
Definition res_ok (r : page_res) : bool :=
  let '(_, _, expected, found) := r in
  match found with Some f => bytes_eqb expected f | None => false end.
Definition pages_code (c : list page_res) : N := code_of true (forallb res_ok c).
