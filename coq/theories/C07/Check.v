(** C07/C08 — evaluation of one correspondence case: the model (Chain.v) against the
    implementation's outputs (bit 1), the property judged by the SPEC (Codecs.v) on the
    implementation's outputs (bit 2), and a self-check of the harness's reference encodings
    against the Gallina encoders/relations (bit 4: the harness, not the library, is wrong). *)
From OxVerif Require Import Base.Util C07.Filters C07.Predictor C07.Lzw C07.Chain C07.Codecs.
From OxGen Require Import FilterConsts.

(** Flate oracle of one case: input of a Flate stage |-> (ZlibDecoder result, decode_flate fallback result) *)
Definition ftable := list (bytes * (option bytes * bytes)).
Fixpoint flookup (t : ftable) (d : bytes) : option (option bytes * bytes) :=
  match t with
  | [] => None
  | (k, v) :: r => if bytes_eqb k d then Some v else flookup r d
  end.
Definition zlib_of (t : ftable) (d : bytes) : option bytes :=
  match flookup t d with Some (z, _) => z | None => None end.
Definition recover_of (t : ftable) (d : bytes) : bytes :=
  match flookup t d with Some (_, r) => r | None => [] end.

(** compact transport (Coq parses long string literals slowly, so nothing is written twice):
    a stage's encoded form is the running value [cur]; [s_x = None] means the original [x] of the
    case, [s_mid = None] means "no predictor step: equal to the stage's x". *)
Record stage := mkS { s_f : filt; s_mid : option bytes; s_x : option bytes; s_tags : list N }.

(** an implementation result: error, "the same bytes as the reference" or explicit bytes *)
Inductive ores := OErr | ORef | OBytes (b : bytes).
Definition ores_val (r : option bytes) (o : ores) : option bytes :=
  match o with OErr => None | ORef => r | OBytes b => Some b end.

Record kase := mkK {
  k_fk : option (list filt); k_dp : dparms; k_data : bytes; k_tbl : ftable;
  k_ref : option (bytes * list stage);      (* Some (x, witnesses): data claims to be a reference encoding of x *)
  k_out_c : ores;                           (* PdfStream::decode; ORef = Ok(x) *)
  k_lims_c : list (N * ores) }.             (* (limit, PdfStream::decode_with_limit); ORef = the same as k_out *)

Definition k_out (k : kase) : option bytes :=
  ores_val (match k_ref k with Some (x, _) => Some x | None => None end) (k_out_c k).
Definition k_lims (k : kase) : list (N * option bytes) :=
  map (fun lo => (fst lo, ores_val (k_out k) (snd lo))) (k_lims_c k).

Definition obytes_eqb := option_eqb bytes_eqb.

(** ** validity of the reference encoding, judged by the spec *)
Definition zpos_small (o : option Z) (d : Z) : option N :=
  let z := zdef o d in if (0 <? z)%Z && (z <? 65536)%Z then Some (Z.to_N z) else None.

Definition pred_valid (lzw_or_flate : bool) (p : option parms) (tags : list N) (mid x : bytes) : bool :=
  match p with
  | None => bytes_eqb mid x
  | Some ps =>
      match p_predictor ps with
      | None => bytes_eqb mid x
      | Some pr =>
          lzw_or_flate &&
          if (pr =? 1)%Z then bytes_eqb mid x
          else
            match zpos_small (p_columns ps) 1, zpos_small (p_colors ps) 1, zpos_small (p_bpc ps) 8 with
            | Some columns, Some colors, Some bpc =>
                let rb := png_row_bytes columns colors bpc in
                let rows := blen x / rb in
                (blen x =? rows * rb) &&
                ((bpc =? 1) || (bpc =? 2) || (bpc =? 4) || (bpc =? 8) || (bpc =? 16)) &&
                if (10 <=? pr)%Z && (pr <=? 15)%Z then
                  (N.of_nat (length tags) =? rows) && forallb (fun t => t <? 5) tags &&
                  bytes_eqb mid (png_forward tags (png_bpp colors bpc) (N.to_nat rb) x [])
                else if (pr =? 2)%Z then
                  (* TIFF 6.0 §14 for every depth; x must be canonical (zero padding bits) *)
                  let n := N.to_nat (columns * colors) in
                  tiff_canonical_rows_b (N.to_nat rows) bpc n (N.to_nat rb) x &&
                  bytes_eqb mid (tiff_forward (N.to_nat rows) bpc colors n (N.to_nat rb) x)
                else false
            | _, _, _ => false
            end
      end
  end.

Definition spec_early (p : option parms) : option bool :=
  match p with
  | None => Some true
  | Some ps => match p_early ps with
               | None => Some true
               | Some z => if (z =? 0)%Z then Some false else if (z =? 1)%Z then Some true else None
               end
  end.

Definition stage_valid (t : ftable) (p : option parms) (f : filt) (e mid x : bytes) (tags : list N) : bool :=
  match f with
  | FHex => pred_valid false p tags mid x && hex_enc_b (iso_strip e) mid
  | F85 => pred_valid false p tags mid x && a85_valid_b e mid
  | FRl => pred_valid false p tags mid x && rl_valid_b e mid
  | FLzw => pred_valid true p tags mid x &&
            match spec_early p with
            | Some ec => bytes_eqb e (lzw_encode ec mid)
            | None => false
            end
  | FFlate => pred_valid true p tags mid x && obytes_eqb (zlib_of t e) (Some mid)
  | FUnknown => false
  end.

Definition st_x (refx : bytes) (s : stage) : bytes := match s_x s with Some b => b | None => refx end.
Definition st_mid (refx : bytes) (s : stage) : bytes := match s_mid s with Some b => b | None => st_x refx s end.

Fixpoint stages_valid (t : ftable) (dp : dparms) (i : nat) (fs : list filt) (ss : list stage)
         (cur x : bytes) : bool :=
  match fs, ss with
  | [], [] => bytes_eqb cur x
  | f :: fr, s :: sr =>
      (match f, s_f s with
       | FHex, FHex | F85, F85 | FLzw, FLzw | FFlate, FFlate | FRl, FRl => true
       | _, _ => false end) &&
      stage_valid t (get_filter_params dp i) f cur (st_mid x s) (st_x x s) (s_tags s) &&
      stages_valid t dp (S i) fr sr (st_x x s) x
  | _, _ => false
  end.

(** largest buffer of the reference decoding *)
Definition peak (k : kase) : N :=
  match k_ref k with
  | Some (x, ss) => fold_left (fun m s => N.max m (N.max (blen (st_mid x s)) (blen (st_x x s)))) ss (blen x)
  | None => 0
  end.

Definition ref_valid (k : kase) : bool :=
  match k_ref k with
  | None => true
  | Some (x, ss) => stages_valid (k_tbl k) (k_dp k) 0 (match k_fk k with Some fs => fs | None => [] end) ss (k_data k) x
  end.

(** ** model vs implementation *)
Definition m_decode (k : kase) : option bytes :=
  decode_stream (zlib_of (k_tbl k)) (recover_of (k_tbl k)) (k_fk k) (k_dp k) (k_data k).
Definition m_decode_lim (k : kase) (L : N) : option bytes :=
  decode_stream_lim (zlib_of (k_tbl k)) (k_fk k) (k_dp k) (k_data k) L.

Definition model_ok (k : kase) : bool :=
  obytes_eqb (m_decode k) (k_out k) &&
  forallb (fun lo => obytes_eqb (m_decode_lim k (fst lo)) (snd lo)) (k_lims k).

(** ** C07: a reference encoding decodes to the original *)
Definition c07_prop (k : kase) : bool :=
  match k_ref k with
  | None => true
  | Some (x, _) => obytes_eqb (k_out k) (Some x)
  end.
Definition c07_code (k : kase) : N :=
  if ref_valid k then code_of (model_ok k) (c07_prop k) else code_of (model_ok k) true + 4.

(** ** C08: the limit is respected; agreement on well-formed streams; the ceiling *)
Definition has_filter (k : kase) : bool :=
  match k_fk k with Some (_ :: _) => true | _ => false end.
Definition c08_prop (k : kase) : bool :=
  forallb (fun lo =>
    let '(L, o) := lo in
    (match o with Some r => blen r <=? L | None => true end) &&
    (match k_ref k, k_out k with
     | Some _, Some r => if peak k <=? L then obytes_eqb o (Some r) else true
     | _, _ => true
     end)) (k_lims k) &&
  (match k_out k with
   | Some r => negb (has_filter k) || (blen r <=? MAX_DECOMPRESSED_SIZE) || (blen r <=? blen (k_data k))
   | None => true end).
Definition c08_code (k : kase) : N :=
  if ref_valid k then code_of (model_ok k) (c08_prop k) else code_of (model_ok k) true + 4.

(** ** C08, channel "inner": the crate-private `_with_limit` decoders (through the verification hook),
    one filter at a time.  Model equality for all four; the limit property for the three whose in-loop
    checks are the bound (LZW's is not: see ProofsLzw.lzw_inner_check_not_a_bound; its bound is the
    post-filter check of the public entry, covered by channel "bounded"). *)
Definition inner_case := (filt * option Z * bytes * list (N * ores))%type.
Definition inner_model (f : filt) (e : option Z) (d : bytes) (L : N) : option bytes :=
  match f with
  | FHex => decode_hex_lim d L
  | F85 => decode_a85_lim d L
  | FRl => decode_rl_lim d L
  | FLzw => decode_lzw_lim d (early_of e) L
  | _ => None
  end.
Definition inner_code (c : inner_case) : N :=
  let '(f, e, d, lims) := c in
  let big := inner_model f e d 9223372036854775808 in       (* ORef = same bytes as at the largest limit *)
  let rs := map (fun lo => (fst lo, ores_val big (snd lo))) lims in
  code_of (forallb (fun lo => obytes_eqb (inner_model f e d (fst lo)) (snd lo)) rs)
          (forallb (fun lo => match f, snd lo with
                              | FLzw, _ => true
                              | _, Some r => blen r <=? fst lo
                              | _, None => true end) rs).
