(** C07/C08 — the chain drivers: the bounded driver never returns more than the limit;
    composition of per-stage round trips; per-stage agreement of the two drivers. *)
From OxVerif Require Import Base.Util C07.Filters C07.Predictor C07.Lzw C07.Chain C07.Codecs
  C07.ProofsBasic C07.ProofsA85 C07.ProofsPredictor.
From OxGen Require Import FilterConsts.
Require Import Lia ZifyBool.

Section Flate.
  Variable zlib : bytes -> option bytes.
  Variable recover : bytes -> bytes.

  (** * C08: bounded_le_limit for decode_stream_with_limit, any filters, any parameters, any data *)
  Lemma stage_lim_le f p d L o : stage_lim zlib f p d L = Some o -> len o <= L.
  Proof.
    unfold stage_lim. destruct (match f with FFlate => _ | _ => _ end); [|discriminate].
    destruct (if match f with FFlate | FLzw => true | _ => false end then _ else _); [|discriminate].
    destruct (L <? len b0) eqn:E; [discriminate|]. intros H. inversion H. subst. lia.
  Qed.

  Lemma chain_loop_lim_le : forall fs i dp d L r, len d <= L -> chain_loop_lim zlib fs i dp d L = Some r -> len r <= L.
  Proof.
    induction fs as [|f fs IH]; intros i dp d L r Hd H; cbn in H.
    - inversion H. subst. exact Hd.
    - destruct (stage_lim zlib f (get_filter_params dp i) d L) eqn:E; [|discriminate].
      eapply IH; [eapply stage_lim_le; exact E | exact H].
  Qed.

  Theorem bounded_le_limit fk dp d L r : decode_stream_lim zlib fk dp d L = Some r -> len r <= L.
  Proof.
    unfold decode_stream_lim, copy_with_limit. destruct fk as [[|f fs]|].
    - destruct (L <? len d) eqn:E; [discriminate|]. intros H. inversion H. subst. lia.
    - cbn [chain_loop_lim]. destruct (stage_lim zlib f (get_filter_params dp 0) d L) eqn:E; [|discriminate].
      intros H. eapply chain_loop_lim_le; [eapply stage_lim_le; exact E | exact H].
    - destruct (L <? len d) eqn:E; [discriminate|]. intros H. inversion H. subst. lia.
  Qed.

  (** * chain composition: if every stage decodes its input to the next value, the driver returns the last *)
  Inductive decodes_chain (dp : dparms) : nat -> list filt -> bytes -> bytes -> Prop :=
  | dc_nil i d : decodes_chain dp i [] d d
  | dc_cons i f fs d m x :
      apply_filter_with_params zlib recover f (get_filter_params dp i) d = Some m ->
      decodes_chain dp (S i) fs m x -> decodes_chain dp i (f :: fs) d x.

  Theorem chain_roundtrip dp fs d x : decodes_chain dp 0 fs d x -> decode_stream zlib recover (Some fs) dp d = Some x.
  Proof.
    unfold decode_stream. generalize 0%nat. intros i H. induction H; cbn [chain_loop]; [reflexivity|].
    rewrite H. exact IHdecodes_chain.
  Qed.

  (** the same for the bounded driver, with every buffer within the limit *)
  Inductive decodes_chain_lim (dp : dparms) (L : N) : nat -> list filt -> bytes -> bytes -> Prop :=
  | dl_nil i d : decodes_chain_lim dp L i [] d d
  | dl_cons i f fs d m x :
      stage_lim zlib f (get_filter_params dp i) d L = Some m ->
      decodes_chain_lim dp L (S i) fs m x -> decodes_chain_lim dp L i (f :: fs) d x.

  Theorem chain_roundtrip_lim dp L fs d x : fs <> [] -> decodes_chain_lim dp L 0 fs d x ->
    decode_stream_lim zlib (Some fs) dp d L = Some x.
  Proof.
    intros Hne H. unfold decode_stream_lim. destruct fs as [|f fs]; [congruence|].
    revert H. generalize (f :: fs). generalize 0%nat. intros i l H.
    induction H; cbn [chain_loop_lim]; [reflexivity|]. rewrite H. exact IHdecodes_chain_lim.
  Qed.

  (** * stages without a predictor: a reference encoding decodes to the original in both drivers *)
  Definition no_pred (p : option parms) : Prop :=
    match p with Some ps => p_predictor ps = None | None => True end.

  Lemma no_pred_after p r : no_pred p ->
    match p with
    | Some ps => match p_predictor ps with
                 | Some pr => match apply_predictor r (as_u32 pr) ps with Some x => Some x | None => Some r end
                 | None => Some r end
    | None => Some r end = Some r.
  Proof. unfold no_pred. destruct p as [ps|]; [intros ->|]; reflexivity. Qed.

  Theorem stage_hex p e x L : no_pred p -> hex_encodes e x -> len x <= MAX_DECOMPRESSED_SIZE -> len x <= L ->
    apply_filter_with_params zlib recover FHex p e = Some x /\ stage_lim zlib FHex p e L = Some x.
  Proof.
    intros Hp He HM HL. unfold apply_filter_with_params, stage_lim, decode_hex.
    rewrite !(hex_roundtrip_rel e x) by assumption. rewrite no_pred_after by exact Hp.
    replace (L <? len x) with false by lia. split; reflexivity.
  Qed.
  Theorem stage_a85 p e x L : no_pred p -> a85_encodes e x -> len x <= MAX_DECOMPRESSED_SIZE -> len x <= L ->
    apply_filter_with_params zlib recover F85 p e = Some x /\ stage_lim zlib F85 p e L = Some x.
  Proof.
    intros Hp He HM HL. unfold apply_filter_with_params, stage_lim, decode_a85.
    rewrite !(a85_roundtrip_rel e x) by assumption. rewrite no_pred_after by exact Hp.
    replace (L <? len x) with false by lia. split; reflexivity.
  Qed.
  Theorem stage_rl p e x L : no_pred p -> rl_enc e x -> len x <= MAX_DECOMPRESSED_SIZE -> len x <= L ->
    apply_filter_with_params zlib recover FRl p e = Some x /\ stage_lim zlib FRl p e L = Some x.
  Proof.
    intros Hp He HM HL. unfold apply_filter_with_params, stage_lim, decode_rl.
    rewrite !(rl_roundtrip_rel e x) by assumption. rewrite no_pred_after by exact Hp.
    replace (L <? len x) with false by lia. split; reflexivity.
  Qed.

  (** Flate without predictor, given the inflate oracle (dec (enc x) = x enters as [zlib e = Some x]) *)
  Theorem stage_flate p e x L : no_pred p -> zlib e = Some x -> len x <= 67108864 -> len x <= L ->
    apply_filter_with_params zlib recover FFlate p e = Some x /\ stage_lim zlib FFlate p e L = Some x.
  Proof.
    intros Hp He HM HL. unfold apply_filter_with_params, stage_lim, decode_flate, decode_flate_lim, try_standard_zlib.
    rewrite He. assert (MAX_DECOMPRESSED_SIZE = 268435456) by reflexivity.
    replace (MAX_DECOMPRESSED_SIZE <? len x) with false by lia. replace (67108864 <? len x) with false by lia.
    cbn [andb]. replace (L <? len x) with false by lia.
    split.
    - destruct p as [ps|]; [|reflexivity]. unfold no_pred in Hp. rewrite Hp. reflexivity.
    - destruct p as [ps|]; [|replace (L <? len x) with false by lia; reflexivity].
      unfold no_pred in Hp. rewrite Hp. replace (L <? len x) with false by lia. reflexivity.
  Qed.

  (** per-stage agreement for the modelled text filters on ARBITRARY data (no well-formedness needed) *)
  Theorem stage_agrees_text f p d L r : (f = FHex \/ f = F85 \/ f = FRl) -> no_pred p ->
    apply_filter_with_params zlib recover f p d = Some r -> len r <= L -> stage_lim zlib f p d L = Some r.
  Proof.
    intros Hf Hp H HL. unfold apply_filter_with_params, stage_lim in *.
    destruct Hf as [-> | [-> | ->]].
    - unfold decode_hex in H. destruct (decode_hex_lim d MAX_DECOMPRESSED_SIZE) eqn:E; [|discriminate].
      rewrite no_pred_after in H by exact Hp. inversion H. subst. rewrite (hex_ag _ _ _ _ E HL).
      replace (L <? len r) with false by lia. reflexivity.
    - unfold decode_a85 in H. destruct (decode_a85_lim d MAX_DECOMPRESSED_SIZE) eqn:E; [|discriminate].
      rewrite no_pred_after in H by exact Hp. inversion H. subst. rewrite (a85_ag _ _ _ _ E HL).
      replace (L <? len r) with false by lia. reflexivity.
    - unfold decode_rl in H. destruct (decode_rl_lim d MAX_DECOMPRESSED_SIZE) eqn:E; [|discriminate].
      rewrite no_pred_after in H by exact Hp. inversion H. subst. rewrite (rl_ag _ _ _ _ E HL).
      replace (L <? len r) with false by lia. reflexivity.
  Qed.
End Flate.
