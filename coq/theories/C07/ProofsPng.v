(** C07 — apply_predictor with a PNG predictor (10..15) inverts the PNG forward filters for every
    valid Colors / BitsPerComponent / Columns; the TIFF predictor 2 is refuted for the pre-fix definition. *)
From OxVerif Require Import Base.Util C07.Filters C07.Predictor C07.Codecs C07.ProofsBasic C07.ProofsPredictor.
Require Import Lia ZifyBool.

Lemma png_forward_length bpp rb : forall tags x prior, length x = (length tags * rb)%nat ->
  length (png_forward tags bpp rb x prior) = (length tags * S rb)%nat.
Proof.
  induction tags as [|t ts IH]; intros x prior H; cbn [png_forward length]; [reflexivity|].
  unfold png_filter_row. cbn [length app]. rewrite app_length, png_filter_from_length.
  cbn [length] in H. rewrite firstn_length. rewrite IH by (rewrite skipn_length; lia). lia.
Qed.

Lemma as_usize_of_N c : c < 18446744073709551616 -> as_usize (Z.of_N c) = c.
Proof. intros H. unfold as_usize. rewrite Z.mod_small by lia. apply N2Z.id. Qed.

Theorem png_predictor_roundtrip pr columns colors bpc early tags x :
  10 <= pr <= 15 ->
  0 < columns -> 0 < colors -> 0 < bpc -> columns * colors * bpc < 4294967296 ->
  forallb (fun t => t <? 5) tags = true -> bytes_ok x = true ->
  length x = (length tags * N.to_nat (png_row_bytes columns colors bpc))%nat ->
  apply_predictor (png_forward tags (png_bpp colors bpc) (N.to_nat (png_row_bytes columns colors bpc)) x []) pr
                  (mkP (Some (Z.of_N pr)) (Some (Z.of_N columns)) (Some (Z.of_N colors)) (Some (Z.of_N bpc)) early)
  = Some x.
Proof.
  intros Hpr Hco Hcl Hbp Hsz Ht Hx Hl.
  unfold apply_predictor. replace (pr =? 1) with false by lia. replace (pr =? 2) with false by lia.
  replace ((10 <=? pr) && (pr <=? 15)) with true by lia.
  unfold png_advanced. cbn [p_columns p_colors p_bpc zdef].
  assert (colors * bpc < 4294967296 /\ bpc * colors = colors * bpc) as [Hcb Hcomm] by nia.
  rewrite !as_usize_of_N by lia.
  unfold checked_mul, checked_add, USIZE_MAX.
  replace (bpc * colors <=? 18446744073709551615) with true by lia.
  replace (columns * colors <=? 18446744073709551615) with true by nia.
  replace (columns * colors * bpc <=? 18446744073709551615) with true by lia.
  replace (columns * colors * bpc + 7 <=? 18446744073709551615) with true by lia.
  set (rb := png_row_bytes columns colors bpc) in *.
  assert (Erb : (columns * colors * bpc + 7) / 8 = rb) by reflexivity. rewrite Erb.
  assert (rb < 4294967296).
  { subst rb. unfold png_row_bytes. apply N.div_lt_upper_bound; lia. }
  replace (rb + 1 <=? 18446744073709551615) with true by lia.
  assert (Ebpp : div_ceil8 (bpc * colors) = png_bpp colors bpc).
  { unfold div_ceil8, png_bpp. rewrite Hcomm. symmetry. apply N.max_r.
    assert (1 * 8 <= colors * bpc + 7) by nia. apply N.div_le_lower_bound; lia. }
  rewrite Ebpp.
  set (data := png_forward tags (png_bpp colors bpc) (N.to_nat rb) x []).
  assert (Ld : len data = N.of_nat (length tags) * (rb + 1)).
  { unfold len, data. rewrite png_forward_length by exact Hl. lia. }
  rewrite Ld. rewrite N.mod_mul by lia. change (0 =? 0) with true. cbv iota.
  rewrite N.div_mul by lia. rewrite Nat2N.id.
  replace rb with (N.of_nat (N.to_nat rb)) at 1 by lia.
  apply png_rows_roundtrip; try assumption; try reflexivity.
  unfold png_bpp. lia.
Qed.

Example png_predictor_roundtrip_nonvacuous :
  apply_predictor (png_forward [4; 3; 1] (png_bpp 3 8) (N.to_nat (png_row_bytes 2 3 8)) [1;2;3;4;5;6; 9;8;7;6;5;4; 250;0;3;1;255;7] []) 15
    (mkP (Some 15%Z) (Some 2%Z) (Some 3%Z) (Some 8%Z) None) = Some [1;2;3;4;5;6; 9;8;7;6;5;4; 250;0;3;1;255;7].
Proof. vm_compute. reflexivity. Qed.

(** the tree before fix_tiff_predictor2.patch ([apply_predictor_pinned]): /Predictor 2 (TIFF) was returned
    as-is, so horizontally differenced data was not restored.  The positive theorem for the repaired code is
    [tiff_predictor_roundtrip] in ProofsTiff.v. *)
Theorem tiff_predictor_roundtrip_refuted :
  exists x ps, apply_predictor_pinned (tiff_forward8 1 1 4 x) 2 ps = Some (tiff_forward8 1 1 4 x) /\ tiff_forward8 1 1 4 x <> x.
Proof.
  exists [1; 1; 1; 1], (mkP (Some 2%Z) (Some 4%Z) None None None). split; [reflexivity|]. vm_compute. discriminate.
Qed.
