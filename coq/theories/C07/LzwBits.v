(** C07 — LZW, layer (c): MSB-first variable-width bit packing.
    [bits_of (pack_codes cws)] is the concatenation of the codes' bit strings followed by padding, and
    [read_bits w] on [code_bits w c ++ rest] returns [c] and [rest]; hence reading back with the
    encoder's width schedule returns the codes ([unpack_pack]). *)
From OxVerif Require Import Base.Util C07.Filters C07.Lzw C07.Codecs.
Require Import Lia ZifyBool.

Definition cw_bits (cws : list (N * N)) : list bool :=
  flat_map (fun cw => code_bits (N.to_nat (snd cw)) (fst cw)) cws.

Lemma cw_bits_cons c w r : cw_bits ((c, w) :: r) = code_bits (N.to_nat w) c ++ cw_bits r.
Proof. reflexivity. Qed.

Lemma code_bits_length k c : length (code_bits k c) = k.
Proof. induction k; cbn [code_bits length]; congruence. Qed.

(** ** reading one code back *)
Lemma mod_pow2_succ c k : c mod 2 ^ N.succ k = 2 ^ k * N.b2n (N.testbit c k) + c mod 2 ^ k.
Proof.
  rewrite N.pow_succ_r', (N.mul_comm 2), N.mod_mul_r by (try apply N.pow_nonzero; lia).
  rewrite N.testbit_spec'. lia.
Qed.

Lemma take_bits_code_bits : forall k c rest acc,
  take_bits k (code_bits k c ++ rest) acc = Some (acc * 2 ^ N.of_nat k + c mod 2 ^ N.of_nat k, rest).
Proof.
  induction k as [|k IH]; intros c rest acc.
  - cbn [take_bits code_bits app N.of_nat]. rewrite N.pow_0_r, N.mod_1_r. f_equal. f_equal. lia.
  - cbn [take_bits code_bits app]. rewrite IH, Nat2N.inj_succ, mod_pow2_succ, N.pow_succ_r'.
    f_equal. f_equal. destruct (N.testbit c (N.of_nat k)); cbn [N.b2n]; lia.
Qed.

Lemma read_bits_code_bits w c rest : 1 <= w <= 16 -> c < 2 ^ w ->
  read_bits w (code_bits (N.to_nat w) c ++ rest) = Some (c, rest).
Proof.
  intros Hw Hc. unfold read_bits.
  replace ((w =? 0) || (16 <? w)) with false by lia.
  rewrite take_bits_code_bits, N2Nat.id, N.mod_small by exact Hc. reflexivity.
Qed.

(** ** packing into bytes and unpacking *)
Lemma pack_bits_bits : forall fuel bs, (length bs <= 8 * fuel)%nat ->
  exists pad, bits_of (pack_bits fuel bs) = bs ++ pad.
Proof.
  induction fuel as [|f IH]; intros bs Hl.
  - destruct bs; [exists []; reflexivity | cbn [length] in Hl; lia].
  - destruct bs as [|b0 [|b1 [|b2 [|b3 [|b4 [|b5 [|b6 [|b7 r]]]]]]]].
    1: exists []; reflexivity.
    8: { destruct (IH r) as [pad Hp]; [cbn [length] in Hl; lia|]. exists pad.
         cbn [pack_bits skipn bits_of]. rewrite Hp.
         destruct b0, b1, b2, b3, b4, b5, b6, b7; reflexivity. }
    all: cbn [pack_bits skipn]; replace (pack_bits f []) with (@nil N) by (destruct f; reflexivity).
    1: exists (repeat false 7); destruct b0; reflexivity.
    1: exists (repeat false 6); destruct b0, b1; reflexivity.
    1: exists (repeat false 5); destruct b0, b1, b2; reflexivity.
    1: exists (repeat false 4); destruct b0, b1, b2, b3; reflexivity.
    1: exists (repeat false 3); destruct b0, b1, b2, b3, b4; reflexivity.
    1: exists (repeat false 2); destruct b0, b1, b2, b3, b4, b5; reflexivity.
    1: exists (repeat false 1); destruct b0, b1, b2, b3, b4, b5, b6; reflexivity.
Qed.

Lemma pack_codes_bits cws : exists pad, bits_of (pack_codes cws) = cw_bits cws ++ pad.
Proof.
  unfold pack_codes. fold (cw_bits cws). apply pack_bits_bits.
  pose proof (Nat.mul_succ_div_gt (length (cw_bits cws)) 8). lia.
Qed.

(** reading a sequence of codes with a given width schedule *)
Fixpoint unpack_codes (ws : list N) (bs : list bool) : option (list N) :=
  match ws with
  | [] => Some []
  | w :: r => match read_bits w bs with
              | Some (c, bs') => match unpack_codes r bs' with Some l => Some (c :: l) | None => None end
              | None => None
              end
  end.

Definition cw_ok (cw : N * N) : Prop := 1 <= snd cw <= 16 /\ fst cw < 2 ^ snd cw.

Lemma unpack_cw_bits : forall cws rest, Forall cw_ok cws ->
  unpack_codes (map snd cws) (cw_bits cws ++ rest) = Some (map fst cws).
Proof.
  induction cws as [|[c w] r IH]; intros rest H; [reflexivity|].
  inversion H as [|? ? [Hw Hc] Hr]; subst. cbn [fst snd] in *.
  cbn [map fst snd unpack_codes]. rewrite cw_bits_cons, <- app_assoc, read_bits_code_bits by assumption.
  rewrite IH by assumption. reflexivity.
Qed.

Theorem unpack_pack cws : Forall cw_ok cws ->
  unpack_codes (map snd cws) (bits_of (pack_codes cws)) = Some (map fst cws).
Proof. intros H. destruct (pack_codes_bits cws) as [pad ->]. apply unpack_cw_bits, H. Qed.

Example unpack_pack_sanity :
  unpack_codes [9; 9; 10; 12] (bits_of (pack_codes [(256, 9); (65, 9); (1023, 10); (4095, 12)])) = Some [256; 65; 1023; 4095].
Proof. vm_compute. reflexivity. Qed.
