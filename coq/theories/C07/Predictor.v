(** C07 — code-shaped model of apply_predictor / apply_png_predictor_advanced and the four
    PNG row filters of parser/filters.rs.  Integer parameters arrive as PDF integers (i64,
    here Z) and are cast `as usize` (two's complement, 64-bit). *)
From OxVerif Require Import Base.Util C07.Filters.

Definition as_usize (z : Z) : N := Z.to_N (z mod 18446744073709551616).
Definition as_u32 (z : Z) : N := Z.to_N (z mod 4294967296).
Definition USIZE_MAX : N := 18446744073709551615.
Definition checked_mul (a b : N) : option N := let r := a * b in if r <=? USIZE_MAX then Some r else None.
Definition checked_add (a b : N) : option N := let r := a + b in if r <=? USIZE_MAX then Some r else None.
Definition div_ceil8 (a : N) : N := (a + 7) / 8.   (* usize::div_ceil(8): no overflow inside *)

Definition nth0 (l : bytes) (i : N) : N := nth (N.to_nat i) l 0.

(** paeth_predictor: i16 arithmetic on values below 256 cannot overflow *)
Definition paeth (left up up_left : N) : N :=
  let p := (Z.of_N left + Z.of_N up - Z.of_N up_left)%Z in
  let pa := Z.abs (p - Z.of_N left) in
  let pb := Z.abs (p - Z.of_N up) in
  let pc := Z.abs (p - Z.of_N up_left) in
  if (pa <=? pb)%Z && (pa <=? pc)%Z then left
  else if (pb <=? pc)%Z then up else up_left.

Definition wadd (a b : N) : N := (a + b) mod 256.   (* u8::wrapping_add *)

(** the `for (i, &byte) in data.iter().enumerate()` loops; [acc] = result so far, [i] = its length.
    [g i acc byte] is the value pushed. *)
Fixpoint row_loop (g : N -> bytes -> N -> N) (data acc : bytes) (i : N) : bytes :=
  match data with
  | [] => acc
  | byte :: r => row_loop g r (acc ++ [g i acc byte]) (i + 1)
  end.

Definition up_at (prev : option bytes) (i : N) : N :=
  match prev with Some row => nth0 row i | None => 0 end.   (* prev_row.and_then(|r| r.get(i)).unwrap_or(&0) *)

Definition sub_g (bpp : N) (i : N) (acc : bytes) (byte : N) : N :=
  if i <? bpp then byte else wadd byte (nth0 acc (i - bpp)).
Definition up_g (prev : option bytes) (i : N) (acc : bytes) (byte : N) : N :=
  wadd byte (up_at prev i).
Definition avg_g (bpp : N) (prev : option bytes) (i : N) (acc : bytes) (byte : N) : N :=
  let left := if i <? bpp then 0 else nth0 acc (i - bpp) in
  wadd byte (((left + up_at prev i) / 2) mod 256).
Definition paeth_g (bpp : N) (prev : option bytes) (i : N) (acc : bytes) (byte : N) : N :=
  let left := if i <? bpp then 0 else nth0 acc (i - bpp) in
  let up := up_at prev i in
  let up_left := if i <? bpp then 0 else up_at prev (i - bpp) in
  wadd byte (paeth left up up_left).

Definition png_row (tag bpp : N) (prev : option bytes) (row_data : bytes) : option bytes :=
  match tag with
  | 0 => Some row_data
  | 1 => Some (row_loop (sub_g bpp) row_data [] 0)
  | 2 => Some (row_loop (up_g prev) row_data [] 0)
  | 3 => Some (row_loop (avg_g bpp prev) row_data [] 0)
  | 4 => Some (row_loop (paeth_g bpp prev) row_data [] 0)
  | _ => None
  end.

(** `for row in 0..num_rows`; [prev] is None exactly for row 0 *)
Fixpoint png_rows (num_rows : nat) (row_bytes bpp : N) (data : bytes) (prev : option bytes) : option bytes :=
  match num_rows with
  | O => Some []
  | S k =>
      match data with
      | [] => Some []    (* unreachable: |data| = num_rows * row_size *)
      | tag :: rest =>
          match png_row tag bpp prev (firstn (N.to_nat row_bytes) rest) with
          | None => None
          | Some o => napp o (png_rows k row_bytes bpp (skipn (N.to_nat row_bytes) rest) (Some o))
          end
      end
  end.

Record parms := mkP { p_predictor : option Z; p_columns : option Z; p_colors : option Z;
                      p_bpc : option Z; p_early : option Z }.
Definition zdef (o : option Z) (d : Z) : Z := match o with Some z => z | None => d end.

Definition png_advanced (data : bytes) (ps : parms) : option bytes :=
  let columns := as_usize (zdef (p_columns ps) 1) in
  let bpc := as_usize (zdef (p_bpc ps) 8) in
  let colors := as_usize (zdef (p_colors ps) 1) in
  match checked_mul bpc colors with      (* fixed code: checked *)
  | None => None
  | Some bits_pp =>
      let bpp := div_ceil8 bits_pp in
      match checked_mul columns colors with
      | None => None
      | Some samples =>
          match checked_mul samples bpc with
          | None => None
          | Some bits =>
              match checked_add bits 7 with
              | None => None
              | Some b7 =>
                  let row_bytes := b7 / 8 in
                  match checked_add row_bytes 1 with
                  | None => None
                  | Some row_size =>
                      if (len data) mod row_size =? 0 then
                        png_rows (N.to_nat (len data / row_size)) row_bytes bpp data None
                      else None
                  end
              end
          end
      end
  end.

(** ** TIFF predictor 2 (apply_tiff_predictor, unpack_samples, pack_samples).  Samples are u16. *)

(** unpack_samples, 16 bits: row.chunks_exact(2).map(u16::from_be_bytes) *)
Fixpoint pairs_be (row : bytes) : list N :=
  match row with
  | a :: b :: r => (a * 256 + b) :: pairs_be r
  | _ => []
  end.
(** `for k in 1..=per_byte { values.push((byte >> (8 - k * bpc)) & mask) }`, mask = 2^bpc - 1 *)
Fixpoint byte_samples_from (bpc byte k : N) (n : nat) : list N :=
  match n with
  | O => []
  | S n' => ((byte / 2 ^ (8 - k * bpc)) mod 2 ^ bpc) :: byte_samples_from bpc byte (k + 1) n'
  end.
Definition byte_samples (bpc byte : N) : list N := byte_samples_from bpc byte 1 (N.to_nat (8 / bpc)).
Definition unpack_samples (row : bytes) (bpc count : N) : list N :=
  if bpc =? 16 then pairs_be row
  else firstn (N.to_nat count) (flat_map (byte_samples bpc) row).     (* values.truncate(count) *)

(** pack_samples: `for (k, value) in group.iter().enumerate() { byte |= (value as u8) << (8 - (k + 1) * bpc) }` *)
Fixpoint pack_group (bpc : N) (group : list N) (k byte : N) : N :=
  match group with
  | [] => byte
  | v :: r => pack_group bpc r (k + 1) (N.lor byte (((v mod 256) * 2 ^ (8 - (k + 1) * bpc)) mod 256))
  end.
(** slice::chunks(per): groups of [per] elements, the last one possibly shorter *)
Fixpoint slice_chunks (fuel per : nat) (l : list N) : list (list N) :=
  match fuel with
  | O => []
  | S f => match l with
           | [] => []
           | _ => firstn per l :: slice_chunks f per (skipn per l)
           end
  end.
Definition pack_samples (values : list N) (bpc : N) : bytes :=
  if bpc =? 16 then flat_map (fun v => [v / 256; v mod 256]) values       (* u16::to_be_bytes *)
  else map (fun g => pack_group bpc g 0 0) (slice_chunks (length values) (N.to_nat (8 / bpc)) values).

(** `for i in colors..values.len() { values[i] = values[i].wrapping_add(values[i - colors]) & mask }`:
    an in-place left-to-right loop; position i - colors already holds its final value, position i
    still the stored difference, so it is [row_loop] with [acc] = the finished prefix *)
Definition tiff_g (bpc colors : N) (i : N) (acc : list N) (v : N) : N :=
  if i <? colors then v else ((v + nth0 acc (i - colors)) mod 65536) mod 2 ^ bpc.
Definition tiff_row (bpc colors samples : N) (row : bytes) : bytes :=
  pack_samples (row_loop (tiff_g bpc colors) (unpack_samples row bpc samples) [] 0) bpc.
(** `for row in data.chunks_exact(row_bytes)` *)
Fixpoint tiff_rows (num_rows : nat) (row_bytes : nat) (bpc colors samples : N) (data : bytes) : bytes :=
  match num_rows with
  | O => []
  | S k => tiff_row bpc colors samples (firstn row_bytes data)
           ++ tiff_rows k row_bytes bpc colors samples (skipn row_bytes data)
  end.

Definition tiff_bpc_ok (bpc : N) : bool :=
  (bpc =? 1) || (bpc =? 2) || (bpc =? 4) || (bpc =? 8) || (bpc =? 16).

Definition tiff_predictor (data : bytes) (ps : parms) : option bytes :=
  let columns := as_usize (zdef (p_columns ps) 1) in
  let bpc := as_usize (zdef (p_bpc ps) 8) in
  let colors := as_usize (zdef (p_colors ps) 1) in
  if negb (tiff_bpc_ok bpc) then None
  else
    match checked_mul columns colors with
    | None => None
    | Some samples =>
        match checked_mul samples bpc with
        | None => None
        | Some bits =>
            match checked_add bits 7 with
            | None => None
            | Some b7 =>
                let row_bytes := b7 / 8 in
                if row_bytes =? 0 then None
                else if negb ((len data) mod row_bytes =? 0) then None
                else
                  (* no complete row (only possible for empty data here): `chunks_exact` yields nothing.
                     Kept as a separate branch so that evaluation never converts a huge [row_bytes]
                     (e.g. /Colors 2^32+12 with empty data) to a unary [nat]. *)
                  let num_rows := len data / row_bytes in
                  if num_rows =? 0 then Some []
                  else Some (tiff_rows (N.to_nat num_rows) (N.to_nat row_bytes) bpc colors samples data)
            end
        end
    end.

(** apply_predictor(data, predictor as u32, params) *)
Definition apply_predictor (data : bytes) (predictor : N) (ps : parms) : option bytes :=
  if predictor =? 1 then Some data
  else if predictor =? 2 then tiff_predictor data ps
  else if (10 <=? predictor) && (predictor <=? 15) then png_advanced data ps
  else Some data.      (* every other value: returned as-is *)

(** the definition before fix_tiff_predictor2.patch (kept as a record of the pinned behaviour) *)
Definition apply_predictor_pinned (data : bytes) (predictor : N) (ps : parms) : option bytes :=
  if predictor =? 1 then Some data
  else if (10 <=? predictor) && (predictor <=? 15) then png_advanced data ps
  else Some data.      (* every other value, TIFF predictor 2 included: returned as-is *)
