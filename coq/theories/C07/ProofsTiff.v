(** C07 — TIFF predictor 2: the model of apply_tiff_predictor inverts the TIFF 6.0 §14 forward
    differencing of Codecs.v for BitsPerComponent 1, 2, 4, 8 and 16.
    Layers: (a) per-sample  ((x - p) + p) mod 2^bpc = x, lifted over the row like the PNG Sub filter;
            (b) the model's shift/mask/or sample packing against the spec's digit packing
                (per byte: complete sweeps over the 256 byte values for each depth);
            (c) rows and whole images. *)
From OxVerif Require Import Base.Util C07.Filters C07.Predictor C07.Codecs C07.ProofsBasic C07.ProofsPredictor C07.ProofsPng.
Require Import Lia ZifyBool.

(** * (a) samples *)
Lemma unfilter_mod M x q : x < M -> q < M -> ((x + M - q) mod M + q) mod M = x.
Proof.
  intros Hx Hq. destruct (q <=? x) eqn:E.
  - replace (x + M - q) with ((x - q) + 1 * M) by lia. rewrite N.mod_add by lia.
    rewrite (N.mod_small (x - q)) by lia. replace (x - q + q) with x by lia. apply N.mod_small; lia.
  - rewrite (N.mod_small (x + M - q)) by lia. replace (x + M - q + q) with (x + 1 * M) by lia.
    rewrite N.mod_add by lia. apply N.mod_small; lia.
Qed.

Definition samples_ok (M : N) (l : list N) : Prop := Forall (fun v => v < M) l.

Lemma nthN_samples_ok M l i : 0 < M -> samples_ok M l -> nthN l i < M.
Proof.
  unfold nthN. intros HM H. destruct (Nat.lt_ge_cases (N.to_nat i) (length l)) as [Hl|Hl].
  - unfold samples_ok in H. rewrite Forall_forall in H. apply H, nth_In, Hl.
  - rewrite nth_overflow by exact Hl. exact HM.
Qed.

Lemma bpc_cases bpc : tiff_bpc_ok bpc = true -> bpc = 1 \/ bpc = 2 \/ bpc = 4 \/ bpc = 8 \/ bpc = 16.
Proof. unfold tiff_bpc_ok. lia. Qed.

Lemma wrap_mask bpc a : tiff_bpc_ok bpc = true -> (a mod 65536) mod 2 ^ bpc = a mod 2 ^ bpc.
Proof.
  intros H. destruct (bpc_cases bpc H) as [-> | [-> | [-> | [-> | ->]]]].
  - change (2 ^ 1) with 2. change 65536 with (2 * 32768). rewrite N.mod_mul_r by lia.
    rewrite N.mul_comm, N.mod_add by lia. apply N.mod_mod; lia.
  - change (2 ^ 2) with 4. change 65536 with (4 * 16384). rewrite N.mod_mul_r by lia.
    rewrite N.mul_comm, N.mod_add by lia. apply N.mod_mod; lia.
  - change (2 ^ 4) with 16. change 65536 with (16 * 4096). rewrite N.mod_mul_r by lia.
    rewrite N.mul_comm, N.mod_add by lia. apply N.mod_mod; lia.
  - change (2 ^ 8) with 256. change 65536 with (256 * 256). rewrite N.mod_mul_r by lia.
    rewrite N.mul_comm, N.mod_add by lia. apply N.mod_mod; lia.
  - change (2 ^ 16) with 65536. apply N.mod_mod; lia.
Qed.

Lemma split_samples_ok M pre x rest : samples_ok M (pre ++ x :: rest) -> x < M.
Proof. unfold samples_ok. rewrite Forall_forall. intros H. apply H, in_or_app. right. left. reflexivity. Qed.

(** the accumulation loop undoes the differencing *)
Lemma tiff_loop_fwd bpc colors orig : tiff_bpc_ok bpc = true -> 0 < colors -> samples_ok (2 ^ bpc) orig ->
  forall todo pre, orig = pre ++ todo ->
  row_loop (tiff_g bpc colors) (tiff_diff_from (2 ^ bpc) colors orig todo (len pre)) pre (len pre) = orig.
Proof.
  intros Hb Hcol Ho. assert (HM : 0 < 2 ^ bpc) by (apply N.neq_0_lt_0, N.pow_nonzero; lia).
  induction todo as [|x todo IH]; intros pre E; cbn [tiff_diff_from row_loop].
  - rewrite app_nil_r in E. congruence.
  - assert (Hx : x < 2 ^ bpc) by (apply (split_samples_ok _ pre x todo); rewrite <- E; exact Ho).
    assert (G : tiff_g bpc colors (len pre) pre
                  ((x + 2 ^ bpc - (if len pre <? colors then 0 else nthN orig (len pre - colors)) mod 2 ^ bpc) mod 2 ^ bpc) = x).
    { unfold tiff_g. destruct (len pre <? colors) eqn:El.
      - rewrite N.mod_0_l by lia. replace (x + 2 ^ bpc - 0) with (x + 1 * 2 ^ bpc) by lia.
        rewrite N.mod_add by lia. apply N.mod_small, Hx.
      - assert (A : nth0 pre (len pre - colors) = nthN orig (len pre - colors)).
        { rewrite E. apply nth0_prefix. lia. }
        rewrite A. pose proof (nthN_samples_ok _ orig (len pre - colors) HM Ho) as Hq.
        rewrite (N.mod_small (nthN orig (len pre - colors))) by exact Hq.
        rewrite wrap_mask by exact Hb. apply unfilter_mod; assumption. }
    rewrite G. replace (len pre + 1) with (len (pre ++ [x])) by (rewrite len_app; reflexivity).
    apply IH. rewrite <- app_assoc. exact E.
Qed.

Lemma tiff_diff_ok M colors orig : 0 < M -> forall todo i, samples_ok M (tiff_diff_from M colors orig todo i).
Proof.
  intros HM. induction todo as [|x r IH]; intros i; cbn [tiff_diff_from]; constructor.
  - apply N.mod_lt. lia.
  - apply IH.
Qed.
Lemma tiff_diff_length M colors orig : forall todo i, length (tiff_diff_from M colors orig todo i) = length todo.
Proof. induction todo; intros; cbn; [reflexivity | f_equal; auto]. Qed.

(** * (b) sample packing: tiff_digits (spec) against shifts and masks (model) *)
Lemma undigits_snoc B g d : tiff_undigits B (g ++ [d]) = tiff_undigits B g * B + d.
Proof. unfold tiff_undigits. rewrite fold_left_app. reflexivity. Qed.

Lemma digits_length B : forall n v, length (tiff_digits B n v) = n.
Proof. induction n; intros v; cbn [tiff_digits]; [reflexivity|]. rewrite app_length, IHn. cbn. lia. Qed.

Lemma digits_undigits B : 0 < B -> forall g, samples_ok B g -> tiff_digits B (length g) (tiff_undigits B g) = g.
Proof.
  intros HB g. induction g as [|d g IH] using rev_ind; intros Hg; [reflexivity|].
  unfold samples_ok in Hg. apply Forall_app in Hg. destruct Hg as [Hg Hd]. inversion Hd as [|? ? Hd' _]; subst.
  rewrite app_length. cbn [length]. replace (length g + 1)%nat with (S (length g)) by lia.
  cbn [tiff_digits]. rewrite undigits_snoc.
  rewrite N.div_add_l by lia. rewrite (N.div_small d B) by exact Hd'. rewrite N.add_0_r.
  rewrite N.add_comm, N.mod_add by lia. rewrite N.mod_small by exact Hd'. rewrite IH by exact Hg. reflexivity.
Qed.

Lemma undigits_lt B : 0 < B -> forall g, samples_ok B g -> tiff_undigits B g < B ^ N.of_nat (length g).
Proof.
  intros HB g. induction g as [|d g IH] using rev_ind; intros Hg; [cbn; lia|].
  unfold samples_ok in Hg. apply Forall_app in Hg. destruct Hg as [Hg Hd]. inversion Hd as [|? ? Hd' _]; subst.
  rewrite undigits_snoc, app_length. cbn [length]. replace (N.of_nat (length g + 1)) with (N.succ (N.of_nat (length g))) by lia.
  rewrite N.pow_succ_r'. specialize (IH Hg). nia.
Qed.

(** complete sweeps over the byte values, one per depth below 16 *)
Definition nlist_eqb := list_eqb N.eqb.
Lemma nlist_eqb_eq a b : nlist_eqb a b = true -> a = b.
Proof. intros H. apply (proj1 (bytes_eqb_eq a b)). exact H. Qed.

Definition sweep_unpack (bpc : N) : bool :=
  allb (fun i => nlist_eqb (byte_samples bpc i) (tiff_digits (2 ^ bpc) (N.to_nat (8 / bpc)) i)) 256.
Definition sweep_pack (bpc : N) : bool :=
  allb (fun i => pack_group bpc (tiff_digits (2 ^ bpc) (N.to_nat (8 / bpc)) i) 0 0 =? i) 256.
Lemma sweeps_ok : forallb (fun bpc => sweep_unpack bpc && sweep_pack bpc) [1; 2; 4; 8] = true.
Proof. vm_compute. reflexivity. Qed.

Definition sub16 (bpc : N) : Prop := bpc = 1 \/ bpc = 2 \/ bpc = 4 \/ bpc = 8.
Lemma sub16_sweeps bpc : sub16 bpc -> sweep_unpack bpc = true /\ sweep_pack bpc = true.
Proof.
  pose proof sweeps_ok as H. cbn [forallb] in H. rewrite !andb_true_iff in H.
  intros [-> | [-> | [-> | ->]]]; tauto.
Qed.

Lemma byte_samples_digits bpc i : sub16 bpc -> i < 256 ->
  byte_samples bpc i = tiff_digits (2 ^ bpc) (N.to_nat (8 / bpc)) i.
Proof.
  intros Hb Hi. destruct (sub16_sweeps bpc Hb) as [H _]. apply nlist_eqb_eq. exact (allb_spec _ _ H i Hi).
Qed.
Lemma pack_group_digits bpc i : sub16 bpc -> i < 256 ->
  pack_group bpc (tiff_digits (2 ^ bpc) (N.to_nat (8 / bpc)) i) 0 0 = i.
Proof.
  intros Hb Hi. destruct (sub16_sweeps bpc Hb) as [_ H]. apply N.eqb_eq. exact (allb_spec _ _ H i Hi).
Qed.

Lemma pow_per bpc : sub16 bpc -> (2 ^ bpc) ^ N.of_nat (N.to_nat (8 / bpc)) = 256.
Proof. intros [-> | [-> | [-> | ->]]]; reflexivity. Qed.
Lemma per_pos bpc : sub16 bpc -> (0 < N.to_nat (8 / bpc))%nat.
Proof. intros [-> | [-> | [-> | ->]]]; apply Nat.ltb_lt; reflexivity. Qed.
Lemma pow_pos bpc : 0 < 2 ^ bpc. Proof. apply N.neq_0_lt_0, N.pow_nonzero. lia. Qed.

(** a full group of valid samples *)
Lemma full_group_byte bpc g : sub16 bpc -> samples_ok (2 ^ bpc) g -> length g = N.to_nat (8 / bpc) ->
  tiff_undigits (2 ^ bpc) g < 256 /\
  byte_samples bpc (tiff_undigits (2 ^ bpc) g) = g /\ pack_group bpc g 0 0 = tiff_undigits (2 ^ bpc) g.
Proof.
  intros Hb Hg Hl. pose proof (undigits_lt _ (pow_pos bpc) g Hg) as Hlt.
  rewrite Hl, pow_per in Hlt by exact Hb.
  pose proof (digits_undigits _ (pow_pos bpc) g Hg) as Hd. rewrite Hl in Hd.
  split; [exact Hlt|]. split.
  - rewrite byte_samples_digits by assumption. exact Hd.
  - rewrite <- Hd at 1. apply pack_group_digits; assumption.
Qed.

(** zero samples at the end of a group do not change the packed byte *)
Lemma pack_group_zeros bpc m : forall k b, pack_group bpc (repeat 0 m) k b = b.
Proof.
  assert (Z0 : forall x, ((0 mod 256) * x) mod 256 = 0) by (intros x; change (0 mod 256) with 0; rewrite N.mul_0_l; reflexivity).
  induction m as [|m IH]; intros k b; cbn [repeat pack_group]; [reflexivity|].
  rewrite Z0, N.lor_0_r. apply IH.
Qed.
Lemma pack_group_app_zeros bpc m : forall g k b, pack_group bpc (g ++ repeat 0 m) k b = pack_group bpc g k b.
Proof.
  induction g as [|v g IH]; intros k b; cbn [app pack_group]; [apply pack_group_zeros | apply IH].
Qed.

Lemma samples_ok_pad M g m : 0 < M -> samples_ok M g -> samples_ok M (g ++ repeat 0 m).
Proof.
  intros HM Hg. unfold samples_ok. apply Forall_app. split; [exact Hg|].
  apply Forall_forall. intros x Hx. apply repeat_spec in Hx. subst. exact HM.
Qed.

(** any (possibly short) group: the spec byte is what the model packs, and unpacks to the group plus zeros *)
Lemma group_byte bpc g : sub16 bpc -> samples_ok (2 ^ bpc) g -> (length g <= N.to_nat (8 / bpc))%nat ->
  let pad := repeat 0 (N.to_nat (8 / bpc) - length g) in
  tiff_undigits (2 ^ bpc) (g ++ pad) < 256 /\
  byte_samples bpc (tiff_undigits (2 ^ bpc) (g ++ pad)) = g ++ pad /\
  pack_group bpc g 0 0 = tiff_undigits (2 ^ bpc) (g ++ pad).
Proof.
  intros Hb Hg Hl pad.
  assert (Hf : length (g ++ pad) = N.to_nat (8 / bpc)) by (unfold pad; rewrite app_length, repeat_length; lia).
  destruct (full_group_byte bpc (g ++ pad) Hb (samples_ok_pad _ g _ (pow_pos bpc) Hg) Hf) as (A & B & C).
  repeat split; [exact A | exact B |]. rewrite <- C. unfold pad. symmetry. apply pack_group_app_zeros.
Qed.

Lemma samples_ok_firstn M n l : samples_ok M l -> samples_ok M (firstn n l).
Proof.
  unfold samples_ok. rewrite !Forall_forall. intros H x Hx. apply H.
  rewrite <- (firstn_skipn n l). apply in_or_app. left. exact Hx.
Qed.
Lemma samples_ok_skipn M n l : samples_ok M l -> samples_ok M (skipn n l).
Proof.
  unfold samples_ok. rewrite !Forall_forall. intros H x Hx. apply H.
  rewrite <- (firstn_skipn n l). apply in_or_app. right. exact Hx.
Qed.

Lemma chunks_groups : forall fuel per l, slice_chunks fuel per l = tiff_groups fuel per l.
Proof. induction fuel; intros; cbn [slice_chunks tiff_groups]; [reflexivity|]. destruct l; [reflexivity|]. rewrite IHfuel. reflexivity. Qed.

(** the model packs valid samples to the spec bytes (M2) ... *)
Lemma pack_samples_spec bpc s : tiff_bpc_ok bpc = true -> samples_ok (2 ^ bpc) s ->
  pack_samples s bpc = tiff_pack bpc s.
Proof.
  intros Hb Hs. unfold pack_samples, tiff_pack.
  destruct (bpc_cases bpc Hb) as [E | [E | [E | [E | E]]]]; try (subst bpc; reflexivity).
  all: assert (Hs16 : sub16 bpc) by (unfold sub16; lia).
  all: replace (bpc =? 16) with false by lia.
  all: rewrite chunks_groups; set (per := N.to_nat (8 / bpc)).
  all: assert (G : forall fuel l, samples_ok (2 ^ bpc) l ->
         map (fun g => pack_group bpc g 0 0) (tiff_groups fuel per l)
         = map (fun g => tiff_undigits (2 ^ bpc) (g ++ repeat 0 (per - length g))) (tiff_groups fuel per l)).
  all: try (induction fuel as [|f IH]; intros l Hl; cbn [tiff_groups map]; [reflexivity|];
            destruct l as [|a l']; [reflexivity|]; cbn [map]; f_equal;
            [ apply (group_byte bpc (firstn per (a :: l')) Hs16 (samples_ok_firstn _ _ _ Hl)); apply firstn_le_length
            | apply IH, samples_ok_skipn, Hl ]).
  all: apply G, Hs.
Qed.

(** ... and unpacks the spec bytes of valid samples to the samples (U) *)
Lemma flat_unpack_groups bpc : sub16 bpc -> forall fuel l, (length l <= fuel)%nat -> samples_ok (2 ^ bpc) l ->
  exists pad, flat_map (byte_samples bpc)
                (map (fun g => tiff_undigits (2 ^ bpc) (g ++ repeat 0 (N.to_nat (8 / bpc) - length g))) (tiff_groups fuel (N.to_nat (8 / bpc)) l))
              = l ++ pad.
Proof.
  intros Hb. set (per := N.to_nat (8 / bpc)). assert (Hp : (0 < per)%nat) by (apply per_pos, Hb).
  induction fuel as [|f IH]; intros l Hl Hs.
  - destruct l; [exists []; reflexivity | cbn in Hl; lia].
  - cbn [tiff_groups]. destruct l as [|a l']; [exists []; reflexivity|].
    cbn [map flat_map]. set (l := a :: l') in *.
    destruct (group_byte bpc (firstn per l) Hb (samples_ok_firstn _ _ _ Hs) (firstn_le_length _ _)) as (_ & B & _).
    fold per in B. rewrite B.
    destruct (IH (skipn per l)) as [pad Hpad].
    { rewrite skipn_length. subst l. cbn [length] in *. lia. }
    { apply samples_ok_skipn, Hs. }
    destruct (Nat.le_gt_cases per (length l)) as [Hge|Hlt].
    + rewrite firstn_length, Nat.min_l by exact Hge. rewrite Nat.sub_diag. cbn [repeat]. rewrite app_nil_r.
      rewrite Hpad. exists pad. rewrite app_assoc, firstn_skipn. reflexivity.
    + rewrite skipn_all2 by lia. rewrite firstn_all2 by lia.
      replace (tiff_groups f per []) with (@nil (list N)) by (destruct f; reflexivity). cbn [map flat_map].
      rewrite app_nil_r. eexists. reflexivity.
Qed.

Lemma pairs_be_flat s : samples_ok 65536 s -> pairs_be (flat_map (fun v => [v / 256; v mod 256]) s) = s.
Proof.
  induction s as [|v s IH]; intros H; [reflexivity|]. inversion H as [|? ? Hv Hs]; subst.
  cbn [flat_map app pairs_be]. rewrite IH by exact Hs. f_equal.
  pose proof (N.div_mod v 256 ltac:(lia)). lia.
Qed.

Lemma unpack_pack_spec bpc s : tiff_bpc_ok bpc = true -> samples_ok (2 ^ bpc) s ->
  unpack_samples (tiff_pack bpc s) bpc (N.of_nat (length s)) = s.
Proof.
  intros Hb Hs. unfold unpack_samples, tiff_pack.
  destruct (bpc_cases bpc Hb) as [E | [E | [E | [E | E]]]].
  5: { subst bpc. cbn [N.eqb Pos.eqb]. apply pairs_be_flat. exact Hs. }
  all: assert (Hs16 : sub16 bpc) by (unfold sub16; lia).
  all: replace (bpc =? 16) with false by lia.
  all: destruct (flat_unpack_groups bpc Hs16 (length s) s (le_n _) Hs) as [pad Hp].
  all: rewrite Hp, Nat2N.id, firstn_app, Nat.sub_diag, firstn_all; cbn [firstn]; apply app_nil_r.
Qed.

(** * (c) one row *)
Theorem tiff_row_roundtrip bpc colors n row :
  tiff_bpc_ok bpc = true -> 0 < colors -> samples_ok (2 ^ bpc) (tiff_samples bpc n row) ->
  (bpc <> 16 -> length (tiff_samples bpc n row) = n) ->
  tiff_canonical bpc n row ->
  tiff_row bpc colors (N.of_nat n) (tiff_forward_row bpc colors n row) = row.
Proof.
  intros Hb Hcol Hs Hn Hc. unfold tiff_row, tiff_forward_row.
  set (s := tiff_samples bpc n row) in *.
  set (d := tiff_diff_from (2 ^ bpc) colors s s 0).
  assert (Hd : samples_ok (2 ^ bpc) d) by apply tiff_diff_ok, pow_pos.
  assert (Ld : length d = length s) by apply tiff_diff_length.
  assert (U : unpack_samples (tiff_pack bpc d) bpc (N.of_nat n) = d).
  { destruct (N.eq_dec bpc 16) as [E|E].
    - subst bpc. unfold unpack_samples, tiff_pack. cbn [N.eqb Pos.eqb]. apply pairs_be_flat. exact Hd.
    - rewrite <- (Hn E), <- Ld. apply unpack_pack_spec; assumption. }
  rewrite U. unfold d.
  pose proof (tiff_loop_fwd bpc colors s Hb Hcol Hs s [] eq_refl) as L. change (len []) with 0 in L. rewrite L.
  rewrite pack_samples_spec by assumption. exact Hc.
Qed.

(** samples of valid bytes are valid samples *)
Lemma digits_ok B : 0 < B -> forall n v, samples_ok B (tiff_digits B n v).
Proof.
  intros HB. induction n; intros v; cbn [tiff_digits]; [constructor|].
  apply Forall_app. split; [apply IHn|]. constructor; [apply N.mod_lt; lia | constructor].
Qed.
Lemma be16_ok : forall n row, (length row <= n)%nat -> bytes_ok row = true -> samples_ok 65536 (be16_samples row).
Proof.
  induction n as [|n IH]; intros row Hl H.
  - destruct row; [constructor | cbn in Hl; lia].
  - destruct row as [|hi [|lo r]]; cbn [be16_samples]; try constructor.
    + cbn [bytes_ok forallb] in H. unfold byte_ok in H. lia.
    + apply IH; [cbn [length] in Hl; lia|]. cbn [bytes_ok forallb] in H. unfold bytes_ok. lia.
Qed.
Lemma tiff_samples_ok bpc n row : tiff_bpc_ok bpc = true -> bytes_ok row = true ->
  samples_ok (2 ^ bpc) (tiff_samples bpc n row).
Proof.
  intros Hb Hr. unfold tiff_samples. destruct (bpc =? 16) eqn:E.
  - replace bpc with 16 by lia. apply (be16_ok (length row)); [lia | exact Hr].
  - apply samples_ok_firstn. unfold samples_ok. apply Forall_forall. intros x Hx.
    apply in_flat_map in Hx. destruct Hx as (b & _ & Hx).
    pose proof (digits_ok _ (pow_pos bpc) (N.to_nat (8 / bpc)) b) as D. unfold samples_ok in D.
    rewrite Forall_forall in D. apply D, Hx.
Qed.
Lemma flat_map_length_const {A B} (f : A -> list B) k : (forall a, length (f a) = k) ->
  forall l, length (flat_map f l) = (length l * k)%nat.
Proof. intros H. induction l; cbn [flat_map length]; [reflexivity|]. rewrite app_length, H, IHl. lia. Qed.
Lemma tiff_samples_length bpc n row : (n <= length row * N.to_nat (8 / bpc))%nat -> bpc <> 16 ->
  length (tiff_samples bpc n row) = n.
Proof.
  intros H E. unfold tiff_samples. replace (bpc =? 16) with false by lia.
  rewrite firstn_length, (flat_map_length_const _ (N.to_nat (8 / bpc))) by (intros; apply digits_length). lia.
Qed.

(** the length of a packed row depends only on the number of samples *)
Lemma groups_length_dep per : forall fuel (l1 l2 : list N), length l1 = length l2 ->
  length (tiff_groups fuel per l1) = length (tiff_groups fuel per l2).
Proof.
  induction fuel as [|f IH]; intros l1 l2 H; cbn [tiff_groups]; [reflexivity|].
  destruct l1, l2; try discriminate; [reflexivity|]. cbn [length]. f_equal. apply IH.
  rewrite !skipn_length. congruence.
Qed.
Lemma tiff_pack_length_dep bpc l1 l2 : length l1 = length l2 -> length (tiff_pack bpc l1) = length (tiff_pack bpc l2).
Proof.
  intros H. unfold tiff_pack. destruct (bpc =? 16).
  - rewrite !(flat_map_length_const _ 2%nat) by reflexivity. congruence.
  - rewrite !map_length, H. apply groups_length_dep, H.
Qed.
Lemma tiff_forward_row_length bpc colors n row : tiff_canonical bpc n row ->
  length (tiff_forward_row bpc colors n row) = length row.
Proof.
  intros Hc. unfold tiff_forward_row. transitivity (length (tiff_pack bpc (tiff_samples bpc n row))).
  - apply tiff_pack_length_dep, tiff_diff_length.
  - unfold tiff_canonical in Hc. rewrite Hc. reflexivity.
Qed.

(** * whole images *)
Lemma tiff_forward_length bpc colors n rb : forall rows x, length x = (rows * rb)%nat ->
  tiff_canonical_rows rows bpc n rb x -> length (tiff_forward rows bpc colors n rb x) = (rows * rb)%nat.
Proof.
  induction rows as [|k IH]; intros x Hl Hc; [reflexivity|]. cbn [tiff_forward tiff_canonical_rows] in *.
  destruct Hc as [Hc Hcs]. rewrite app_length, tiff_forward_row_length by exact Hc.
  rewrite firstn_length, IH; [lia | rewrite skipn_length; lia | exact Hcs].
Qed.

Theorem tiff_rows_roundtrip bpc colors n rb : tiff_bpc_ok bpc = true -> 0 < colors ->
  (bpc <> 16 -> (n <= rb * N.to_nat (8 / bpc))%nat) ->
  forall rows x, bytes_ok x = true -> length x = (rows * rb)%nat -> tiff_canonical_rows rows bpc n rb x ->
  tiff_rows rows rb bpc colors (N.of_nat n) (tiff_forward rows bpc colors n rb x) = x.
Proof.
  intros Hb Hcol Hn. induction rows as [|k IH]; intros x Hx Hl Hc.
  - destruct x; [reflexivity | discriminate].
  - cbn [tiff_forward tiff_rows tiff_canonical_rows] in *. destruct Hc as [Hc Hcs].
    assert (Lr : length (firstn rb x) = rb) by (rewrite firstn_length; lia).
    assert (Lf : length (tiff_forward_row bpc colors n (firstn rb x)) = rb)
      by (rewrite tiff_forward_row_length by exact Hc; exact Lr).
    rewrite firstn_app, Lf, Nat.sub_diag. cbn [firstn]. rewrite app_nil_r.
    rewrite firstn_all2 by lia.
    rewrite skipn_app, Lf, Nat.sub_diag. cbn [skipn]. rewrite skipn_all2 by lia. cbn [app].
    rewrite tiff_row_roundtrip; try assumption.
    + rewrite IH; [apply firstn_skipn | apply bytes_ok_skipn, Hx | rewrite skipn_length; lia | exact Hcs].
    + apply tiff_samples_ok; [exact Hb | apply bytes_ok_firstn, Hx].
    + intros E. apply tiff_samples_length; [rewrite Lr; apply Hn, E | exact E].
Qed.

(** * apply_predictor 2 *)
Definition tiff_params_ok (columns colors bpc : N) : Prop :=
  0 < columns /\ 0 < colors /\ tiff_bpc_ok bpc = true /\ columns * colors * bpc < 4294967296.

Theorem tiff_predictor_roundtrip columns colors bpc early rows x :
  tiff_params_ok columns colors bpc ->
  let n := N.to_nat (columns * colors) in
  let rb := N.to_nat (png_row_bytes columns colors bpc) in
  bytes_ok x = true -> length x = (rows * rb)%nat -> tiff_canonical_rows rows bpc n rb x ->
  apply_predictor (tiff_forward rows bpc colors n rb x) 2
                  (mkP (Some 2%Z) (Some (Z.of_N columns)) (Some (Z.of_N colors)) (Some (Z.of_N bpc)) early)
  = Some x.
Proof.
  intros (Hco & Hcl & Hb & Hsz) n rb Hx Hl Hc.
  assert (Hbpc : 1 <= bpc <= 16) by (destruct (bpc_cases bpc Hb) as [-> | [-> | [-> | [-> | ->]]]]; lia).
  unfold apply_predictor. change (2 =? 1) with false. change (2 =? 2) with true. cbv iota. unfold tiff_predictor. cbn [p_columns p_colors p_bpc zdef].
  assert (columns * colors < 4294967296) by nia.
  assert (columns < 4294967296 /\ colors < 4294967296) as [? ?] by nia.
  rewrite !as_usize_of_N by lia. rewrite Hb. cbn [negb].
  unfold checked_mul, checked_add, USIZE_MAX.
  replace (columns * colors <=? 18446744073709551615) with true by lia.
  replace (columns * colors * bpc <=? 18446744073709551615) with true by lia.
  replace (columns * colors * bpc + 7 <=? 18446744073709551615) with true by lia.
  set (rbN := png_row_bytes columns colors bpc) in *.
  assert (Erb : (columns * colors * bpc + 7) / 8 = rbN) by reflexivity. rewrite Erb.
  assert (Hrb : 1 <= rbN < 4294967296).
  { subst rbN. unfold png_row_bytes. split.
    - apply N.div_le_lower_bound; [lia | nia].
    - apply N.div_lt_upper_bound; lia. }
  replace (rbN =? 0) with false by lia.
  set (data := tiff_forward rows bpc colors n rb x).
  assert (Ld : len data = N.of_nat rows * rbN).
  { unfold len, data. rewrite tiff_forward_length by assumption. subst rb. lia. }
  rewrite Ld. rewrite N.mod_mul by lia. change (0 =? 0) with true. cbn [negb].
  rewrite N.div_mul by lia. cbv zeta.
  destruct (N.eqb_spec (N.of_nat rows) 0) as [E0 | E0].
  { assert (rows = 0%nat) by lia. subst rows. destruct x as [|x0 xs]; [reflexivity | cbn in Hl; lia]. }
  rewrite Nat2N.id. fold rb.
  replace (columns * colors) with (N.of_nat n) by (subst n; lia).
  f_equal. apply tiff_rows_roundtrip; try assumption.
  intros E. subst n rb. unfold rbN, png_row_bytes.
  destruct (bpc_cases bpc Hb) as [-> | [-> | [-> | [-> | ->]]]]; try congruence.
  - change (N.to_nat (8 / 1)) with 8%nat.
    pose proof (N.div_mod (columns * colors * 1 + 7) 8 ltac:(lia)). pose proof (N.mod_lt (columns * colors * 1 + 7) 8 ltac:(lia)). lia.
  - change (N.to_nat (8 / 2)) with 4%nat.
    pose proof (N.div_mod (columns * colors * 2 + 7) 8 ltac:(lia)). pose proof (N.mod_lt (columns * colors * 2 + 7) 8 ltac:(lia)). lia.
  - change (N.to_nat (8 / 4)) with 2%nat.
    pose proof (N.div_mod (columns * colors * 4 + 7) 8 ltac:(lia)). pose proof (N.mod_lt (columns * colors * 4 + 7) 8 ltac:(lia)). lia.
  - change (N.to_nat (8 / 8)) with 1%nat.
    pose proof (N.div_mod (columns * colors * 8 + 7) 8 ltac:(lia)). pose proof (N.mod_lt (columns * colors * 8 + 7) 8 ltac:(lia)). lia.
Qed.

(** * canonical rows: always for 8 and 16 bits *)
Lemma groups_one : forall fuel l, (length l <= fuel)%nat -> tiff_groups fuel 1 l = map (fun v => [v]) l.
Proof.
  induction fuel as [|f IH]; intros l H.
  - destruct l; [reflexivity | cbn in H; lia].
  - destruct l as [|a l]; [reflexivity|]. cbn [tiff_groups firstn skipn map]. f_equal. apply IH. cbn in H. lia.
Qed.
Lemma canonical8 n row : bytes_ok row = true -> length row = n -> tiff_canonical 8 n row.
Proof.
  intros Hr Hl. unfold tiff_canonical, tiff_samples, tiff_pack. change (8 =? 16) with false. cbv iota.
  change (N.to_nat (8 / 8)) with 1%nat. change (2 ^ 8) with 256.
  assert (F : flat_map (tiff_digits 256 1) row = row).
  { clear Hl. induction row as [|b r IH]; [reflexivity|]. cbn [flat_map].
    change (tiff_digits 256 1 b) with [b mod 256]. cbn [app].
    cbn [bytes_ok forallb] in Hr. apply andb_true_iff in Hr. destruct Hr as [Hb Hr]. unfold byte_ok in Hb.
    rewrite IH by exact Hr. rewrite N.mod_small by lia. reflexivity. }
  rewrite F, <- Hl, firstn_all. rewrite groups_one by lia. rewrite map_map.
  rewrite (map_ext _ (fun v : N => v)); [apply map_id|].
  intros v. change (tiff_undigits 256 ([v] ++ repeat 0 (1 - length [v]))) with (0 * 256 + v). lia.
Qed.
Lemma canonical16 n : forall k row, (length row = 2 * k)%nat -> bytes_ok row = true -> tiff_canonical 16 n row.
Proof.
  unfold tiff_canonical, tiff_samples, tiff_pack. change (16 =? 16) with true. cbv iota.
  induction k as [|k IH]; intros row Hl Hr.
  - destruct row; [reflexivity | cbn in Hl; lia].
  - destruct row as [|hi [|lo r]]; try (cbn in Hl; lia). cbn [be16_samples flat_map app].
    cbn [bytes_ok forallb] in Hr. apply andb_true_iff in Hr. destruct Hr as [Hhi Hr].
    apply andb_true_iff in Hr. destruct Hr as [Hlo Hr]. unfold byte_ok in Hhi, Hlo.
    rewrite IH; [| cbn [length] in Hl; lia | exact Hr].
    f_equal; [|f_equal].
    + rewrite N.mul_comm, N.div_add_l by lia. rewrite N.div_small by lia. lia.
    + rewrite N.mul_comm, N.add_comm, N.mod_add by lia. apply N.mod_small. lia.
Qed.

Lemma canonical_rows_8 n : forall rows x, bytes_ok x = true -> length x = (rows * n)%nat ->
  tiff_canonical_rows rows 8 n n x.
Proof.
  induction rows as [|k IH]; intros x Hx Hl; cbn [tiff_canonical_rows]; [exact I|]. split.
  - apply canonical8; [apply bytes_ok_firstn, Hx | rewrite firstn_length; lia].
  - apply IH; [apply bytes_ok_skipn, Hx | rewrite skipn_length; lia].
Qed.
Lemma canonical_rows_16 n : forall rows x, bytes_ok x = true -> length x = (rows * (2 * n))%nat ->
  tiff_canonical_rows rows 16 n (2 * n) x.
Proof.
  induction rows as [|k IH]; intros x Hx Hl; cbn [tiff_canonical_rows]; [exact I|]. split.
  - apply (canonical16 n n); [rewrite firstn_length; lia | apply bytes_ok_firstn, Hx].
  - apply IH; [apply bytes_ok_skipn, Hx | rewrite skipn_length; lia].
Qed.

(** 8- and 16-bit images: no hypothesis beyond the sizes *)
Ltac Zify.zify_post_hook ::= Z.to_euclidean_division_equations.
Theorem tiff_predictor_roundtrip_8 columns colors early rows x :
  0 < columns -> 0 < colors -> columns * colors * 8 < 4294967296 ->
  bytes_ok x = true -> length x = (rows * N.to_nat (columns * colors))%nat ->
  apply_predictor (tiff_forward rows 8 colors (N.to_nat (columns * colors)) (N.to_nat (columns * colors)) x) 2
                  (mkP (Some 2%Z) (Some (Z.of_N columns)) (Some (Z.of_N colors)) (Some 8%Z) early) = Some x.
Proof.
  intros Hco Hcl Hsz Hx Hl.
  assert (E : png_row_bytes columns colors 8 = columns * colors).
  { unfold png_row_bytes. generalize (columns * colors). intros m. pose proof (N.div_mod (m * 8 + 7) 8 ltac:(lia)).
    pose proof (N.mod_lt (m * 8 + 7) 8 ltac:(lia)). lia. }
  pose proof (tiff_predictor_roundtrip columns colors 8 early rows x) as T. cbv zeta in T. rewrite E in T.
  apply T; [repeat split; assumption | exact Hx | exact Hl | apply canonical_rows_8; assumption].
Qed.
Theorem tiff_predictor_roundtrip_16 columns colors early rows x :
  0 < columns -> 0 < colors -> columns * colors * 16 < 4294967296 ->
  bytes_ok x = true -> length x = (rows * (2 * N.to_nat (columns * colors)))%nat ->
  apply_predictor (tiff_forward rows 16 colors (N.to_nat (columns * colors)) (2 * N.to_nat (columns * colors)) x) 2
                  (mkP (Some 2%Z) (Some (Z.of_N columns)) (Some (Z.of_N colors)) (Some 16%Z) early) = Some x.
Proof.
  intros Hco Hcl Hsz Hx Hl.
  assert (E : N.to_nat (png_row_bytes columns colors 16) = (2 * N.to_nat (columns * colors))%nat).
  { unfold png_row_bytes. generalize (columns * colors). intros m. pose proof (N.div_mod (m * 16 + 7) 8 ltac:(lia)).
    pose proof (N.mod_lt (m * 16 + 7) 8 ltac:(lia)). lia. }
  pose proof (tiff_predictor_roundtrip columns colors 16 early rows x) as T. cbv zeta in T. rewrite E in T.
  apply T; [repeat split; assumption | exact Hx | exact Hl | apply canonical_rows_16; assumption].
Qed.

(** sub-byte depths: rows that end on a byte boundary (Columns * Colors * bpc a multiple of 8) are canonical *)
Definition sweep_canon (bpc : N) : bool :=
  allb (fun i => let d := tiff_digits (2 ^ bpc) (N.to_nat (8 / bpc)) i in
                 tiff_undigits (2 ^ bpc) (d ++ repeat 0 (N.to_nat (8 / bpc) - length d)) =? i) 256.
Lemma sweep_canon_ok : forallb sweep_canon [1; 2; 4; 8] = true.
Proof. vm_compute. reflexivity. Qed.
Lemma byte_canon bpc i : sub16 bpc -> i < 256 ->
  let d := tiff_digits (2 ^ bpc) (N.to_nat (8 / bpc)) i in
  tiff_undigits (2 ^ bpc) (d ++ repeat 0 (N.to_nat (8 / bpc) - length d)) = i.
Proof.
  intros Hb Hi. pose proof sweep_canon_ok as H. cbn [forallb] in H. rewrite !andb_true_iff in H.
  assert (S : sweep_canon bpc = true) by (destruct Hb as [-> | [-> | [-> | ->]]]; tauto).
  apply N.eqb_eq. exact (allb_spec _ _ S i Hi).
Qed.

Lemma groups_flat (D : N -> list N) per : (0 < per)%nat -> (forall b, length (D b) = per) ->
  forall row fuel, (length row <= fuel)%nat -> tiff_groups fuel per (flat_map D row) = map D row.
Proof.
  intros Hp HD. induction row as [|b r IH]; intros fuel Hf.
  - destruct fuel; reflexivity.
  - destruct fuel as [|f]; [cbn in Hf; lia|]. cbn [flat_map tiff_groups map].
    destruct (D b ++ flat_map D r) as [|a l] eqn:E.
    + apply (f_equal (@length N)) in E. rewrite app_length, HD in E. cbn in E. lia.
    + rewrite <- E. rewrite firstn_app, HD, Nat.sub_diag. cbn [firstn]. rewrite app_nil_r.
      rewrite firstn_all2 by (rewrite HD; lia).
      rewrite skipn_app, HD, Nat.sub_diag. cbn [skipn]. rewrite skipn_all2 by (rewrite HD; lia). cbn [app].
      f_equal. apply IH. cbn in Hf. lia.
Qed.

Lemma canonical_full bpc row : sub16 bpc -> bytes_ok row = true ->
  tiff_canonical bpc (length row * N.to_nat (8 / bpc)) row.
Proof.
  intros Hb Hr. assert (E16 : (bpc =? 16) = false) by (destruct Hb as [-> | [-> | [-> | ->]]]; reflexivity).
  unfold tiff_canonical, tiff_samples, tiff_pack. rewrite E16.
  set (per := N.to_nat (8 / bpc)). set (D := tiff_digits (2 ^ bpc) per).
  assert (HD : forall b, length (D b) = per) by (intros; apply digits_length).
  assert (L : length (flat_map D row) = (length row * per)%nat) by (apply flat_map_length_const, HD).
  rewrite <- L, firstn_all. rewrite groups_flat; [| apply per_pos, Hb | exact HD | rewrite L; pose proof (per_pos bpc Hb); fold per in H; nia].
  rewrite map_map. clear L. induction row as [|b r IH]; [reflexivity|]. cbn [map].
  cbn [bytes_ok forallb] in Hr. apply andb_true_iff in Hr. destruct Hr as [Hb8 Hr]. unfold byte_ok in Hb8.
  rewrite IH by exact Hr. f_equal. apply byte_canon; [exact Hb | lia].
Qed.

Lemma canonical_rows_full bpc rb : sub16 bpc -> forall rows x, bytes_ok x = true -> length x = (rows * rb)%nat ->
  tiff_canonical_rows rows bpc (rb * N.to_nat (8 / bpc)) rb x.
Proof.
  intros Hb. induction rows as [|k IH]; intros x Hx Hl; cbn [tiff_canonical_rows]; [exact I|]. split.
  - assert (Lr : length (firstn rb x) = rb) by (rewrite firstn_length; lia).
    rewrite <- Lr at 1. apply canonical_full; [exact Hb | apply bytes_ok_firstn, Hx].
  - apply IH; [apply bytes_ok_skipn, Hx | rewrite skipn_length; lia].
Qed.

(** every depth, rows ending on a byte boundary: no hypothesis beyond the sizes *)
Theorem tiff_predictor_roundtrip_aligned columns colors bpc early rows x :
  tiff_params_ok columns colors bpc -> (columns * colors * bpc) mod 8 = 0 ->
  bytes_ok x = true -> length x = (rows * N.to_nat (png_row_bytes columns colors bpc))%nat ->
  apply_predictor (tiff_forward rows bpc colors (N.to_nat (columns * colors)) (N.to_nat (png_row_bytes columns colors bpc)) x) 2
                  (mkP (Some 2%Z) (Some (Z.of_N columns)) (Some (Z.of_N colors)) (Some (Z.of_N bpc)) early) = Some x.
Proof.
  intros Hp Hal Hx Hl. pose proof Hp as (Hco & Hcl & Hb & Hsz).
  apply (tiff_predictor_roundtrip columns colors bpc early rows x Hp Hx Hl).
  destruct (bpc_cases bpc Hb) as [E | [E | [E | [E | E]]]].
  5: { subst bpc. replace (N.to_nat (png_row_bytes columns colors 16)) with (2 * N.to_nat (columns * colors))%nat in *.
       - apply canonical_rows_16; assumption.
       - unfold png_row_bytes. generalize (columns * colors). intros m. lia. }
  all: assert (Hs : sub16 bpc) by (unfold sub16; lia).
  all: replace (N.to_nat (columns * colors)) with (N.to_nat (png_row_bytes columns colors bpc) * N.to_nat (8 / bpc))%nat;
       [apply canonical_rows_full; assumption|].
  all: subst bpc; unfold png_row_bytes in *; revert Hal; generalize (columns * colors); intros m Hal.
  - change (N.to_nat (8 / 1)) with 8%nat. lia.
  - change (N.to_nat (8 / 2)) with 4%nat. lia.
  - change (N.to_nat (8 / 4)) with 2%nat. lia.
  - change (N.to_nat (8 / 8)) with 1%nat. lia.
Qed.

(** canonical is decidable; the boolean form is what the case judge evaluates *)
Lemma tiff_canonical_rows_b_ok bpc n rb : forall rows x,
  tiff_canonical_rows_b rows bpc n rb x = true -> tiff_canonical_rows rows bpc n rb x.
Proof.
  induction rows as [|k IH]; intros x H; cbn [tiff_canonical_rows tiff_canonical_rows_b] in *; [exact I|].
  apply andb_true_iff in H. destruct H as [H1 H2]. split; [|apply IH, H2].
  unfold tiff_canonical. apply (proj1 (bytes_eqb_eq _ _)). exact H1.
Qed.

(** * non-vacuity, and most-significant-bit-first pinned on values *)
Example tiff_msb_first :
  tiff_samples 2 4 [180] = [2; 3; 1; 0] /\ tiff_samples 4 2 [180] = [11; 4] /\ tiff_samples 1 8 [180] = [1;0;1;1;0;1;0;0] /\
  tiff_samples 16 1 [18; 52] = [4660] /\ tiff_pack 4 [11; 4; 7] = [180; 112] /\ tiff_pack 1 [1; 1; 0] = [192] /\
  unpack_samples [180] 2 4 = [2; 3; 1; 0] /\ pack_samples [11; 4; 7] 4 = [180; 112].
Proof. vm_compute. repeat split. Qed.

(** 4-bit RGB, 3 pixels per row (36 bits: 4 padding bits), 2 rows *)
Example tiff_predictor_roundtrip_nonvacuous_4 :
  let x := [18; 52; 86; 120; 144;  255; 238; 221; 204; 176] in
  tiff_params_ok 3 3 4 /\ tiff_canonical_rows 2 4 9 5 x /\
  tiff_forward 2 4 3 9 5 x <> x /\
  apply_predictor (tiff_forward 2 4 3 9 5 x) 2 (mkP (Some 2%Z) (Some 3%Z) (Some 3%Z) (Some 4%Z) None) = Some x.
Proof. vm_compute. repeat split; try discriminate. Qed.
Example tiff_predictor_roundtrip_nonvacuous_16 :
  let x := [0; 1; 255; 255; 18; 52; 0; 0] in
  tiff_forward 1 16 2 4 8 x <> x /\
  apply_predictor (tiff_forward 1 16 2 4 8 x) 2 (mkP (Some 2%Z) (Some 2%Z) (Some 2%Z) (Some 16%Z) None) = Some x.
Proof. vm_compute. split; [discriminate | reflexivity]. Qed.
(** the old 8-bit forward definition is the 8-bit instance (checked on a value) *)
Example tiff_forward8_instance :
  tiff_forward 2 8 3 6 6 [1;2;3;4;5;6; 250;0;3;1;255;7] = tiff_forward8 2 3 6 [1;2;3;4;5;6; 250;0;3;1;255;7].
Proof. vm_compute. reflexivity. Qed.
