(** C07 — LZW: the general round-trip theorem
      forall ec x, bytes_ok x -> len x <= L -> decode_lzw_lim (lzw_encode ec x) ec L = Some x.

    Structure (DESIGN 5b):
    (c) bit packing is LzwBits.v;
    (a) lock-step of the dictionaries: the encoder's dictionary (ghost list [E] of byte strings, newest
        first, entries 258 .. next-1, related to its (prefix,byte) -> code table by [TI]) is the decoder's
        dictionary plus one newest entry (relation [drelB]); the KwKwK case is the emitted code equal to the
        decoder's next free index;
    (b) width agreement: the decoder's update after adding entry next-1 equals the encoder's
        [widen ec (next+1)] ([dec_widen]);
    (d) table full: the encoder emits Clear when next = 4096, the decoder then has dlen = 4095 < 4096, so
        its "table full, stop growing" branch is never taken on reference encodings ([dec_emit]). *)
From OxVerif Require Import Base.Util C07.Filters C07.Predictor C07.Lzw C07.Chain C07.Codecs C07.Check
  C07.ProofsBasic C07.ProofsChain C07.LzwBits.
From OxGen Require Import FilterConsts.
From Coq Require Import FMapPositive.
Require Import Lia ZifyBool.

(** ** small facts *)
Lemma pow2_ge cs : 9 <= cs -> 512 <= 2 ^ cs.
Proof. intros H. change 512 with (2 ^ 9). apply N.pow_le_mono_r; lia. Qed.

Lemma cs_cases cs : 9 <= cs <= 12 -> cs = 9 \/ cs = 10 \/ cs = 11 \/ cs = 12.
Proof. lia. Qed.

Ltac cs_split H :=
  destruct (cs_cases _ H) as [-> | [-> | [-> | ->]]];
  [change (2 ^ 9) with 512 in * | change (2 ^ 10) with 1024 in * | change (2 ^ 11) with 2048 in * | change (2 ^ 12) with 4096 in *].

Lemma widen_cs ec nx cs : 9 <= cs <= 12 -> 9 <= widen ec nx cs <= 12 /\ cs <= widen ec nx cs.
Proof.
  intros H. unfold widen. destruct (_ <=? nx); cbn [andb]; [|lia].
  destruct (cs <? 12) eqn:E; lia.
Qed.

Lemma widen_nx ec next cs : 9 <= cs <= 12 -> next <= 2 ^ cs -> next < 4096 ->
  next + 1 <= 2 ^ widen ec (next + 1) cs.
Proof.
  intros H Hn Hm. unfold widen.
  assert (H12 : cs = 12 -> 2 ^ cs = 4096) by (intros ->; reflexivity).
  pose proof (pow2_ge cs (proj1 H)) as Hp.
  destruct ec; (match goal with |- context [if ?b then _ else _] => destruct b eqn:Eb end);
    rewrite ?(N.add_1_r cs), ?N.pow_succ_r' by lia;
    revert H12 Hp Hn Eb; generalize (2 ^ cs); intros; lia.
Qed.

(** (b): the decoder's width update after its dictionary reaches [next] entries is the encoder's [widen] *)
Lemma dec_widen (ec : bool) next cs : 9 <= cs <= 12 ->
  (if ((if ec then 2 ^ cs - 1 else 2 ^ cs) <=? next) && (cs <? 12) then cs + 1 else cs) = widen ec (next + 1) cs.
Proof.
  intros H. unfold widen. pose proof (pow2_ge cs (proj1 H)). generalize dependent (2 ^ cs). intros P HP.
  destruct ec; [replace (P - 1 <=? next) with (P <=? next + 1) by lia | replace (P <=? next) with (P + 1 <=? next + 1) by lia];
    reflexivity.
Qed.

Lemma hd0_app a b : a <> [] -> hd0 (a ++ b) = hd0 a.
Proof. destruct a; [congruence | reflexivity]. Qed.

(** ** dictionary lookups *)
Lemma dict_get_shift e E next w : w < next -> dict_get (e :: E) (next + 1) w = dict_get E next w.
Proof.
  intros H. unfold dict_get. destruct (w <? 256); [reflexivity|]. destruct (w <? 258); [reflexivity|].
  replace (N.to_nat (next + 1 - 1 - w)) with (S (N.to_nat (next - 1 - w))) by lia. reflexivity.
Qed.

Lemma dict_get_head e E next : 258 <= next -> dict_get (e :: E) (next + 1) next = e.
Proof.
  intros H. unfold dict_get. replace (next <? 256) with false by lia. replace (next <? 258) with false by lia.
  replace (N.to_nat (next + 1 - 1 - next)) with 0%nat by lia. reflexivity.
Qed.

Lemma dict_get_byte E next k : k < 256 -> dict_get E next k = [k].
Proof. intros H. unfold dict_get. replace (k <? 256) with true by lia. reflexivity. Qed.

(** valid code for a table whose next free index is [next] *)
Definition vc (next w : N) : Prop := w < 256 \/ 258 <= w < next.

Definition nonempty (e : bytes) : Prop := e <> [].

Lemma dict_get_ne E next w : Forall nonempty E -> N.of_nat (length E) + 258 = next -> vc next w ->
  dict_get E next w <> [].
Proof.
  intros HE Hl [H|H]; unfold dict_get.
  - replace (w <? 256) with true by lia. discriminate.
  - replace (w <? 256) with false by lia. replace (w <? 258) with false by lia.
    rewrite Forall_forall in HE. apply HE, nth_In. lia.
Qed.

(** ** the encoder's table against the ghost dictionary *)
Lemma key_inj w k w' k' : k < 256 -> k' < 256 -> key w k = key w' k' -> w = w' /\ k = k'.
Proof.
  unfold key. intros Hk Hk' H.
  assert (E : N.pos (N.succ_pos (w * 256 + k)) = N.pos (N.succ_pos (w' * 256 + k'))) by congruence.
  rewrite !N.succ_pos_spec in E. lia.
Qed.

Definition TI (tbl : PM.t N) (E : list bytes) (next : N) : Prop :=
  forall w k c, k < 256 -> PM.find (key w k) tbl = Some c ->
    w < c /\ 258 <= c < next /\ dict_get E next c = dict_get E next w ++ [k].

Lemma TI_empty : TI (PM.empty N) [] 258.
Proof. intros w k c _ H. rewrite PM.gempty in H. discriminate. Qed.

Lemma TI_add tbl E next w k : TI tbl E next -> 258 <= next -> w < next -> k < 256 ->
  TI (PM.add (key w k) next tbl) ((dict_get E next w ++ [k]) :: E) (next + 1).
Proof.
  intros HT Hn Hw Hk w' k' c Hk' Hf.
  destruct (Pos.eq_dec (key w' k') (key w k)) as [Ek|Ek].
  - destruct (key_inj _ _ _ _ Hk' Hk Ek) as [-> ->]. rewrite PM.gss in Hf. injection Hf as <-.
    rewrite dict_get_head, dict_get_shift by lia. repeat split; lia.
  - rewrite PM.gso in Hf by exact Ek. destruct (HT _ _ _ Hk' Hf) as (H1 & H2 & H3).
    rewrite !dict_get_shift by lia. repeat split; try lia. exact H3.
Qed.

(** ** (a): encoder state against decoder state *)
Inductive drel (w : N) (E : list bytes) (next cs : N) : list bytes -> N -> option N -> Prop :=
| drelA : next = 258 -> cs = 9 -> drel w E next cs [] 258 None
| drelB rd dlen p :
    E = (dict_get rd dlen p ++ [hd0 (dict_get E next w)]) :: rd -> dlen + 1 = next ->
    dict_get rd dlen p <> [] -> drel w E next cs rd dlen (Some p).

Record Inv (w : N) (tbl : PM.t N) (next cs : N) (E rd : list bytes) (dlen : N) (prev : option N) : Prop := mkInv {
  i_tbl : TI tbl E next;
  i_len : N.of_nat (length E) + 258 = next;
  i_ne : Forall nonempty E;
  i_w : vc next w;
  i_cs : 9 <= cs <= 12;
  i_nx : next <= 2 ^ cs;
  i_max : next <= 4096;
  i_rel : drel w E next cs rd dlen prev }.

Lemma Inv_fresh k : k < 256 -> Inv k (PM.empty N) 258 9 [] [] 258 None.
Proof.
  intros H. split; try (cbn; lia).
  - exact TI_empty.
  - constructor.
  - left. exact H.
  - constructor; reflexivity.
Qed.

(** the encoder extends its match: nothing is emitted, the decoder state is unchanged *)
Lemma Inv_extend w tbl next cs E rd dlen prev k c :
  Inv w tbl next cs E rd dlen prev -> k < 256 -> PM.find (key w k) tbl = Some c ->
  Inv c tbl next cs E rd dlen prev /\ dict_get E next c = dict_get E next w ++ [k].
Proof.
  intros [Ht Hl Hne Hw Hcs Hnx Hmax Hr] Hk Hf. destruct (Ht _ _ _ Hk Hf) as (H1 & H2 & H3).
  pose proof (dict_get_ne _ _ _ Hne Hl Hw) as Hwne.
  split; [|exact H3]. split; try assumption.
  - right. exact H2.
  - inversion Hr as [Ha Hb | rd' dl' p HE Hd Hp]; subst.
    + constructor; lia.
    + constructor; try assumption. rewrite H3, hd0_app; [exact HE | exact Hwne].
Qed.

(** the encoder emits [w] and creates entry [next] *)
Lemma Inv_emit ec w tbl next cs E rd dlen prev k :
  Inv w tbl next cs E rd dlen prev -> k < 256 -> next <> 4096 ->
  Inv k (PM.add (key w k) next tbl) (next + 1) (widen ec (next + 1) cs)
      ((dict_get E next w ++ [k]) :: E) E next (Some w).
Proof.
  intros [Ht Hl Hne Hw Hcs Hnx Hmax Hr] Hk H4.
  assert (Hwn : w < next) by (unfold vc in Hw; lia).
  split.
  - apply TI_add; try assumption; lia.
  - cbn [length]. lia.
  - constructor; [|exact Hne]. intros H. apply app_eq_nil in H. destruct H; discriminate.
  - left. exact Hk.
  - apply widen_cs, Hcs.
  - apply widen_nx; [assumption | assumption | lia].
  - lia.
  - constructor.
    + rewrite (dict_get_byte _ _ k Hk). reflexivity.
    + reflexivity.
    + apply dict_get_ne; assumption.
Qed.

(** ** decoder steps on the bit string of one code *)
Lemma dec_eod f ec cs bs rd dlen prev n L : 9 <= cs <= 12 ->
  lzw_loop (S f) ec (code_bits (N.to_nat cs) 257 ++ bs) rd dlen cs prev n L = Some [].
Proof.
  intros H. pose proof (pow2_ge cs (proj1 H)).
  cbn [lzw_loop]. rewrite read_bits_code_bits by lia. reflexivity.
Qed.

Lemma dec_clear f ec cs bs rd dlen prev n L : 9 <= cs <= 12 ->
  lzw_loop (S f) ec (code_bits (N.to_nat cs) 256 ++ bs) rd dlen cs prev n L = lzw_loop f ec bs [] 258 9 None n L.
Proof.
  intros H. pose proof (pow2_ge cs (proj1 H)).
  cbn [lzw_loop]. rewrite read_bits_code_bits by lia. reflexivity.
Qed.

(** the decoder reads the code the encoder emitted: it outputs the code's string in the ENCODER's
    dictionary, and its new dictionary is the encoder's dictionary before the emission *)
Lemma dec_emit ec w tbl next cs E rd dlen prev f bs n L :
  Inv w tbl next cs E rd dlen prev -> n + len (dict_get E next w) <= L ->
  lzw_loop (S f) ec (code_bits (N.to_nat cs) w ++ bs) rd dlen cs prev n L =
  napp (dict_get E next w)
       (lzw_loop f ec bs E next (widen ec (next + 1) cs) (Some w) (n + len (dict_get E next w)) L).
Proof.
  intros [Ht Hl Hne Hw Hcs Hnx Hmax Hr] HL.
  pose proof (pow2_ge cs (proj1 Hcs)) as Hp.
  assert (Hwb : w < 2 ^ cs /\ w < 4096 /\ w <> 256 /\ w <> 257 /\ w < next) by (unfold vc in Hw; lia).
  cbn [lzw_loop]. rewrite read_bits_code_bits by lia. rewrite N.mod_small by lia.
  unfold EOD_CODE, CLEAR_CODE, LZW_TABLE_MAX, MAX_BITS.
  replace (w =? 257) with false by lia. replace (w =? 256) with false by lia.
  revert Hl. inversion Hr as [Ha Hb | rd' dl' p HE Hd Hpne]; subst; intros Hl.
  - destruct E; [|cbn [length] in Hl; lia].
    replace (w <? 258) with true by lia.
    replace (widen ec (258 + 1) 9) with 9 by (destruct ec; reflexivity). reflexivity.
  - assert (H258 : 258 <= dlen) by (rewrite HE in Hl; cbn [length] in Hl; lia).
    assert (Hs : (if w <? dlen then Some (dict_get rd dlen w)
                  else if w =? dlen then Some (dict_get rd dlen p ++ [hd0 (dict_get rd dlen p)]) else None)
                 = Some (dict_get E (dlen + 1) w)).
    { destruct (w <? dlen) eqn:E1.
      - rewrite HE, dict_get_shift by lia. reflexivity.
      - replace (w =? dlen) with true by lia. assert (w = dlen) as -> by lia.
        f_equal. set (X := dict_get E (dlen + 1) dlen) in *.
        assert (HX : X = dict_get rd dlen p ++ [hd0 X]).
        { unfold X at 1. rewrite HE. apply dict_get_head. exact H258. }
        assert (Hh : hd0 X = hd0 (dict_get rd dlen p)) by (rewrite HX; apply hd0_app, Hpne).
        rewrite HX, Hh. reflexivity. }
    cbv zeta. rewrite Hs.
    replace (L <? n + len (dict_get E (dlen + 1) w)) with false by lia.
    replace (dlen <? 4096) with true by lia.
    rewrite <- HE, dec_widen by exact Hcs. reflexivity.
Qed.

(** ** the encoder's code list, decoded *)
Lemma bytes_ok_cons k r : bytes_ok (k :: r) = true -> k < 256 /\ bytes_ok r = true.
Proof. unfold bytes_ok, byte_ok. cbn [forallb]. intros H. apply andb_true_iff in H. destruct H. split; [lia | assumption]. Qed.

Lemma lzw_codes_decode ec : forall x w tbl next cs E rd dlen prev fuel rest n L,
  bytes_ok x = true -> Inv w tbl next cs E rd dlen prev ->
  (length (lzw_codes ec x w tbl next cs) <= fuel)%nat ->
  n + len (dict_get E next w) + len x <= L ->
  lzw_loop fuel ec (cw_bits (lzw_codes ec x w tbl next cs) ++ rest) rd dlen cs prev n L
  = Some (dict_get E next w ++ x).
Proof.
  induction x as [|k r IH]; intros w tbl next cs E rd dlen prev fuel rest n L Hok HI Hf HL.
  - cbn [lzw_codes] in *. destruct fuel as [|[|f]]; cbn [length] in Hf; try lia.
    rewrite !cw_bits_cons, <- !app_assoc.
    erewrite dec_emit by (try eassumption; rewrite len_nil in HL; lia).
    rewrite dec_eod by (apply widen_cs, (i_cs _ _ _ _ _ _ _ _ HI)).
    cbn [napp omap]. reflexivity.
  - apply bytes_ok_cons in Hok. destruct Hok as [Hk Hok]. rewrite len_cons in HL.
    cbn [lzw_codes] in *. destruct (PM.find (key w k) tbl) as [c|] eqn:Ef.
    + destruct (Inv_extend _ _ _ _ _ _ _ _ _ _ HI Hk Ef) as [HI' Hc].
      rewrite (IH _ _ _ _ _ _ _ _ _ _ _ _ Hok HI' Hf) by (rewrite Hc, len_app; change (len [k]) with 1; lia).
      rewrite Hc, <- app_assoc. reflexivity.
    + destruct (next =? 4096) eqn:E4.
      * destruct fuel as [|[|f]]; cbn [length] in Hf; try lia.
        rewrite !cw_bits_cons, <- !app_assoc.
        erewrite dec_emit by (try eassumption; lia).
        assert (cs = 12) as ->.
        { pose proof (i_cs _ _ _ _ _ _ _ _ HI) as Hcs. pose proof (i_nx _ _ _ _ _ _ _ _ HI) as Hnx.
          assert (next = 4096) as -> by lia. cs_split Hcs; lia. }
        replace (widen ec (next + 1) 12) with 12 by (unfold widen; rewrite andb_false_r; reflexivity).
        rewrite dec_clear by lia.
        rewrite (IH _ _ _ _ _ _ _ _ _ _ _ _ Hok (Inv_fresh k Hk));
          [ | lia | rewrite (dict_get_byte _ _ k Hk); change (len [k]) with 1; lia ].
        rewrite (dict_get_byte _ _ k Hk). reflexivity.
      * destruct fuel as [|f]; cbn [length] in Hf; try lia.
        rewrite !cw_bits_cons, <- !app_assoc.
        erewrite dec_emit by (try eassumption; lia).
        assert (HI' := Inv_emit ec _ _ _ _ _ _ _ _ k HI Hk ltac:(lia)).
        rewrite (IH _ _ _ _ _ _ _ _ _ _ _ _ Hok HI');
          [ | lia | rewrite (dict_get_byte _ _ k Hk); change (len [k]) with 1; lia ].
        rewrite (dict_get_byte _ _ k Hk). reflexivity.
Qed.

(** every code takes at least 9 bits: the decoder's fuel [S (bits / 9)] is enough *)
Lemma lzw_codes_bits_len ec : forall x w tbl next cs, 9 <= cs <= 12 ->
  (9 * length (lzw_codes ec x w tbl next cs) <= length (cw_bits (lzw_codes ec x w tbl next cs)))%nat.
Proof.
  induction x as [|k r IH]; intros w tbl next cs Hcs; cbn [lzw_codes].
  - pose proof (widen_cs ec (next + 1) cs Hcs).
    rewrite !cw_bits_cons, !app_length, !code_bits_length. cbn [length cw_bits flat_map]. lia.
  - destruct (PM.find (key w k) tbl); [apply IH, Hcs|].
    destruct (next =? 4096).
    + specialize (IH k (PM.empty N) 258 9 ltac:(lia)).
      rewrite !cw_bits_cons, !app_length, !code_bits_length. cbn [length]. lia.
    + pose proof (widen_cs ec (next + 1) cs Hcs) as [Hw _].
      specialize (IH k (PM.add (key w k) next tbl) (next + 1) _ Hw).
      rewrite !cw_bits_cons, !app_length, !code_bits_length. cbn [length]. lia.
Qed.

(** ** the theorem *)
Theorem lzw_roundtrip_lim ec x L : bytes_ok x = true -> len x <= L ->
  decode_lzw_lim (lzw_encode ec x) ec L = Some x.
Proof.
  intros Hok HL. unfold decode_lzw_lim, lzw_encode.
  destruct (pack_codes_bits (lzw_code_list ec x)) as [pad Hp]. rewrite Hp. clear Hp.
  change MIN_BITS with 9.
  assert (HF : (length (lzw_code_list ec x) <= length (cw_bits (lzw_code_list ec x) ++ pad) / 9)%nat).
  { apply Nat.div_le_lower_bound; [lia|]. rewrite app_length. unfold lzw_code_list.
    rewrite cw_bits_cons, app_length, code_bits_length. cbn [length].
    destruct x as [|k r].
    - change (length (cw_bits [(257, 9)])) with 9%nat. cbn [length]. lia.
    - pose proof (lzw_codes_bits_len ec r k (PM.empty N) 258 9 ltac:(lia)). lia. }
  revert HF. generalize (length (cw_bits (lzw_code_list ec x) ++ pad) / 9)%nat. intros F HF.
  unfold lzw_code_list in *. rewrite cw_bits_cons, <- app_assoc, dec_clear by lia.
  cbn [length] in HF. destruct x as [|k r].
  - destruct F as [|F]; [cbn [length] in HF; lia|].
    rewrite cw_bits_cons, <- app_assoc, dec_eod by lia. reflexivity.
  - apply bytes_ok_cons in Hok. destruct Hok as [Hk Hok]. rewrite len_cons in HL.
    rewrite (lzw_codes_decode ec r k _ _ _ [] [] 258 None F pad 0 L Hok (Inv_fresh k Hk))
      by (try rewrite (dict_get_byte _ _ k Hk); try change (len [k]) with 1; lia).
    rewrite (dict_get_byte _ _ k Hk). reflexivity.
Qed.

Theorem lzw_roundtrip ec x : bytes_ok x = true -> len x <= MAX_DECOMPRESSED_SIZE ->
  decode_lzw (lzw_encode ec x) ec = Some x.
Proof. apply lzw_roundtrip_lim. Qed.

(** hypotheses are satisfiable on a non-trivial value (KwKwK input, both EarlyChange values) *)
Example lzw_roundtrip_nonvacuous :
  bytes_ok [97; 97; 97; 97; 97; 98; 97; 98; 97] = true /\
  lzw_encode true [97; 97; 97; 97; 97; 98; 97; 98; 97] <> [] /\
  decode_lzw (lzw_encode false [97; 97; 97; 97; 97; 98; 97; 98; 97]) false = Some [97; 97; 97; 97; 97; 98; 97; 98; 97].
Proof. repeat split; vm_compute; congruence. Qed.

(** ** the LZW stage of both chain drivers (no predictor), EarlyChange as the spec reads it (0 / 1 / absent) *)
Lemma spec_early_param p ec : spec_early p = Some ec -> early_param p = ec.
Proof.
  unfold spec_early, early_param, early_of. destruct p as [ps|]; [|congruence].
  destruct (p_early ps) as [z|]; [|congruence].
  destruct (z =? 0)%Z; [cbn; congruence|]. destruct (z =? 1)%Z; cbn; congruence.
Qed.

Theorem stage_lzw zlib recover p ec x L : no_pred p -> spec_early p = Some ec -> bytes_ok x = true ->
  len x <= MAX_DECOMPRESSED_SIZE -> len x <= L ->
  apply_filter_with_params zlib recover FLzw p (lzw_encode ec x) = Some x /\
  stage_lim zlib FLzw p (lzw_encode ec x) L = Some x.
Proof.
  intros Hp He Hok HM HL. apply spec_early_param in He.
  unfold apply_filter_with_params, stage_lim, decode_lzw. rewrite He.
  rewrite !lzw_roundtrip_lim by assumption. rewrite no_pred_after by exact Hp.
  split; [reflexivity|].
  destruct p as [ps|]; [unfold no_pred in Hp; rewrite Hp|]; replace (L <? len x) with false by lia; reflexivity.
Qed.
