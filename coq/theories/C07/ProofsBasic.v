(** C07/C08 — proofs for ASCIIHex and RunLength: round trips against the ISO relations,
    limit lemmas (LE: result within the limit; AG: any limit that fits the result gives the same result). *)
From OxVerif Require Import Base.Util C07.Filters C07.Codecs.
From OxGen Require Import FilterConsts.
Require Import Lia ZifyBool.

Lemma len_nil : len [] = 0. Proof. reflexivity. Qed.
Lemma len_cons b l : len (b :: l) = len l + 1. Proof. unfold len. cbn [length]. lia. Qed.
Lemma len_app a b : len (a ++ b) = len a + len b. Proof. unfold len. rewrite app_length. lia. Qed.
Lemma blen_len l : blen l = len l. Proof. reflexivity. Qed.

Lemma list_ind2 {A} (P : list A -> Prop) :
  P [] -> (forall a, P [a]) -> (forall a b l, P l -> P (a :: b :: l)) -> forall l, P l.
Proof.
  intros H0 H1 H2. fix IH 1. intros [|a [|b l]]; [exact H0 | apply H1 | apply H2, IH].
Qed.

(** the model's white space (fixed code) is ISO Table 1's *)
Lemma is_ws_iso b : is_ws b = iso_ws b.
Proof. unfold is_ws, iso_ws. destruct (b =? 0), (b =? 9), (b =? 10), (b =? 12), (b =? 13), (b =? 32); reflexivity. Qed.
Lemma strip_iso d : strip d = iso_strip d.
Proof. unfold strip, iso_strip, nonws. induction d as [|b d IH]; cbn; [reflexivity|]. rewrite is_ws_iso, IH. reflexivity. Qed.

(** * ASCIIHex *)
Lemma hexv_model c : hex_digit_value c = hexv c. Proof. reflexivity. Qed.
Lemma hexv_lt16 c v : hexv c = Some v -> v < 16 /\ c <> 62.
Proof. unfold hexv. intros H. repeat match type of H with context [if ?b then _ else _] => destruct b eqn:? end; inversion H; lia. Qed.

Lemma hex_loop_enc s x : hex_enc s x -> forall n L, n + len x <= L -> hex_loop s n L = Some x.
Proof.
  induction 1 as [| |b h l s x Hb Hh Hl Hs IH|b h Hb Hm Hh|b h Hb Hm Hh]; intros n L HL.
  - reflexivity.
  - reflexivity.
  - destruct (hexv_lt16 _ _ Hh) as [Hh16 Hh62]. destruct (hexv_lt16 _ _ Hl) as [Hl16 Hl62].
    cbn [hex_loop]. replace (h =? 62) with false by lia. replace (l =? 62) with false by lia. cbv iota.
    unfold hex_emit. change (hex_digit_value h) with (hexv h). change (hex_digit_value l) with (hexv l). rewrite Hh, Hl. rewrite len_cons in HL.
    replace (L <=? n) with false by lia. rewrite IH by lia. cbn.
    f_equal. f_equal. pose proof (N.div_mod b 16). lia.
  - destruct (hexv_lt16 _ _ Hh) as [Hh16 Hh62].
    cbn [hex_loop]. replace (h =? 62) with false by lia. unfold hex_emit. change (hex_digit_value h) with (hexv h). rewrite Hh. change (hex_digit_value 48) with (Some 0). rewrite len_cons, len_nil in HL.
    replace (L <=? n) with false by lia. cbn. f_equal. f_equal. pose proof (N.div_mod b 16). lia.
  - destruct (hexv_lt16 _ _ Hh) as [Hh16 Hh62].
    cbn [hex_loop]. replace (h =? 62) with false by lia. change (62 =? 62) with true. cbn match.
    unfold hex_emit. change (hex_digit_value h) with (hexv h). rewrite Hh. change (hex_digit_value 48) with (Some 0). rewrite len_cons, len_nil in HL.
    replace (L <=? n) with false by lia. cbn. f_equal. f_equal. pose proof (N.div_mod b 16). lia.
Qed.

Theorem hex_roundtrip_rel e x L : hex_encodes e x -> len x <= L -> decode_hex_lim e L = Some x.
Proof. unfold hex_encodes, decode_hex_lim. intros H HL. rewrite strip_iso. apply hex_loop_enc; [exact H | lia]. Qed.

Lemma hexdig_val n : n < 16 -> hexv (hexdig true n) = Some n.
Proof.
  intros H. assert (E : forallb (fun n => option_eqb N.eqb (hexv (hexdig true n)) (Some n))
                         [0;1;2;3;4;5;6;7;8;9;10;11;12;13;14;15] = true) by (vm_compute; reflexivity).
  rewrite forallb_forall in E. specialize (E n).
  assert (In n [0;1;2;3;4;5;6;7;8;9;10;11;12;13;14;15]).
  { cbn. assert (n = 0 \/ n = 1 \/ n = 2 \/ n = 3 \/ n = 4 \/ n = 5 \/ n = 6 \/ n = 7 \/ n = 8 \/ n = 9 \/ n = 10 \/
                   n = 11 \/ n = 12 \/ n = 13 \/ n = 14 \/ n = 15) by lia. intuition. }
  specialize (E H0). destruct (hexv (hexdig true n)); cbn in E; [apply N.eqb_eq in E; congruence | discriminate].
Qed.

Lemma encode_hex_valid x : bytes_ok x = true -> hex_enc (encode_hex x) x.
Proof.
  induction x as [|b x IH]; cbn [encode_hex bytes_ok forallb]; intros H.
  - constructor.
  - apply andb_true_iff in H. destruct H as [Hb Hx]. unfold byte_ok in Hb.
    apply he_pair; [lia | apply hexdig_val | apply hexdig_val | apply IH, Hx].
    + apply N.div_lt_upper_bound; lia.
    + apply N.mod_lt; lia.
Qed.

Lemma iso_strip_encode_hex x : bytes_ok x = true -> iso_strip (encode_hex x) = encode_hex x.
Proof.
  induction x as [|b x IH]; cbn [encode_hex bytes_ok forallb]; intros H; [reflexivity|].
  apply andb_true_iff in H. destruct H as [Hb Hx]. unfold byte_ok in Hb.
  assert (D : forall n, n < 16 -> iso_ws (hexdig true n) = false).
  { intros n Hn. unfold iso_ws, hexdig. destruct (n <? 10) eqn:E; lia. }
  unfold iso_strip in *. cbn [filter]. rewrite !D, IH; auto.
  - apply N.mod_lt; lia.
  - apply N.div_lt_upper_bound; lia.
Qed.

Theorem hex_roundtrip x : bytes_ok x = true -> len x <= MAX_DECOMPRESSED_SIZE -> decode_hex (encode_hex x) = Some x.
Proof.
  intros Hx HL. apply hex_roundtrip_rel; [|exact HL].
  unfold hex_encodes. rewrite iso_strip_encode_hex by exact Hx. apply encode_hex_valid, Hx.
Qed.

(** white space (ISO Table 1) anywhere in the text is irrelevant *)
Theorem hex_ws_irrelevant e e' L : iso_strip e = iso_strip e' -> decode_hex_lim e L = decode_hex_lim e' L.
Proof. unfold decode_hex_lim. rewrite !strip_iso. intros ->. reflexivity. Qed.

(** soundness of the executable relation used by the correspondence *)
Lemma option_eqb_N a b : option_eqb N.eqb a (Some b) = true -> a = Some b.
Proof. destruct a; cbn; [rewrite N.eqb_eq; congruence | discriminate]. Qed.

Lemma hex_enc_b_sound : forall x s, bytes_ok x = true -> hex_enc_b s x = true -> hex_enc s x.
Proof.
  induction x as [|b x IH]; intros s Hok H.
  - destruct s as [|c [|? ?]]; cbn in H; try discriminate; [apply he_end| |];
    (destruct c as [|p]; try discriminate; repeat (destruct p; try discriminate)); apply he_eod.
  - cbn [bytes_ok forallb] in Hok. apply andb_true_iff in Hok. destruct Hok as [Hb Hok]. unfold byte_ok in Hb.
    destruct s as [|h [|l s']]; cbn [hex_enc_b] in H; [discriminate| |].
    + destruct x; [|discriminate]. cbn in H. apply andb_true_iff in H. destruct H as [H1 H2].
      apply he_odd_end; [lia | lia | apply option_eqb_N, H2].
    + destruct ((l =? 62) && match s' with [] => true | _ => false end) eqn:E.
      * apply andb_true_iff in E. destruct E as [El Es]. destruct s'; [|discriminate].
        destruct x; [|discriminate]. cbn in H. apply andb_true_iff in H. destruct H as [H1 H2].
        replace l with 62 by lia. apply he_odd_eod; [lia | lia | apply option_eqb_N, H2].
      * apply andb_true_iff in H. destruct H as [H1 H3]. apply andb_true_iff in H1. destruct H1 as [H1 H2].
        apply he_pair; [lia | apply option_eqb_N, H1 | apply option_eqb_N, H2 | apply IH; assumption].
Qed.

(** limit lemmas *)
Lemma hex_loop_le : forall s n L r, hex_loop s n L = Some r -> n <= L -> n + len r <= L.
Proof.
  induction s as [|a|a b s IH] using list_ind2; intros n L r H Hn.
  - inversion H. rewrite len_nil. lia.
  - cbn in H. destruct (a =? 62); [inversion H; rewrite len_nil; lia|].
    unfold hex_emit in H. destruct (hex_digit_value a); [|discriminate]. cbn in H.
    destruct (L <=? n) eqn:E; [discriminate|]. inversion H. rewrite len_cons, len_nil. lia.
  - cbn [hex_loop] in H. destruct (a =? 62); [inversion H; rewrite len_nil; lia|].
    unfold hex_emit in H. destruct (hex_digit_value a); [|discriminate].
    destruct (hex_digit_value (if b =? 62 then 48 else b)); [|discriminate].
    destruct (L <=? n) eqn:E; [discriminate|].
    destruct (hex_loop s (n + 1) L) eqn:E2; [|discriminate]. inversion H. rewrite len_cons.
    apply IH in E2; lia.
Qed.

Lemma hex_loop_ag : forall s n L L' r, hex_loop s n L = Some r -> n + len r <= L' -> hex_loop s n L' = Some r.
Proof.
  induction s as [|a|a b s IH] using list_ind2; intros n L L' r H Hn.
  - exact H.
  - cbn in *. destruct (a =? 62); [exact H|].
    unfold hex_emit in *. destruct (hex_digit_value a); [|discriminate]. cbn in *.
    destruct (L <=? n) eqn:E; [discriminate|]. inversion H. subst r. rewrite len_cons, len_nil in Hn.
    replace (L' <=? n) with false by lia. reflexivity.
  - cbn [hex_loop] in *. destruct (a =? 62); [exact H|].
    unfold hex_emit in *. destruct (hex_digit_value a); [|discriminate].
    destruct (hex_digit_value (if b =? 62 then 48 else b)); [|discriminate].
    destruct (L <=? n) eqn:E; [discriminate|].
    destruct (hex_loop s (n + 1) L) eqn:E2; [|discriminate]. inversion H. subst r. rewrite len_cons in Hn.
    replace (L' <=? n) with false by lia. erewrite IH; [reflexivity | exact E2 | lia].
Qed.

Theorem hex_le d L r : decode_hex_lim d L = Some r -> len r <= L.
Proof. intros H. apply hex_loop_le in H; lia. Qed.
Theorem hex_ag d L L' r : decode_hex_lim d L = Some r -> len r <= L' -> decode_hex_lim d L' = Some r.
Proof. intros H HL. eapply hex_loop_ag; [exact H | lia]. Qed.

(** * RunLength *)
Lemma rl_loop_enc e x : rl_enc e x -> forall fuel n L, (length e <= fuel)%nat -> n + len x <= L ->
  rl_loop fuel e n L = Some x.
Proof.
  induction 1 as [|t|l lit e x Hl Hlen He IH|l b e x Hl1 Hl2 He IH]; intros fuel n L Hf HL.
  - destruct fuel; reflexivity.
  - destruct fuel; [cbn in Hf; lia|]. reflexivity.
  - destruct fuel; [cbn in Hf; lia|]. cbn [rl_loop].
    replace (l =? 128) with false by lia. replace (l <? 128) with true by lia.
    assert (Hll : len lit = l + 1) by (unfold len; lia).
    replace (len (lit ++ e) <? l + 1) with false by (rewrite len_app; lia).
    rewrite len_app in HL. replace (L <? n + (l + 1)) with false by lia.
    rewrite <- Hlen. rewrite firstn_app, Nat.sub_diag, firstn_all. cbn [firstn]. rewrite app_nil_r.
    rewrite skipn_app, Nat.sub_diag, skipn_all. cbn [skipn app].
    rewrite IH; [reflexivity | | lia]. cbn [length] in Hf. rewrite app_length in Hf. lia.
  - destruct fuel; [cbn in Hf; lia|]. cbn [rl_loop].
    replace (l =? 128) with false by lia. replace (l <? 128) with false by lia.
    rewrite len_app in HL. assert (len (repeat b (N.to_nat (257 - l))) = 257 - l) by (unfold len; rewrite repeat_length; lia).
    replace (L <? n + (257 - l)) with false by lia.
    rewrite IH; [reflexivity | cbn [length] in Hf; lia | lia].
Qed.

Theorem rl_roundtrip_rel e x L : rl_enc e x -> len x <= L -> decode_rl_lim e L = Some x.
Proof. intros H HL. unfold decode_rl_lim. apply rl_loop_enc; [exact H | lia | lia]. Qed.

Lemma rl_parse_sound : forall fuel e x, rl_parse fuel e = Some x -> rl_enc e x.
Proof.
  induction fuel as [|f IH]; intros e x H; [discriminate|]. cbn [rl_parse] in H.
  destruct e as [|l r]; [inversion H; constructor|].
  destruct (l =? 128) eqn:E1; [inversion H; replace l with 128 by lia; constructor|].
  destruct (l <? 128) eqn:E2.
  - destruct (length r <? N.to_nat (l + 1))%nat eqn:E3; [discriminate|].
    destruct (rl_parse f (skipn (N.to_nat (l + 1)) r)) eqn:E4; [|discriminate]. inversion H.
    rewrite <- (firstn_skipn (N.to_nat (l + 1)) r) at 1.
    apply re_lit; [lia | rewrite firstn_length; apply Nat.ltb_ge in E3; lia | apply IH, E4].
  - destruct (l <? 256) eqn:E3; [|discriminate]. destruct r as [|b r']; [discriminate|].
    destruct (rl_parse f r') eqn:E4; [|discriminate]. inversion H.
    apply re_rep; [lia | lia | apply IH, E4].
Qed.
Lemma rl_valid_b_sound e x : rl_valid_b e x = true -> rl_enc e x.
Proof.
  unfold rl_valid_b. destruct (rl_parse (S (length e)) e) eqn:E; cbn; [|discriminate].
  intros H. apply bytes_eqb_eq in H. subst. eapply rl_parse_sound, E.
Qed.

(** the literal-only reference encoder produces a valid encoding *)
Lemma rl_encode_lit_valid : forall fuel x, (length x <= fuel)%nat -> rl_enc (rl_encode_lit fuel x) x.
Proof.
  induction fuel as [|f IH]; intros x Hf.
  - destruct x; [|cbn in Hf; lia]. constructor.
  - destruct x as [|b x']; [constructor|]. cbn [rl_encode_lit].
    set (x := b :: x') in *. set (k := Nat.min 128 (length x)).
    assert (1 <= k <= 128)%nat by (subst k x; cbn [length]; lia).
    rewrite <- (firstn_skipn k x) at 3.
    apply re_lit; [lia | rewrite firstn_length; lia |].
    apply IH. rewrite skipn_length. lia.
Qed.
Theorem rl_roundtrip x : len x <= MAX_DECOMPRESSED_SIZE -> decode_rl (rl_encode x) = Some x.
Proof. intros H. apply rl_roundtrip_rel; [apply rl_encode_lit_valid; lia | exact H]. Qed.

Lemma rl_loop_le : forall fuel d n L r, rl_loop fuel d n L = Some r -> n <= L -> n + len r <= L.
Proof.
  induction fuel as [|f IH]; intros d n L r H Hn; [inversion H; rewrite len_nil; lia|].
  cbn [rl_loop] in H. destruct d as [|b d]; [inversion H; rewrite len_nil; lia|].
  destruct (b =? 128); [inversion H; rewrite len_nil; lia|].
  destruct (b <? 128).
  - destruct (len d <? b + 1) eqn:E1; [discriminate|]. destruct (L <? n + (b + 1)) eqn:E2; [discriminate|].
    destruct (rl_loop f _ _ L) eqn:E3; [|discriminate]. inversion H. rewrite len_app.
    apply IH in E3; [|lia]. assert (len (firstn (N.to_nat (b + 1)) d) = b + 1).
    { unfold len in *. rewrite firstn_length. lia. } lia.
  - destruct d as [|x d']; [discriminate|]. destruct (L <? n + (257 - b)) eqn:E2; [discriminate|].
    destruct (rl_loop f _ _ L) eqn:E3; [|discriminate]. inversion H. rewrite len_app.
    apply IH in E3; [|lia]. assert (len (repeat x (N.to_nat (257 - b))) = 257 - b).
    { unfold len. rewrite repeat_length. lia. } lia.
Qed.

Lemma rl_loop_ag : forall fuel d n L L' r, rl_loop fuel d n L = Some r -> n + len r <= L' -> rl_loop fuel d n L' = Some r.
Proof.
  induction fuel as [|f IH]; intros d n L L' r H Hn; [exact H|].
  cbn [rl_loop] in *. destruct d as [|b d]; [exact H|].
  destruct (b =? 128); [exact H|].
  destruct (b <? 128).
  - destruct (len d <? b + 1) eqn:E1; [discriminate|]. destruct (L <? n + (b + 1)) eqn:E2; [discriminate|].
    destruct (rl_loop f _ _ L) eqn:E3; [|discriminate]. inversion H. subst r. rewrite len_app in Hn.
    assert (len (firstn (N.to_nat (b + 1)) d) = b + 1).
    { unfold len in *. rewrite firstn_length. lia. }
    replace (L' <? n + (b + 1)) with false by lia.
    erewrite IH; [reflexivity | exact E3 | lia].
  - destruct d as [|x d']; [discriminate|]. destruct (L <? n + (257 - b)) eqn:E2; [discriminate|].
    destruct (rl_loop f _ _ L) eqn:E3; [|discriminate]. inversion H. subst r. rewrite len_app in Hn.
    assert (len (repeat x (N.to_nat (257 - b))) = 257 - b).
    { unfold len. rewrite repeat_length. lia. }
    replace (L' <? n + (257 - b)) with false by lia.
    erewrite IH; [reflexivity | exact E3 | lia].
Qed.

Theorem rl_le d L r : decode_rl_lim d L = Some r -> len r <= L.
Proof. intros H. apply rl_loop_le in H; lia. Qed.
Theorem rl_ag d L L' r : decode_rl_lim d L = Some r -> len r <= L' -> decode_rl_lim d L' = Some r.
Proof. intros H HL. eapply rl_loop_ag; [exact H | lia]. Qed.
