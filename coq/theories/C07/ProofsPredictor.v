(** C07 — PNG predictor: the model's row decoders invert the PNG-specification forward filters,
    byte by byte, lifted to rows and to whole images. *)
From OxVerif Require Import Base.Util C07.Filters C07.Predictor C07.Codecs C07.ProofsBasic.
Require Import Lia ZifyBool.

Lemma unfilter_byte x q : x < 256 -> q < 256 -> ((x + 256 - q) mod 256 + q) mod 256 = x.
Proof.
  intros Hx Hq. destruct (q <=? x) eqn:E.
  - replace (x + 256 - q) with ((x - q) + 1 * 256) by lia. rewrite N.mod_add by discriminate.
    rewrite (N.mod_small (x - q)) by lia. replace (x - q + q) with x by lia. apply N.mod_small; lia.
  - rewrite (N.mod_small (x + 256 - q)) by lia. replace (x + 256 - q + q) with (x + 1 * 256) by lia.
    rewrite N.mod_add by discriminate. apply N.mod_small; lia.
Qed.

Lemma paeth_same a b c : paeth a b c = paeth_spec a b c. Proof. reflexivity. Qed.
Lemma paeth_lt a b c : a < 256 -> b < 256 -> c < 256 -> paeth_spec a b c < 256.
Proof. intros. unfold paeth_spec. destruct (_ && _); [lia|]. destruct (_ <=? _)%Z; lia. Qed.

Lemma nthN_ok l i : bytes_ok l = true -> nthN l i < 256.
Proof.
  unfold nthN. intros H. destruct (Nat.lt_ge_cases (N.to_nat i) (length l)) as [Hl|Hl].
  - unfold bytes_ok in H. rewrite forallb_forall in H. specialize (H _ (nth_In l 0 Hl)). unfold byte_ok in H. lia.
  - rewrite nth_overflow by exact Hl. lia.
Qed.

Lemma nth0_prefix pre rest j : j < len pre -> nth0 pre j = nthN (pre ++ rest) j.
Proof. unfold nth0, nthN, len. intros H. rewrite app_nth1 by lia. reflexivity. Qed.

(** the model's previous-row argument against the spec's prior row *)
Definition prev_is (prev : option bytes) (prior : bytes) : Prop :=
  match prev with None => prior = [] | Some p => p = prior end.
Lemma up_at_prior prev prior i : prev_is prev prior -> up_at prev i = nthN prior i.
Proof.
  unfold prev_is, up_at. destruct prev; intros ->; [reflexivity|]. unfold nthN. destruct (N.to_nat i); reflexivity.
Qed.

(** generic loop lemma *)
Lemma row_loop_fwd g tag bpp orig prior :
  forall todo pre, orig = pre ++ todo ->
  (forall pre' x rest, orig = pre' ++ x :: rest ->
     g (len pre') pre' ((x + 256 - (png_pred tag (ctx_a bpp orig (len pre')) (ctx_b prior (len pre')) (ctx_c bpp prior (len pre'))) mod 256) mod 256) = x) ->
  row_loop g (png_filter_from tag bpp orig prior todo (len pre)) pre (len pre) = orig.
Proof.
  induction todo as [|x todo IH]; intros pre E Hg; cbn [png_filter_from row_loop].
  - rewrite app_nil_r in E. congruence.
  - rewrite (Hg pre x todo E).
    replace (len pre + 1) with (len (pre ++ [x])) by (rewrite len_app; reflexivity).
    apply IH; [rewrite <- app_assoc; exact E | exact Hg].
Qed.

Lemma split_ok pre x rest : bytes_ok (pre ++ x :: rest) = true -> x < 256.
Proof. unfold bytes_ok. rewrite forallb_app. cbn. unfold byte_ok. lia. Qed.

Theorem png_row_roundtrip tag bpp prev prior orig :
  tag < 5 -> 1 <= bpp -> bytes_ok orig = true -> bytes_ok prior = true -> prev_is prev prior ->
  png_row tag bpp prev (png_filter_from tag bpp orig prior orig 0) = Some orig.
Proof.
  intros Ht Hb Ho Hp Hprev.
  assert (T : tag = 0 \/ tag = 1 \/ tag = 2 \/ tag = 3 \/ tag = 4) by lia.
  assert (A : forall pre' x rest, orig = pre' ++ x :: rest ->
              (if len pre' <? bpp then 0 else nth0 pre' (len pre' - bpp)) = ctx_a bpp orig (len pre')).
  { intros pre' x rest E. unfold ctx_a. destruct (len pre' <? bpp) eqn:El; [reflexivity|].
    rewrite E. apply nth0_prefix. lia. }
  assert (Alt : forall i, ctx_a bpp orig i < 256).
  { intros i. unfold ctx_a. destruct (i <? bpp); [lia | apply nthN_ok, Ho]. }
  assert (Blt : forall i, ctx_b prior i < 256) by (intros; apply nthN_ok, Hp).
  assert (Clt : forall i, ctx_c bpp prior i < 256).
  { intros i. unfold ctx_c. destruct (i <? bpp); [lia | apply nthN_ok, Hp]. }
  destruct T as [-> | [-> | [-> | [-> | ->]]]]; cbn [png_row]; f_equal.
  - (* None *)
    assert (G : forall todo i, bytes_ok todo = true -> png_filter_from 0 bpp orig prior todo i = todo).
    { induction todo as [|x todo IH]; intros i H; cbn [png_filter_from]; [reflexivity|].
      cbn [bytes_ok forallb] in H. apply andb_true_iff in H. destruct H as [Hx H]. unfold byte_ok in Hx.
      rewrite IH by exact H. f_equal. cbn [png_pred]. change (0 mod 256) with 0.
      replace (x + 256 - 0) with (x + 1 * 256) by lia. rewrite N.mod_add by discriminate. apply N.mod_small; lia. }
    apply G, Ho.
  - (* Sub *)
    apply (row_loop_fwd (sub_g bpp) 1 bpp orig prior orig []); [reflexivity|].
    intros pre' x rest E. pose proof (split_ok pre' x rest ltac:(rewrite <- E; exact Ho)) as Hx.
    unfold sub_g. cbn [png_pred]. specialize (A pre' x rest E). specialize (Alt (len pre')).
    destruct (len pre' <? bpp) eqn:El.
    + rewrite <- A. change (0 mod 256) with 0. replace (x + 256 - 0) with (x + 1 * 256) by lia.
      rewrite N.mod_add by discriminate. apply N.mod_small; lia.
    + rewrite A. unfold wadd. rewrite (N.mod_small (ctx_a bpp orig (len pre'))) by lia. apply unfilter_byte; lia.
  - (* Up *)
    apply (row_loop_fwd (up_g prev) 2 bpp orig prior orig []); [reflexivity|].
    intros pre' x rest E. pose proof (split_ok pre' x rest ltac:(rewrite <- E; exact Ho)) as Hx.
    unfold up_g. cbn [png_pred]. rewrite (up_at_prior prev prior) by exact Hprev. fold (ctx_b prior (len pre')).
    specialize (Blt (len pre')). unfold wadd. rewrite (N.mod_small (ctx_b prior (len pre'))) by lia.
    apply unfilter_byte; lia.
  - (* Average *)
    apply (row_loop_fwd (avg_g bpp prev) 3 bpp orig prior orig []); [reflexivity|].
    intros pre' x rest E. pose proof (split_ok pre' x rest ltac:(rewrite <- E; exact Ho)) as Hx.
    unfold avg_g. cbn [png_pred]. rewrite (A pre' x rest E). rewrite (up_at_prior prev prior) by exact Hprev.
    fold (ctx_b prior (len pre')). unfold wadd. apply unfilter_byte; [lia | apply N.mod_lt; discriminate].
  - (* Paeth *)
    apply (row_loop_fwd (paeth_g bpp prev) 4 bpp orig prior orig []); [reflexivity|].
    intros pre' x rest E. pose proof (split_ok pre' x rest ltac:(rewrite <- E; exact Ho)) as Hx.
    unfold paeth_g. cbn [png_pred]. rewrite (A pre' x rest E). rewrite !(up_at_prior prev prior) by exact Hprev.
    change (nthN prior (len pre')) with (ctx_b prior (len pre')). change paeth with paeth_spec.
    assert (C : (if len pre' <? bpp then 0 else nthN prior (len pre' - bpp)) = ctx_c bpp prior (len pre')) by reflexivity.
    rewrite C. pose proof (paeth_lt _ _ _ (Alt (len pre')) (Blt (len pre')) (Clt (len pre'))) as P.
    unfold wadd. rewrite (N.mod_small (paeth_spec _ _ _)) by exact P. apply unfilter_byte; lia.
Qed.

(** whole image: rows of [rb] bytes, one tag per row *)
Lemma bytes_ok_firstn n l : bytes_ok l = true -> bytes_ok (firstn n l) = true.
Proof.
  unfold bytes_ok. rewrite !forallb_forall. intros H b Hb. apply H.
  rewrite <- (firstn_skipn n l). apply in_or_app. left. exact Hb.
Qed.
Lemma bytes_ok_skipn n l : bytes_ok l = true -> bytes_ok (skipn n l) = true.
Proof.
  unfold bytes_ok. rewrite !forallb_forall. intros H b Hb. apply H.
  rewrite <- (firstn_skipn n l). apply in_or_app. right. exact Hb.
Qed.

Lemma png_filter_from_length tag bpp orig prior : forall todo i, length (png_filter_from tag bpp orig prior todo i) = length todo.
Proof. induction todo; intros; cbn; [reflexivity | f_equal; auto]. Qed.

Theorem png_rows_roundtrip bpp rb : 1 <= bpp ->
  forall tags x prev prior,
  forallb (fun t => t <? 5) tags = true -> bytes_ok x = true -> bytes_ok prior = true -> prev_is prev prior ->
  length x = (length tags * rb)%nat ->
  png_rows (length tags) (N.of_nat rb) bpp (png_forward tags bpp rb x prior) prev = Some x.
Proof.
  intros Hb. induction tags as [|t ts IH]; intros x prev prior Ht Hx Hp Hprev Hl.
  - destruct x; [reflexivity | discriminate].
  - cbn [forallb] in Ht. apply andb_true_iff in Ht. destruct Ht as [Ht Hts].
    cbn [length png_forward png_rows]. unfold png_filter_row. cbn [app].
    cbn [length] in Hl.
    assert (Lr : length (firstn rb x) = rb) by (rewrite firstn_length; lia).
    rewrite Nat2N.id. rewrite firstn_app, png_filter_from_length, Lr, Nat.sub_diag. cbn [firstn]. rewrite app_nil_r.
    rewrite firstn_all2 by (rewrite png_filter_from_length; lia).
    rewrite skipn_app, png_filter_from_length, Lr, Nat.sub_diag. cbn [skipn].
    rewrite skipn_all2 by (rewrite png_filter_from_length; lia). cbn [app].
    rewrite png_row_roundtrip; [| lia | exact Hb | apply bytes_ok_firstn, Hx | exact Hp | exact Hprev].
    assert (R : png_rows (length ts) (N.of_nat rb) bpp (png_forward ts bpp rb (skipn rb x) (firstn rb x)) (Some (firstn rb x))
                = Some (skipn rb x)).
    { apply IH; [exact Hts | apply bytes_ok_skipn, Hx | apply bytes_ok_firstn, Hx | reflexivity | rewrite skipn_length; lia]. }
    match goal with |- napp _ ?t = _ => replace t with (Some (skipn rb x)) by (symmetry; exact R) end.
    cbn. rewrite firstn_skipn. reflexivity.
Qed.
