(** C07/C08 — collects the proof files (kept apart from the models so the models still
    evaluate if a proof breaks). *)
From OxVerif Require Export Base.Util C07.Filters C07.Predictor C07.Lzw C07.Chain C07.Codecs C07.Check
  C07.ProofsBasic C07.ProofsA85 C07.ProofsPredictor C07.ProofsPng C07.ProofsTiff C07.ProofsChain C07.ProofsLzw.
