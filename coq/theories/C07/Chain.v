(** C07/C08 — code-shaped model of decode_stream / decode_stream_with_limit,
    apply_filter_with_params and get_filter_params (parser/filters.rs).

    Flate is not modelled: zlib inflate enters as the Section variable [zlib]
    (Some = the ZlibDecoder read to its end without error) and the seven fallback
    strategies of decode_flate as the Section variable [recover] (total: the last
    strategy returns empty data).  Filters outside the modelled set (CCITT, DCT, JBIG2,
    JPX, Crypt, unknown names) are [FOther]: the unbounded driver is not modelled for
    them (treated as Err here and never generated). *)
From OxVerif Require Import Base.Util C07.Filters C07.Predictor C07.Lzw.
From OxGen Require Import FilterConsts.

Inductive filt := FHex | F85 | FLzw | FFlate | FRl | FUnknown.

Inductive dparms := DPNone | DPDict (p : parms) | DPArray (l : list (option parms)).

Definition get_filter_params (dp : dparms) (index : nat) : option parms :=
  match dp with
  | DPNone => None
  | DPDict p => Some p
  | DPArray l => nth index l None
  end.

Section WithFlate.
  Variable zlib : bytes -> option bytes.
  Variable recover : bytes -> bytes.

  (** try_standard_zlib_decode: read_to_end_limited(MAX) then the ratio check (which needs
      more than 64 MiB of output to fire, i.e. more than the ceiling allows to matter here) *)
  Definition try_standard_zlib (d : bytes) : option bytes :=
    match zlib d with
    | Some o => if MAX_DECOMPRESSED_SIZE <? len o then None
                else if (67108864 <? len o) && (0 <? len d) && (1000 <? len o / len d) then None
                else Some o
    | None => None
    end.

  Definition decode_flate (d : bytes) : option bytes :=
    match try_standard_zlib d with
    | Some o => Some o
    | None => Some (recover d)
    end.

  Definition decode_flate_lim (d : bytes) (L : N) : option bytes :=
    match zlib d with
    | Some o => if L <? len o then None else Some o
    | None => None
    end.

  Definition early_param (p : option parms) : bool :=
    match p with Some ps => early_of (p_early ps) | None => true end.

  (** apply_filter_with_params: the predictor is applied after ANY filter whose DecodeParms
      carry an integer /Predictor, and a predictor error is swallowed (raw data returned) *)
  Definition apply_filter_with_params (f : filt) (p : option parms) (d : bytes) : option bytes :=
    let r :=
      match f with
      | FFlate =>
          match p with
          | Some ps =>
              match p_predictor ps with
              | Some _ => Some (match try_standard_zlib d with Some o => o | None => d end)
              | None => decode_flate d
              end
          | None => decode_flate d
          end
      | FHex => decode_hex d
      | F85 => decode_a85 d
      | FLzw => decode_lzw d (early_param p)
      | FRl => decode_rl d
      | FUnknown => None
      end in
    match r with
    | None => None
    | Some result =>
        match p with
        | Some ps =>
            match p_predictor ps with
            | Some pr =>
                match apply_predictor result (as_u32 pr) ps with
                | Some x => Some x
                | None => Some result
                end
            | None => Some result
            end
        | None => Some result
        end
    end.

  Fixpoint chain_loop (fs : list filt) (i : nat) (dp : dparms) (d : bytes) : option bytes :=
    match fs with
    | [] => Some d
    | f :: r =>
        match apply_filter_with_params f (get_filter_params dp i) d with
        | Some o => chain_loop r (S i) dp o
        | None => None
        end
    end.

  (** [None] = no /Filter key; [Some fs] = a name (singleton) or an array of names *)
  Definition decode_stream (fk : option (list filt)) (dp : dparms) (data : bytes) : option bytes :=
    match fk with
    | None => Some data
    | Some fs => chain_loop fs 0 dp data
    end.

  Definition copy_with_limit (data : bytes) (L : N) : option bytes :=
    if L <? len data then None else Some data.

  Definition stage_lim (f : filt) (p : option parms) (d : bytes) (L : N) : option bytes :=
    let dec :=
      match f with
      | FFlate => decode_flate_lim d L
      | FHex => decode_hex_lim d L
      | F85 => decode_a85_lim d L
      | FLzw => decode_lzw_lim d (early_param p) L
      | FRl => decode_rl_lim d L
      | FUnknown => None
      end in
    match dec with
    | None => None
    | Some decoded =>
        let applies := match f with FFlate | FLzw => true | _ => false end in
        let decoded' :=
          if applies then
            match p with
            | Some ps => match p_predictor ps with
                         | Some pr => apply_predictor decoded (as_u32 pr) ps     (* error propagated *)
                         | None => Some decoded
                         end
            | None => Some decoded
            end
          else Some decoded in
        match decoded' with
        | None => None
        | Some o => if L <? len o then None else Some o
        end
    end.

  Fixpoint chain_loop_lim (fs : list filt) (i : nat) (dp : dparms) (d : bytes) (L : N) : option bytes :=
    match fs with
    | [] => Some d
    | f :: r =>
        match stage_lim f (get_filter_params dp i) d L with
        | Some o => chain_loop_lim r (S i) dp o L
        | None => None
        end
    end.

  (** fixed code: an empty filter array is treated like a missing /Filter (copy_with_limit) *)
  Definition decode_stream_lim (fk : option (list filt)) (dp : dparms) (data : bytes) (L : N) : option bytes :=
    match fk with
    | None => copy_with_limit data L
    | Some [] => copy_with_limit data L
    | Some fs => chain_loop_lim fs 0 dp data L
    end.
End WithFlate.
