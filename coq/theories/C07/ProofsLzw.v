(** C07/C08 — LZW: agreement of the bounded decoder under any limit that fits the result
    (arbitrary data), a bound on what the in-loop check lets through, and sanity of the
    reference encoder against the decoder model on boundary-crossing inputs (computed).
    The general round-trip theorem [lzw_roundtrip] is proved in LzwBits.v + LzwFull.v. *)
From OxVerif Require Import Base.Util C07.Filters C07.Lzw C07.Codecs C07.ProofsBasic.
From OxGen Require Import FilterConsts.
Require Import Lia ZifyBool.

Lemma napp_some l o r : napp l o = Some r -> exists t, o = Some t /\ r = l ++ t.
Proof. destruct o; cbn; intros H; inversion H. eauto. Qed.

Lemma lzw_loop_ag : forall fuel ec bs rdict dlen cs prev n L L' r,
  lzw_loop fuel ec bs rdict dlen cs prev n L = Some r -> n + len r <= L' ->
  lzw_loop fuel ec bs rdict dlen cs prev n L' = Some r.
Proof.
  induction fuel as [|f IH]; intros ec bs rdict dlen cs prev n L L' r H HL; [exact H|].
  cbn [lzw_loop] in *. destruct (read_bits cs bs) as [[c bs']|]; [|exact H].
  destruct (c mod 65536 =? EOD_CODE); [exact H|].
  destruct (c mod 65536 =? CLEAR_CODE); [eapply IH; eassumption|].
  destruct prev as [p|].
  - destruct (if c mod 65536 <? dlen then _ else _) as [s|]; [|discriminate].
    destruct (L <? n + len s) eqn:E; [discriminate|].
    destruct (if dlen <? LZW_TABLE_MAX then _ else _) as [[rd dl] cs'].
    apply napp_some in H. destruct H as [t [Ht ->]]. rewrite len_app in HL.
    replace (L' <? n + len s) with false by lia.
    erewrite IH; [reflexivity | exact Ht | lia].
  - destruct (c mod 65536 <? dlen); [|discriminate].
    apply napp_some in H. destruct H as [t [Ht ->]]. rewrite len_app in HL.
    erewrite IH; [reflexivity | exact Ht | lia].
Qed.

Theorem lzw_ag d ec L L' r : decode_lzw_lim d ec L = Some r -> len r <= L' -> decode_lzw_lim d ec L' = Some r.
Proof. unfold decode_lzw_lim. intros H HL. eapply lzw_loop_ag; [exact H | lia]. Qed.

(** the in-loop check alone does not bound the result (a code that follows Clear is appended unchecked;
    decode_stream_with_limit's post-filter check is what enforces the limit): *)
Theorem lzw_inner_check_not_a_bound : exists d, decode_lzw_lim d true 0 = Some [65].
Proof. exists (lzw_encode true [65]). vm_compute. reflexivity. Qed.

(** reference encoder against the decoder model, both EarlyChange values, on inputs that cross the
    9->10->11->12-bit boundaries and the table reset (4200 distinct-pair bytes): computed, not proved *)
Definition lzw_probe (n : N) : bytes :=
  snd (N.iter n (fun '(s, acc) => ((s * 1103515245 + 12345) mod 2147483648, (s / 65536) mod 256 :: acc)) (7, [])).
Example lzw_boundaries_computed :
  forallb (fun ec => forallb (fun n => let x := lzw_probe n in
     option_eqb bytes_eqb (decode_lzw (lzw_encode ec x) ec) (Some x)) [0; 1; 2; 255; 256; 600; 1200; 2400; 4200])
    [true; false] = true.
Proof. vm_compute. reflexivity. Qed.
