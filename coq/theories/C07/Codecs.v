(** C07 — reference ENCODERS and encoding relations written from ISO 32000-1 §7.4
    (and, for the predictors, from the PNG specification §6 / TIFF 6.0 §14 that §7.4.4.4
    refers to).  Nothing here is derived from the Rust code. *)
From OxVerif Require Import Base.Util.
From Coq Require Import FMapPositive.

Definition blen (l : bytes) : N := N.of_nat (length l).

(** ISO 32000-1 Table 1: white-space characters *)
Definition iso_ws (b : N) : bool :=
  (b =? 0) || (b =? 9) || (b =? 10) || (b =? 12) || (b =? 13) || (b =? 32).
Definition iso_strip (d : bytes) : bytes := filter (fun b => negb (iso_ws b)) d.

(** * §7.4.2 ASCIIHexDecode *)
(** value of a hexadecimal digit, either case *)
Definition hexv (c : N) : option N :=
  if (48 <=? c) && (c <=? 57) then Some (c - 48)
  else if (65 <=? c) && (c <=? 70) then Some (c - 55)
  else if (97 <=? c) && (c <=? 102) then Some (c - 87)
  else None.

(** [hex_enc s x]: the white-space-free text [s] is a hexadecimal encoding of [x]:
    two digits per byte in either case; EOD `>` optional at the very end; an odd final
    digit stands for that digit followed by 0. *)
Inductive hex_enc : bytes -> bytes -> Prop :=
| he_end : hex_enc [] []
| he_eod : hex_enc [62] []
| he_pair b h l s x : b < 256 -> hexv h = Some (b / 16) -> hexv l = Some (b mod 16) ->
                      hex_enc s x -> hex_enc (h :: l :: s) (b :: x)
| he_odd_end b h : b < 256 -> b mod 16 = 0 -> hexv h = Some (b / 16) -> hex_enc [h] [b]
| he_odd_eod b h : b < 256 -> b mod 16 = 0 -> hexv h = Some (b / 16) -> hex_enc [h; 62] [b].

Definition hex_encodes (e x : bytes) : Prop := hex_enc (iso_strip e) x.

(** executable version of the relation (used to judge the harness's encodings) *)
Fixpoint hex_enc_b (s x : bytes) : bool :=
  match x with
  | [] => match s with [] => true | [62] => true | _ => false end
  | b :: x' =>
      match s with
      | h :: l :: s' =>
          if (l =? 62) && (match s' with [] => true | _ => false end) then
            (match x' with [] => true | _ => false end) && (b mod 16 =? 0) && option_eqb N.eqb (hexv h) (Some (b / 16))
          else option_eqb N.eqb (hexv h) (Some (b / 16)) && option_eqb N.eqb (hexv l) (Some (b mod 16)) && hex_enc_b s' x'
      | [h] => (match x' with [] => true | _ => false end) && (b mod 16 =? 0) && option_eqb N.eqb (hexv h) (Some (b / 16))
      | [] => false
      end
  end.

(** a canonical encoder: upper-case digits, EOD *)
Definition hexdig (upper : bool) (n : N) : N := if n <? 10 then 48 + n else if upper then 55 + n else 87 + n.
Fixpoint encode_hex (x : bytes) : bytes :=
  match x with
  | [] => [62]
  | b :: r => hexdig true (b / 16) :: hexdig true (b mod 16) :: encode_hex r
  end.

(** * §7.4.3 ASCII85Decode *)
Definition val4 (b0 b1 b2 b3 : N) : N := ((b0 * 256 + b1) * 256 + b2) * 256 + b3.
Definition dig (v k : N) : N := (v / 85 ^ k) mod 85 + 33.
Definition digits5 (v : N) : bytes := [dig v 4; dig v 3; dig v 2; dig v 1; dig v 0].

(** [a85_enc s x]: white-space-free text [s] encodes [x]: 5 digits per 4 bytes, `z` allowed
    (not required) for an all-zero group, a final group of n = 1..3 bytes padded with zeros
    and written as its first n+1 digits, then EOD `~>`. *)
Inductive a85_enc : bytes -> bytes -> Prop :=
| ae_eod : a85_enc [126; 62] []
| ae_z s x : a85_enc s x -> a85_enc (122 :: s) (0 :: 0 :: 0 :: 0 :: x)
| ae_full b0 b1 b2 b3 s x : b0 < 256 -> b1 < 256 -> b2 < 256 -> b3 < 256 ->
    a85_enc s x -> a85_enc (digits5 (val4 b0 b1 b2 b3) ++ s) (b0 :: b1 :: b2 :: b3 :: x)
| ae_p1 b0 : b0 < 256 -> a85_enc (firstn 2 (digits5 (val4 b0 0 0 0)) ++ [126; 62]) [b0]
| ae_p2 b0 b1 : b0 < 256 -> b1 < 256 -> a85_enc (firstn 3 (digits5 (val4 b0 b1 0 0)) ++ [126; 62]) [b0; b1]
| ae_p3 b0 b1 b2 : b0 < 256 -> b1 < 256 -> b2 < 256 ->
    a85_enc (firstn 4 (digits5 (val4 b0 b1 b2 0)) ++ [126; 62]) [b0; b1; b2].

(** the optional `<~` lead-in some producers write is tolerated *)
Definition a85_encodes (e x : bytes) : Prop :=
  a85_enc (iso_strip e) x \/ exists s, iso_strip e = 60 :: 126 :: s /\ a85_enc s x.

(** the encoder of §7.4.3; [usez] = use the `z` special case (ISO: shall; many producers: never) *)
Fixpoint encode_a85 (usez : bool) (x : bytes) : bytes :=
  match x with
  | b0 :: b1 :: b2 :: b3 :: r =>
      (if usez && (val4 b0 b1 b2 b3 =? 0) then [122] else digits5 (val4 b0 b1 b2 b3)) ++ encode_a85 usez r
  | [b0; b1; b2] => firstn 4 (digits5 (val4 b0 b1 b2 0)) ++ [126; 62]
  | [b0; b1] => firstn 3 (digits5 (val4 b0 b1 0 0)) ++ [126; 62]
  | [b0] => firstn 2 (digits5 (val4 b0 0 0 0)) ++ [126; 62]
  | [] => [126; 62]
  end.

Definition a85_valid_b (e x : bytes) : bool :=
  let s := iso_strip e in
  let s' := match s with 60 :: 126 :: r => r | _ => s end in
  bytes_eqb s' (encode_a85 true x) || bytes_eqb s' (encode_a85 false x)
  || bytes_eqb s (encode_a85 true x) || bytes_eqb s (encode_a85 false x).

(** * §7.4.5 RunLengthDecode *)
(** [rl_enc e x]: [e] is a sequence of runs — length byte 0..127 followed by length+1 literal
    bytes, or 129..255 followed by one byte standing for 257-length copies — ended by EOD 128
    (an encoder shall write it; a stream that simply ends is accepted as well). *)
Inductive rl_enc : bytes -> bytes -> Prop :=
| re_end : rl_enc [] []
| re_eod t : rl_enc (128 :: t) []
| re_lit l lit e x : l < 128 -> length lit = N.to_nat (l + 1) -> rl_enc e x ->
                     rl_enc (l :: lit ++ e) (lit ++ x)
| re_rep l b e x : 128 < l -> l < 256 -> rl_enc e x ->
                   rl_enc (l :: b :: e) (repeat b (N.to_nat (257 - l)) ++ x).

(** executable parser of the relation *)
Fixpoint rl_parse (fuel : nat) (e : bytes) : option bytes :=
  match fuel with
  | O => None
  | S f =>
      match e with
      | [] => Some []
      | l :: r =>
          if l =? 128 then Some []
          else if l <? 128 then
            let k := N.to_nat (l + 1) in
            if (length r <? k)%nat then None
            else match rl_parse f (skipn k r) with Some x => Some (firstn k r ++ x) | None => None end
          else if l <? 256 then
            match r with
            | [] => None
            | b :: r' => match rl_parse f r' with Some x => Some (repeat b (N.to_nat (257 - l)) ++ x) | None => None end
            end
          else None
      end
  end.
Definition rl_valid_b (e x : bytes) : bool :=
  option_eqb bytes_eqb (rl_parse (S (length e)) e) (Some x).

(** a canonical encoder: literal runs only, 128 bytes at most each, EOD *)
Fixpoint rl_encode_lit (fuel : nat) (x : bytes) : bytes :=
  match fuel with
  | O => [128]
  | S f =>
      match x with
      | [] => [128]
      | _ => let k := Nat.min 128 (length x) in
             (N.of_nat k - 1) :: firstn k x ++ rl_encode_lit f (skipn k x)
      end
  end.
Definition rl_encode (x : bytes) : bytes := rl_encode_lit (length x) x.

(** * §7.4.4.4 predictors.  PNG filter types 0–4 (PNG spec §6): Filt(x) = Orig(x) − Pred(x) mod 256,
    with a = byte [bpp] positions to the left, b = byte above, c = byte above a; bpp = bytes per
    complete pixel, rounded up to 1; bytes outside the image are 0. *)
Definition nthN (l : bytes) (i : N) : N := nth (N.to_nat i) l 0.
Definition paeth_spec (a b c : N) : N :=
  let p := (Z.of_N a + Z.of_N b - Z.of_N c)%Z in
  let pa := Z.abs (p - Z.of_N a) in
  let pb := Z.abs (p - Z.of_N b) in
  let pc := Z.abs (p - Z.of_N c) in
  if (pa <=? pb)%Z && (pa <=? pc)%Z then a else if (pb <=? pc)%Z then b else c.

Definition png_pred (tag : N) (a b c : N) : N :=
  match tag with
  | 0 => 0 | 1 => a | 2 => b | 3 => (a + b) / 2 | _ => paeth_spec a b c
  end.

(** predictor inputs for position i of row [orig] with previous row [prior] *)
Definition ctx_a (bpp : N) (orig : bytes) (i : N) : N := if i <? bpp then 0 else nthN orig (i - bpp).
Definition ctx_b (prior : bytes) (i : N) : N := nthN prior i.
Definition ctx_c (bpp : N) (prior : bytes) (i : N) : N := if i <? bpp then 0 else nthN prior (i - bpp).

Fixpoint png_filter_from (tag bpp : N) (orig prior : bytes) (todo : bytes) (i : N) : bytes :=
  match todo with
  | [] => []
  | x :: r =>
      ((x + 256 - (png_pred tag (ctx_a bpp orig i) (ctx_b prior i) (ctx_c bpp prior i)) mod 256) mod 256)
        :: png_filter_from tag bpp orig prior r (i + 1)
  end.
Definition png_filter_row (tag bpp : N) (orig prior : bytes) : bytes :=
  tag :: png_filter_from tag bpp orig prior orig 0.

(** rows of [row_bytes] bytes each; [tags] gives the filter type chosen for each row (an encoder
    may choose freely); the row above the first is all zeros *)
Fixpoint png_forward (tags : list N) (bpp : N) (row_bytes : nat) (x : bytes) (prior : bytes) : bytes :=
  match tags with
  | [] => []
  | t :: ts =>
      let row := firstn row_bytes x in
      png_filter_row t bpp row prior ++ png_forward ts bpp row_bytes (skipn row_bytes x) row
  end.

Definition png_bpp (colors bpc : N) : N := N.max 1 ((colors * bpc + 7) / 8).
Definition png_row_bytes (columns colors bpc : N) : N := (columns * colors * bpc + 7) / 8.

(** TIFF predictor 2 (horizontal differencing), 8-bit components: each sample minus the same
    component of the pixel to its left, first pixel of a row unchanged. *)
Definition tiff_forward_row8 (colors : N) (orig : bytes) : bytes :=
  png_filter_from 1 colors orig [] orig 0.
Fixpoint tiff_forward8 (rows : nat) (colors : N) (row_bytes : nat) (x : bytes) : bytes :=
  match rows with
  | O => []
  | S k => tiff_forward_row8 colors (firstn row_bytes x) ++ tiff_forward8 k colors row_bytes (skipn row_bytes x)
  end.
(** its inverse, from the same text (used only to state what a correct decoder returns) *)
Fixpoint tiff_inverse_from (colors : N) (todo acc : bytes) (i : N) : bytes :=
  match todo with
  | [] => acc
  | d :: r => tiff_inverse_from colors r (acc ++ [(d + (if i <? colors then 0 else nthN acc (i - colors))) mod 256]) (i + 1)
  end.

(** ** TIFF predictor 2 for every sample size (TIFF 6.0 §14, ISO 32000-1 §7.4.4.4, Table 8):
    BitsPerComponent 1, 2, 4, 8, 16; a row is Columns * Colors samples packed most significant
    bit first (a 16-bit sample is two bytes, high byte first), padded with zero bits to a byte
    boundary; every sample is replaced by its difference, modulo 2^bpc, to the sample of the same
    colour component of the pixel on its left; the first pixel of a row is unchanged. *)
(** [n] digits of [v] in base [base], most significant first, and back *)
Fixpoint tiff_digits (base : N) (n : nat) (v : N) : list N :=
  match n with O => [] | S k => tiff_digits base k (v / base) ++ [v mod base] end.
Definition tiff_undigits (base : N) (ds : list N) : N := fold_left (fun acc d => acc * base + d) ds 0.
(** consecutive groups of [per] elements, the last one possibly shorter *)
Fixpoint tiff_groups (fuel per : nat) (l : list N) : list (list N) :=
  match fuel with
  | O => []
  | S f => match l with [] => [] | _ => firstn per l :: tiff_groups f per (skipn per l) end
  end.
Fixpoint be16_samples (row : bytes) : list N :=
  match row with hi :: lo :: r => (256 * hi + lo) :: be16_samples r | _ => [] end.

(** the first [n] samples of a row *)
Definition tiff_samples (bpc : N) (n : nat) (row : bytes) : list N :=
  if bpc =? 16 then be16_samples row
  else firstn n (flat_map (tiff_digits (2 ^ bpc) (N.to_nat (8 / bpc))) row).
(** samples to row bytes, zero padding *)
Definition tiff_pack (bpc : N) (ss : list N) : bytes :=
  if bpc =? 16 then flat_map (fun v => [v / 256; v mod 256]) ss
  else let per := N.to_nat (8 / bpc) in
       map (fun g => tiff_undigits (2 ^ bpc) (g ++ repeat 0 (per - length g))) (tiff_groups (length ss) per ss).

Fixpoint tiff_diff_from (M colors : N) (orig todo : list N) (i : N) : list N :=
  match todo with
  | [] => []
  | x :: r => ((x + M - (if i <? colors then 0 else nthN orig (i - colors)) mod M) mod M)
                :: tiff_diff_from M colors orig r (i + 1)
  end.
Definition tiff_forward_row (bpc colors : N) (n : nat) (row : bytes) : bytes :=
  let s := tiff_samples bpc n row in tiff_pack bpc (tiff_diff_from (2 ^ bpc) colors s s 0).
(** [rows] rows of [row_bytes] bytes holding [n] = Columns * Colors samples each *)
Fixpoint tiff_forward (rows : nat) (bpc colors : N) (n row_bytes : nat) (x : bytes) : bytes :=
  match rows with
  | O => []
  | S k => tiff_forward_row bpc colors n (firstn row_bytes x)
           ++ tiff_forward k bpc colors n row_bytes (skipn row_bytes x)
  end.
(** a row is canonical when it is the packing of its own samples: right length, padding bits zero
    (always so for 8 and 16 bits, and whenever Columns * Colors * bpc is a multiple of 8) *)
Definition tiff_canonical (bpc : N) (n : nat) (row : bytes) : Prop :=
  tiff_pack bpc (tiff_samples bpc n row) = row.
Fixpoint tiff_canonical_rows (rows : nat) (bpc : N) (n row_bytes : nat) (x : bytes) : Prop :=
  match rows with
  | O => True
  | S k => tiff_canonical bpc n (firstn row_bytes x) /\ tiff_canonical_rows k bpc n row_bytes (skipn row_bytes x)
  end.
Definition tiff_canonical_b (bpc : N) (n : nat) (row : bytes) : bool :=
  list_eqb N.eqb (tiff_pack bpc (tiff_samples bpc n row)) row.
Fixpoint tiff_canonical_rows_b (rows : nat) (bpc : N) (n row_bytes : nat) (x : bytes) : bool :=
  match rows with
  | O => true
  | S k => tiff_canonical_b bpc n (firstn row_bytes x) && tiff_canonical_rows_b k bpc n row_bytes (skipn row_bytes x)
  end.

(** * §7.4.4 LZWDecode: the encoder *)
Module PM := PositiveMap.
Definition key (w k : N) : positive := N.succ_pos (w * 256 + k).

(** number of bits for the code that FOLLOWS the creation of table entry [next - 1]:
    §7.4.4.2 — the first 10-bit code is the one following the creation of entry 511
    (EarlyChange = 1) or 512 (EarlyChange = 0), likewise 1023/1024 and 2047/2048; never more than 12 *)
Definition widen (ec : bool) (next cs : N) : N :=
  if ((if ec then 2 ^ cs else 2 ^ cs + 1) <=? next) && (cs <? 12) then cs + 1 else cs.

(** codes with their widths.  State: [w] current prefix code, [tbl] (prefix,byte) -> code,
    [next] = number of the next entry to create, [cs] current width.
    Entry 4095 is the last one (§7.4.4.2): once it exists the pending prefix is written and the
    table is cleared. *)
Fixpoint lzw_codes (ec : bool) (x : bytes) (w : N) (tbl : PM.t N) (next cs : N) : list (N * N) :=
  match x with
  | [] => [(w, cs); (257, widen ec (next + 1) cs)]
  | k :: r =>
      match PM.find (key w k) tbl with
      | Some c => lzw_codes ec r c tbl next cs
      | None =>
          if next =? 4096 then
            (w, cs) :: (256, cs) :: lzw_codes ec r k (PM.empty N) 258 9
          else
            (w, cs) :: lzw_codes ec r k (PM.add (key w k) next tbl) (next + 1) (widen ec (next + 1) cs)
      end
  end.

Definition lzw_code_list (ec : bool) (x : bytes) : list (N * N) :=
  (256, 9) :: match x with
              | [] => [(257, 9)]
              | k :: r => lzw_codes ec r k (PM.empty N) 258 9
              end.

(** MSB-first packing, zero padding of the last byte *)
Fixpoint code_bits (width : nat) (c : N) : list bool :=
  match width with
  | O => []
  | S k => N.testbit c (N.of_nat k) :: code_bits k c
  end.
Fixpoint byte_of_bits (bs : list bool) (k : nat) (acc : N) : N :=
  match k with
  | O => acc
  | S k' => match bs with
            | [] => byte_of_bits [] k' (2 * acc)
            | b :: r => byte_of_bits r k' (2 * acc + (if b then 1 else 0))
            end
  end.
Fixpoint pack_bits (fuel : nat) (bs : list bool) : bytes :=
  match fuel with
  | O => []
  | S f => match bs with
           | [] => []
           | _ => byte_of_bits bs 8 0 :: pack_bits f (skipn 8 bs)
           end
  end.
Definition pack_codes (cws : list (N * N)) : bytes :=
  let bs := flat_map (fun cw => code_bits (N.to_nat (snd cw)) (fst cw)) cws in
  pack_bits (S (length bs / 8)) bs.

Definition lzw_encode (ec : bool) (x : bytes) : bytes := pack_codes (lzw_code_list ec x).
