(** C08 — whole-chain agreement and monotonicity of the bounded driver.

    [bounded_agrees]   decode_stream = Ok r, every stage buffer of that run (each stage's output before and
                       after the predictor) fits L, every predictor of the run behaves the same in both drivers,
                       Flate's bounded decoder agrees with the unbounded one below the limit
                       ==> decode_stream_with_limit L = Ok r.        All filters, LZW and predictors included.
    [stage_agrees_iff] / [stage_differs_cases]   exactly when (and how) one stage of the two drivers differs
                       although every buffer fits: a predictor error after Flate/LZW (swallowed by the unbounded
                       driver, propagated by the bounded one), or an effective predictor after a text filter
                       (applied by the unbounded driver only).
    [bounded_monotone] decode_stream_with_limit L = Ok r, L <= L' ==> decode_stream_with_limit L' = Ok r.

    Flate stays the Section variable [zlib]/[recover]; what is assumed about it is [FlateAgreesAt] (stated below,
    per stage of the run), implied by "the standard zlib path succeeded" ([flate_std_agrees]).
    The model definitions of Chain.v are used unchanged; [raw_stage]/[post_pred]/[raw_lim]/[pred_lim] only name
    the two halves of a stage and are proved equal to them ([afwp_split], [stage_lim_split]). *)
From OxVerif Require Import Base.Util C07.Filters C07.Predictor C07.Lzw C07.Chain C07.Codecs
  C07.ProofsBasic C07.ProofsA85 C07.ProofsLzw C07.ProofsChain.
From OxGen Require Import FilterConsts.
Require Import Lia ZifyBool.

(** LZW: the in-loop test only compares the running length with the limit, so a larger limit passes the
    same tests (no bound on the result is needed, cf. lzw_inner_check_not_a_bound) *)
Lemma lzw_loop_mono : forall fuel ec bs rdict dlen cs prev n L L' r,
  lzw_loop fuel ec bs rdict dlen cs prev n L = Some r -> L <= L' ->
  lzw_loop fuel ec bs rdict dlen cs prev n L' = Some r.
Proof.
  induction fuel as [|f IH]; intros ec bs rdict dlen cs prev n L L' r H HL; [exact H|].
  cbn [lzw_loop] in *. destruct (read_bits cs bs) as [[c bs']|]; [|exact H].
  destruct (c mod 65536 =? EOD_CODE); [exact H|].
  destruct (c mod 65536 =? CLEAR_CODE); [eapply IH; eassumption|].
  destruct prev as [p|].
  - destruct (if c mod 65536 <? dlen then _ else _) as [s|]; [|discriminate].
    destruct (L <? n + len s) eqn:E; [discriminate|].
    destruct (if dlen <? LZW_TABLE_MAX then _ else _) as [[rd dl] cs'].
    apply napp_some in H. destruct H as [t [Ht ->]].
    replace (L' <? n + len s) with false by lia.
    erewrite IH; [reflexivity | exact Ht | exact HL].
  - destruct (c mod 65536 <? dlen); [|discriminate].
    apply napp_some in H. destruct H as [t [Ht ->]].
    erewrite IH; [reflexivity | exact Ht | exact HL].
Qed.

Theorem lzw_mono d ec L L' r : decode_lzw_lim d ec L = Some r -> L <= L' -> decode_lzw_lim d ec L' = Some r.
Proof. unfold decode_lzw_lim. intros H HL. eapply lzw_loop_mono; [exact H | exact HL]. Qed.

Section Flate.
  Variable zlib : bytes -> option bytes.
  Variable recover : bytes -> bytes.

  Local Notation afwp := (apply_filter_with_params zlib recover).
  Local Notation slim := (stage_lim zlib).

  (** * the two halves of a stage, named *)
  (** bounded driver: the predictor runs only after Flate and LZW *)
  Definition applies (f : filt) : bool := match f with FFlate | FLzw => true | _ => false end.

  (** unbounded stage before the predictor (the [r] of apply_filter_with_params) *)
  Definition raw_stage (f : filt) (p : option parms) (d : bytes) : option bytes :=
    match f with
    | FFlate =>
        match p with
        | Some ps =>
            match p_predictor ps with
            | Some _ => Some (match try_standard_zlib zlib d with Some o => o | None => d end)
            | None => decode_flate zlib recover d
            end
        | None => decode_flate zlib recover d
        end
    | FHex => decode_hex d
    | F85 => decode_a85 d
    | FLzw => decode_lzw d (early_param p)
    | FRl => decode_rl d
    | FUnknown => None
    end.

  (** unbounded predictor step: after any filter, error swallowed *)
  Definition post_pred (p : option parms) (result : bytes) : bytes :=
    match p with
    | Some ps =>
        match p_predictor ps with
        | Some pr => match apply_predictor result (as_u32 pr) ps with Some x => x | None => result end
        | None => result
        end
    | None => result
    end.

  Lemma afwp_split f p d : afwp f p d = omap (post_pred p) (raw_stage f p d).
  Proof.
    unfold apply_filter_with_params, raw_stage, post_pred.
    destruct (match f with FFlate => _ | _ => _ end) as [result|]; [|reflexivity].
    cbn [omap]. destruct p as [ps|]; [|reflexivity]. destruct (p_predictor ps) as [pr|]; [|reflexivity].
    destruct (apply_predictor result (as_u32 pr) ps); reflexivity.
  Qed.

  (** bounded stage before the predictor *)
  Definition raw_lim (f : filt) (p : option parms) (d : bytes) (L : N) : option bytes :=
    match f with
    | FFlate => decode_flate_lim zlib d L
    | FHex => decode_hex_lim d L
    | F85 => decode_a85_lim d L
    | FLzw => decode_lzw_lim d (early_param p) L
    | FRl => decode_rl_lim d L
    | FUnknown => None
    end.

  (** bounded predictor step: only after Flate/LZW, error propagated *)
  Definition pred_lim (f : filt) (p : option parms) (decoded : bytes) : option bytes :=
    if applies f then
      match p with
      | Some ps => match p_predictor ps with
                   | Some pr => apply_predictor decoded (as_u32 pr) ps
                   | None => Some decoded
                   end
      | None => Some decoded
      end
    else Some decoded.

  Lemma stage_lim_split f p d L :
    slim f p d L = match raw_lim f p d L with
                   | None => None
                   | Some decoded => match pred_lim f p decoded with
                                     | None => None
                                     | Some o => if L <? len o then None else Some o
                                     end
                   end.
  Proof. reflexivity. Qed.

  (** * what is assumed about Flate: below the limit the bounded decoder returns what the unbounded stage
        produced before the predictor.  Stated per stage input [d] (and its parameters, since with a
        /Predictor the unbounded Flate stage is "standard zlib or the raw data", without it decode_flate). *)
  Definition FlateAgreesAt (p : option parms) (d : bytes) : Prop :=
    forall raw L, raw_stage FFlate p d = Some raw -> len raw <= L -> decode_flate_lim zlib d L = Some raw.

  (** the global form, as a hypothesis on the Section variables *)
  Definition FlateAgrees : Prop := forall p d, FlateAgreesAt p d.

  (** sufficient: the standard zlib path succeeded (no recovery strategy was needed) *)
  Lemma flate_std_agrees p d : try_standard_zlib zlib d <> None -> FlateAgreesAt p d.
  Proof.
    unfold FlateAgreesAt, raw_stage, decode_flate, decode_flate_lim. intros Hs raw L Hraw HL.
    destruct (try_standard_zlib zlib d) as [o|] eqn:E; [|congruence].
    assert (raw = o) as ->.
    { destruct p as [ps|]; [destruct (p_predictor ps)|]; inversion Hraw; reflexivity. }
    unfold try_standard_zlib in E. destruct (zlib d) as [o'|]; [|discriminate].
    destruct (MAX_DECOMPRESSED_SIZE <? len o'); [discriminate|].
    destruct ((67108864 <? len o') && (0 <? len d) && (1000 <? len o' / len d)); [discriminate|].
    inversion E. subst. replace (L <? len o) with false by lia. reflexivity.
  Qed.

  (** when the standard path fails the bounded Flate decoder can only return something the unbounded one
      rejected as too large (over the ceiling, or the ratio check) — or fail *)
  Lemma flate_nonstd_lim d L o : try_standard_zlib zlib d = None -> decode_flate_lim zlib d L = Some o ->
    zlib d = Some o /\ (MAX_DECOMPRESSED_SIZE < len o \/ 67108864 < len o).
  Proof.
    unfold try_standard_zlib, decode_flate_lim. destruct (zlib d) as [o'|]; [|discriminate].
    destruct (L <? len o'); [discriminate|]. intros H1 H2. inversion H2. subst. split; [reflexivity|].
    destruct (MAX_DECOMPRESSED_SIZE <? len o) eqn:E1; [left; lia|].
    destruct (67108864 <? len o) eqn:E2; [right; lia|]. cbn [andb] in H1. discriminate.
  Qed.

  (** * raw decoders: the bounded one returns the unbounded result under any limit that fits it *)
  Lemma raw_agrees f p d L raw : raw_stage f p d = Some raw -> len raw <= L ->
    (f = FFlate -> FlateAgreesAt p d) -> raw_lim f p d L = Some raw.
  Proof.
    intros H HL HF. destruct f; cbn [raw_lim].
    - eapply hex_ag; [exact H | exact HL].
    - eapply a85_ag; [exact H | exact HL].
    - eapply lzw_ag; [exact H | exact HL].
    - eapply HF; [reflexivity | exact H | exact HL].
    - eapply rl_ag; [exact H | exact HL].
    - discriminate.
  Qed.

  (** * predictors: when the two drivers' predictor steps coincide on a buffer.
      After Flate/LZW: the predictor succeeds (an error is swallowed by the unbounded driver and
      propagated by the bounded one).  After a text filter: the predictor that only the unbounded driver
      applies leaves the buffer unchanged (absent, 1, 2, unknown value, or a swallowed error). *)
  Definition pred_agrees (f : filt) (p : option parms) (raw : bytes) : Prop :=
    match p with
    | Some ps =>
        match p_predictor ps with
        | Some pr => if applies f then apply_predictor raw (as_u32 pr) ps <> None else post_pred p raw = raw
        | None => True
        end
    | None => True
    end.

  Lemma no_pred_agrees f p raw : no_pred p -> pred_agrees f p raw.
  Proof. unfold no_pred, pred_agrees. destruct p as [ps|]; [intros ->|intros _]; exact I. Qed.

  Lemma pred_lim_agrees f p raw : pred_agrees f p raw -> pred_lim f p raw = Some (post_pred p raw).
  Proof.
    unfold pred_agrees, pred_lim. destruct p as [ps|] eqn:Ep; [|destruct (applies f); reflexivity].
    destruct (p_predictor ps) as [pr|] eqn:Epr.
    - destruct (applies f).
      + intros H. unfold post_pred. rewrite Epr. destruct (apply_predictor raw (as_u32 pr) ps); [reflexivity|congruence].
      + intros ->. reflexivity.
    - intros _. unfold post_pred. rewrite Epr. destruct (applies f); reflexivity.
  Qed.

  Lemma pred_agrees_dec f p raw : pred_agrees f p raw \/ ~ pred_agrees f p raw.
  Proof.
    unfold pred_agrees. destruct p as [ps|]; [|left; exact I]. destruct (p_predictor ps) as [pr|]; [|left; exact I].
    destruct (applies f).
    - destruct (apply_predictor raw (as_u32 pr) ps); [left; discriminate | right; congruence].
    - destruct (bytes_eqb (post_pred (Some ps) raw) raw) eqn:E.
      + left. apply bytes_eqb_eq. exact E.
      + right. intros H. apply bytes_eqb_eq in H. congruence.
  Qed.

  (** * one stage *)
  (** the buffers of an unbounded stage: before and after the predictor *)
  Definition stage_fits (L : N) (f : filt) (p : option parms) (d : bytes) : Prop :=
    match raw_stage f p d with
    | Some raw => len raw <= L /\ len (post_pred p raw) <= L
    | None => True
    end.
  Definition stage_pred_ok (f : filt) (p : option parms) (d : bytes) : Prop :=
    match raw_stage f p d with Some raw => pred_agrees f p raw | None => True end.
  Definition stage_flate_ok (f : filt) (p : option parms) (d : bytes) : Prop :=
    f = FFlate -> FlateAgreesAt p d.

  Theorem stage_agrees f p d L r : afwp f p d = Some r ->
    stage_fits L f p d -> stage_pred_ok f p d -> stage_flate_ok f p d -> slim f p d L = Some r.
  Proof.
    rewrite afwp_split. unfold stage_fits, stage_pred_ok, stage_flate_ok.
    destruct (raw_stage f p d) as [raw|] eqn:E; [|discriminate]. cbn [omap].
    intros H [H1 H2] Hp HF. inversion H. subst r. rewrite stage_lim_split.
    rewrite (raw_agrees _ _ _ _ _ E H1 HF). rewrite (pred_lim_agrees _ _ _ Hp).
    replace (L <? len (post_pred p raw)) with false by lia. reflexivity.
  Qed.

  (** when every buffer fits and Flate agrees, the two stages agree EXACTLY when the predictor steps do *)
  Theorem stage_agrees_iff f p d L raw : raw_stage f p d = Some raw ->
    len raw <= L -> len (post_pred p raw) <= L -> stage_flate_ok f p d ->
    (slim f p d L = afwp f p d <-> pred_agrees f p raw).
  Proof.
    intros E H1 H2 HF. split.
    - rewrite afwp_split, stage_lim_split, E, (raw_agrees _ _ _ _ _ E H1 HF). cbn [omap].
      unfold pred_agrees, pred_lim. destruct p as [ps|] eqn:Ep; [|intros _; exact I].
      destruct (p_predictor ps) as [pr|] eqn:Epr; [|intros _; exact I].
      destruct (applies f).
      + destruct (apply_predictor raw (as_u32 pr) ps); [intros _; discriminate|discriminate].
      + replace (L <? len raw) with false by lia. intros H. congruence.
    - intros Hp. rewrite (stage_agrees f p d L (post_pred p raw)); [rewrite afwp_split, E; reflexivity | | | | exact HF].
      + rewrite afwp_split, E. reflexivity.
      + unfold stage_fits. rewrite E. split; assumption.
      + unfold stage_pred_ok. rewrite E. exact Hp.
  Qed.

  (** ... and these are the only two ways to differ:
      (a) Flate/LZW stage whose predictor fails: unbounded = Ok(unpredicted data), bounded = Err;
      (b) text-filter stage with a /Predictor that changes the data: unbounded = Ok(predicted), bounded = Ok(raw). *)
  Theorem stage_differs_cases f p d L raw : raw_stage f p d = Some raw ->
    len raw <= L -> stage_flate_ok f p d -> ~ pred_agrees f p raw ->
    exists ps pr, p = Some ps /\ p_predictor ps = Some pr /\
      ((applies f = true /\ apply_predictor raw (as_u32 pr) ps = None /\
        afwp f p d = Some raw /\ slim f p d L = None)
       \/
       (applies f = false /\ exists x, apply_predictor raw (as_u32 pr) ps = Some x /\ x <> raw /\
        afwp f p d = Some x /\ slim f p d L = Some raw)).
  Proof.
    intros E H1 HF Hn. rewrite afwp_split, stage_lim_split, E, (raw_agrees _ _ _ _ _ E H1 HF). cbn [omap].
    unfold pred_agrees in Hn. unfold pred_lim.
    destruct p as [ps|] eqn:Ep; [|exfalso; apply Hn; exact I].
    destruct (p_predictor ps) as [pr|] eqn:Epr; [|exfalso; apply Hn; exact I].
    exists ps, pr. split; [reflexivity|]. split; [exact Epr|].
    destruct (applies f).
    - left. unfold post_pred. rewrite Epr.
      destruct (apply_predictor raw (as_u32 pr) ps) eqn:Ea; [exfalso; apply Hn; discriminate|].
      repeat split; reflexivity.
    - right. unfold post_pred in *. rewrite Epr in *.
      destruct (apply_predictor raw (as_u32 pr) ps) as [x|] eqn:Ea; [|exfalso; apply Hn; reflexivity].
      split; [reflexivity|]. exists x. replace (L <? len raw) with false by lia. repeat split; try reflexivity. exact Hn.
  Qed.

  (** * the whole chain *)
  (** [Q] holds at every stage the unbounded run reaches (stage input = previous stage's output) *)
  Fixpoint run_all (Q : filt -> option parms -> bytes -> Prop) (fs : list filt) (i : nat) (dp : dparms) (d : bytes) : Prop :=
    match fs with
    | [] => True
    | f :: r =>
        Q f (get_filter_params dp i) d /\
        match afwp f (get_filter_params dp i) d with
        | Some o => run_all Q r (S i) dp o
        | None => True
        end
    end.

  (** every stage buffer of the unbounded run (before and after each predictor) has length <= L;
      without filters the only buffer is the data itself *)
  Definition buffers_fit (fk : option (list filt)) (dp : dparms) (data : bytes) (L : N) : Prop :=
    match fk with
    | None | Some [] => len data <= L
    | Some fs => run_all (stage_fits L) fs 0 dp data
    end.
  (** every predictor of the run behaves the same in both drivers ([pred_agrees]) *)
  Definition predictors_ok (fk : option (list filt)) (dp : dparms) (data : bytes) : Prop :=
    match fk with None => True | Some fs => run_all stage_pred_ok fs 0 dp data end.
  (** the Flate hypothesis at every Flate stage of the run *)
  Definition flate_ok (fk : option (list filt)) (dp : dparms) (data : bytes) : Prop :=
    match fk with None => True | Some fs => run_all stage_flate_ok fs 0 dp data end.

  Lemma chain_agrees : forall fs i dp d L r, chain_loop zlib recover fs i dp d = Some r ->
    run_all (stage_fits L) fs i dp d -> run_all stage_pred_ok fs i dp d -> run_all stage_flate_ok fs i dp d ->
    chain_loop_lim zlib fs i dp d L = Some r.
  Proof.
    induction fs as [|f fs IH]; intros i dp d L r H Hb Hp Hf; [exact H|].
    cbn [chain_loop chain_loop_lim run_all] in *.
    destruct (afwp f (get_filter_params dp i) d) as [o|] eqn:E; [|discriminate].
    destruct Hb as [Hb1 Hb2], Hp as [Hp1 Hp2], Hf as [Hf1 Hf2].
    rewrite (stage_agrees _ _ _ _ _ E Hb1 Hp1 Hf1). apply IH; assumption.
  Qed.

  Theorem bounded_agrees fk dp data L r : decode_stream zlib recover fk dp data = Some r ->
    buffers_fit fk dp data L -> predictors_ok fk dp data -> flate_ok fk dp data ->
    decode_stream_lim zlib fk dp data L = Some r.
  Proof.
    unfold decode_stream, decode_stream_lim, buffers_fit, predictors_ok, flate_ok, copy_with_limit.
    destruct fk as [[|f fs]|].
    - cbn [chain_loop]. intros H Hb _ _. replace (L <? len data) with false by lia. exact H.
    - intros H Hb Hp Hf. apply chain_agrees; assumption.
    - intros H Hb _ _. replace (L <? len data) with false by lia. exact H.
  Qed.

  (** under the global Flate hypothesis *)
  Lemma run_all_imp (Q Q' : filt -> option parms -> bytes -> Prop) : (forall f p d, Q f p d -> Q' f p d) ->
    forall fs i dp d, run_all Q fs i dp d -> run_all Q' fs i dp d.
  Proof.
    intros HQ. induction fs as [|f fs IH]; intros i dp d; cbn [run_all]; [trivial|].
    intros [H1 H2]. split; [apply HQ; exact H1|]. destruct (afwp f (get_filter_params dp i) d); [apply IH; exact H2|exact I].
  Qed.
  Lemma run_all_true (Q : filt -> option parms -> bytes -> Prop) : (forall f p d, Q f p d) ->
    forall fs i dp d, run_all Q fs i dp d.
  Proof.
    intros HQ. induction fs as [|f fs IH]; intros i dp d; cbn [run_all]; [trivial|].
    split; [apply HQ|]. destruct (afwp f (get_filter_params dp i) d); [apply IH|exact I].
  Qed.

  Theorem bounded_agrees_flate_hyp : FlateAgrees -> forall fk dp data L r,
    decode_stream zlib recover fk dp data = Some r ->
    buffers_fit fk dp data L -> predictors_ok fk dp data -> decode_stream_lim zlib fk dp data L = Some r.
  Proof.
    intros HF fk dp data L r H Hb Hp. apply bounded_agrees; try assumption.
    unfold flate_ok. destruct fk as [fs|]; [|exact I]. apply run_all_true. intros f p d _. apply HF.
  Qed.

  Lemma run_all_in (Q : filt -> option parms -> bytes -> Prop) dp : forall fs,
    (forall f i d, In f fs -> Q f (get_filter_params dp i) d) -> forall i d, run_all Q fs i dp d.
  Proof.
    induction fs as [|f fs IH]; intros HQ i d; cbn [run_all]; [trivial|].
    split; [apply HQ; left; reflexivity|].
    destruct (afwp f (get_filter_params dp i) d); [apply IH; intros; apply HQ; right; assumption|exact I].
  Qed.

  (** no /Predictor in any DecodeParms and no Flate stage (hex, 85, LZW, RunLength in any order, EarlyChange
      free): fitting buffers are all that is needed — no hypothesis on Flate or predictors remains *)
  Theorem bounded_agrees_no_predictor fs dp data L r : ~ In FFlate fs -> (forall i, no_pred (get_filter_params dp i)) ->
    decode_stream zlib recover (Some fs) dp data = Some r ->
    buffers_fit (Some fs) dp data L -> decode_stream_lim zlib (Some fs) dp data L = Some r.
  Proof.
    intros Hn Hnp H Hb. apply bounded_agrees; try assumption.
    - unfold predictors_ok. apply run_all_in. intros f i d _. unfold stage_pred_ok.
      destruct (raw_stage f (get_filter_params dp i) d); [|exact I]. apply no_pred_agrees. apply Hnp.
    - unfold flate_ok. apply run_all_in. intros f i d Hin Hf. subst f. contradiction.
  Qed.

  (** * monotonicity of the bounded driver in its limit *)
  Lemma stage_lim_mono f p d L L' o : slim f p d L = Some o -> L <= L' -> slim f p d L' = Some o.
  Proof.
    rewrite !stage_lim_split. intros H HL.
    destruct (raw_lim f p d L) as [dec|] eqn:E; [|discriminate].
    assert (raw_lim f p d L' = Some dec) as ->.
    { destruct f; cbn [raw_lim] in *.
      - eapply hex_ag; [exact E|]. apply hex_le in E. lia.
      - eapply a85_ag; [exact E|]. apply a85_le in E. lia.
      - apply lzw_mono with (L := L); assumption.
      - unfold decode_flate_lim in *. destruct (zlib d) as [o'|]; [|discriminate].
        destruct (L <? len o') eqn:E1; [discriminate|]. replace (L' <? len o') with false by lia. exact E.
      - eapply rl_ag; [exact E|]. apply rl_le in E. lia.
      - discriminate. }
    destruct (pred_lim f p dec) as [o'|]; [|discriminate].
    destruct (L <? len o') eqn:E1; [discriminate|]. replace (L' <? len o') with false by lia. exact H.
  Qed.

  Lemma chain_loop_lim_mono : forall fs i dp d L L' r, chain_loop_lim zlib fs i dp d L = Some r -> L <= L' ->
    chain_loop_lim zlib fs i dp d L' = Some r.
  Proof.
    induction fs as [|f fs IH]; intros i dp d L L' r H HL; [exact H|]. cbn [chain_loop_lim] in *.
    destruct (slim f (get_filter_params dp i) d L) as [o|] eqn:E; [|discriminate].
    rewrite (stage_lim_mono _ _ _ _ _ _ E HL). eapply IH; eassumption.
  Qed.

  Theorem bounded_monotone fk dp data L L' r : decode_stream_lim zlib fk dp data L = Some r -> L <= L' ->
    decode_stream_lim zlib fk dp data L' = Some r.
  Proof.
    unfold decode_stream_lim, copy_with_limit. intros H HL. destruct fk as [[|f fs]|].
    - destruct (L <? len data) eqn:E; [discriminate|]. replace (L' <? len data) with false by lia. exact H.
    - eapply chain_loop_lim_mono; eassumption.
    - destruct (L <? len data) eqn:E; [discriminate|]. replace (L' <? len data) with false by lia. exact H.
  Qed.
End Flate.

(** * the hypotheses are satisfiable on non-trivial runs, and both divergences are real *)
Definition ex_png : parms := mkP (Some 12%Z) (Some 3%Z) None None None.
(** two rows of three bytes, row filter Up *)
Definition ex_rows : bytes := [2; 1; 2; 3; 2; 1; 1; 1].
Definition ex_chain_data : bytes := Eval vm_compute in encode_hex (lzw_encode true ex_rows).
Definition ex_dp : dparms := DPArray [None; Some ex_png].
Definition ex_zlib : bytes -> option bytes := fun _ => None.
Definition ex_recover : bytes -> bytes := fun d => d.

(** /Filter [/ASCIIHexDecode /LZWDecode] with a PNG predictor on the LZW stage: all hypotheses of
    [bounded_agrees] hold for L = the largest buffer (the hex stage's output = the LZW code stream, 11 bytes; the LZW
    output before the predictor has 8), the result has 6 bytes, and one less than the peak is rejected although the result would fit *)
Ltac conj_tree := repeat match goal with |- _ /\ _ => split end; try exact I; let H := fresh in intros H; discriminate H.
Example bounded_agrees_nonvacuous :
  decode_stream ex_zlib ex_recover (Some [FHex; FLzw]) ex_dp ex_chain_data = Some [1; 2; 3; 2; 3; 4] /\
  buffers_fit ex_zlib ex_recover (Some [FHex; FLzw]) ex_dp ex_chain_data 11 /\
  predictors_ok ex_zlib ex_recover (Some [FHex; FLzw]) ex_dp ex_chain_data /\
  flate_ok ex_zlib ex_recover (Some [FHex; FLzw]) ex_dp ex_chain_data /\
  decode_stream_lim ex_zlib (Some [FHex; FLzw]) ex_dp ex_chain_data 11 = Some [1; 2; 3; 2; 3; 4] /\
  decode_stream_lim ex_zlib (Some [FHex; FLzw]) ex_dp ex_chain_data 10 = None.
Proof.
  split; [vm_compute; reflexivity|]. split; [|split; [|split; [|split; vm_compute; reflexivity]]].
  - cbn [buffers_fit run_all]. vm_compute. conj_tree.
  - cbn [predictors_ok run_all]. vm_compute. conj_tree.
  - cbn [flate_ok run_all]. vm_compute. conj_tree.
Qed.

(** divergence (a): LZW + PNG predictor over data whose length is not a multiple of the row size *)
Example predictor_error_swallowed_vs_propagated :
  let d := lzw_encode true [2; 1; 2; 3; 2] in
  decode_stream ex_zlib ex_recover (Some [FLzw]) (DPDict ex_png) d = Some [2; 1; 2; 3; 2] /\
  decode_stream_lim ex_zlib (Some [FLzw]) (DPDict ex_png) d 100 = None.
Proof. vm_compute. split; reflexivity. Qed.

(** divergence (b): a /Predictor on a text filter is applied by the unbounded driver only *)
Example predictor_after_text_filter :
  let d := encode_hex ex_rows in
  decode_stream ex_zlib ex_recover (Some [FHex]) (DPDict ex_png) d = Some [1; 2; 3; 2; 3; 4] /\
  decode_stream_lim ex_zlib (Some [FHex]) (DPDict ex_png) d 100 = Some ex_rows.
Proof. vm_compute. split; reflexivity. Qed.

(** the Flate hypothesis is satisfiable: an inflate that succeeds (here the identity) agrees at every input
    whose output passes the ceiling/ratio tests *)
Example flate_hypothesis_satisfiable :
  FlateAgreesAt (fun d => Some d) ex_recover None [1; 2; 3] /\
  decode_stream (fun d => Some d) ex_recover (Some [FFlate]) DPNone [1; 2; 3] = Some [1; 2; 3].
Proof. split; [apply flate_std_agrees; vm_compute; discriminate | vm_compute; reflexivity]. Qed.

Example bounded_monotone_nonvacuous :
  decode_stream_lim ex_zlib (Some [FHex; FLzw]) ex_dp ex_chain_data 11 = Some [1; 2; 3; 2; 3; 4] /\ (11 <= 4096)%N.
Proof. split; vm_compute; congruence. Qed.
