(** C07 — code-shaped model of decode_lzw_with_limit and LzwBitReader (parser/filters.rs).

    Representation choices (documented abstractions of the Rust data structures):
    * the bit reader (byte_pos, bit_pos, MSB first) is the list of the bits not yet read;
      read_bits n returns None when fewer than n bits remain (the Rust reader returns None
      from inside its loop when byte_pos reaches the end; the partially read bits are lost in
      both, and the decode loop stops);
    * `dictionary: Vec<Vec<u8>>`: entries 0..255 are the one-byte strings, 256/257 are empty,
      entries from 258 on are kept newest-first in [rdict] together with the vector length
      [dlen] = dictionary.len(). *)
From OxVerif Require Import Base.Util C07.Filters.
From OxGen Require Import FilterConsts.

Definition bits_of_byte (b : N) : list bool :=
  [N.testbit b 7; N.testbit b 6; N.testbit b 5; N.testbit b 4;
   N.testbit b 3; N.testbit b 2; N.testbit b 1; N.testbit b 0].
Fixpoint bits_of (d : bytes) : list bool :=
  match d with [] => [] | b :: r => bits_of_byte b ++ bits_of r end.

(** MSB-first accumulation: result = (result << 1) | bit *)
Fixpoint take_bits (n : nat) (bs : list bool) (acc : N) : option (N * list bool) :=
  match n with
  | O => Some (acc, bs)
  | S k => match bs with
           | [] => None
           | b :: r => take_bits k r (2 * acc + (if b then 1 else 0))
           end
  end.
Definition read_bits (n : N) (bs : list bool) : option (N * list bool) :=
  if (n =? 0) || (16 <? n) then None else take_bits (N.to_nat n) bs 0.

Definition dict_get (rdict : list bytes) (dlen code : N) : bytes :=
  if code <? 256 then [code]
  else if code <? 258 then []
  else nth (N.to_nat (dlen - 1 - code)) rdict [].

Definition hd0 (s : bytes) : N := match s with b :: _ => b | [] => 0 end.

Fixpoint lzw_loop (fuel : nat) (ec : bool) (bs : list bool) (rdict : list bytes) (dlen : N)
         (code_size : N) (prev : option N) (n L : N) : option bytes :=
  match fuel with
  | O => Some []
  | S f =>
      match read_bits code_size bs with
      | None => Some []
      | Some (c, bs') =>
          let code := c mod 65536 in                       (* c as u16 *)
          if code =? EOD_CODE then Some []
          else if code =? CLEAR_CODE then lzw_loop f ec bs' [] 258 MIN_BITS None n L
          else
            match prev with
            | Some p =>
                let string_ :=
                  if code <? dlen then Some (dict_get rdict dlen code)
                  else if code =? dlen then
                    let s := dict_get rdict dlen p in Some (s ++ [hd0 s])
                  else None in
                match string_ with
                | None => None
                | Some s =>
                    let n' := n + len s in
                    if L <? n' then None
                    else
                      let '(rdict', dlen', cs') :=
                        if dlen <? LZW_TABLE_MAX then
                          let entry := dict_get rdict dlen p ++ [hd0 s] in
                          let dict_size := dlen + 1 in
                          let threshold := if ec then 2 ^ code_size - 1 else 2 ^ code_size in
                          (entry :: rdict, dict_size,
                           if (threshold <=? dict_size) && (code_size <? MAX_BITS) then code_size + 1 else code_size)
                        else (rdict, dlen, code_size) in
                      napp s (lzw_loop f ec bs' rdict' dlen' cs' (Some code) n' L)
                end
            | None =>
                if code <? dlen then
                  let s := dict_get rdict dlen code in
                  napp s (lzw_loop f ec bs' rdict dlen code_size (Some code) (n + len s) L)
                else None
            end
      end
  end.

(** EarlyChange: params.and_then(get "EarlyChange").and_then(as_integer).map(v != 0).unwrap_or(true) *)
Definition early_of (e : option Z) : bool :=
  match e with Some z => negb (z =? 0)%Z | None => true end.

Definition decode_lzw_lim (d : bytes) (ec : bool) (L : N) : option bytes :=
  let bs := bits_of d in
  lzw_loop (S (length bs / 9)) ec bs [] 258 MIN_BITS None 0 L.
Definition decode_lzw (d : bytes) (ec : bool) : option bytes := decode_lzw_lim d ec MAX_DECOMPRESSED_SIZE.
