(** C07/C08 — ASCII85: limit lemmas and the round trip against the ISO relation. *)
From OxVerif Require Import Base.Util C07.Filters C07.Codecs C07.ProofsBasic.
From OxGen Require Import FilterConsts.
Require Import Lia ZifyBool.

Lemma push_each_le : forall bs n L r, push_each bs n L = Some r -> n <= L -> n + len r <= L /\ r = bs.
Proof.
  induction bs as [|b bs IH]; intros n L r H Hn; cbn in H.
  - inversion H. rewrite len_nil. split; [lia | reflexivity].
  - destruct (L <=? n) eqn:E; [discriminate|]. destruct (push_each bs (n + 1) L) eqn:E2; [|discriminate].
    inversion H. apply IH in E2; [|lia]. destruct E2 as [E2 ->]. rewrite len_cons. split; [lia | reflexivity].
Qed.
Lemma push_each_ok : forall bs n L, n + len bs <= L -> push_each bs n L = Some bs.
Proof.
  induction bs as [|b bs IH]; intros n L H; cbn; [reflexivity|]. rewrite len_cons in H.
  replace (L <=? n) with false by lia. rewrite IH by lia. reflexivity.
Qed.

Lemma a85_final_le g n L r : a85_final g n L = Some r -> n <= L -> n + len r <= L.
Proof.
  unfold a85_final. destruct g; [intros H; inversion H; rewrite len_nil; lia|].
  destruct (a85_value _); [|discriminate]. intros H Hn. apply push_each_le in H; [lia | exact Hn].
Qed.
Lemma a85_final_ag g n L L' r : a85_final g n L = Some r -> n <= L -> n + len r <= L' -> a85_final g n L' = Some r.
Proof.
  unfold a85_final. destruct g; [auto|].
  destruct (a85_value _); [|discriminate]. intros H Hn HL. apply push_each_le in H; [|exact Hn].
  destruct H as [_ ->]. apply push_each_ok, HL.
Qed.

Lemma ext_ok_spec k n L : ext_ok k n L = true <-> (n + k <= L \/ k = 0).
Proof. unfold ext_ok. lia. Qed.

Lemma len_be4 v : len (be4 v) = 4. Proof. reflexivity. Qed.

Lemma a85_loop_le : forall s g n L r, a85_loop s g n L = Some r -> n <= L -> n + len r <= L.
Proof.
  induction s as [|c s IH]; intros g n L r H Hn; cbn [a85_loop] in H.
  - eapply a85_final_le; eassumption.
  - destruct (c =? 126).
    { destruct s as [|x ?]; [discriminate|]. destruct (x =? 62); [|discriminate]. eapply a85_final_le; eassumption. }
    destruct ((c =? 122) && _).
    { destruct (ext_ok 4 n L) eqn:E; [|discriminate]. apply ext_ok_spec in E.
      destruct (a85_loop s g (n + 4) L) eqn:E2; [|discriminate]. inversion H. apply IH in E2; [|lia].
      rewrite !len_cons. lia. }
    destruct ((33 <=? c) && (c <=? 117)); [|discriminate].
    destruct (length (g ++ [c]) =? 5)%nat.
    + destruct (a85_value _); [|discriminate]. destruct (ext_ok 4 n L) eqn:E; [|discriminate]. apply ext_ok_spec in E.
      destruct (a85_loop s [] (n + 4) L) eqn:E2; [|discriminate]. inversion H. apply IH in E2; [|lia].
      unfold be4; cbn [app]; rewrite ?len_cons; lia.
    + eapply IH; eassumption.
Qed.

Lemma a85_loop_ag : forall s g n L L' r, a85_loop s g n L = Some r -> n <= L -> n + len r <= L' ->
  a85_loop s g n L' = Some r.
Proof.
  induction s as [|c s IH]; intros g n L L' r H Hn HL; cbn [a85_loop] in *.
  - eapply a85_final_ag; eassumption.
  - destruct (c =? 126).
    { destruct s as [|x ?]; [discriminate|]. destruct (x =? 62); [|discriminate]. eapply a85_final_ag; eassumption. }
    destruct ((c =? 122) && _).
    { destruct (ext_ok 4 n L) eqn:E; [|discriminate]. apply ext_ok_spec in E.
      destruct (a85_loop s g (n + 4) L) eqn:E2; [|discriminate]. inversion H. subst r.
      cbn [app] in HL. rewrite !len_cons in HL.
      replace (ext_ok 4 n L') with true by (symmetry; apply ext_ok_spec; lia).
      erewrite IH; [reflexivity | exact E2 | lia | lia]. }
    destruct ((33 <=? c) && (c <=? 117)); [|discriminate].
    destruct (length (g ++ [c]) =? 5)%nat.
    + destruct (a85_value _); [|discriminate]. destruct (ext_ok 4 n L) eqn:E; [|discriminate]. apply ext_ok_spec in E.
      destruct (a85_loop s [] (n + 4) L) eqn:E2; [|discriminate]. inversion H. subst r.
      unfold be4 in HL; cbn [app] in HL; rewrite ?len_cons in HL.
      replace (ext_ok 4 n L') with true by (symmetry; apply ext_ok_spec; lia).
      erewrite IH; [reflexivity | exact E2 | lia | lia].
    + eapply IH; eassumption.
Qed.

Theorem a85_le d L r : decode_a85_lim d L = Some r -> len r <= L.
Proof. intros H. apply a85_loop_le in H; lia. Qed.
Theorem a85_ag d L L' r : decode_a85_lim d L = Some r -> len r <= L' -> decode_a85_lim d L' = Some r.
Proof. intros H HL. eapply a85_loop_ag; [exact H | lia | lia]. Qed.

(** * round trip *)
Lemma dig_range v k : 33 <= dig v k <= 117.
Proof. unfold dig. assert (H : (v / 85 ^ k) mod 85 < 85) by (apply N.mod_lt; discriminate).
  remember ((v / 85 ^ k) mod 85) as m. clear Heqm. lia. Qed.

Lemma divs85 v : (v / 85 ^ 4 = v / 85 / 85 / 85 / 85) /\ (v / 85 ^ 3 = v / 85 / 85 / 85) /\ (v / 85 ^ 2 = v / 85 / 85)
                 /\ (v / 85 ^ 1 = v / 85) /\ (v / 85 ^ 0 = v).
Proof.
  change (85 ^ 4) with (85 * 85 * 85 * 85). change (85 ^ 3) with (85 * 85 * 85). change (85 ^ 2) with (85 * 85).
  change (85 ^ 1) with 85. change (85 ^ 0) with 1.
  rewrite <- !N.div_div by discriminate. rewrite N.div_1_r. repeat split.
Qed.
Ltac use_divs85 v :=
  destruct (divs85 v) as (D4 & D3 & D2 & D1 & D0); rewrite ?D4, ?D3, ?D2, ?D1, ?D0; clear D4 D3 D2 D1 D0;
  let q1 := fresh "q1" in let q2 := fresh "q2" in let q3 := fresh "q3" in let q4 := fresh "q4" in
  set (q1 := v / 85) in *; set (q2 := q1 / 85) in *; set (q3 := q2 / 85) in *; set (q4 := q3 / 85) in *;
  assert (v = 85 * q1 + v mod 85) by (apply N.div_mod; discriminate);
  assert (q1 = 85 * q2 + q1 mod 85) by (apply N.div_mod; discriminate);
  assert (q2 = 85 * q3 + q2 mod 85) by (apply N.div_mod; discriminate);
  assert (q3 = 85 * q4 + q3 mod 85) by (apply N.div_mod; discriminate);
  assert (q4 = 85 * (q4 / 85) + q4 mod 85) by (apply N.div_mod; discriminate);
  assert (v mod 85 < 85) by (apply N.mod_lt; discriminate);
  assert (q1 mod 85 < 85) by (apply N.mod_lt; discriminate);
  assert (q2 mod 85 < 85) by (apply N.mod_lt; discriminate);
  assert (q3 mod 85 < 85) by (apply N.mod_lt; discriminate);
  assert (q4 mod 85 < 85) by (apply N.mod_lt; discriminate);
  generalize dependent (v mod 85); generalize dependent (q1 mod 85); generalize dependent (q2 mod 85);
  generalize dependent (q3 mod 85); generalize dependent (q4 mod 85); generalize dependent (q4 / 85);
  intros.

(** digits of a 32-bit value recombine to it *)
Lemma digits5_value v : v < 4294967296 -> a85_value (digits5 v) = Some v.
Proof.
  intros Hv. unfold a85_value, digits5, dig. cbn [fold_left].
  use_divs85 v.
  match goal with |- (if ?a <? _ then _ else _) = _ => assert (E : a = v) end.
  { lia. }
  rewrite E. replace (v <? 4294967296) with true by lia. reflexivity.
Qed.

Lemma dm_step a b : b < 256 -> (a * 256 + b) / 256 = a /\ (a * 256 + b) mod 256 = b.
Proof.
  intros H. split.
  - symmetry. apply N.div_unique with b; lia.
  - symmetry. apply N.mod_unique with a; lia.
Qed.
Lemma be4_val4 b0 b1 b2 b3 : b0 < 256 -> b1 < 256 -> b2 < 256 -> b3 < 256 ->
  be4 (val4 b0 b1 b2 b3) = [b0; b1; b2; b3].
Proof.
  intros H H0 H1 H2. unfold be4, val4.
  change 16777216 with (256*256*256). change 65536 with (256*256).
  rewrite <- !N.div_div by discriminate.
  destruct (dm_step ((b0 * 256 + b1) * 256 + b2) b3 H2) as [-> ->].
  destruct (dm_step (b0 * 256 + b1) b2 H1) as [-> ->].
  destruct (dm_step b0 b1 H0) as [-> ->].
  rewrite (N.mod_small b0) by lia. reflexivity.
Qed.
Lemma div_shift v w j : j <> 0 -> v mod j = 0 -> v <= w < v + j -> w / j = v / j.
Proof.
  intros Hj Hm Hw. pose proof (N.div_mod v j Hj) as D. rewrite Hm in D.
  symmetry. apply N.div_unique with (w - v); lia.
Qed.
Lemma val4_lt b0 b1 b2 b3 : b0 < 256 -> b1 < 256 -> b2 < 256 -> b3 < 256 -> val4 b0 b1 b2 b3 < 4294967296.
Proof. unfold val4. lia. Qed.

(** one step of the loop on a digit *)
Lemma a85_step_digit c s g n L : 33 <= c <= 117 ->
  a85_loop (c :: s) g n L =
  if (length (g ++ [c]) =? 5)%nat then
    match a85_value (g ++ [c]) with
    | None => None
    | Some v => if ext_ok 4 n L then napp (be4 v) (a85_loop s [] (n + 4) L) else None
    end
  else a85_loop s (g ++ [c]) n L.
Proof.
  intros H. cbn [a85_loop]. replace (c =? 126) with false by lia. replace (c =? 122) with false by lia.
  cbn [andb]. replace ((33 <=? c) && (c <=? 117)) with true by lia. reflexivity.
Qed.

Lemma a85_five v s n L : v < 4294967296 -> n + 4 <= L ->
  a85_loop (digits5 v ++ s) [] n L = napp (be4 v) (a85_loop s [] (n + 4) L).
Proof.
  intros Hv HL. unfold digits5. cbn [app].
  rewrite a85_step_digit by apply dig_range. cbn [app length Nat.eqb].
  rewrite a85_step_digit by apply dig_range. cbn [app length Nat.eqb].
  rewrite a85_step_digit by apply dig_range. cbn [app length Nat.eqb].
  rewrite a85_step_digit by apply dig_range. cbn [app length Nat.eqb].
  rewrite a85_step_digit by apply dig_range. cbn [app length Nat.eqb].
  fold (digits5 v). rewrite digits5_value by exact Hv.
  replace (ext_ok 4 n L) with true by (symmetry; apply ext_ok_spec; lia). reflexivity.
Qed.

(** partial final group: k+1 digits of the zero-padded value, padded with `u` by the decoder *)
Lemma a85_partial k (Hk : (1 <= k <= 3)%nat) v n L :
  v < 4294967296 -> v mod 256 ^ N.of_nat (4 - k) = 0 -> n + N.of_nat k <= L ->
  a85_loop (firstn (S k) (digits5 v) ++ [126; 62]) [] n L = Some (firstn k (be4 v)).
Proof.
  intros Hv Hz HL.
  assert (K : k = 1%nat \/ k = 2%nat \/ k = 3%nat) by lia.
  assert (EOD : forall g, a85_loop [126; 62] g n L = a85_final g n L) by reflexivity.
  Ltac Zify.zify_post_hook ::= Z.div_mod_to_equations.
  destruct K as [-> | [-> | ->]]; unfold digits5; cbn [firstn app];
    repeat (rewrite a85_step_digit by apply dig_range; cbn [app length Nat.eqb]);
    rewrite EOD; unfold a85_final; cbn [length repeat app Nat.sub];
    unfold a85_value; cbn [fold_left]; unfold dig; use_divs85 v; cbn in Hz.
  - change (256 ^ 3) with 16777216 in Hz.
    match goal with |- context [?a <? 4294967296] =>
      assert (E : v <= a < v + 16777216) by lia; set (w := a) in * end.
    pose proof (N.div_mod v 16777216 ltac:(discriminate)) as DV; rewrite Hz in DV.
    replace (w <? 4294967296) with true by lia.
    rewrite push_each_ok by (unfold len; cbn; lia).
    unfold be4. cbn [firstn]. rewrite (div_shift v w 16777216) by (try discriminate; assumption). reflexivity.
  - change (256 ^ 2) with 65536 in Hz.
    match goal with |- context [?a <? 4294967296] =>
      assert (E : v <= a < v + 65536) by lia; set (w := a) in * end.
    pose proof (N.div_mod v 65536 ltac:(discriminate)) as DV; rewrite Hz in DV.
    replace (w <? 4294967296) with true by lia.
    rewrite push_each_ok by (unfold len; cbn; lia).
    unfold be4. cbn [firstn]. change 16777216 with (65536 * 256). rewrite <- !N.div_div by discriminate.
    rewrite (div_shift v w 65536) by (try discriminate; assumption). reflexivity.
  - change (256 ^ 1) with 256 in Hz.
    match goal with |- context [?a <? 4294967296] =>
      assert (E : v <= a < v + 256) by lia; set (w := a) in * end.
    pose proof (N.div_mod v 256 ltac:(discriminate)) as DV; rewrite Hz in DV.
    replace (w <? 4294967296) with true by lia.
    rewrite push_each_ok by (unfold len; cbn; lia).
    unfold be4. cbn [firstn]. change 16777216 with (256 * 65536). change 65536 with (256 * 256).
    rewrite <- !N.div_div by discriminate.
    rewrite (div_shift v w 256) by (try discriminate; assumption). reflexivity.
Qed.

Lemma a85_loop_enc s x : a85_enc s x -> forall n L, n + len x <= L -> a85_loop s [] n L = Some x.
Proof.
  induction 1 as [|s x H IH|b0 b1 b2 b3 s x H0 H1 H2 H3 H IH|b0 H0|b0 b1 H0 H1|b0 b1 b2 H0 H1 H2]; intros n L HL.
  - reflexivity.
  - rewrite !len_cons in HL. cbn [a85_loop]. change (122 =? 126) with false. change (122 =? 122) with true. cbn [andb].
    replace (ext_ok 4 n L) with true by (symmetry; apply ext_ok_spec; lia). rewrite IH by lia. reflexivity.
  - rewrite !len_cons in HL. rewrite a85_five by (try apply val4_lt; auto; lia).
    rewrite IH by lia. rewrite be4_val4 by assumption. reflexivity.
  - rewrite len_cons, len_nil in HL.
    rewrite (a85_partial 1); [rewrite be4_val4 by lia; reflexivity | lia | apply val4_lt; lia | | lia].
    unfold val4. change (256 ^ N.of_nat (4 - 1)) with 16777216.
    replace (((b0 * 256 + 0) * 256 + 0) * 256 + 0) with (b0 * 16777216) by lia. apply N.mod_mul. discriminate.
  - rewrite !len_cons, len_nil in HL.
    rewrite (a85_partial 2); [rewrite be4_val4 by lia; reflexivity | lia | apply val4_lt; lia | | lia].
    unfold val4. change (256 ^ N.of_nat (4 - 2)) with 65536.
    replace (((b0 * 256 + b1) * 256 + 0) * 256 + 0) with ((b0 * 256 + b1) * 65536) by lia. apply N.mod_mul. discriminate.
  - rewrite !len_cons, len_nil in HL.
    rewrite (a85_partial 3); [rewrite be4_val4 by lia; reflexivity | lia | apply val4_lt; lia | | lia].
    unfold val4. change (256 ^ N.of_nat (4 - 3)) with 256.
    replace (((b0 * 256 + b1) * 256 + b2) * 256 + 0) with (((b0 * 256 + b1) * 256 + b2) * 256) by lia. apply N.mod_mul. discriminate.
Qed.

(** an encoding never starts with `<~` unless it is the lead-in: `~` is not a digit *)
Lemma a85_enc_no_prefix s x r : a85_enc s x -> s <> 60 :: 126 :: r.
Proof.
  intros H E. destruct H; try discriminate.
  - unfold digits5 in E. cbn in E. injection E as _ E _. pose proof (dig_range (val4 b0 b1 b2 b3) 3). lia.
  - cbn in E. injection E as _ E _. pose proof (dig_range (val4 b0 0 0 0) 3). lia.
  - cbn in E. injection E as _ E _. pose proof (dig_range (val4 b0 b1 0 0) 3). lia.
  - cbn in E. injection E as _ E _. pose proof (dig_range (val4 b0 b1 b2 0) 3). lia.
Qed.

Theorem a85_roundtrip_rel e x L : a85_encodes e x -> len x <= L -> decode_a85_lim e L = Some x.
Proof.
  unfold a85_encodes, decode_a85_lim. rewrite strip_iso. intros [H | [s [E H]]] HL.
  - assert (P : a85_skip_prefix (iso_strip e) = iso_strip e).
    { unfold a85_skip_prefix. destruct (iso_strip e) as [|c1 [|c2 r]] eqn:Es; try reflexivity.
      destruct ((c1 =? 60) && (c2 =? 126)) eqn:E; [|reflexivity].
      exfalso. eapply (a85_enc_no_prefix _ _ r); [exact H|]. f_equal; [lia|]. f_equal. lia. }
    rewrite P. apply a85_loop_enc; [exact H | lia].
  - rewrite E. unfold a85_skip_prefix. change ((60 =? 60) && (126 =? 126)) with true. cbv iota. apply a85_loop_enc; [exact H | lia].
Qed.
