(** C07/C08 — code-shaped models of parser/filters.rs: ASCIIHex, ASCII85, RunLength
    decoders (each written once with the output limit as a parameter, exactly as the
    Rust `_with_limit` functions; the unbounded entry passes MAX_DECOMPRESSED_SIZE),
    push_bounded / extend_bounded, the predictor, and the two chain drivers
    decode_stream / decode_stream_with_limit.

    Results: [Some r] = Ok(r), [None] = Err(_).  The model is of the tree WITH the fix
    patches of this package applied (ASCII85 group value computed in u64 with a range
    check; `<` not followed by `~` no longer swallows a character; NUL is white space;
    bytes_per_pixel uses checked_mul; `/Filter []` bounded = copy_with_limit), so no
    modelled path can panic.

    The Rust loops push onto a growing Vec; here every loop returns the bytes it still
    has to push and carries [n] = result.len() so far, which is all the code reads of
    the vector (the limit tests). *)
From OxVerif Require Import Base.Util.
From OxGen Require Import FilterConsts.

Definition len (l : bytes) : N := N.of_nat (length l).
Definition omap {A B} (f : A -> B) (o : option A) : option B :=
  match o with Some a => Some (f a) | None => None end.
Definition ncons (b : N) := omap (cons b).
Definition napp (l : bytes) := omap (app l).

(** PDF white space as the (fixed) decoders see it: u8::is_ascii_whitespace (HT LF FF CR SP) plus NUL *)
Definition is_ws (b : N) : bool :=
  (b =? 9) || (b =? 10) || (b =? 12) || (b =? 13) || (b =? 32) || (b =? 0).
Definition nonws (b : N) : bool := negb (is_ws b).
Definition strip (d : bytes) : bytes := filter nonws d.

(** * ASCIIHexDecode *)
Definition hex_digit_value (c : N) : option N :=
  if (48 <=? c) && (c <=? 57) then Some (c - 48)
  else if (65 <=? c) && (c <=? 70) then Some (c - 55)
  else if (97 <=? c) && (c <=? 102) then Some (c - 87)
  else None.

(** one iteration's tail: both digits known *)
Definition hex_emit (h l n L : N) (k : unit -> option bytes) : option bytes :=
  match hex_digit_value h with
  | None => None
  | Some hv =>
      match hex_digit_value l with
      | None => None
      | Some lv => if L <=? n then None (* push_bounded: len >= max *) else ncons (hv * 16 + lv) (k tt)
      end
  end.

Fixpoint hex_loop (chars : bytes) (n L : N) : option bytes :=
  match chars with
  | [] => Some []
  | h :: r =>
      if h =? 62 then Some []
      else match r with
           | [] => hex_emit h 48 n L (fun _ => Some [])
           | l :: r2 =>
               (* `>` in low position is replaced by `0`; the later `low == b'>'` test is dead, the loop goes on *)
               hex_emit h (if l =? 62 then 48 else l) n L (fun _ => hex_loop r2 (n + 1) L)
           end
  end.

Definition decode_hex_lim (d : bytes) (L : N) : option bytes := hex_loop (strip d) 0 L.
Definition decode_hex (d : bytes) : option bytes := decode_hex_lim d MAX_DECOMPRESSED_SIZE.

(** * ASCII85Decode *)
(** fixed code: value accumulated in u64 (at most 85^5-1), Err if above u32::MAX *)
Definition a85_value (g : bytes) : option N :=
  let v := fold_left (fun acc c => acc * 85 + (c - 33)) g 0 in
  if v <? 4294967296 then Some v else None.

Definition be4 (v : N) : bytes := [(v / 16777216) mod 256; (v / 65536) mod 256; (v / 256) mod 256; v mod 256].

(** extend_bounded: bytes.len() > max.saturating_sub(result.len()) -> Err *)
Definition ext_ok (k n L : N) : bool := negb (L - n <? k).

Fixpoint push_each (bs : bytes) (n L : N) : option bytes :=
  match bs with
  | [] => Some []
  | b :: r => if L <=? n then None else ncons b (push_each r (n + 1) L)
  end.

Definition a85_final (group : bytes) (n L : N) : option bytes :=
  match group with
  | [] => Some []
  | _ =>
      let original_len := length group in
      let padded := group ++ repeat 117 (5 - original_len) in
      match a85_value padded with
      | None => None
      | Some v => push_each (firstn (original_len - 1) (be4 v)) n L
      end
  end.

Fixpoint a85_loop (s : bytes) (group : bytes) (n L : N) : option bytes :=
  match s with
  | [] => a85_final group n L
  | c :: r =>
      if c =? 126 then
        match r with
        | x :: _ => if x =? 62 then a85_final group n L else None
        | [] => None
        end
      else if (c =? 122) && (match group with [] => true | _ => false end) then
        if ext_ok 4 n L then napp [0; 0; 0; 0] (a85_loop r group (n + 4) L) else None
      else if (33 <=? c) && (c <=? 117) then
        let g := group ++ [c] in
        if (length g =? 5)%nat then
          match a85_value g with
          | None => None
          | Some v => if ext_ok 4 n L then napp (be4 v) (a85_loop r [] (n + 4) L) else None
          end
        else a85_loop r g n L
      else None
  end.

(** optional `<~` prefix (fixed code: a `<` that is not followed by `~` is ordinary data and
    the following character is not consumed) *)
Definition a85_skip_prefix (s : bytes) : bytes :=
  match s with
  | c1 :: c2 :: r => if (c1 =? 60) && (c2 =? 126) then r else s
  | _ => s
  end.

Definition decode_a85_lim (d : bytes) (L : N) : option bytes := a85_loop (a85_skip_prefix (strip d)) [] 0 L.
Definition decode_a85 (d : bytes) : option bytes := decode_a85_lim d MAX_DECOMPRESSED_SIZE.

(** * RunLengthDecode *)
Fixpoint rl_loop (fuel : nat) (d : bytes) (n L : N) : option bytes :=
  match fuel with
  | O => Some []
  | S f =>
      match d with
      | [] => Some []
      | b :: r =>
          if b =? 128 then Some []
          else if b <? 128 then
            let count := b + 1 in
            if len r <? count then None
            else let n' := n + count in
                 if L <? n' then None
                 else napp (firstn (N.to_nat count) r) (rl_loop f (skipn (N.to_nat count) r) n' L)
          else
            match r with
            | [] => None
            | x :: r' =>
                let count := 257 - b in
                let n' := n + count in
                if L <? n' then None else napp (repeat x (N.to_nat count)) (rl_loop f r' n' L)
            end
      end
  end.

Definition decode_rl_lim (d : bytes) (L : N) : option bytes := rl_loop (length d) d 0 L.
Definition decode_rl (d : bytes) : option bytes := decode_rl_lim d MAX_DECOMPRESSED_SIZE.
