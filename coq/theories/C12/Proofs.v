(** C12 — proofs about the abstract subsetter of Model.v (all fonts, all character sets). *)
From Coq Require Import Sorting.Sorted Permutation.
From OxVerif Require Import Base.Util C12.Model.
Open Scope N_scope.

(** * Sets as lists *)
Lemma mem_in x l : mem x l = true <-> In x l.
Proof.
  unfold mem. rewrite existsb_exists. split.
  - intros [y [Hy E]]. apply N.eqb_eq in E. subst. exact Hy.
  - intros H. exists x. split; [exact H | apply N.eqb_refl].
Qed.
Lemma mem_nin x l : mem x l = false <-> ~ In x l.
Proof. rewrite <- mem_in. destruct (mem x l); split; congruence. Qed.

Lemma add_set_in x y l : In y (add_set x l) <-> y = x \/ In y l.
Proof.
  unfold add_set. destruct (mem x l) eqn:E; cbn; [|intuition].
  apply mem_in in E. split; [auto|]. intros [->|H]; assumption.
Qed.
Lemma add_set_nodup x l : NoDup l -> NoDup (add_set x l).
Proof.
  unfold add_set. destruct (mem x l) eqn:E; [auto|]. intros H. constructor; [|exact H].
  apply mem_nin. exact E.
Qed.

(** * The worklist loop *)
Definition closed (f : font) (s : list gid) : Prop :=
  forall g c, In g s -> In c (comp_gids (glyphs f g)) -> In c s.

Lemma visit_fold cl : forall nd wk nd' wk',
  fold_left visit cl (nd, wk) = (nd', wk') ->
  exists new, nd' = new ++ nd /\ wk' = new ++ wk
              /\ (forall x, In x new -> In x cl /\ ~ In x nd)
              /\ (forall c, In c cl -> In c nd')
              /\ (NoDup nd -> NoDup nd').
Proof.
  induction cl as [|c cl IH]; intros nd wk nd' wk' H; cbn in H.
  - injection H as <- <-. exists []. cbn. repeat split; auto; intros ? [].
  - destruct (mem c nd) eqn:E.
    + destruct (IH _ _ _ _ H) as [new [-> [-> [Hn [Hc Hd]]]]].
      exists new. repeat split; auto.
      * destruct (Hn x H0). right. exact H1.
      * apply Hn. exact H0.
      * intros c0 [<-|Hin]; [|auto]. apply in_or_app. right. apply mem_in. exact E.
    + apply mem_nin in E.
      destruct (IH _ _ _ _ H) as [new [-> [-> [Hn [Hc Hd]]]]].
      exists (new ++ [c]). rewrite <- !app_assoc. cbn. repeat split; auto.
      * apply in_app_or in H0. destruct H0 as [H0|[<-|[]]]; [right; apply Hn; exact H0 | left; reflexivity].
      * apply in_app_or in H0. destruct H0 as [H0|[<-|[]]]; [|exact E].
        destruct (Hn x H0) as [_ Hx]. intros Hin. apply Hx. right. exact Hin.
      * intros c0 [<-|Hin]; [|auto]. apply in_or_app. right. left. reflexivity.
      * intros Hnd. apply Hd. constructor; assumption.
Qed.

Definition wl_inv (f : font) (nd wk : list gid) : Prop :=
  (forall g, In g wk -> In g nd)
  /\ (forall g, In g nd -> In g wk \/ forall c, In c (comp_gids (glyphs f g)) -> In c nd).

Lemma worklist_sound f : forall fuel nd wk R,
  worklist fuel f nd wk = Some R -> wl_inv f nd wk ->
  closed f R /\ (forall g, In g nd -> In g R).
Proof.
  induction fuel as [|k IH]; intros nd wk R H [I1 I2].
  - destruct wk; [|discriminate]. injection H as <-. split; [|auto].
    intros g c Hg Hc. destruct (I2 g Hg) as [[]|Hall]. apply Hall. exact Hc.
  - destruct wk as [|g rest].
    + injection H as <-. split; [|auto].
      intros g c Hg Hc. destruct (I2 g Hg) as [[]|Hall]. apply Hall. exact Hc.
    + cbn [worklist] in H. destruct (fold_left visit _ (nd, rest)) as [nd' wk'] eqn:E.
      destruct (visit_fold _ _ _ _ _ E) as [new [-> [-> [Hn [Hc _]]]]].
      destruct (IH _ _ _ H) as [Hcl Hsub].
      * split.
        -- intros x Hx. apply in_or_app. apply in_app_or in Hx. destruct Hx as [Hx|Hx]; [left; exact Hx|].
           right. apply I1. right. exact Hx.
        -- intros x Hx. apply in_app_or in Hx. destruct Hx as [Hx|Hx].
           ++ left. apply in_or_app. left. exact Hx.
           ++ destruct (I2 x Hx) as [[<-|Hw]|Hall].
              ** right. exact Hc.
              ** left. apply in_or_app. right. exact Hw.
              ** right. intros c Hcc. apply in_or_app. right. apply Hall. exact Hcc.
      * split; [exact Hcl|]. intros x Hx. apply Hsub. apply in_or_app. right. exact Hx.
Qed.

Lemma worklist_nodup f : forall fuel nd wk R,
  worklist fuel f nd wk = Some R -> NoDup nd -> NoDup R.
Proof.
  induction fuel as [|k IH]; intros nd wk R H Hd.
  - destruct wk; [|discriminate]. injection H as <-. exact Hd.
  - destruct wk as [|g rest]; [injection H as <-; exact Hd|].
    cbn [worklist] in H. destruct (fold_left visit _ (nd, rest)) as [nd' wk'] eqn:E.
    destruct (visit_fold _ _ _ _ _ E) as [new [-> [-> [_ [_ Hnd]]]]].
    eapply IH; [exact H | apply Hnd; exact Hd].
Qed.

Lemma seeds_nodup f cs : NoDup (seeds f cs).
Proof.
  unfold seeds. induction (filter_some (List.map (cmap f) cs)) as [|x l IH]; cbn.
  - constructor; [intros []|constructor].
  - apply add_set_nodup. exact IH.
Qed.

Lemma in_filter_some {A} (x : A) l : In x (filter_some l) <-> In (Some x) l.
Proof.
  induction l as [|[y|] l IH]; cbn; [tauto| |].
  - rewrite IH. split; intros [H|H]; auto; [left; congruence | left; congruence].
  - rewrite IH. split; [auto|]. intros [H|H]; [discriminate|exact H].
Qed.

Lemma seeds_in f cs g : In g (seeds f cs) <-> g = 0 \/ exists c, In c cs /\ cmap f c = Some g.
Proof.
  unfold seeds.
  assert (H : forall l, In g (fold_right add_set [0] l) <-> g = 0 \/ In g l).
  { induction l as [|x l IH]; cbn; [intuition|]. rewrite add_set_in, IH. intuition. }
  rewrite H, in_filter_some, in_map_iff. split; intros [E|[c Hc]]; auto; right; exists c; tauto.
Qed.

(** every component of a kept glyph is kept; the requested glyphs and .notdef are kept *)
Theorem closure_complete f cs kept :
  closure f cs = Some kept ->
  closed f kept /\ In 0 kept
  /\ (forall c g, In c cs -> cmap f c = Some g -> In g kept) /\ NoDup kept.
Proof.
  unfold closure. intros H.
  destruct (worklist_sound f _ _ _ _ H) as [Hc Hs].
  { split; [auto|]. intros g Hg. left. exact Hg. }
  repeat split; [exact Hc| | |].
  - apply Hs. apply seeds_in. left. reflexivity.
  - intros c g Hc1 Hc2. apply Hs. apply seeds_in. right. exists c. split; assumption.
  - eapply worklist_nodup; [exact H | apply seeds_nodup].
Qed.

(** * Termination: the fuel [nglyphs] suffices for fonts whose glyph references are in range *)
Definition wf (f : font) : Prop :=
  0 < nglyphs f
  /\ (forall c g, cmap f c = Some g -> g < nglyphs f)
  /\ (forall g c, In c (comp_gids (glyphs f g)) -> c < nglyphs f).

Lemma bounded_nodup_length (l : list N) n :
  NoDup l -> (forall x, In x l -> x < n) -> (length l <= N.to_nat n)%nat.
Proof.
  intros Hd Hb.
  assert (Hd' : NoDup (List.map N.to_nat l)).
  { apply FinFun.Injective_map_NoDup; [|exact Hd]. intros a b E. apply N2Nat.inj. exact E. }
  rewrite <- (map_length N.to_nat l), <- (seq_length (N.to_nat n) 0).
  apply NoDup_incl_length; [exact Hd'|].
  intros x Hx. apply in_map_iff in Hx. destruct Hx as [y [<- Hy]].
  apply in_seq. specialize (Hb y Hy). lia.
Qed.

Lemma worklist_total f n :
  (forall g c, In c (comp_gids (glyphs f g)) -> c < n) ->
  forall fuel (nd wk : list gid), NoDup nd -> (forall x, In x nd -> x < n) ->
  (length wk + N.to_nat n <= fuel + length nd)%nat ->
  worklist fuel f nd wk <> None.
Proof.
  intros Hcomp. induction fuel as [|k IH]; intros nd wk Hd Hb Hl.
  - pose proof (bounded_nodup_length nd n Hd Hb). destruct wk as [|g wk]; [discriminate|]. exfalso. change (length (g :: wk)) with (S (length wk)) in Hl. lia.
  - destruct wk as [|g rest]; [discriminate|].
    cbn [worklist]. destruct (fold_left visit (comp_gids (glyphs f g)) (nd, rest)) as [nd' wk'] eqn:E.
    destruct (visit_fold _ _ _ _ _ E) as [new [-> [-> [Hn [_ Hnd]]]]].
    apply IH.
    + apply Hnd. exact Hd.
    + intros x Hx. apply in_app_or in Hx. destruct Hx as [Hx|Hx]; [|auto].
      apply (Hcomp g). apply Hn. exact Hx.
    + rewrite !app_length. change (length (g :: rest)) with (S (length rest)) in Hl. lia.
Qed.

Theorem closure_terminates f cs : wf f -> exists kept, closure f cs = Some kept.
Proof.
  intros [H0 [Hc Hg]]. destruct (closure f cs) as [k|] eqn:E; [eexists; reflexivity|].
  exfalso. revert E. unfold closure.
  apply (worklist_total f (nglyphs f) Hg).
  - apply seeds_nodup.
  - intros x Hx. apply seeds_in in Hx. destruct Hx as [->|[c [_ Hx]]]; [exact H0 | eapply Hc; exact Hx].
  - lia.
Qed.

(** * Renumbering *)
Definition asc (l : list N) : Prop := StronglySorted N.lt l.

Lemma insert_in x y l : In y (insert x l) <-> y = x \/ In y l.
Proof.
  induction l as [|z l IH]; cbn; [intuition|].
  destruct (x <=? z); cbn; [intuition|]. rewrite IH. intuition.
Qed.
Lemma sort_in y l : In y (sort l) <-> In y l.
Proof.
  induction l as [|x l IH]; cbn; [tauto|]. rewrite insert_in, IH. intuition.
Qed.
Lemma insert_length x l : length (insert x l) = S (length l).
Proof. induction l as [|z l IH]; cbn; [reflexivity|]. destruct (x <=? z); cbn; [reflexivity|]. rewrite IH. reflexivity. Qed.
Lemma sort_length l : length (sort l) = length l.
Proof. induction l as [|x l IH]; [reflexivity|]. change (sort (x :: l)) with (insert x (sort l)). rewrite insert_length, IH. reflexivity. Qed.

Lemma insert_asc x l : asc l -> ~ In x l -> asc (insert x l).
Proof.
  unfold asc. induction l as [|z l IH]; intros Hs Hn; cbn.
  - constructor; constructor.
  - apply StronglySorted_inv in Hs. destruct Hs as [Hs Hf].
    destruct (x <=? z) eqn:E.
    + apply N.leb_le in E. assert (x < z) by (assert (x <> z) by (intros ->; apply Hn; left; reflexivity); lia).
      constructor; [constructor; assumption|]. constructor; [exact H|].
      rewrite Forall_forall in *. intros y Hy. specialize (Hf y Hy). lia.
    + apply N.leb_gt in E. constructor.
      * apply IH; [exact Hs|]. intros Hin. apply Hn. right. exact Hin.
      * rewrite Forall_forall in *. intros y Hy. apply insert_in in Hy. destruct Hy as [->|Hy]; [exact E|auto].
Qed.

Lemma sort_asc l : NoDup l -> asc (sort l).
Proof.
  induction 1 as [|x l Hn Hd IH]; cbn; [constructor|].
  apply insert_asc; [exact IH|]. rewrite sort_in. exact Hn.
Qed.

Lemma index_of_nth x l : forall i, index_of x l = Some i ->
  (N.to_nat i < length l)%nat /\ nth (N.to_nat i) l 0 = x.
Proof.
  induction l as [|y l IH]; cbn; intros i H; [discriminate|].
  destruct (x =? y) eqn:E.
  - injection H as <-. apply N.eqb_eq in E. subst. cbn. split; [lia|reflexivity].
  - destruct (index_of x l) as [j|]; [|discriminate]. injection H as <-.
    destruct (IH j eq_refl) as [H1 H2]. rewrite N2Nat.inj_succ. cbn. split; [lia|exact H2].
Qed.

Lemma index_of_in x l : In x l -> exists i, index_of x l = Some i.
Proof.
  induction l as [|y l IH]; cbn; intros H; [destruct H|].
  destruct (x =? y) eqn:E; [eexists; reflexivity|].
  destruct H as [->|H]; [rewrite N.eqb_refl in E; discriminate|].
  destruct (IH H) as [i ->]. eexists; reflexivity.
Qed.

Lemma index_of_some_in x l i : index_of x l = Some i -> In x l.
Proof.
  intros H. destruct (index_of_nth _ _ _ H) as [H1 <-]. apply nth_In. exact H1.
Qed.

Lemma index_of_mono l : asc l -> forall a b i j,
  index_of a l = Some i -> index_of b l = Some j -> a < b -> i < j.
Proof.
  unfold asc. induction l as [|y l IH]; intros Hs a b i j Ha Hb Hlt; cbn in *; [discriminate|].
  apply StronglySorted_inv in Hs. destruct Hs as [Hs Hf]. rewrite Forall_forall in Hf.
  destruct (a =? y) eqn:Ea; destruct (b =? y) eqn:Eb.
  - apply N.eqb_eq in Ea, Eb. lia.
  - injection Ha as <-. destruct (index_of b l); [|discriminate]. injection Hb as <-. lia.
  - apply N.eqb_eq in Eb. subst y.
    destruct (index_of a l) as [k|] eqn:Ek; [|discriminate].
    apply index_of_some_in in Ek. specialize (Hf a Ek). lia.
  - destruct (index_of a l) as [k|] eqn:Ek; [|discriminate].
    destruct (index_of b l) as [m|] eqn:Em; [|discriminate].
    injection Ha as <-. injection Hb as <-.
    specialize (IH Hs a b k m Ek Em Hlt). lia.
Qed.

Lemma index_of_zero l : asc l -> In 0 l -> index_of 0 l = Some 0.
Proof.
  intros Hs Hin. destruct l as [|y l]; [destruct Hin|]. cbn.
  destruct (0 =? y) eqn:E; [reflexivity|]. apply N.eqb_neq in E.
  apply StronglySorted_inv in Hs. destruct Hs as [_ Hf]. rewrite Forall_forall in Hf.
  destruct Hin as [->|Hin]; [congruence|]. specialize (Hf 0 Hin). lia.
Qed.

(** renumbering is a bijection from the kept set onto 0..N-1 that preserves order and keeps
    .notdef at 0 *)
Theorem renumber_bijective kept : NoDup kept ->
  (forall g, In g kept -> exists g', renumber kept g = Some g' /\ g' < N.of_nat (length kept))
  /\ (forall a b i, renumber kept a = Some i -> renumber kept b = Some i -> a = b)
  /\ (forall a b i j, renumber kept a = Some i -> renumber kept b = Some j -> a < b -> i < j)
  /\ (In 0 kept -> renumber kept 0 = Some 0)
  /\ (forall g g', renumber kept g = Some g' -> In g kept).
Proof.
  intros Hd. unfold renumber. repeat split.
  - intros g Hg. destruct (index_of_in g (sort kept)) as [i Hi]; [apply sort_in; exact Hg|].
    exists i. split; [exact Hi|]. destruct (index_of_nth _ _ _ Hi) as [H _].
    rewrite sort_length in H. lia.
  - intros a b i Ha Hb. destruct (index_of_nth _ _ _ Ha) as [_ <-]. destruct (index_of_nth _ _ _ Hb) as [_ <-].
    reflexivity.
  - apply index_of_mono. apply sort_asc. exact Hd.
  - intros H0. apply index_of_zero; [apply sort_asc; exact Hd | apply sort_in; exact H0].
  - intros g g' H. apply sort_in. eapply index_of_some_in. exact H.
Qed.

(** * The subset font simulates the original on kept glyphs *)
Lemma outline_flags_clear fl : outline_flags (N.ldiff fl 256) = outline_flags fl.
Proof. unfold outline_flags. rewrite N.ldiff_ldiff_l, N.lor_diag. reflexivity. Qed.

Lemma map_clear_last {B} (F : comp -> B) cs :
  (forall g fl tr, F (g, N.ldiff fl 256, tr) = F (g, fl, tr)) ->
  List.map F (clear_last cs) = List.map F cs.
Proof.
  intros HF. induction cs as [|[[g fl] tr] cs IH]; [reflexivity|].
  destruct cs as [|c cs]; [cbn; rewrite HF; reflexivity|].
  change (clear_last ((g, fl, tr) :: c :: cs)) with ((g, fl, tr) :: clear_last (c :: cs)).
  cbn [List.map]. rewrite IH. reflexivity.
Qed.

Section Simulation.
  Variables (f : font) (s : list gid) (m : N -> option gid).
  Hypothesis Hclosed : closed f s.
  Let f' := new_font f s m.

  Lemma new_glyph g g' : index_of g s = Some g' ->
    glyphs f' g' = strip (remap_composite (fun x => index_of x s) (glyphs f g))
    /\ hmtx f' g' = hmtx f g.
  Proof.
    intros H. destruct (index_of_nth _ _ _ H) as [Hl Hn]. cbn.
    rewrite Hn. replace (g' <? N.of_nat (length s)) with true; [split; reflexivity|].
    symmetry. apply N.ltb_lt. lia.
  Qed.

  Lemma flatten_sim : forall fuel g g', In g s -> index_of g s = Some g' ->
    flatten fuel f' g' = flatten fuel f g.
  Proof.
    induction fuel as [|k IH]; intros g g' Hin Hidx; [reflexivity|].
    cbn [flatten]. destruct (new_glyph g g' Hidx) as [-> _].
    pose proof (Hclosed g) as Hcl.
    destruct (glyphs f g) as [d il|cs il]; [reflexivity|].
    cbn [remap_composite strip]. f_equal.
    rewrite map_clear_last.
    2:{ intros. unfold place. cbn. rewrite outline_flags_clear. reflexivity. }
    rewrite map_map. apply map_ext_in. intros [[c fl] tr] Hc.
    assert (Hcs : In c s). { apply Hcl; [exact Hin|]. cbn. apply in_map_iff. exists (c, fl, tr). split; [reflexivity|exact Hc]. }
    destruct (index_of_in c s Hcs) as [c' Hc']. cbn. rewrite Hc'.
    rewrite (IH c c' Hcs Hc'). reflexivity.
  Qed.

  (** component references of the subset point at the renumbered components *)
  Lemma comps_renumbered g g' : In g s -> index_of g s = Some g' ->
    List.map Some (comp_gids (glyphs f' g')) = List.map (fun c => index_of c s) (comp_gids (glyphs f g)).
  Proof.
    intros Hin Hidx. destruct (new_glyph g g' Hidx) as [-> _].
    pose proof (fun c => Hclosed g c Hin) as Hcl. revert Hcl.
    destruct (glyphs f g) as [d il|cs il]; [reflexivity|]. cbn [remap_composite strip comp_gids].
    intros Hcl. rewrite map_clear_last by reflexivity. rewrite !map_map. apply map_ext_in.
    intros [[c fl] tr] Hc. cbn.
    destruct (index_of_in c s) as [c' ->]; [|reflexivity].
    apply Hcl. apply in_map_iff. exists (c, fl, tr). split; [reflexivity|exact Hc].
  Qed.
End Simulation.

(** every component reference in the subset points at the renumbered component *)
Theorem remap_consistent f cs kept f' :
  subset f cs = Some (Subset kept f') ->
  forall g g', index_of g kept = Some g' ->
    List.map Some (comp_gids (glyphs f' g')) = List.map (fun c => index_of c kept) (comp_gids (glyphs f g))
    /\ (forall c, In c (comp_gids (glyphs f g)) -> exists c', index_of c kept = Some c').
Proof.
  unfold subset. destruct (should_skip _ _); [discriminate|].
  destruct (closure f cs) as [k|] eqn:Ec; [|discriminate].
  destruct (_ || _); [discriminate|]. intros H. injection H as <- <-.
  destruct (closure_complete _ _ _ Ec) as [Hcl _].
  assert (Hcl' : closed f (sort k)).
  { intros g c Hg Hc. apply sort_in. apply -> sort_in in Hg. apply (Hcl g c); assumption. }
  intros g g' Hidx. pose proof (index_of_some_in _ _ _ Hidx) as Hin. split.
  - apply comps_renumbered; assumption.
  - intros c Hc. apply index_of_in. eapply Hcl'; eassumption.
Qed.

(** the kept list of a subset result is the ascending enumeration of the closure *)
Theorem subset_kept_is_sorted_closure f cs kept f' :
  subset f cs = Some (Subset kept f') ->
  exists k, closure f cs = Some k /\ kept = sort k /\ asc kept /\ index_of 0 kept = Some 0.
Proof.
  unfold subset. destruct (should_skip _ _); [discriminate|].
  destruct (closure f cs) as [k|] eqn:Ec; [|discriminate].
  destruct (_ || _); [discriminate|]. intros H. injection H as <- <-.
  destruct (closure_complete _ _ _ Ec) as [_ [H0 [_ Hd]]].
  exists k. repeat split; [apply sort_asc; exact Hd|].
  apply index_of_zero; [apply sort_asc; exact Hd | apply sort_in; exact H0].
Qed.

Theorem subset_total f cs : wf f -> exists r, subset f cs = Some r.
Proof.
  intros Hwf. unfold subset. destruct (should_skip _ _); [eexists; reflexivity|].
  destruct (closure_terminates f cs Hwf) as [k ->].
  destruct (_ || _); eexists; reflexivity.
Qed.

(** the property at table level: for every font, every character set, every requested character
    the original maps, the result maps it to a glyph with the same flattened outline (for every
    fuel, hence also in the limit) and the same advance *)
Theorem subset_preserves_glyph f cs r c g :
  subset f cs = Some r -> cmap f c = Some g -> In c cs ->
  exists g', cmap (result_font f r) c = Some g'
             /\ (forall fuel, flatten fuel (result_font f r) g' = flatten fuel f g)
             /\ advance (result_font f r) g' = advance f g.
Proof.
  intros Hs Hc Hin. unfold subset in Hs.
  assert (Hmem : mem c cs = true) by (apply mem_in; exact Hin).
  assert (Hfull : forall m, m = used_map f cs Some -> r = Full m ->
            exists g', cmap (result_font f r) c = Some g'
             /\ (forall fuel, flatten fuel (result_font f r) g' = flatten fuel f g)
             /\ advance (result_font f r) g' = advance f g).
  { intros m -> ->. exists g. cbn. unfold used_map. rewrite Hmem, Hc. split; [reflexivity|].
    split; [|reflexivity]. induction fuel as [|k IH]; [reflexivity|]. cbn.
    destruct (glyphs f g); [reflexivity|]. f_equal. apply map_ext. intros a.
    (* same glyph function: flatten only reads [glyphs] *)
    clear IH. revert a. induction k as [|k IHk]; [reflexivity|]. intros a. cbn.
    destruct (glyphs f (fst (fst a))); [reflexivity|]. f_equal. f_equal. apply map_ext. exact IHk. }
  destruct (should_skip _ _); [injection Hs as <-; eapply Hfull; reflexivity|].
  destruct (closure f cs) as [k|] eqn:Ec; [|discriminate].
  destruct (_ || _); [injection Hs as <-; eapply Hfull; reflexivity|].
  injection Hs as <-. clear Hfull.
  destruct (closure_complete _ _ _ Ec) as [Hcl [_ [Hreq _]]].
  assert (Hcl' : closed f (sort k)).
  { intros x y Hx Hy. apply sort_in. apply -> sort_in in Hx. apply (Hcl x y); assumption. }
  assert (Hg : In g (sort k)) by (apply sort_in; eapply Hreq; eassumption).
  destruct (index_of_in g _ Hg) as [g' Hg'].
  exists g'. cbn [result_font]. split; [|split].
  - cbn. unfold used_map. rewrite Hmem, Hc. exact Hg'.
  - intros fuel. apply flatten_sim; assumption.
  - unfold advance. destruct (new_glyph f (sort k) (used_map f cs (fun g0 => index_of g0 (sort k))) g g' Hg') as [_ ->].
    reflexivity.
Qed.

(** more fuel never changes a result: [flatten] has a well-defined limit *)
Lemma seq_opt_map_mono {A B} (F G : A -> option (list B)) l r :
  (forall a x, F a = Some x -> G a = Some x) ->
  seq_opt (List.map F l) = Some r -> seq_opt (List.map G l) = Some r.
Proof.
  intros H. revert r. induction l as [|a l IH]; intros r; cbn; [auto|].
  destruct (F a) as [x|] eqn:E; [|discriminate]. rewrite (H a x E).
  destruct (seq_opt (List.map F l)) as [y|]; [|discriminate]. rewrite (IH y eq_refl). auto.
Qed.

Lemma flatten_S k f g : flatten (S k) f g =
  match glyphs f g with
  | Simple d _ => Some [([], d)]
  | Composite cs _ => seq_opt (List.map (fun c : comp => place c (flatten k f (fst (fst c)))) cs)
  end.
Proof. reflexivity. Qed.

Theorem flatten_fuel_mono f : forall k g r, flatten k f g = Some r -> flatten (S k) f g = Some r.
Proof.
  induction k as [|k IH]; intros g r H; [discriminate|].
  rewrite flatten_S. rewrite flatten_S in H. destruct (glyphs f g) as [d il|cs il]; [exact H|].
  eapply seq_opt_map_mono; [|exact H]. intros a x. cbv beta. unfold place.
  destruct (flatten k f (fst (fst a))) as [y|] eqn:E; [|discriminate].
  rewrite (IH _ _ E). auto.
Qed.

(** * Non-vacuity: a font with a composite chain 5 -> (3, 4), 4 -> (2), character set hitting it *)
Definition ex_font : font :=
  {| fsize := 200000; nglyphs := 12;
     glyphs := fun g => if g =? 5 then Composite [(3, 0x21, [1;2]); (4, 0x101, [3;4])] 7
                        else if g =? 4 then Composite [(2, 0x102, [9;9])] 3
                        else if g <? 12 then Simple [g; g + 1] 5 else Simple [] 0;
     hmtx := fun g => (500 + g, 0%Z);
     cmap := fun c => if c =? 65 then Some 5 else if c =? 66 then Some 7 else None |}.

Example ex_wf : wf ex_font.
Proof.
  unfold wf. cbn. split; [lia|]. split.
  - intros c g. destruct (c =? 65); [intros [= <-]; lia|]. destruct (c =? 66); [intros [= <-]; lia|discriminate].
  - intros g c. destruct (g =? 5); [cbn; intuition lia|]. destruct (g =? 4); [cbn; intuition lia|].
    destruct (g <? 12); intros [].
Qed.

Example ex_subset :
  match subset ex_font [65; 66; 67] with
  | Some (Subset kept f') =>
      kept = [0; 2; 3; 4; 5; 7] /\ cmap f' 65 = Some 4 /\ cmap f' 67 = None
      /\ comp_gids (glyphs f' 4) = [2; 3] /\ comp_gids (glyphs f' 3) = [1]
      /\ flatten 12 f' 4 = flatten 12 ex_font 5 /\ flatten 12 ex_font 5 <> None
  | _ => False
  end.
Proof. vm_compute. repeat split; discriminate. Qed.
