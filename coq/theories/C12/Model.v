(** C12 — TrueType subsetting at table level: code-shaped model of
    text/fonts/truetype_subsetter.rs ([TrueTypeSubsetter::subset]: skip decisions,
    [expand_composite_glyphs], [renumber_and_build], [remap_composite_glyph],
    [strip_glyph_instructions], [build_hmtx]) over an ABSTRACT font, and the specification
    ([flatten], [advance]) the property is judged with.  The byte-level encoding of the sfnt
    container (table directory, checksums, loca offsets) is NOT modelled here: a reader extracts
    the abstract font from the bytes (see notes/C12.md). *)
From OxVerif Require Import Base.Util.
Open Scope N_scope.

Notation gid := N (only parsing).

(** component record of a composite glyph: glyph index, flags word, the argument and
    transformation bytes that follow it *)
Definition comp := (gid * N * bytes)%type.

(** [Simple outline ilen]: outline = the glyph's bytes without the instructionLength field and
    the instruction bytes; [Composite comps ilen]: component records and the length of the
    optional trailing instruction block. *)
Inductive glyph :=
| Simple (outline : bytes) (ilen : N)
| Composite (comps : list comp) (ilen : N).

Record font := {
  fsize : N;                       (* size of the font file in bytes (skip decision only) *)
  nglyphs : N;
  glyphs : gid -> glyph;           (* a gid without data is the empty glyph [Simple [] 0] *)
  hmtx : gid -> N * Z;             (* advance width, left side bearing *)
  cmap : N -> option gid
}.

Definition comp_gids (g : glyph) : list gid :=
  match g with Simple _ _ => [] | Composite cs _ => List.map (fun c => fst (fst c)) cs end.

(** * Specification *)

(** the bit [WE_HAVE_INSTRUCTIONS] (0x0100) of a component's flags says nothing about the
    outline *)
Definition outline_flags (fl : N) : N := N.ldiff fl 256.

(** a flattened glyph: every simple outline reached, with the stack of (flags, transform)
    records on the path to it, in drawing order *)
Definition placed := (list (N * bytes) * bytes)%type.

Fixpoint seq_opt {A} (l : list (option (list A))) : option (list A) :=
  match l with
  | [] => Some []
  | None :: _ => None
  | Some x :: r => match seq_opt r with Some y => Some (x ++ y) | None => None end
  end.

Definition place (c : comp) (o : option (list placed)) : option (list placed) :=
  match o with
  | Some ps => Some (List.map (fun p : placed => ((outline_flags (snd (fst c)), snd c) :: fst p, snd p)) ps)
  | None => None
  end.

(** resolve components recursively; running out of fuel (a component cycle, or nesting deeper
    than the fuel) gives [None] *)
Fixpoint flatten (fuel : nat) (f : font) (g : gid) : option (list placed) :=
  match fuel with
  | O => None
  | S k =>
      match glyphs f g with
      | Simple d _ => Some [([], d)]
      | Composite cs _ => seq_opt (List.map (fun c : comp => place c (flatten k f (fst (fst c)))) cs)
      end
  end.

Definition advance (f : font) (g : gid) : N := fst (hmtx f g).

(** * Code-shaped model *)

Definition mem (x : N) (l : list N) : bool := existsb (N.eqb x) l.

(** one iteration of the worklist loop body: for every component gid, insert it into the set
    and push it when it was not there *)
Definition visit (st : list gid * list gid) (c : gid) : list gid * list gid :=
  let '(nd, wk) := st in if mem c nd then (nd, wk) else (c :: nd, c :: wk).

(** [expand_composite_glyphs]: [None] when the fuel runs out before the worklist is empty *)
Fixpoint worklist (fuel : nat) (f : font) (needed work : list gid) : option (list gid) :=
  match work with
  | [] => Some needed
  | g :: rest =>
      match fuel with
      | O => None
      | S k => let '(nd, wk) := fold_left visit (comp_gids (glyphs f g)) (needed, rest) in
               worklist k f nd wk
      end
  end.

Definition add_set (x : N) (l : list N) : list N := if mem x l then l else x :: l.

Fixpoint filter_some {A} (l : list (option A)) : list A :=
  match l with
  | [] => []
  | Some x :: r => x :: filter_some r
  | None :: r => filter_some r
  end.

(** the HashSet of needed glyphs before expansion: .notdef and the glyph of every used character *)
Definition seeds (f : font) (cs : list N) : list gid :=
  fold_right add_set [0] (filter_some (List.map (cmap f) cs)).

Definition closure (f : font) (cs : list N) : option (list gid) :=
  let s := seeds f cs in worklist (N.to_nat (nglyphs f)) f s s.

(** [sorted_glyphs.sort()] *)
Fixpoint insert (x : N) (l : list N) : list N :=
  match l with
  | [] => [x]
  | y :: r => if x <=? y then x :: l else y :: insert x r
  end.
Definition sort (l : list N) : list N := fold_right insert [] l.

(** [glyph_map]: old gid -> position in the sorted list *)
Fixpoint index_of (x : N) (l : list N) : option N :=
  match l with
  | [] => None
  | y :: r => if x =? y then Some 0 else option_map N.succ (index_of x r)
  end.

Definition renumber (kept : list gid) (g : gid) : option gid := index_of g (sort kept).

(** [remap_composite_glyph]: an unmapped component falls back to .notdef *)
Definition remap_comp (m : gid -> option gid) (c : comp) : comp :=
  let '(g, fl, tr) := c in (match m g with Some g' => g' | None => 0 end, fl, tr).
Definition remap_composite (m : gid -> option gid) (g : glyph) : glyph :=
  match g with
  | Simple _ _ => g
  | Composite cs il => Composite (List.map (remap_comp m) cs) il
  end.

(** [strip_glyph_instructions] *)
Fixpoint clear_last (cs : list comp) : list comp :=
  match cs with
  | [] => []
  | [(g, fl, tr)] => [(g, N.ldiff fl 256, tr)]
  | c :: r => c :: clear_last r
  end.
Definition strip (g : glyph) : glyph :=
  match g with
  | Simple d _ => Simple d 0
  | Composite cs _ => Composite (clear_last cs) 0
  end.

(** [should_skip_subsetting] and the ratio test of [subset]
    (needed/num_glyphs > 0.5 in f32 is 2*needed > num_glyphs for 16-bit counts) *)
Definition should_skip (size count : N) : bool :=
  (count =? 0) || ((size <? 100000) && (count <? 10)).

Definition count_chars (cs : list N) : N := N.of_nat (length (fold_right add_set [] cs)).

Definition new_font (f : font) (sorted : list gid) (m : N -> option gid) : font :=
  let n' := N.of_nat (length sorted) in
  {| fsize := 0;
     nglyphs := n';
     glyphs := fun g' => if g' <? n'
                         then strip (remap_composite (fun g => index_of g sorted) (glyphs f (nth (N.to_nat g') sorted 0)))
                         else Simple [] 0;
     hmtx := fun g' => hmtx f (nth (N.to_nat g') sorted 0);
     cmap := m |}.

Definition used_map (f : font) (cs : list N) (tr : gid -> option gid) (c : N) : option gid :=
  if mem c cs then match cmap f c with Some g => tr g | None => None end else None.

Inductive result := Full (m : N -> option gid) | Subset (kept : list gid) (f' : font).

(** [TrueTypeSubsetter::subset] for a glyf-flavoured font; [None] only if the closure ran out of
    fuel (excluded for well-formed fonts by [closure_terminates]) *)
Definition subset (f : font) (cs : list N) : option result :=
  if should_skip (fsize f) (count_chars cs) then Some (Full (used_map f cs Some))
  else
    match closure f cs with
    | None => None
    | Some kept =>
        if (nglyphs f <? 2 * N.of_nat (length kept)) || (fsize f <? 100000)
        then Some (Full (used_map f cs Some))
        else let sorted := sort kept in
             Some (Subset sorted (new_font f sorted (used_map f cs (fun g => index_of g sorted))))
    end.

Definition result_font (f : font) (r : result) : font :=
  match r with
  | Full m => {| fsize := fsize f; nglyphs := nglyphs f; glyphs := glyphs f; hmtx := hmtx f; cmap := m |}
  | Subset _ f' => f'
  end.

(** * Correspondence cases *)

Definition comp_eqb (a b : comp) : bool :=
  let '(g, fl, tr) := a in let '(g', fl', tr') := b in (g =? g') && (fl =? fl') && bytes_eqb tr tr'.
Definition glyph_eqb (a b : glyph) : bool :=
  match a, b with
  | Simple d i, Simple d' i' => bytes_eqb d d' && (i =? i')
  | Composite cs i, Composite cs' i' => list_eqb comp_eqb cs cs' && (i =? i')
  | _, _ => false
  end.
Definition placed_eqb (a b : placed) : bool :=
  list_eqb (fun x y : N * bytes => (fst x =? fst y) && bytes_eqb (snd x) (snd y)) (fst a) (fst b)
  && bytes_eqb (snd a) (snd b).
Definition oplaced_eqb := option_eqb (list_eqb placed_eqb).

(** glyph tables travel as association lists (original: sparse, the glyphs reachable from the
    requested characters; subset: dense by new gid) *)
Definition gentry := (gid * glyph * N * Z)%type.

Fixpoint glookup (g : gid) (t : list gentry) : option gentry :=
  match t with
  | [] => None
  | e :: r => if fst (fst (fst e)) =? g then Some e else glookup g r
  end.
Fixpoint alookup (c : N) (t : list (N * N)) : option N :=
  match t with
  | [] => None
  | (a, b) :: r => if a =? c then Some b else alookup c r
  end.

Definition font_of (size n : N) (t : list gentry) (cm : list (N * N)) : font :=
  {| fsize := size; nglyphs := n;
     glyphs := fun g => match glookup g t with Some (_, gl, _, _) => gl | None => Simple [] 0 end;
     hmtx := fun g => match glookup g t with Some (_, _, a, l) => (a, l) | None => (0, 0%Z) end;
     cmap := fun c => alookup c cm |}.

Record case := {
  c_size : N;                        (* original file size *)
  c_n : N;                           (* original numGlyphs *)
  c_orig : list gentry;              (* reader: original glyphs reachable from the requested chars *)
  c_cmap : list (N * N);             (* original cmap restricted to the requested chars *)
  c_chars : list N;                  (* requested characters *)
  c_full : bool;                     (* implementation returned the original bytes unchanged *)
  c_sub : list gentry;               (* reader: every glyph of the implementation's subset *)
  c_map : list (N * N);              (* implementation's glyph_mapping, sorted by code point *)
  c_wf : bool                        (* reader: subset bytes are a structurally sound sfnt *)
}.

Definition fuel_of (c : case) : nat := S (length (c_orig c)).

(** the property's predicate, evaluated by the specification only: every requested character the
    original maps resolves, through the returned mapping, to a glyph with the same flattened
    outline and the same advance *)
Definition char_ok (c : case) (fo fs : font) (ch : N) : bool :=
  match alookup ch (c_cmap c) with
  | None => true
  | Some g =>
      match alookup ch (c_map c) with
      | None => false
      | Some g' =>
          if c_full c then g' =? g
          else oplaced_eqb (flatten (fuel_of c) fs g') (flatten (fuel_of c) fo g)
               && (advance fs g' =? advance fo g)
      end
  end.

Definition prop_ok (c : case) : bool :=
  let fo := font_of (c_size c) (c_n c) (c_orig c) (c_cmap c) in
  let fs := font_of 0 (N.of_nat (length (c_sub c))) (c_sub c) (c_map c) in
  c_wf c && forallb (char_ok c fo fs) (c_chars c).

(** model = implementation: same decision (full font / subset), same kept set and renumbering
    (number of glyphs, each glyph record and metric by new gid), same character mapping *)
Definition map_agrees (c : case) (m : N -> option gid) : bool :=
  forallb (fun ch => option_eqb N.eqb (m ch) (alookup ch (c_map c))) (c_chars c)
  && forallb (fun p : N * N => mem (fst p) (c_chars c)) (c_map c).

Definition entry_agrees (f' : font) (e : gentry) : bool :=
  let '(g', gl, a, l) := e in
  glyph_eqb (glyphs f' g') gl && (fst (hmtx f' g') =? a) && Z.eqb (snd (hmtx f' g')) l.

Definition model_ok (c : case) : bool :=
  let fo := font_of (c_size c) (c_n c) (c_orig c) (c_cmap c) in
  match subset fo (c_chars c) with
  | None => false
  | Some (Full m) => c_full c && map_agrees c m
  | Some (Subset kept f') =>
      negb (c_full c)
      && (nglyphs f' =? N.of_nat (length (c_sub c)))
      && list_eqb N.eqb (List.map (fun e : gentry => fst (fst (fst e))) (c_sub c))
                        (List.map N.of_nat (seq 0 (length kept)))
      && forallb (entry_agrees f') (c_sub c)
      && map_agrees c (cmap f')
  end.

Definition case_code (c : case) : N := code_of (model_ok c) (prop_ok c).

(** CFF (validated per output, nothing proved): the harness compares, per requested character,
    the charstring token stream after inlining subroutines and the advance (both extracted by
    the harness reader from the original and from the subset); Coq compares them. *)
Definition cff_char_ok (x : N * bytes * bytes * N * N) : bool :=
  let '(_, cs_orig, cs_sub, adv_orig, adv_sub) := x in bytes_eqb cs_orig cs_sub && (adv_orig =? adv_sub).

(** CFF INDEX structure (Adobe TN 5176, section 5), executable specification: a 2-byte count; for a
    non-empty INDEX an offSize in 1..4 and count+1 big-endian offsets of offSize bytes; offsets are
    relative to the byte before the object data, so the first is 1, they never decrease, and the last is
    (size of the object data) + 1.  [hdr] is the INDEX from its first byte through its offset array,
    [region] the number of bytes from the start of the INDEX to the start of the next structure of the
    font (the INDEX must fill it exactly). *)
Definition be_val (b : bytes) : N := fold_left (fun a x => a * 256 + x) b 0.

Fixpoint chunks (fuel k : nat) (l : bytes) : list bytes :=
  match fuel with
  | O => []
  | S f => match l with [] => [] | _ => firstn k l :: chunks f k (skipn k l) end
  end.

Fixpoint nondecreasing (l : list N) : bool :=
  match l with
  | a :: ((b :: _) as r) => (a <=? b) && nondecreasing r
  | _ => true
  end.

Definition cff_index_ok (x : bytes * N) : bool :=
  let '(hdr, region) := x in
  match hdr with
  | c1 :: c0 :: rest =>
      let count := c1 * 256 + c0 in
      if count =? 0 then match rest with [] => region =? 2 | _ => false end
      else match rest with
           | [] => false
           | osz :: offs =>
               let k := N.to_nat osz in
               let os := List.map be_val (chunks (length offs) k offs) in
               (1 <=? osz) && (osz <=? 4)
               && (N.of_nat (length offs) =? (count + 1) * osz)
               && forallb (fun b => b <? 256) offs
               && (hd 0 os =? 1) && nondecreasing os
               && (3 + (count + 1) * osz + (last os 1 - 1) =? region)
           end
  | _ => false
  end.

Definition cff_code (c : bool * list (bytes * N) * list (N * bytes * bytes * N * N)) : N :=
  let '(ok, idx, rows) := c in
  code_of true (ok && forallb cff_index_ok idx && forallb cff_char_ok rows).

Example cff_index_ok_ex :
  cff_index_ok ([0; 2; 1; 1; 193; 255], 260) = true          (* two items, 192 + 62 = 254 bytes of data *)
  /\ cff_index_ok ([0; 2; 1; 1; 193; 0], 261) = false         (* 255 bytes of data need offSize 2: offset 256 written as 0 *)
  /\ cff_index_ok ([0; 2; 2; 0; 1; 0; 193; 1; 0], 264) = true
  /\ cff_index_ok ([0; 0], 2) = true.
Proof. vm_compute. repeat split. Qed.
