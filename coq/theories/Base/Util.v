(** Shared utilities: bytes as [N], hex transport of byte strings for case files,
    finite-domain sweeps lifted to universally quantified statements. *)
From Coq Require Export String Ascii.
From Coq Require Export List NArith ZArith Bool Lia.
Export ListNotations.
Open Scope N_scope.

Arguments N.add : simpl never.
Arguments N.sub : simpl never.
Arguments N.mul : simpl never.
Arguments N.div : simpl never.
Arguments N.modulo : simpl never.
Arguments N.eqb : simpl never.
Arguments N.ltb : simpl never.
Arguments N.leb : simpl never.

Definition byte := N.
Definition bytes := list N.

Definition byte_ok (b : N) : bool := b <? 256.
Definition bytes_ok (l : bytes) : bool := forallb byte_ok l.

(** * Hex transport: case files carry byte strings as hex text. *)
Definition hexval (a : ascii) : N :=
  let n := N_of_ascii a in
  if (48 <=? n) && (n <=? 57) then n - 48
  else if (97 <=? n) && (n <=? 102) then n - 87
  else if (65 <=? n) && (n <=? 70) then n - 55
  else 0.

Fixpoint unhex (s : string) : bytes :=
  match s with
  | String a (String b r) => (hexval a * 16 + hexval b) :: unhex r
  | _ => []
  end.

Definition hexdigit (n : N) : ascii :=
  if n <? 10 then ascii_of_N (48 + n) else ascii_of_N (87 + n).

Fixpoint tohex (l : bytes) : string :=
  match l with
  | [] => EmptyString
  | b :: r => String (hexdigit (b / 16)) (String (hexdigit (b mod 16)) (tohex r))
  end.

Fixpoint bytes_of_string (s : string) : bytes :=
  match s with
  | EmptyString => []
  | String a r => N_of_ascii a :: bytes_of_string r
  end.

Fixpoint string_of_bytes (l : bytes) : string :=
  match l with
  | [] => EmptyString
  | b :: r => String (ascii_of_N b) (string_of_bytes r)
  end.

(** * List equality on N lists *)
Fixpoint list_eqb {A} (eqb : A -> A -> bool) (a b : list A) : bool :=
  match a, b with
  | [], [] => true
  | x :: a', y :: b' => eqb x y && list_eqb eqb a' b'
  | _, _ => false
  end.

Lemma list_eqb_spec {A} (eqb : A -> A -> bool)
      (H : forall x y, eqb x y = true <-> x = y) :
  forall a b, list_eqb eqb a b = true <-> a = b.
Proof.
  induction a as [|x a IH]; destruct b as [|y b]; cbn; split; intro E;
    try reflexivity; try discriminate.
  - apply andb_true_iff in E. destruct E as [E1 E2].
    apply H in E1. apply IH in E2. subst. reflexivity.
  - injection E as -> ->. apply andb_true_iff. split; [apply H | apply IH]; reflexivity.
Qed.

Definition bytes_eqb := list_eqb N.eqb.

Lemma bytes_eqb_eq a b : bytes_eqb a b = true <-> a = b.
Proof. apply list_eqb_spec. intros. apply N.eqb_eq. Qed.

Definition option_eqb {A} (eqb : A -> A -> bool) (a b : option A) : bool :=
  match a, b with
  | None, None => true
  | Some x, Some y => eqb x y
  | _, _ => false
  end.

(** * Finite sweeps: [allb f n] checks f on 0..n-1, with the lifting lemma. *)
Definition allb (f : N -> bool) (n : N) : bool :=
  fst (N.iter n (fun '(acc, i) => (acc && f i, N.succ i)) (true, 0)).

Lemma allb_iter_snd f n :
  snd (N.iter n (fun '(acc, i) => (acc && f i, N.succ i)) (true, 0)) = n.
Proof.
  induction n using N.peano_ind.
  - reflexivity.
  - rewrite N.iter_succ.
    destruct (N.iter n _ (true, 0)) as [a i] eqn:E. cbn in *. subst. reflexivity.
Qed.

Lemma allb_spec f n : allb f n = true -> forall i, i < n -> f i = true.
Proof.
  unfold allb. induction n using N.peano_ind; intros H i Hi.
  - lia.
  - rewrite N.iter_succ in H.
    pose proof (allb_iter_snd f n) as Hs.
    destruct (N.iter n _ (true, 0)) as [a j] eqn:E. cbn in *. subst j.
    apply andb_true_iff in H. destruct H as [Ha Hf].
    destruct (N.eq_dec i n) as [->|Hne]; [exact Hf|].
    apply IHn; [exact Ha | lia].
Qed.

(** first index below n at which f is false (witness search used by the driver) *)
Definition first_fail (f : N -> bool) (n : N) : option N :=
  fst (N.iter n (fun '(acc, i) =>
        (match acc with Some _ => acc | None => if f i then None else Some i end, N.succ i))
        (None, 0)).

(** indices (0-based) of the elements of l on which f is false *)
Fixpoint fail_idx_from {A} (f : A -> bool) (i : N) (l : list A) : list N :=
  match l with
  | [] => []
  | x :: r => if f x then fail_idx_from f (N.succ i) r else i :: fail_idx_from f (N.succ i) r
  end.
Definition fail_idx {A} (f : A -> bool) (l : list A) : list N := fail_idx_from f 0 l.

(** (index, code) for every element whose code is non-zero; codes are bit sets:
    1 = model differs from implementation, 2 = the property's own predicate fails on
    the implementation's output, further bits are property-specific. *)
Fixpoint fail_codes_from {A} (f : A -> N) (i : N) (l : list A) : list (N * N) :=
  match l with
  | [] => []
  | x :: r => let c := f x in
              if c =? 0 then fail_codes_from f (N.succ i) r
              else (i, c) :: fail_codes_from f (N.succ i) r
  end.
Definition fail_codes {A} (f : A -> N) (l : list A) : list (N * N) := fail_codes_from f 0 l.
Definition code_of (model_ok prop_ok : bool) : N :=
  (if model_ok then 0 else 1) + (if prop_ok then 0 else 2).
