(** C21 — per-operator round trips and the induction over operator lists.
    Proved here for the operators whose operands are numbers printed with "{:.2}" and for the
    operand-less operators (path construction and painting, clipping, graphics state, transform,
    text object/positioning/state): [ops_roundtrip_partial].  The other shapes (names, colours,
    dash, Tf, strings, TJ, marked content) have their lexeme lemmas in Lexemes.v; their operator-level
    composition is covered by the correspondence and by [sample_ops_roundtrip] only. *)
From OxVerif Require Import Base.Util C21.Num C21.Tok C21.Model C21.Total C21.Lexemes.
Require Import Lia ZifyBool.
Open Scope N_scope.

Lemma next_token_ws : forall c l, is_ws c = true -> next_token (c :: l) = next_token l.
Proof. intros c l H. unfold next_token. cbn [skip_ws]. rewrite H. reflexivity. Qed.

Lemma tokenize_ws : forall c l, is_ws c = true -> tokenize (c :: l) = tokenize l.
Proof. intros c l H. rewrite tokenize_unfold, (tokenize_unfold l), (next_token_ws c l H). reflexivity. Qed.

Lemma skip_ws_stay : forall c l, is_ws c = false -> (c =? 37) = false -> skip_ws false (c :: l) = c :: l.
Proof. intros c l H1 H2. cbn [skip_ws]. rewrite H1, H2. reflexivity. Qed.

Lemma dec_head : forall n, exists d ds, dec n = d :: ds /\ is_digit d = true.
Proof.
  intro n. pose proof (dec_digits n) as D. pose proof (dec_nonempty n) as NE.
  destruct (dec n) as [|d ds]; [contradiction|].
  cbn [forallb] in D. apply andb_true_iff in D. destruct D as [D _]. eauto.
Qed.

Lemma next_token_num : forall k x rest, 0 < k -> num_end rest ->
  next_token (fx k x ++ rest) = STok [TNum (rnd k x)] rest.
Proof.
  intros k x rest Hk Hr. unfold fx, rnd, f32_of_fixed.
  destruct (fixed k x) as [s n]. cbn [fst snd]. unfold print_fixed.
  assert (K0 : (k =? 0) = false) by lia. rewrite K0.
  destruct s.
  - cbn [app]. unfold next_token.
    rewrite skip_ws_stay by reflexivity.
    change (is_numstart 45) with true. cbn iota.
    unfold read_number. change (45 =? 45) with true. cbn iota.
    rewrite <- app_assoc. cbn [app].
    rewrite number_body_fixed by assumption. reflexivity.
  - cbn [app]. rewrite <- app_assoc. cbn [app].
    destruct (dec_head (n / 10 ^ k)) as [d [ds [E D]]].
    assert (Q := number_body_fixed false k n rest Hk Hr).
    rewrite E in *. cbn [app] in *.
    unfold next_token.
    assert (W : is_ws d = false) by (unfold is_ws; unfold is_digit in D; lia).
    assert (P : (d =? 37) = false) by (unfold is_digit in D; lia).
    rewrite (skip_ws_stay d _ W P).
    assert (NS : is_numstart d = true) by (unfold is_numstart; rewrite D; lia).
    rewrite NS. unfold read_number.
    assert (M1 : (d =? 45) = false) by (unfold is_digit in D; lia).
    assert (M2 : (d =? 43) = false) by (unfold is_digit in D; lia).
    rewrite M1, M2, Q. reflexivity.
Qed.

Lemma tokenize_num_sp : forall k x rest, 0 < k ->
  tokenize (fx k x ++ 32 :: rest) = TNum (rnd k x) :: tokenize rest.
Proof.
  intros k x rest Hk. rewrite tokenize_unfold, next_token_num; [|assumption|split; reflexivity].
  cbn [app]. rewrite tokenize_ws by reflexivity. reflexivity.
Qed.

Lemma tokenize_nums_sp : forall k a rest, 0 < k ->
  tokenize (nums_sp k a ++ rest) = map (fun x => TNum (rnd k x)) a ++ tokenize rest.
Proof.
  intros k a rest Hk. induction a as [|x a IH].
  - reflexivity.
  - unfold nums_sp in *. cbn [flat_map map]. rewrite <- !app_assoc. cbn [app].
    rewrite tokenize_num_sp by assumption. rewrite IH. reflexivity.
Qed.

(** ** operators *)
Definition op_end_follows (rest : bytes) : Prop :=
  match rest with [] => True | c :: _ => is_op_end c = true end.

Lemma scan_op_app : forall o rest, forallb (fun c => negb (is_op_end c)) o = true -> op_end_follows rest ->
  scan_op (o ++ rest) = (o, rest).
Proof.
  induction o as [|c o IH]; intros rest H D.
  - cbn [app]. destruct rest as [|d r]; [reflexivity|]. cbn in D. cbn [scan_op]. rewrite D. reflexivity.
  - cbn [forallb] in H. apply andb_true_iff in H. destruct H as [Hc Hs]. apply negb_true_iff in Hc.
    cbn [app scan_op]. rewrite Hc, (IH rest Hs D). reflexivity.
Qed.

Definition op_word (o : bytes) : bool :=
  match o with
  | [] => false
  | c :: _ =>
      negb (is_ws c) && negb (c =? 37) && negb (is_numstart c) && negb (c =? 40) && negb (c =? 60)
      && negb (c =? 62) && negb (c =? 91) && negb (c =? 93) && negb (c =? 47)
      && negb ((c =? 59) || (c =? 41) || (c =? 123) || (c =? 125))
      && forallb (fun c => negb (is_op_end c)) o && utf8_valid o && negb (bytes_eqb o op_ID)
  end.

Lemma next_token_op : forall o rest, op_word o = true -> op_end_follows rest ->
  next_token (o ++ rest) = STok [TOp o] rest.
Proof.
  intros o rest H D. destruct o as [|c w]; [discriminate|].
  unfold op_word in H.
  repeat (apply andb_true_iff in H; let H' := fresh "H" in destruct H as [H H']).
  repeat match goal with X : negb _ = true |- _ => apply negb_true_iff in X end.
  unfold next_token. cbn [app]. rewrite skip_ws_stay by assumption.
  repeat match goal with X : _ = false |- _ => rewrite X end.
  change (c :: w ++ rest) with ((c :: w) ++ rest).
  rewrite scan_op_app by assumption.
  repeat match goal with X : _ = true |- _ => rewrite X end.
  repeat match goal with X : _ = false |- _ => rewrite X end.
  reflexivity.
Qed.

Lemma tokenize_op_lf : forall o rest, op_word o = true ->
  tokenize (o ++ 10 :: rest) = TOp o :: tokenize rest.
Proof.
  intros o rest H. rewrite tokenize_unfold, next_token_op; [|assumption|reflexivity].
  cbn [app]. rewrite tokenize_ws by reflexivity. reflexivity.
Qed.

(** ** the operand stack *)
Lemma parse_push_nums : forall bs r st,
  parse_toks (map TNum bs ++ r) (PNorm st) = parse_toks r (PNorm (rev (map TNum bs) ++ st)).
Proof.
  induction bs as [|b bs IH]; intros r st.
  - reflexivity.
  - cbn [map app parse_toks rev]. rewrite IH. rewrite <- app_assoc. reflexivity.
Qed.

Lemma pop_nums_rev : forall bs st acc,
  pop_nums (length bs) (rev (map TNum bs) ++ st) acc = Some (bs ++ acc).
Proof.
  induction bs as [|b bs IH] using rev_ind; intros st acc.
  - reflexivity.
  - rewrite map_app, rev_app_distr, app_length. cbn [map rev app length].
    rewrite Nat.add_1_r. cbn [pop_nums num_of]. rewrite IH. rewrite <- app_assoc. reflexivity.
Qed.

(** ** table facts *)
Lemma nums_table_facts : forall w n, assoc_nat w nums_table = Some n ->
  lookup_op w optable = Some (KNums n) /\ op_word w = true /\ bytes_eqb w op_BI = false.
Proof.
  intros w n H. unfold nums_table in H. cbn [map assoc_nat fst snd] in H.
  repeat (match type of H with
          | (if bytes_eqb w ?k then _ else _) = _ =>
              let E := fresh "E" in
              destruct (bytes_eqb w k) eqn:E;
              [apply bytes_eqb_eq in E; subst w; injection H as <-; vm_compute; repeat split; reflexivity | clear E]
          end).
  discriminate.
Qed.

Lemma plain_ops_facts : forall w, mem_bytes w plain_ops = true ->
  lookup_op w optable = Some (KPlain w) /\ op_word w = true /\ bytes_eqb w op_BI = false.
Proof.
  intros w H. unfold mem_bytes, plain_ops in H. cbn [map existsb] in H.
  repeat (match type of H with
          | (bytes_eqb w ?k || _) = true =>
              let E := fresh "E" in
              destruct (bytes_eqb w k) eqn:E;
              [apply bytes_eqb_eq in E; subst w; vm_compute; repeat split; reflexivity | cbn [orb] in H; clear E]
          end).
  discriminate.
Qed.

(** ** one operator, then the list *)
Definition mvp_op (o : op) : bool :=
  match o with ONums _ _ | OPlain _ => true | _ => false end.

Definition run (l : bytes) : list cop := parse_toks (tokenize l) (PNorm []).

Lemma roundtrip_op : forall o rest, mvp_op o = true -> op_regular o = true ->
  run (ser_op o ++ rest) = expected_op o ++ run rest.
Proof.
  intros o rest M R. unfold run. destruct o; try discriminate.
  - (* ONums *)
    unfold op_regular in R. rewrite andb_true_r in R. cbn [op_wf] in R.
    destruct (assoc_nat o nums_table) as [n|] eqn:T; [|discriminate].
    apply Nat.eqb_eq in R. subst n.
    destruct (nums_table_facts _ _ T) as [L [W B]].
    cbn [ser_op expected_op]. rewrite <- !app_assoc. cbn [app].
    rewrite tokenize_nums_sp by reflexivity.
    rewrite tokenize_op_lf by assumption.
    rewrite <- (map_map (rnd 2) TNum). rewrite parse_push_nums.
    cbn [parse_toks]. rewrite B. unfold apply_op. rewrite L.
    rewrite app_nil_r. rewrite <- (map_length (rnd 2) a). rewrite <- (app_nil_r (rev _)).
    rewrite pop_nums_rev. rewrite app_nil_r. reflexivity.
  - (* OPlain *)
    unfold op_regular in R. rewrite andb_true_r in R. cbn [op_wf] in R.
    destruct (plain_ops_facts _ R) as [L [W B]].
    cbn [ser_op expected_op]. rewrite <- app_assoc. cbn [app].
    rewrite tokenize_op_lf by assumption.
    cbn [parse_toks]. rewrite B. unfold apply_op. rewrite L. reflexivity.
Qed.

Lemma roundtrip_ops : forall ops rest, forallb mvp_op ops = true -> regular ops = true ->
  run (serialize ops ++ rest) = expected ops ++ run rest.
Proof.
  induction ops as [|o ops IH]; intros rest M R.
  - reflexivity.
  - cbn [forallb] in M. apply andb_true_iff in M. destruct M as [M1 M2].
    unfold regular in R. cbn [forallb] in R. apply andb_true_iff in R. destruct R as [R1 R2].
    unfold serialize, expected. cbn [flat_map]. rewrite <- !app_assoc.
    rewrite roundtrip_op by assumption. f_equal. apply IH; assumption.
Qed.

(** path, painting, clipping, graphics-state, transform and text-state/positioning operators:
    every sequence, every f64 operand (NaN and infinities included), parses back to the source
    operators with each operand rounded to 2 decimals and then to the nearest f32 *)
Theorem ops_roundtrip_partial : forall ops, forallb mvp_op ops = true -> regular ops = true ->
  parse (serialize ops) = expected ops.
Proof.
  intros ops M R. pose proof (roundtrip_ops ops [] M R) as H.
  rewrite !app_nil_r in H. exact H.
Qed.
