(** C21 — known class of the "extreme numeric arguments" clause (witness + guarded positive part)
    and non-vacuity examples.  The termination theorem is in Total.v, the per-lexeme round trips
    in Lexemes.v, the per-operator round trips and the induction over operator lists in Roundtrip.v. *)
From OxVerif Require Import Base.Util C21.Num C21.Tok C21.Model C21.Total C21.Lexemes C21.Roundtrip.
Require Import Lia ZifyBool.
Open Scope N_scope.

(** 1e39 as an f64: 0x4807_82DA_CE9D_9000-ish is not needed exactly; 2^130 is beyond f32::MAX *)
Definition big_op : op := ONums (s2b "m") [FFin false 4503599627370496 78; FFin false 4503599627370496 (-52)].

(** C21-f32-overflow: the stream parses back exactly to the documented rounding of the source,
    and that rounding of the finite operand 2^130 is +infinity *)
Lemma f32_overflow_refuted :
  exists o, regular [o] = true /\ f32_overflow o = true
            /\ parse (serialize [o]) = expected [o]
            /\ expected [o] = [CNums (s2b "m") [f32_inf; 1065353216]].
Proof. exists big_op. vm_compute. repeat split; reflexivity. Qed.

Lemma existsb_false_forallb : forall {A} (f : A -> bool) l,
  existsb f l = false -> forallb (fun x => negb (f x)) l = true.
Proof.
  induction l as [|x l IH]; cbn [existsb forallb]; intro H; [reflexivity|].
  apply orb_false_iff in H. destruct H as [H1 H2]. rewrite H1, (IH H2). reflexivity.
Qed.

(** outside the class every operand of the expected result is a finite f32 *)
Lemma expected_finite_outside_class : forall ops, in_known_class ops = false ->
  forallb (fun c => negb (existsb f32_is_inf (cop_nums c))) (expected ops) = true.
Proof.
  induction ops as [|o ops IH]; intro H; [reflexivity|].
  unfold in_known_class in *. cbn [existsb] in H. apply orb_false_iff in H. destruct H as [H1 H2].
  unfold expected. cbn [flat_map]. rewrite forallb_app. fold (expected ops). rewrite (IH H2), andb_true_r.
  unfold f32_overflow in H1. apply existsb_false_forallb in H1. exact H1.
Qed.

(** non-vacuity: a sequence over every operator shape with awkward operands is regular, outside
    the class, and round-trips *)
Definition sample_ops : list op :=
  let one := FFin false 4503599627370496 (-52) in
  let m3 := FFin true 6755399441055744 (-51) in
  let h := FFin false 5629499534213120 (-57) in
  [ONums (s2b "m") [one; m3]; ONums (s2b "l") [h; FNan]; ONums (s2b "cm") [FInf true; h; h; one; m3; FFin true 0 (-1074)];
   OPlain (s2b "W*"); OClipStroke; ONamed (s2b "Do") [73; 109; 0; 195; 169]; OColor true (Gray h);
   OColor false (Cmyk h one m3 FNan); OComps false [h; one]; OSmall (s2b "J") 2; ODash [one; h] h; ODash [] h;
   OFont (s2b "F1") false 125 1; OFont (s2b "F1") false 2147483648 0; OFont (s2b "F2") true 0 0;
   OShowText [40; 65; 10; 200; 92; 0; 55; 255; 41]; OShowHex (s2b "00AF1"); OTJ [VGlyphs (s2b "00AF"); VAdjust m3];
   OComment (s2b "hi"); OBdc (s2b "P") 7; OBdcActual (s2b "Span") 3 [65; 8364; 55357; 56832]; OEmc].
Example sample_ops_roundtrip :
  regular sample_ops = true /\ in_known_class sample_ops = false
  /\ parse (serialize sample_ops) = expected sample_ops.
Proof. vm_compute. repeat split; reflexivity. Qed.
