(** C21 — the operand-stack parser of parser/content.rs ([parse_operators], [parse_operator], the
    pop_* helpers, marked-content property dictionaries, inline images), the serializer
    graphics/ops.rs [serialize_ops] (with graphics/color.rs colour operators, graphics/state.rs
    dash formatting, text/encoding.rs show-text escaping and page.rs marked-content operators),
    the round-trip specification [expected], and the case checkers. *)
From OxVerif Require Import Base.Util C21.Num C21.Tok.
Open Scope N_scope.

Definition s2b := bytes_of_string.

(** * Parsed operations (ContentOperation, grouped by operand shape; operator by its PDF name) *)
Inductive tjel := JText (s : bytes) | JSpace (b : N).
Inductive mcv :=
| MStr (s : bytes) | MInt (z : Z) | MReal (b : N) | MName (s : bytes)
| MArr (l : list mcv) | MDict (l : list (bytes * mcv)).
Inductive mcprops := PRef (n : bytes) | PInline (d : list (bytes * mcv)).
Inductive ival := IVInt (z : Z) | IVReal (b : N) | IVName (s : bytes) | IVStr | IVNull.
Inductive cop :=
| CPlain (o : bytes)
| CNums (o : bytes) (a : list N)
| CName (o : bytes) (n : bytes)
| CInt (o : bytes) (z : Z)
| CFont (n : bytes) (sz : N)
| CStr (o : bytes) (s : bytes)
| CQuote (aw ac : N) (s : bytes)
| CTJ (l : list tjel)
| CDash (a : list N) (ph : N)
| CComps (o : bytes) (a : list N)
| CMC (o : bytes) (tag : bytes) (p : mcprops)
| CInline (params : list (bytes * ival)) (data : bytes).

(** * Finite maps as association lists: HashMap insert order → canonical sorted list *)
Fixpoint bytes_leb (a b : bytes) : bool :=
  match a, b with
  | [], _ => true
  | _ :: _, [] => false
  | x :: a', y :: b' => if x <? y then true else if y <? x then false else bytes_leb a' b'
  end.
Fixpoint ins_kv {A} (kv : bytes * A) (l : list (bytes * A)) : list (bytes * A) :=
  match l with
  | [] => [kv]
  | h :: t => if bytes_leb (fst kv) (fst h) then kv :: l else h :: ins_kv kv t
  end.
Fixpoint sort_kv {A} (l : list (bytes * A)) : list (bytes * A) :=
  match l with [] => [] | h :: t => ins_kv h (sort_kv t) end.
Fixpoint has_key {A} (k : bytes) (l : list (bytes * A)) : bool :=
  match l with [] => false | h :: t => bytes_eqb k (fst h) || has_key k t end.
(** keep the first binding of every key *)
Fixpoint dedup_first_acc {A} (seen : list (bytes * A)) (l : list (bytes * A)) : list (bytes * A) :=
  match l with
  | [] => []
  | h :: t => if has_key (fst h) seen then dedup_first_acc seen t
              else h :: dedup_first_acc (h :: seen) t
  end.
Definition norm_first {A} (l : list (bytes * A)) : list (bytes * A) := sort_kv (dedup_first_acc [] l).

(** * Operator table of parse_operator *)
Inductive kind :=
| KPlain (canon : bytes) | KNums (n : nat) | KName | KInt | KFont | KStr | KQuote | KTJ | KDash
| KComps (canon : bytes) | KMC.

Definition optable : list (bytes * kind) :=
  map (fun p => (s2b (fst p), snd p))
  [ ("BT", KPlain (s2b "BT")); ("ET", KPlain (s2b "ET"));
    ("Tc", KNums 1); ("Tw", KNums 1); ("Tz", KNums 1); ("TL", KNums 1); ("Tf", KFont); ("Tr", KInt);
    ("Ts", KNums 1); ("Td", KNums 2); ("TD", KNums 2); ("Tm", KNums 6); ("T*", KPlain (s2b "T*"));
    ("Tj", KStr); ("TJ", KTJ); ("'", KStr); (String (ascii_of_N 34) EmptyString, KQuote);
    ("q", KPlain (s2b "q")); ("Q", KPlain (s2b "Q")); ("cm", KNums 6); ("w", KNums 1);
    ("J", KInt); ("j", KInt); ("M", KNums 1); ("d", KDash); ("ri", KName); ("i", KNums 1); ("gs", KName);
    ("m", KNums 2); ("l", KNums 2); ("c", KNums 6); ("v", KNums 4); ("y", KNums 4);
    ("h", KPlain (s2b "h")); ("re", KNums 4);
    ("S", KPlain (s2b "S")); ("s", KPlain (s2b "s")); ("f", KPlain (s2b "f")); ("F", KPlain (s2b "f"));
    ("f*", KPlain (s2b "f*")); ("B", KPlain (s2b "B")); ("B*", KPlain (s2b "B*"));
    ("b", KPlain (s2b "b")); ("b*", KPlain (s2b "b*")); ("n", KPlain (s2b "n"));
    ("W", KPlain (s2b "W")); ("W*", KPlain (s2b "W*"));
    ("CS", KName); ("cs", KName); ("SC", KComps (s2b "SC")); ("SCN", KComps (s2b "SC"));
    ("sc", KComps (s2b "sc")); ("scn", KComps (s2b "sc"));
    ("G", KNums 1); ("g", KNums 1); ("RG", KNums 3); ("rg", KNums 3); ("K", KNums 4); ("k", KNums 4);
    ("sh", KName); ("Do", KName); ("BMC", KName); ("BDC", KMC); ("EMC", KPlain (s2b "EMC"));
    ("MP", KName); ("DP", KMC); ("BX", KPlain (s2b "BX")); ("EX", KPlain (s2b "EX")) ]%string.

Fixpoint lookup_op (o : bytes) (t : list (bytes * kind)) : option kind :=
  match t with
  | [] => None
  | (k, v) :: r => if bytes_eqb o k then Some v else lookup_op o r
  end.

(** * pop_* helpers; the operand stack is a list with the TOP at the head *)
Definition num_of (t : token) : option N :=
  match t with TNum b => Some b | TInt z => Some (f32_of_int z) | _ => None end.

(** n successive pop_number calls; result in source order *)
Fixpoint pop_nums (n : nat) (st : list token) (acc : list N) : option (list N) :=
  match n with
  | O => Some acc
  | S n' => match st with
            | t :: st' => match num_of t with Some b => pop_nums n' st' (b :: acc) | None => None end
            | [] => None
            end
  end.

Fixpoint pop_array_go (st : list token) (acc : list token) : option (list token * list token) :=
  match st with
  | [] => None
  | TArrS :: s => Some (acc, s)
  | TArrE :: s => pop_array_go s acc
  | t :: s => pop_array_go s (t :: acc)
  end.
Definition pop_array (st : list token) : option (list token * list token) :=
  match st with
  | TArrE :: s => pop_array_go s []
  | _ => pop_array_go st []
  end.

Fixpoint all_nums (l : list token) : option (list N) :=
  match l with
  | [] => Some []
  | t :: r => match num_of t, all_nums r with Some b, Some k => Some (b :: k) | _, _ => None end
  end.
Fixpoint text_array (l : list token) : option (list tjel) :=
  match l with
  | [] => Some []
  | t :: r =>
      match (match t with
             | TStr s | THex s => Some (JText s)
             | _ => match num_of t with Some b => Some (JSpace b) | None => None end
             end), text_array r with
      | Some e, Some k => Some (e :: k)
      | _, _ => None
      end
  end.
Fixpoint pop_comps (st : list token) (acc : list N) : list N :=
  match st with
  | t :: s => match num_of t with Some b => pop_comps s (b :: acc) | None => acc end
  | [] => acc
  end.

(** token_to_mc_value and the two dictionary loops (explicit fuel; every call consumes fuel) *)
Fixpoint mc_value (fuel : nat) (t : token) (st : list token) : option (mcv * list token) :=
  match fuel with
  | O => None
  | S f =>
      match t with
      | TStr s | THex s => Some (MStr s, st)
      | TInt z => Some (MInt z, st)
      | TNum b => Some (MReal b, st)
      | TName n => Some (MName n, st)
      | TArrE =>
          (fix arr (g : nat) (st : list token) (acc : list mcv) : option (mcv * list token) :=
             match g with
             | O => None
             | S g' =>
                 match st with
                 | [] => None
                 | TArrS :: s => Some (MArr acc, s)
                 | t' :: s => match mc_value f t' s with
                              | Some (v, s') => arr g' s' (v :: acc)
                              | None => None
                              end
                 end
             end) (S (length st)) st []
      | TDictE =>
          (fix dict (g : nat) (st : list token) (acc : list (bytes * mcv)) : option (mcv * list token) :=
             match g with
             | O => None
             | S g' =>
                 match st with
                 | [] => None
                 | TDictS :: s => Some (MDict (norm_first acc), s)
                 | t' :: s => match mc_value f t' s with
                              | Some (v, TName k :: s') => dict g' s' ((k, v) :: acc)
                              | _ => None
                              end
                 end
             end) (S (length st)) st []
      | _ => None
      end
  end.

(** MAX_MC_NESTING = 64 (fix_content_mc_nesting): a value at nesting depth d is converted with
    fuel 65 - d; depth 65 fails *)
Definition mc_fuel (st : list token) : nat := 66.

(** pop_dict_or_name *)
Definition pop_props (st : list token) : option (mcprops * list token) :=
  match st with
  | TName n :: s => Some (PRef n, s)
  | TDictE :: s =>
      match mc_value (mc_fuel s) TDictE s with
      | Some (MDict d, s') => Some (PInline d, s')
      | _ => None
      end
  | _ => None
  end.

Definition apply_op (o : bytes) (st : list token) : option cop :=
  match lookup_op o optable with
  | None => None
  | Some k =>
      match k with
      | KPlain c => Some (CPlain c)
      | KNums n => match pop_nums n st [] with Some a => Some (CNums o a) | None => None end
      | KName => match st with TName n :: _ => Some (CName o n) | _ => None end
      | KInt => match st with TInt z :: _ => Some (CInt o z) | _ => None end
      | KFont => match st with
                 | t :: TName n :: _ => match num_of t with Some b => Some (CFont n b) | None => None end
                 | _ => None
                 end
      | KStr => match st with TStr s :: _ | THex s :: _ => Some (CStr o s) | _ => None end
      | KQuote => match st with
                  | TStr s :: r | THex s :: r =>
                      match pop_nums 2 r [] with Some [aw; ac] => Some (CQuote aw ac s) | _ => None end
                  | _ => None
                  end
      | KTJ => match pop_array st with
               | Some (a, _) => match text_array a with Some l => Some (CTJ l) | None => None end
               | None => None
               end
      | KDash => match st with
                 | t :: r => match num_of t with
                             | Some ph => match pop_array r with
                                          | Some (a, _) => match all_nums a with
                                                           | Some l => Some (CDash l ph)
                                                           | None => None
                                                           end
                                          | None => None
                                          end
                             | None => None
                             end
                 | [] => None
                 end
      | KComps c => Some (CComps c (pop_comps st []))
      | KMC => match pop_props st with
               | Some (p, TName tag :: _) => Some (CMC o tag p)
               | _ => None
               end
      end
  end.

(** * Inline images (BI … ID data EI) *)
Definition inline_keys : list (bytes * bytes) :=
  map (fun p => (s2b (fst p), s2b (snd p)))
  [ ("W", "Width"); ("H", "Height"); ("CS", "ColorSpace"); ("BPC", "BitsPerComponent");
    ("F", "Filter"); ("DP", "DecodeParms"); ("IM", "ImageMask"); ("I", "Interpolate"); ("D", "Decode") ]%string.
Definition inline_names : list (bytes * bytes) :=
  map (fun p => (s2b (fst p), s2b (snd p)))
  [ ("G", "DeviceGray"); ("RGB", "DeviceRGB"); ("CMYK", "DeviceCMYK"); ("I", "Indexed");
    ("AHx", "ASCIIHexDecode"); ("A85", "ASCII85Decode"); ("LZW", "LZWDecode"); ("Fl", "FlateDecode");
    ("RL", "RunLengthDecode"); ("DCT", "DCTDecode"); ("CCF", "CCITTFaxDecode") ]%string.
Fixpoint expand (t : list (bytes * bytes)) (k : bytes) : bytes :=
  match t with
  | [] => k
  | (a, b) :: r => if bytes_eqb k a then b else expand r k
  end.
Definition inline_val (t : token) : ival :=
  match t with
  | TInt z => IVInt z
  | TNum b => IVReal b
  | TName s => IVName (expand inline_names s)
  | TStr _ | THex _ => IVStr
  | _ => IVNull
  end.

Definition op_BI : bytes := [66; 73].

(** parse_operators + parse_inline_image as one pass over the token list.
    [params] is kept newest-first; HashMap::insert = the newest binding of a key wins.
    PData: the token after `ID` is always the inline data (the tokenizer emits both together);
    the fallback `collect_inline_image_data_from_tokens` is unreachable from tokenizer output
    and is not modelled (an unexpected token ends the image with empty data). *)
Inductive pmode :=
| PNorm (st : list token)
| PInl (ps : list (bytes * ival))
| PVal (key : bytes) (ps : list (bytes * ival))
| PData (ps : list (bytes * ival)).

Fixpoint parse_toks (ts : list token) (m : pmode) : list cop :=
  match ts with
  | [] =>
      match m with
      | PNorm _ => []
      | PInl ps | PVal _ ps | PData ps => [CInline (norm_first ps) []]
      end
  | t :: r =>
      match m with
      | PNorm st =>
          match t with
          | TOp o =>
              if bytes_eqb o op_BI then parse_toks r (PInl [])
              else match apply_op o st with
                   | Some c => c :: parse_toks r (PNorm [])
                   | None => parse_toks r (PNorm [])
                   end
          | _ => parse_toks r (PNorm (t :: st))
          end
      | PInl ps =>
          match t with
          | TOp o => if bytes_eqb o op_ID then parse_toks r (PData ps) else parse_toks r (PInl ps)
          | TName k => parse_toks r (PVal (expand inline_keys k) ps)
          | _ => parse_toks r (PInl ps)
          end
      | PVal k ps => parse_toks r (PInl ((k, inline_val t) :: ps))
      | PData ps =>
          match t with
          | TInl d => CInline (norm_first ps) d :: parse_toks r (PNorm [])
          | _ => CInline (norm_first ps) [] :: parse_toks r (PNorm [])
          end
      end
  end.

(** ContentParser::parse (never an error: tokenizer errors truncate, operator errors skip) *)
Definition parse (l : bytes) : list cop := parse_toks (tokenize l) (PNorm []).

(** * The writer: operators as the library's APIs produce them *)
Inductive color := Rgb (r g b : f64) | Gray (g : f64) | Cmyk (c m y k : f64).
Inductive vtj := VGlyphs (hex : bytes) | VAdjust (x : f64).
Inductive op :=
| ONums (o : bytes) (a : list f64)     (* m l c re w M i cm Td Tw Tc Tz TL Ts, "{:.2}" *)
| OPlain (o : bytes)                   (* h S f B q Q BT ET n W W* *)
| OClipStroke                          (* "W S" *)
| ONamed (o : bytes) (n : bytes)       (* cs CS gs ri Do sh *)
| OColor (stroke : bool) (c : color)   (* "{:.3}" rg g k / RG G K *)
| OComps (stroke : bool) (a : list f64)(* "{:.4} " … sc / SC *)
| OSmall (o : bytes) (v : N)           (* J j Tr with a u8 *)
| ODash (a : list f64) (ph : f64)      (* LineDashPattern::to_pdf_string + " d" *)
| OFont (n : bytes) (neg : bool) (digits k : N)   (* size through Display: digits / 10^k *)
| OShowText (raw : bytes)              (* Op::ShowText(escape_show_text_literal_bytes(raw)) *)
| OShowHex (hex : bytes)
| OTJ (l : list vtj)
| OComment (s : bytes)
| ORaw (s : bytes)
| OBdc (tag : bytes) (mcid : N)                       (* Page::begin_marked_content *)
| OBdcActual (tag : bytes) (mcid : N) (units : list N)(* …_with_actual_text, UTF-16 units *)
| OEmc.

Definition fx (k : N) (x : f64) : bytes := print_fixed k (fixed k x).

(** text/encoding.rs escape_show_text_literal_bytes *)
Definition oct3 (b : N) : bytes := [92; 48 + b / 64; 48 + (b / 8) mod 8; 48 + b mod 8].
Definition esc_byte (b : N) : bytes :=
  if b =? 40 then [92; 40] else if b =? 41 then [92; 41] else if b =? 92 then [92; 92]
  else if b =? 10 then [92; 110] else if b =? 13 then [92; 114] else if b =? 9 then [92; 116]
  else if b =? 8 then [92; 98] else if b =? 12 then [92; 102]
  else if (32 <=? b) && (b <=? 126) then [b]
  else oct3 b.
Definition escape (s : bytes) : bytes := flat_map esc_byte s.

Definition hexdig (n : N) : N := if n <? 10 then 48 + n else 55 + n.
Definition hex4 (u : N) : bytes :=
  [hexdig (u / 4096); hexdig ((u / 256) mod 16); hexdig ((u / 16) mod 16); hexdig (u mod 16)].

Definition color_nums (c : color) : list f64 :=
  match c with Rgb r g b => [r; g; b] | Gray g => [g] | Cmyk c m y k => [c; m; y; k] end.
Definition color_op (stroke : bool) (c : color) : bytes :=
  match c with
  | Rgb _ _ _ => if stroke then s2b "RG" else s2b "rg"
  | Gray _ => if stroke then s2b "G" else s2b "g"
  | Cmyk _ _ _ _ => if stroke then s2b "K" else s2b "k"
  end.

Definition nums_sp (k : N) (a : list f64) : bytes := flat_map (fun x => fx k x ++ [32]) a.
Fixpoint join_sp (l : list bytes) : bytes :=
  match l with [] => [] | [x] => x | x :: r => x ++ 32 :: join_sp r end.

(** text/encoding.rs escape_pdf_name (after fix_name_escape; ISO 32000-1 7.3.5): a byte in 0x21..0x7E
    that is neither '#' nor one of ( ) < > [ ] { } / % is kept, every other byte of the name's UTF-8
    form is written #XX (upper-case hex).  Used for every name operand and the BDC tag. *)
Definition iso_plain (c : N) : bool :=
  (33 <=? c) && (c <=? 126)
  && negb ((c =? 35) || (c =? 40) || (c =? 41) || (c =? 60) || (c =? 62) || (c =? 91) || (c =? 93)
           || (c =? 123) || (c =? 125) || (c =? 47) || (c =? 37)).
Fixpoint esc_name (n : bytes) : bytes :=
  match n with
  | [] => []
  | c :: r => if iso_plain c then c :: esc_name r
              else 35 :: hexdig (c / 16) :: hexdig (c mod 16) :: esc_name r
  end.
Definition ser_op (o : op) : bytes :=
  match o with
  | ONums w a => nums_sp 2 a ++ w ++ [10]
  | OPlain w => w ++ [10]
  | OClipStroke => [87; 32; 83; 10]
  | ONamed w n => 47 :: esc_name n ++ 32 :: w ++ [10]
  | OColor st c => nums_sp 3 (color_nums c) ++ color_op st c ++ [10]
  | OComps st a => nums_sp 4 a ++ (if st then s2b "SC" else s2b "sc") ++ [10]
  | OSmall w v => dec v ++ 32 :: w ++ [10]
  | ODash a ph =>
      (match a with
       | [] => s2b "[] 0"
       | _ => 91 :: join_sp (map (fx 2) a) ++ 93 :: 32 :: fx 2 ph
       end) ++ [32; 100; 10]
  | OFont n neg d k => 47 :: esc_name n ++ 32 :: print_fixed k (neg, d) ++ s2b " Tf" ++ [10]
  | OShowText raw => 40 :: escape raw ++ s2b ") Tj" ++ [10]
  | OShowHex h => 60 :: h ++ s2b "> Tj" ++ [10]
  | OTJ l =>
      91 :: flat_map (fun e => match e with
                               | VGlyphs h => 32 :: 60 :: h ++ [62]
                               | VAdjust x => 32 :: fx 2 x
                               end) l ++ s2b " ] TJ" ++ [10]
  | OComment s => 37 :: 32 :: s ++ [10]
  | ORaw s => s
  | OBdc tag id => 47 :: esc_name tag ++ s2b " <</MCID " ++ dec id ++ s2b ">> BDC" ++ [10]
  | OBdcActual tag id us =>
      47 :: esc_name tag ++ s2b " <</MCID " ++ dec id ++ s2b " /ActualText <FEFF" ++ flat_map hex4 us
      ++ s2b ">>> BDC" ++ [10]
  | OEmc => s2b "EMC" ++ [10]
  end.

Definition serialize (ops : list op) : bytes := flat_map ser_op ops.

(** * The round-trip specification: what must come back, operands rounded as documented
      (k decimals, then the nearest f32) *)
Definition rnd (k : N) (x : f64) : N := f32_of_fixed k (fixed k x).

Fixpoint unhex_pairs (h : bytes) : bytes :=
  match h with
  | a :: b :: r => match hexv a, hexv b with
                   | Some x, Some y => (x * 16 + y) :: unhex_pairs r
                   | _, _ => []
                   end
  | [a] => match hexv a with Some x => [x * 16] | None => [] end
  | [] => []
  end.

Definition font_size (neg : bool) (d k : N) : N :=
  if k =? 0 then f32_of_int (if neg then - Z.of_N d else Z.of_N d)%Z
  else f32_bits neg d (10 ^ k).

Definition utf16be (us : list N) : bytes := flat_map (fun u => [u / 256; u mod 256]) us.

Definition expected_op (o : op) : list cop :=
  match o with
  | ONums w a => [CNums w (map (rnd 2) a)]
  | OPlain w => [CPlain w]
  | OClipStroke => [CPlain [87]; CPlain [83]]
  | ONamed w n => [CName w n]
  | OColor st c => [CNums (color_op st c) (map (rnd 3) (color_nums c))]
  | OComps st a => [CComps (if st then s2b "SC" else s2b "sc") (map (rnd 4) a)]
  | OSmall w v => [CInt w (Z.of_N v)]
  | ODash a ph => [CDash (map (rnd 2) a) (match a with [] => 0 | _ => rnd 2 ph end)]
  | OFont n neg d k => [CFont n (font_size neg d k)]
  | OShowText raw => [CStr (s2b "Tj") raw]
  | OShowHex h => [CStr (s2b "Tj") (unhex_pairs h)]
  | OTJ l => [CTJ (map (fun e => match e with
                                 | VGlyphs h => JText (unhex_pairs h)
                                 | VAdjust x => JSpace (rnd 2 x)
                                 end) l)]
  | OComment _ => []
  | ORaw _ => []
  | OBdc tag id => [CMC (s2b "BDC") tag (PInline [(s2b "MCID", MInt (Z.of_N id))])]
  | OBdcActual tag id us =>
      [CMC (s2b "BDC") tag (PInline [(s2b "ActualText", MStr (254 :: 255 :: utf16be us));
                                     (s2b "MCID", MInt (Z.of_N id))])]
  | OEmc => [CPlain (s2b "EMC")]
  end.
Definition expected (ops : list op) : list cop := flat_map expected_op ops.

(** * Side conditions *)
(** [regular_char]: bytes the writer before fix_name_escape could carry raw (kept for the record lemmas) *)
Definition regular_char (c : N) : bool := negb (is_delim c) && negb (c =? 35) && (c <? 256).
(** a name operand is the UTF-8 form of a Rust String: ANY bytes < 256 that are valid UTF-8 (white
    space, delimiters, '#', controls and non-ASCII included — they are escaped) *)
Definition regular_name (n : bytes) : bool := bytes_ok n && utf8_valid n.
Definition is_uhex (c : N) : bool := btw 48 c 57 || btw 65 c 70.

Fixpoint assoc_nat (o : bytes) (t : list (bytes * nat)) : option nat :=
  match t with [] => None | (k, v) :: r => if bytes_eqb o k then Some v else assoc_nat o r end.
Definition nums_table : list (bytes * nat) :=
  map (fun p => (s2b (fst p), snd p))
  [ ("m", 2); ("l", 2); ("c", 6); ("re", 4); ("w", 1); ("M", 1); ("i", 1); ("cm", 6); ("Td", 2);
    ("Tw", 1); ("Tc", 1); ("Tz", 1); ("TL", 1); ("Ts", 1) ]%string%nat.
Definition mem_bytes (o : bytes) (l : list bytes) : bool := existsb (bytes_eqb o) l.
Definition plain_ops : list bytes := map s2b ["h"; "S"; "f"; "B"; "q"; "Q"; "BT"; "ET"; "n"; "W"; "W*"]%string.
Definition named_ops : list bytes := map s2b ["cs"; "CS"; "gs"; "ri"; "Do"; "sh"]%string.
Definition small_ops : list bytes := map s2b ["J"; "j"; "Tr"]%string.

(** the operator is one the serializer can emit, with the operands it takes *)
Definition op_wf (o : op) : bool :=
  match o with
  | ONums w a => match assoc_nat w nums_table with Some n => Nat.eqb n (length a) | None => false end
  | OPlain w => mem_bytes w plain_ops
  | ONamed w _ => mem_bytes w named_ops
  | OSmall w v => mem_bytes w small_ops && (v <? 256)
  | OShowText raw => bytes_ok raw
  | OBdcActual _ _ us => forallb (fun u => u <? 65536) us
  | _ => true
  end.

(** names are UTF-8 byte strings (nothing else: every name is escaped), hex operands are upper-case hex digits, comments have no
    line feed, `Raw` (the untyped escape hatch) excluded, MCIDs below 2^31 *)
Definition op_regular (o : op) : bool :=
  op_wf o &&
  match o with
  | ONamed _ n => regular_name n
  | OFont n _ _ _ => regular_name n
  | OShowHex h => forallb is_uhex h
  | OTJ l => forallb (fun e => match e with VGlyphs h => forallb is_uhex h | _ => true end) l
  | OComment s => forallb (fun c => negb (c =? 10)) s
  | ORaw _ => false
  | OBdc tag id => regular_name tag && (id <? 2 ^ 31)
  | OBdcActual tag id _ => regular_name tag && (id <? 2 ^ 31)
  | _ => true
  end.
Definition regular (ops : list op) : bool := forallb op_regular ops.

(** * Known classes of the "extreme numeric arguments" clause *)
(** C21-f32-overflow: an operand whose documented rounding is not a finite f32 *)
Definition cop_nums (c : cop) : list N :=
  match c with
  | CNums _ a | CComps _ a => a
  | CFont _ b => [b]
  | CQuote a b _ => [a; b]
  | CDash a p => p :: a
  | CTJ l => flat_map (fun e => match e with JSpace b => [b] | _ => [] end) l
  | _ => []
  end.
Definition f32_overflow (o : op) : bool :=
  existsb (fun c => existsb f32_is_inf (cop_nums c)) (expected_op o).
Definition in_known_class (ops : list op) : bool := existsb f32_overflow ops.

(** * Equality of results *)
Definition nlist_eqb := list_eqb N.eqb.
Definition tjel_eqb (a b : tjel) : bool :=
  match a, b with
  | JText x, JText y => bytes_eqb x y
  | JSpace x, JSpace y => x =? y
  | _, _ => false
  end.
Fixpoint mcv_eqb (a b : mcv) {struct a} : bool :=
  match a, b with
  | MStr x, MStr y => bytes_eqb x y
  | MInt x, MInt y => (x =? y)%Z
  | MReal x, MReal y => x =? y
  | MName x, MName y => bytes_eqb x y
  | MArr x, MArr y =>
      (fix go (x y : list mcv) : bool :=
         match x, y with
         | [], [] => true
         | p :: x', q :: y' => mcv_eqb p q && go x' y'
         | _, _ => false
         end) x y
  | MDict x, MDict y =>
      (fix go (x y : list (bytes * mcv)) : bool :=
         match x, y with
         | [], [] => true
         | (k1, p) :: x', (k2, q) :: y' => bytes_eqb k1 k2 && mcv_eqb p q && go x' y'
         | _, _ => false
         end) x y
  | _, _ => false
  end.
Definition props_eqb (a b : mcprops) : bool :=
  match a, b with
  | PRef x, PRef y => bytes_eqb x y
  | PInline x, PInline y => mcv_eqb (MDict x) (MDict y)
  | _, _ => false
  end.
Definition ival_eqb (a b : ival) : bool :=
  match a, b with
  | IVInt x, IVInt y => (x =? y)%Z
  | IVReal x, IVReal y => x =? y
  | IVName x, IVName y => bytes_eqb x y
  | IVStr, IVStr => true
  | IVNull, IVNull => true
  | _, _ => false
  end.
Definition cop_eqb (a b : cop) : bool :=
  match a, b with
  | CPlain x, CPlain y => bytes_eqb x y
  | CNums o1 x, CNums o2 y => bytes_eqb o1 o2 && nlist_eqb x y
  | CName o1 x, CName o2 y => bytes_eqb o1 o2 && bytes_eqb x y
  | CInt o1 x, CInt o2 y => bytes_eqb o1 o2 && (x =? y)%Z
  | CFont n1 x, CFont n2 y => bytes_eqb n1 n2 && (x =? y)
  | CStr o1 x, CStr o2 y => bytes_eqb o1 o2 && bytes_eqb x y
  | CQuote a1 b1 x, CQuote a2 b2 y => (a1 =? a2) && (b1 =? b2) && bytes_eqb x y
  | CTJ x, CTJ y => list_eqb tjel_eqb x y
  | CDash x p, CDash y q => nlist_eqb x y && (p =? q)
  | CComps o1 x, CComps o2 y => bytes_eqb o1 o2 && nlist_eqb x y
  | CMC o1 t1 p, CMC o2 t2 q => bytes_eqb o1 o2 && bytes_eqb t1 t2 && props_eqb p q
  | CInline p1 d1, CInline p2 d2 =>
      list_eqb (fun a b => bytes_eqb (fst a) (fst b) && ival_eqb (snd a) (snd b)) p1 p2 && bytes_eqb d1 d2
  | _, _ => false
  end.
Definition cops_eqb := list_eqb cop_eqb.

(** zeros compare equal irrespective of sign (ContentOperation: PartialEq on f32) when the
    property is judged; the model comparison (bit 1) is exact *)

(** * Case checkers *)
(** Display digits reported by the harness denote the f64 the harness passed to the library *)
Definition font_ok (o : op) (sz : option (bool * N * Z)) : bool :=
  match o, sz with
  | OFont _ neg d k, Some (s, m, e) =>
      Bool.eqb neg s && (let (q, e') := f64_of_dec d k in (q =? m) && (e' =? e)%Z)
  | OFont _ _ _ _, None => false
  | _, _ => true
  end.

(** channel ops: (ops, Display witnesses for OFont sizes in order, emitted bytes, parsed result) *)
Definition ops_case := (list op * list (bool * N * Z) * bytes * list cop)%type.

Fixpoint fonts_ok (ops : list op) (w : list (bool * N * Z)) : bool :=
  match ops with
  | [] => match w with [] => true | _ => false end
  | (OFont _ _ _ _ as o) :: r =>
      match w with x :: w' => font_ok o (Some x) && fonts_ok r w' | [] => false end
  | _ :: r => fonts_ok r w
  end.

Definition ops_code (c : ops_case) : N :=
  let '(ops, w, emitted, parsed) := c in
  let model_ok :=
    forallb op_wf ops && fonts_ok ops w
    && bytes_eqb (serialize ops) emitted
    && cops_eqb (parse emitted) parsed in
  let prop_ok :=
    negb (regular ops)
    || (cops_eqb parsed (expected ops) && negb (existsb f32_overflow ops)) in
  code_of model_ok prop_ok.

(** channel raw: arbitrary bytes; (bytes, finished in time without panic, parsed result) *)
Definition raw_case := (bytes * bool * list cop)%type.
Definition raw_code (c : raw_case) : N :=
  let '(b, finished, parsed) := c in
  let model_ok :=
    match tokens_fuel (S (length b)) b with
    | Some ts => negb finished || cops_eqb (parse_toks ts (PNorm [])) parsed
    | None => false
    end in
  code_of model_ok finished.
