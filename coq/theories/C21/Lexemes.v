(** C21 — what one reader of the content tokenizer returns on what the writer emits for one lexeme:
    fixed-precision numbers, integers, literal strings through the show-text escape, hex strings,
    names, operators.  By induction over the byte string / the digits. *)
From OxVerif Require Import Base.Util C21.Num C21.Tok C21.Model C21.Total.
Require Import Lia ZifyBool.
Ltac Zify.zify_post_hook ::= Z.to_euclidean_division_equations.
Open Scope N_scope.

(** ** decimal digits *)
Lemma dval_app : forall l1 l2 a, dval a (l1 ++ l2) = dval (dval a l1) l2.
Proof. intros. unfold dval. apply fold_left_app. Qed.

Lemma dec_f_acc : forall f n acc, dec_f f n acc = dec_f f n [] ++ acc.
Proof.
  induction f as [|f IH]; intros n acc.
  - reflexivity.
  - cbn [dec_f]. destruct (n <? 10).
    + reflexivity.
    + rewrite (IH (n / 10) ((48 + n mod 10) :: acc)).
      rewrite (IH (n / 10) [48 + n mod 10]). rewrite <- app_assoc. reflexivity.
Qed.

Lemma dec_f_val : forall f n, n < 2 ^ N.of_nat f -> dval 0 (dec_f f n []) = n.
Proof.
  induction f as [|f IH]; intros n H.
  - cbn in H. assert (n = 0) by lia. subst. reflexivity.
  - cbn [dec_f]. destruct (n <? 10) eqn:E.
    + apply N.ltb_lt in E. cbn. lia.
    + apply N.ltb_ge in E. rewrite dec_f_acc, dval_app.
      rewrite IH.
      * cbn. lia.
      * rewrite Nnat.Nat2N.inj_succ, N.pow_succ_r' in H.
        apply N.div_lt_upper_bound; [lia|]. nia.
Qed.

Lemma is_digit_48 : forall d, d < 10 -> is_digit (48 + d) = true.
Proof. intros d H. unfold is_digit. lia. Qed.

Lemma dec_f_digits : forall f n, forallb is_digit (dec_f f n []) = true.
Proof.
  induction f as [|f IH]; intro n.
  - reflexivity.
  - cbn [dec_f]. destruct (n <? 10) eqn:E.
    + apply N.ltb_lt in E. cbn [forallb]. rewrite is_digit_48 by assumption. reflexivity.
    + rewrite dec_f_acc, forallb_app, IH. cbn [forallb].
      rewrite is_digit_48 by (apply N.mod_lt; lia). reflexivity.
Qed.

Lemma dec_val : forall n, dval 0 (dec n) = n.
Proof.
  intro n. unfold dec. apply dec_f_val.
  rewrite Nnat.Nat2N.inj_succ, Nnat.N2Nat.id, N.pow_succ_r'.
  pose proof (N.size_gt n). lia.
Qed.
Lemma dec_digits : forall n, forallb is_digit (dec n) = true.
Proof. intro. apply dec_f_digits. Qed.
Lemma dec_nonempty : forall n, dec n <> [].
Proof.
  intro n. unfold dec. cbn [dec_f]. destruct (n <? 10); [discriminate|].
  rewrite dec_f_acc. destruct (dec_f _ (n / 10) []); discriminate.
Qed.

Lemma pad_len : forall k n, length (pad k n) = k.
Proof.
  induction k as [|k IH]; intro n; cbn [pad].
  - reflexivity.
  - rewrite app_length, IH. cbn. lia.
Qed.
Lemma pad_digits : forall k n, forallb is_digit (pad k n) = true.
Proof.
  induction k as [|k IH]; intro n; cbn [pad].
  - reflexivity.
  - rewrite forallb_app, IH. cbn [forallb]. rewrite is_digit_48 by (apply N.mod_lt; lia). reflexivity.
Qed.
Lemma dval_pad : forall k n a, n < 10 ^ N.of_nat k -> dval a (pad k n) = a * 10 ^ N.of_nat k + n.
Proof.
  induction k as [|k IH]; intros n a H.
  - cbn in *. lia.
  - cbn [pad]. rewrite dval_app.
    rewrite Nnat.Nat2N.inj_succ, N.pow_succ_r' in *.
    rewrite IH by (apply N.div_lt_upper_bound; lia).
    cbn. lia.
Qed.

(** the digits of a {:.k} print denote the printed scaled integer:
    parse_dec (print_fixed k n) = n / 10^k, as the pair (n, k) *)
Theorem fixed_print_parse : forall k n,
  read_dec (dec (n / 10 ^ k)) (pad (N.to_nat k) (n mod 10 ^ k)) = (n, k).
Proof.
  intros k n. unfold read_dec. rewrite pad_len, Nnat.N2Nat.id. f_equal.
  rewrite dval_app, dec_val, dval_pad.
  - rewrite Nnat.N2Nat.id. pose proof (N.div_mod n (10 ^ k)).
    assert (10 ^ k <> 0) by (apply N.pow_nonzero; lia). lia.
  - rewrite Nnat.N2Nat.id. apply N.mod_lt. apply N.pow_nonzero. lia.
Qed.

(** ** numbers as the tokenizer reads them *)
Definition nodigit_follows (rest : bytes) : Prop :=
  match rest with [] => True | c :: _ => is_digit c = false end.

Lemma take_digits_app : forall ds rest, forallb is_digit ds = true -> nodigit_follows rest ->
  take_digits (ds ++ rest) = (ds, rest).
Proof.
  induction ds as [|c ds IH]; intros rest H D.
  - cbn [app]. destruct rest as [|d r]; [reflexivity|]. cbn in D. cbn [take_digits]. rewrite D. reflexivity.
  - cbn [forallb] in H. apply andb_true_iff in H. destruct H as [Hc Hs].
    cbn [app take_digits]. rewrite Hc, (IH rest Hs D). reflexivity.
Qed.

Definition num_end (rest : bytes) : Prop :=      (* what may follow a printed number *)
  match rest with [] => True | c :: _ => is_digit c = false /\ (c =? 46) = false end.

(** a {:.k} print with k > 0 reads back as the nearest f32 of the printed decimal *)
Lemma number_body_fixed : forall neg k n rest, 0 < k -> num_end rest ->
  number_body neg (dec (n / 10 ^ k) ++ 46 :: pad (N.to_nat k) (n mod 10 ^ k) ++ rest)
  = Some (TNum (f32_bits neg n (10 ^ k)), rest).
Proof.
  intros neg k n rest Hk Hr. unfold number_body.
  rewrite (take_digits_app (dec (n / 10 ^ k))); [|apply dec_digits|reflexivity].
  cbn [N.eqb]. change (46 =? 46) with true. cbn iota.
  rewrite (take_digits_app (pad (N.to_nat k) (n mod 10 ^ k))); [|apply pad_digits|].
  2:{ destruct rest as [|c r]; [exact I|]. exact (proj1 Hr). }
  rewrite fixed_print_parse.
  destruct (dec (n / 10 ^ k) ++ pad (N.to_nat k) (n mod 10 ^ k)) eqn:E; [|reflexivity].
  apply app_eq_nil in E. destruct E as [E _]. exfalso. exact (dec_nonempty _ E).
Qed.

(** an unsigned decimal integer in the i32 range reads back as that integer *)
Lemma number_body_int : forall n rest, n < 2 ^ 31 -> num_end rest ->
  number_body false (dec n ++ rest) = Some (TInt (Z.of_N n), rest).
Proof.
  intros n rest Hn Hr. unfold number_body.
  rewrite (take_digits_app (dec n)); [|apply dec_digits|].
  2:{ destruct rest as [|c r]; [exact I|]. exact (proj1 Hr). }
  rewrite dec_val.
  assert (Hi : i32_ok (Z.of_N n) = true) by (unfold i32_ok; lia).
  destruct (dec n) eqn:E; [exfalso; exact (dec_nonempty _ E)|].
  destruct rest as [|c r].
  - rewrite Hi. reflexivity.
  - destruct Hr as [_ Hdot]. rewrite Hdot, Hi. reflexivity.
Qed.

(** ** literal strings: every byte string through escape_show_text_literal_bytes *)
Lemma read_lit_esc_byte : forall b tail d, b < 256 ->
  read_lit (esc_byte b ++ tail) d = cons1 b (read_lit tail d).
Proof.
  intros b tail d Hb. unfold esc_byte.
  destruct (b =? 40) eqn:E40. { apply N.eqb_eq in E40. subst. reflexivity. }
  destruct (b =? 41) eqn:E41. { apply N.eqb_eq in E41. subst. reflexivity. }
  destruct (b =? 92) eqn:E92. { apply N.eqb_eq in E92. subst. reflexivity. }
  destruct (b =? 10) eqn:E10. { apply N.eqb_eq in E10. subst. reflexivity. }
  destruct (b =? 13) eqn:E13. { apply N.eqb_eq in E13. subst. reflexivity. }
  destruct (b =? 9) eqn:E9. { apply N.eqb_eq in E9. subst. reflexivity. }
  destruct (b =? 8) eqn:E8. { apply N.eqb_eq in E8. subst. reflexivity. }
  destruct (b =? 12) eqn:E12. { apply N.eqb_eq in E12. subst. reflexivity. }
  destruct ((32 <=? b) && (b <=? 126)) eqn:Epr.
  - cbn [app read_lit]. rewrite E92, E40, E41. reflexivity.
  - unfold oct3. cbn [app read_lit]. change (92 =? 92) with true. cbn iota.
    assert (O1 : is_oct (48 + b / 64) = true) by (unfold is_oct; lia).
    assert (O2 : is_oct (48 + (b / 8) mod 8) = true) by (unfold is_oct; lia).
    assert (O3 : is_oct (48 + b mod 8) = true) by (unfold is_oct; lia).
    rewrite O1, O2, O3. f_equal. lia.
Qed.

Theorem escape_unescape : forall s rest, bytes_ok s = true ->
  read_lit (escape s ++ 41 :: rest) 0 = (s, rest).
Proof.
  induction s as [|b s IH]; intros rest H.
  - reflexivity.
  - cbn [bytes_ok forallb] in H. apply andb_true_iff in H. destruct H as [Hb Hs].
    unfold escape. cbn [flat_map]. rewrite <- app_assoc.
    rewrite read_lit_esc_byte by (unfold byte_ok in Hb; lia).
    fold (escape s). rewrite (IH rest Hs). reflexivity.
Qed.

(** ** hex strings written with upper-case digits *)
Lemma hexv_uhex : forall c, is_uhex c = true -> exists v, hexv c = Some v.
Proof.
  intros c H. unfold is_uhex, btw in H. unfold hexv.
  destruct ((48 <=? c) && (c <=? 57)); [eauto|].
  destruct ((65 <=? c) && (c <=? 70)); [eauto|]. cbn in H. discriminate.
Qed.
Lemma uhex_not_gt : forall c, is_uhex c = true -> (c =? 62) = false.
Proof. intros c H. unfold is_uhex, btw in H. lia. Qed.

Lemma read_hex_uhex : forall h rest, forallb is_uhex h = true ->
  read_hex (h ++ 62 :: rest) None = Some (unhex_pairs h, rest).
Proof.
  assert (G : forall n h rest, (length h <= n)%nat -> forallb is_uhex h = true ->
              read_hex (h ++ 62 :: rest) None = Some (unhex_pairs h, rest)).
  { induction n as [|n IH]; intros h rest Hl H.
    - destruct h; [reflexivity | cbn in Hl; lia].
    - destruct h as [|a [|b h]].
      + reflexivity.
      + cbn [forallb] in H. apply andb_true_iff in H. destruct H as [Ha _].
        destruct (hexv_uhex a Ha) as [x Hx].
        cbn [app read_hex unhex_pairs]. rewrite (uhex_not_gt a Ha), Hx.
        change (62 =? 62) with true. cbn iota. reflexivity.
      + cbn [forallb] in H. apply andb_true_iff in H. destruct H as [Ha H].
        apply andb_true_iff in H. destruct H as [Hb H].
        destruct (hexv_uhex a Ha) as [x Hx]. destruct (hexv_uhex b Hb) as [y Hy].
        cbn [app read_hex unhex_pairs]. rewrite (uhex_not_gt a Ha), Hx, (uhex_not_gt b Hb), Hy.
        rewrite (IH h rest) by (cbn [length] in Hl; try lia; assumption). reflexivity. }
  intros. eapply G; [apply le_n | assumption].
Qed.

(** ** regular names are scanned whole and decoded unchanged *)
Definition delim_follows (rest : bytes) : Prop :=
  match rest with [] => True | c :: _ => is_delim c = true end.

Lemma scan_name_regular : forall n rest, forallb regular_char n = true -> delim_follows rest ->
  scan_name (n ++ rest) = (n, rest).
Proof.
  induction n as [|c n IH]; intros rest H D.
  - cbn [app]. destruct rest as [|d r]; [reflexivity|]. cbn in D. cbn [scan_name]. rewrite D. reflexivity.
  - cbn [forallb] in H. apply andb_true_iff in H. destruct H as [Hc Hs].
    unfold regular_char in Hc.
    apply andb_true_iff in Hc. destruct Hc as [Hc _]. apply andb_true_iff in Hc. destruct Hc as [Hd Hh].
    cbn [app scan_name]. apply negb_true_iff in Hd, Hh. rewrite Hd, Hh, (IH rest Hs D). reflexivity.
Qed.

Lemma decode_name_regular : forall n, forallb regular_char n = true -> decode_name n = Some n.
Proof.
  induction n as [|c n IH]; intro H.
  - reflexivity.
  - cbn [forallb] in H. apply andb_true_iff in H. destruct H as [Hc Hs].
    unfold regular_char in Hc.
    apply andb_true_iff in Hc. destruct Hc as [Hc _]. apply andb_true_iff in Hc. destruct Hc as [_ Hh].
    apply negb_true_iff in Hh. cbn [decode_name]. rewrite Hh, (IH Hs). reflexivity.
Qed.

(** ** escaped names (escape_pdf_name): EVERY name of bytes < 256 is scanned whole and decodes to itself *)
Definition esc_byte_ok (c : N) : bool :=
  if iso_plain c then negb (is_delim c) && negb (c =? 35)
  else negb (is_delim 35) && negb (is_delim (hexdig (c / 16))) && negb (is_delim (hexdig (c mod 16)))
       && match hex2q (hexdig (c / 16)) (hexdig (c mod 16)) with Some v => v =? c | None => false end.
Lemma esc_byte_sweep : forall c, c < 256 -> esc_byte_ok c = true.
Proof. apply allb_spec. vm_compute. reflexivity. Qed.

Lemma scan_name_esc : forall n rest, bytes_ok n = true -> delim_follows rest ->
  scan_name (esc_name n ++ rest) = (esc_name n, rest).
Proof.
  induction n as [|c n IH]; intros rest H D.
  - cbn [esc_name app]. destruct rest as [|d r]; [reflexivity|]. cbn in D. cbn [scan_name]. rewrite D. reflexivity.
  - cbn [bytes_ok forallb] in H. apply andb_true_iff in H. destruct H as [Hb Hs].
    unfold byte_ok in Hb. apply N.ltb_lt in Hb.
    pose proof (esc_byte_sweep c Hb) as K. unfold esc_byte_ok in K.
    cbn [esc_name]. destruct (iso_plain c).
    + apply andb_true_iff in K. destruct K as [K1 K2]. apply negb_true_iff in K1, K2.
      cbn [app scan_name]. rewrite K1, K2, (IH rest Hs D). reflexivity.
    + cbn [app scan_name]. change (is_delim 35) with false. change (35 =? 35) with true. cbv iota.
      rewrite (IH rest Hs D). reflexivity.
Qed.

Lemma decode_name_esc : forall n, bytes_ok n = true -> decode_name (esc_name n) = Some n.
Proof.
  induction n as [|c n IH]; intro H.
  - reflexivity.
  - cbn [bytes_ok forallb] in H. apply andb_true_iff in H. destruct H as [Hb Hs].
    unfold byte_ok in Hb. apply N.ltb_lt in Hb.
    pose proof (esc_byte_sweep c Hb) as K. unfold esc_byte_ok in K.
    cbn [esc_name]. destruct (iso_plain c).
    + apply andb_true_iff in K. destruct K as [_ K2]. apply negb_true_iff in K2.
      cbn [decode_name]. rewrite K2, (IH Hs). reflexivity.
    + apply andb_true_iff in K. destruct K as [_ K].
      destruct (hex2q (hexdig (c / 16)) (hexdig (c mod 16))) as [v|] eqn:E; [|discriminate].
      apply N.eqb_eq in K. subst v.
      cbn [decode_name]. change (35 =? 35) with true. cbv iota. rewrite E, (IH Hs). reflexivity.
Qed.

(** the escaper is the identity on names made of kept characters (no output change for them) *)
Lemma esc_name_plain : forall n, forallb iso_plain n = true -> esc_name n = n.
Proof.
  induction n as [|c n IH]; intro H; [reflexivity|].
  cbn [forallb] in H. apply andb_true_iff in H. destruct H as [Hc Hn].
  cbn [esc_name]. rewrite Hc, (IH Hn). reflexivity.
Qed.
