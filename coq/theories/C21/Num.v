(** C21 — numbers without floats.
    * an [f64] argument of an operator is its IEEE value as sign, mantissa, binary exponent
      (value = m * 2^e), or NaN / an infinity;
    * [fixed k] is Rust's [format!("{:.k}")] applied after [finite_or_zero]: the exact value
      rounded half-to-even to k decimals, as a sign and the integer of 10^-k units;
    * [print_fixed] prints such a scaled integer; [read_dec] is what the content tokenizer's
      [read_number] extracts from the digits; [f32_bits] is [str::parse::<f32>] (round to nearest
      even, overflow to infinity, gradual underflow) returning the IEEE bit pattern. *)
From OxVerif Require Import Base.Util.
Require Import Lia ZifyBool.
Open Scope N_scope.

Definition is_digit (c : N) : bool := (48 <=? c) && (c <=? 57).
Definition is_oct (c : N) : bool := (48 <=? c) && (c <=? 55).

(** decimal printing of a natural number (no leading zeros, "0" for zero) *)
Fixpoint dec_f (fuel : nat) (n : N) (acc : bytes) : bytes :=
  match fuel with
  | O => acc
  | S f => if n <? 10 then (48 + n) :: acc
           else dec_f f (n / 10) ((48 + n mod 10) :: acc)
  end.
Definition dec (n : N) : bytes := dec_f (S (N.to_nat (N.size n))) n [].

(** value of a digit string *)
Definition dval (a : N) (l : bytes) : N := fold_left (fun a d => a * 10 + (d - 48)) l a.

(** exactly k digits, zero padded on the left (n < 10^k) *)
Fixpoint pad (k : nat) (n : N) : bytes :=
  match k with
  | O => []
  | S k' => pad k' (n / 10) ++ [48 + n mod 10]
  end.

Inductive f64 := FNan | FInf (neg : bool) | FFin (neg : bool) (m : N) (e : Z).

(** graphics/color.rs finite_or_zero *)
Definition sanit (x : f64) : bool * N * Z :=
  match x with FFin s m e => (s, m, e) | _ => (false, 0, 0%Z) end.

(** num/den rounded to the nearest integer, ties to even *)
Definition rne (num den : N) : N :=
  let q := num / den in
  let r := num mod den in
  if den <? 2 * r then q + 1
  else if 2 * r =? den then (if N.even q then q else q + 1)
  else q.

Definition fixed_mag (k : N) (m : N) (e : Z) : N :=
  match e with
  | Z0 => m * 10 ^ k
  | Zpos p => m * 2 ^ (Npos p) * 10 ^ k
  | Zneg p => rne (m * 10 ^ k) (2 ^ (Npos p))
  end.

(** a printed decimal: sign and magnitude in units of 10^-k *)
Definition fixed (k : N) (x : f64) : bool * N :=
  let '(s, m, e) := sanit x in (s, fixed_mag k m e).

Definition print_fixed (k : N) (v : bool * N) : bytes :=
  let '(s, n) := v in
  (if s then [45] else []) ++ dec (n / 10 ^ k)
  ++ (if k =? 0 then [] else 46 :: pad (N.to_nat k) (n mod 10 ^ k)).

(** what read_number extracts: integer digits, optional '.', fraction digits *)
Definition read_dec (ip fp : bytes) : N * N := (dval 0 (ip ++ fp), N.of_nat (length fp)).

(** ** binary rounding *)
Definition ge_pow2 (num den : N) (l : Z) : bool :=     (* num/den >= 2^l *)
  match l with
  | Z0 => den <=? num
  | Zpos p => den * 2 ^ (Npos p) <=? num
  | Zneg p => den <=? num * 2 ^ (Npos p)
  end.

Definition flog2 (num den : N) : Z :=                  (* floor(log2(num/den)), num, den > 0 *)
  let l := (Z.of_N (N.log2 num) - Z.of_N (N.log2 den))%Z in
  if ge_pow2 num den l then l else (l - 1)%Z.

Definition rne_scaled (num den : N) (e : Z) : N :=     (* rne (num / (den * 2^e)) *)
  match e with
  | Z0 => rne num den
  | Zpos p => rne num (den * 2 ^ (Npos p))
  | Zneg p => rne (num * 2 ^ (Npos p)) den
  end.

(** nearest p-bit binary number q * 2^e with e >= emin *)
Definition bin_round (p : Z) (emin : Z) (num den : N) : N * Z :=
  if num =? 0 then (0, emin) else
  let l := flog2 num den in
  let e := Z.max (l - (p - 1)) emin in
  let q := rne_scaled num den e in
  if q =? 2 ^ (Z.to_N p) then (2 ^ (Z.to_N (p - 1)), (e + 1)%Z) else (q, e).

Definition f32_inf : N := 255 * 2 ^ 23.

(** IEEE binary32 bit pattern of (-1)^neg * num/den, correctly rounded *)
Definition f32_bits (neg : bool) (num den : N) : N :=
  let s := if neg then 2 ^ 31 else 0 in
  let '(q, e) := bin_round 24 (-149) num den in
  if q <? 2 ^ 23 then s + q
  else if (104 <? e)%Z then s + f32_inf
  else s + Z.to_N (e + 150) * 2 ^ 23 + (q - 2 ^ 23).

Definition f32_of_int (z : Z) : N := f32_bits (z <? 0)%Z (Z.abs_N z) 1.
Definition f32_of_fixed (k : N) (v : bool * N) : N := f32_bits (fst v) (snd v) (10 ^ k).
Definition f32_is_inf (b : N) : bool := (b mod 2 ^ 31) =? f32_inf.

(** the f64 (as harness-canonical mantissa/exponent) nearest to a decimal: used to check that the
    digits the harness reports for [Display] of an f64 denote that f64 *)
Definition f64_of_dec (n k : N) : N * Z := bin_round 53 (-1074) n (10 ^ k).
