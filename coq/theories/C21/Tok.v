(** C21 — code-shaped model of parser/content.rs: [ContentTokenizer::next_token] and its readers,
    the tokenizing loop of [ContentParser::parse_content] (stops at the first tokenizer error and
    keeps the tokens read so far) with explicit fuel.  Bytes are N; f32 values are IEEE bit patterns.

    Restructurings that do not change behaviour:
    * the `in_inline_image` flag is only set by the call that returns the operator `ID` and only
      consumed by the very next call, which cannot fail: the model returns both tokens in one step;
    * the skip of `; ) { }` (a self-call in the pinned tree, a loop after fix_content_delim_loop)
      is a step that yields no token. *)
From OxVerif Require Import Base.Util C21.Num.
Open Scope N_scope.

Inductive token :=
| TNum (b : N) | TInt (z : Z) | TStr (s : bytes) | THex (s : bytes) | TName (s : bytes)
| TOp (s : bytes) | TArrS | TArrE | TDictS | TDictE | TInl (s : bytes).

Definition is_ws (c : N) : bool :=
  (c =? 32) || (c =? 9) || (c =? 13) || (c =? 10) || (c =? 12).
(** terminators of a name *)
Definition is_delim (c : N) : bool :=
  is_ws c || (c =? 40) || (c =? 41) || (c =? 60) || (c =? 62) || (c =? 91) || (c =? 93)
  || (c =? 123) || (c =? 125) || (c =? 47) || (c =? 37).
(** terminators of an operator *)
Definition is_op_end (c : N) : bool := is_delim c || (c =? 59).

(** skip_whitespace + skip_comment ([incom] = inside a comment; the LF that ends a comment is white
    space and is consumed by the same loop) *)
Fixpoint skip_ws (incom : bool) (l : bytes) : bytes :=
  match l with
  | [] => []
  | c :: r =>
      if incom then skip_ws (negb (c =? 10)) r
      else if is_ws c then skip_ws false r
      else if c =? 37 then skip_ws true r
      else l
  end.

Fixpoint take_digits (l : bytes) : bytes * bytes :=
  match l with
  | c :: r => if is_digit c then let (d, rest) := take_digits r in (c :: d, rest) else ([], l)
  | [] => ([], [])
  end.

Definition i32_ok (z : Z) : bool := (-2147483648 <=? z)%Z && (z <=? 2147483647)%Z.

(** read_number: optional sign, digits with at most one '.', then str::parse::<f32> (dotted) or
    str::parse::<i32>; an integer outside i32 is read as a real (fix_content_int_overflow; the
    pinned tree failed here, which ended tokenization); no digit at all is a tokenizer error *)
Definition number_body (neg : bool) (l1 : bytes) : option (token * bytes) :=
  let (ip, l2) := take_digits l1 in
  let int_case :=
      match ip with
      | [] => None
      | _ => let z := (if neg then - Z.of_N (dval 0 ip) else Z.of_N (dval 0 ip))%Z in
             if i32_ok z then Some (TInt z, l2) else Some (TNum (f32_bits neg (dval 0 ip) 1), l2)
      end in
  match l2 with
  | c :: l3 =>
      if c =? 46 then
        let (fp, l4) := take_digits l3 in
        match ip ++ fp with
        | [] => None
        | _ => let (n, k) := read_dec ip fp in Some (TNum (f32_bits neg n (10 ^ k)), l4)
        end
      else int_case
  | [] => int_case
  end.

Definition read_number (l : bytes) : option (token * bytes) :=
  match l with
  | c :: r => if c =? 45 then number_body true r
              else if c =? 43 then number_body false r
              else number_body false l
  | [] => number_body false l
  end.

Definition unesc (e : N) : N :=
  if e =? 110 then 10 else if e =? 114 then 13 else if e =? 116 then 9
  else if e =? 98 then 8 else if e =? 102 then 12 else e.

Definition cons1 (c : N) (r : bytes * bytes) : bytes * bytes := (c :: fst r, snd r).

(** read_literal_string after '('; [d] = paren_depth - 1; end of input ends the string *)
Fixpoint read_lit (bs : bytes) (d : nat) : bytes * bytes :=
  match bs with
  | [] => ([], [])
  | c :: r =>
      if c =? 92 then
        match r with
        | [] => ([], [])
        | e :: r1 =>
            if is_oct e then
              match r1 with
              | d1 :: r2 =>
                  if is_oct d1 then
                    match r2 with
                    | d2 :: r3 =>
                        if is_oct d2
                        then cons1 ((((e - 48) * 8 + (d1 - 48)) * 8 + (d2 - 48)) mod 256) (read_lit r3 d)
                        else cons1 ((e - 48) * 8 + (d1 - 48)) (read_lit r2 d)
                    | [] => cons1 ((e - 48) * 8 + (d1 - 48)) (read_lit r2 d)
                    end
                  else cons1 (e - 48) (read_lit r1 d)
              | [] => cons1 (e - 48) (read_lit r1 d)
              end
            else cons1 (unesc e) (read_lit r1 d)
        end
      else if c =? 40 then cons1 c (read_lit r (S d))
      else if c =? 41 then
        match d with
        | O => ([], r)
        | S d' => cons1 c (read_lit r d')
        end
      else cons1 c (read_lit r d)
  end.

Definition hexv (c : N) : option N :=
  if (48 <=? c) && (c <=? 57) then Some (c - 48)
  else if (65 <=? c) && (c <=? 70) then Some (c - 55)
  else if (97 <=? c) && (c <=? 102) then Some (c - 87)
  else None.

Definition cons_res (c : N) (r : option (bytes * bytes)) : option (bytes * bytes) :=
  match r with Some (s, rest) => Some (c :: s, rest) | None => None end.

(** read_hex_string after '<' *)
Fixpoint read_hex (l : bytes) (nib : option N) : option (bytes * bytes) :=
  match l with
  | [] => None
  | c :: r =>
      if c =? 62 then Some (match nib with Some n => [n * 16] | None => [] end, r)
      else match hexv c with
           | Some dg => match nib with
                        | Some n => cons_res (n * 16 + dg) (read_hex r None)
                        | None => read_hex r (Some dg)
                        end
           | None => if is_ws c then read_hex r nib else None
           end
  end.

(** read_name: raw extent ('#' swallows the two following bytes when there are two) *)
Fixpoint scan_name (l : bytes) : bytes * bytes :=
  match l with
  | [] => ([], [])
  | c :: r =>
      if is_delim c then ([], l)
      else if c =? 35 then
        match r with
        | a :: b :: r2 => cons1 c (cons1 a (cons1 b (scan_name r2)))
        | _ => cons1 c (scan_name r)
        end
      else cons1 c (scan_name r)
  end.

(** u8::from_str_radix(two bytes, 16): two hex digits, or '+' and one hex digit *)
Definition hex2q (a b : N) : option N :=
  match hexv b with
  | None => None
  | Some y => if a =? 43 then Some y
              else match hexv a with Some x => Some (x * 16 + y) | None => None end
  end.

Definition cons_opt (c : N) (r : option bytes) : option bytes :=
  match r with Some s => Some (c :: s) | None => None end.

Fixpoint decode_name (l : bytes) : option bytes :=
  match l with
  | [] => Some []
  | c :: r =>
      if c =? 35 then
        match r with
        | a :: b :: r2 => match hex2q a b with
                          | Some v => cons_opt v (decode_name r2)
                          | None => None
                          end
        | _ => cons_opt c (decode_name r)
        end
      else cons_opt c (decode_name r)
  end.

Definition cont (c : N) : bool := (128 <=? c) && (c <=? 191).
Definition btw (a c b : N) : bool := (a <=? c) && (c <=? b).

(** String::from_utf8 / str::from_utf8 succeed *)
Fixpoint utf8_valid (l : bytes) : bool :=
  match l with
  | [] => true
  | c :: r =>
      if c <? 128 then utf8_valid r
      else if btw 194 c 223 then
        match r with c1 :: r1 => cont c1 && utf8_valid r1 | _ => false end
      else if btw 224 c 239 then
        match r with
        | c1 :: c2 :: r2 =>
            (if c =? 224 then btw 160 c1 191 else if c =? 237 then btw 128 c1 159 else cont c1)
            && cont c2 && utf8_valid r2
        | _ => false
        end
      else if btw 240 c 244 then
        match r with
        | c1 :: c2 :: c3 :: r3 =>
            (if c =? 240 then btw 144 c1 191 else if c =? 244 then btw 128 c1 143 else cont c1)
            && cont c2 && cont c3 && utf8_valid r3
        | _ => false
        end
      else false
  end.

Fixpoint scan_op (l : bytes) : bytes * bytes :=
  match l with
  | [] => ([], [])
  | c :: r => if is_op_end c then ([], l) else cons1 c (scan_op r)
  end.

(** read_inline_image_data *)
Definition ei_boundary (l : bytes) : bool :=
  match l with
  | [] => true
  | c :: _ => is_ws c || (c =? 47) || (c =? 60) || (c =? 40) || (c =? 91) || (c =? 37)
  end.
Definition ei_here (l : bytes) : option bytes :=
  match l with
  | c :: c2 :: r2 => if (c =? 69) && (c2 =? 73) && ei_boundary r2 then Some r2 else None
  | _ => None
  end.
Fixpoint inl_scan (l : bytes) : bytes * bytes :=
  match l with
  | [] => ([], [])
  | c :: r =>
      if is_ws c then
        match ei_here r with
        | Some rest => ([], rest)
        | None => cons1 c (inl_scan r)
        end
      else cons1 c (inl_scan r)
  end.
Definition read_inline (l : bytes) : bytes * bytes :=
  let l1 :=
    match l with
    | c :: r =>
        if (c =? 32) || (c =? 10) || (c =? 9) then r
        else if c =? 13 then match r with c2 :: r2 => if c2 =? 10 then r2 else r | [] => r end
        else l
    | [] => l
    end in
  match ei_here l1 with
  | Some rest => ([], rest)
  | None => inl_scan l1
  end.

Definition op_ID : bytes := [73; 68].

Inductive step := SEnd | SErr | STok (ts : list token) (rest : bytes).

Definition is_numstart (c : N) : bool := (c =? 43) || (c =? 45) || (c =? 46) || is_digit c.

Definition next_token (l0 : bytes) : step :=
  match skip_ws false l0 with
  | [] => SEnd
  | c :: r =>
      if is_numstart c then
        match read_number (c :: r) with Some (t, rest) => STok [t] rest | None => SErr end
      else if c =? 40 then let (s, rest) := read_lit r 0 in STok [TStr s] rest
      else if c =? 60 then
        match r with
        | c2 :: r' => if c2 =? 60 then STok [TDictS] r'
                      else match read_hex r None with Some (s, rest) => STok [THex s] rest | None => SErr end
        | [] => SErr
        end
      else if c =? 62 then
        match r with
        | c2 :: r' => if c2 =? 62 then STok [TDictE] r' else SErr
        | [] => SErr
        end
      else if c =? 91 then STok [TArrS] r
      else if c =? 93 then STok [TArrE] r
      else if c =? 47 then
        let (raw, rest) := scan_name r in
        match decode_name raw with
        | Some n => if utf8_valid n then STok [TName n] rest else SErr
        | None => SErr
        end
      else if (c =? 59) || (c =? 41) || (c =? 123) || (c =? 125) then STok [] r
      else
        let (w, rest) := scan_op (c :: r) in
        if utf8_valid w then
          if bytes_eqb w op_ID
          then let (d, rest') := read_inline rest in STok [TOp w; TInl d] rest'
          else STok [TOp w] rest
        else SErr
  end.

(** the tokenizing loop of parse_content; [None] = out of fuel *)
Fixpoint tokens_fuel (n : nat) (l : bytes) : option (list token) :=
  match n with
  | O => None
  | S n' =>
      match next_token l with
      | SEnd | SErr => Some []
      | STok ts r => match tokens_fuel n' r with Some k => Some (ts ++ k) | None => None end
      end
  end.

Definition tokenize (l : bytes) : list token :=
  match tokens_fuel (S (length l)) l with Some k => k | None => [] end.
