(** C21 — termination of the content tokenizer/parser model on arbitrary bytes: every call of
    [next_token] that yields tokens consumes at least one byte, hence fuel |input|+1 suffices; the
    operand-stack parser is structurally recursive on the token list. *)
From OxVerif Require Import Base.Util C21.Num C21.Tok C21.Model.
Require Import Lia ZifyBool.
Open Scope N_scope.

Lemma skip_ws_len : forall l b, (length (skip_ws b l) <= length l)%nat.
Proof.
  induction l as [|c r IH]; intro b; cbn [skip_ws].
  - lia.
  - destruct b.
    + specialize (IH (negb (c =? 10))). cbn [length]. lia.
    + destruct (is_ws c).
      * specialize (IH false). cbn [length]. lia.
      * destruct (c =? 37).
        { specialize (IH true). cbn [length]. lia. }
        lia.
Qed.

Lemma skip_ws_head : forall l b c r, skip_ws b l = c :: r -> is_ws c = false /\ (c =? 37) = false.
Proof.
  induction l as [|x l IH]; intros b c r H; cbn [skip_ws] in H.
  - discriminate.
  - destruct b.
    + eapply IH; eauto.
    + destruct (is_ws x) eqn:E1.
      * eapply IH; eauto.
      * destruct (x =? 37) eqn:E2.
        { eapply IH; eauto. }
        injection H as -> ->. auto.
Qed.

Lemma take_digits_split : forall l d r, take_digits l = (d, r) -> l = d ++ r.
Proof.
  induction l as [|a l IH]; intros d r H; cbn [take_digits] in H.
  - injection H as <- <-. reflexivity.
  - destruct (is_digit a).
    + destruct (take_digits l) as [d' r'] eqn:E. injection H as <- <-.
      cbn [app]. f_equal. apply IH. reflexivity.
    + injection H as <- <-. reflexivity.
Qed.

Lemma take_digits_len : forall l d r, take_digits l = (d, r) -> (length l = length d + length r)%nat.
Proof. intros l d r H. apply take_digits_split in H. subst. apply app_length. Qed.

Lemma number_body_len : forall neg l t r, number_body neg l = Some (t, r) -> (length r < length l)%nat.
Proof.
  intros neg l1 t r G. unfold number_body in G.
  destruct (take_digits l1) as [ip l2] eqn:E1. apply take_digits_len in E1.
  assert (IC : match ip with
               | [] => None
               | _ => let z := (if neg then - Z.of_N (dval 0 ip) else Z.of_N (dval 0 ip))%Z in
                      if i32_ok z then Some (TInt z, l2) else Some (TNum (f32_bits neg (dval 0 ip) 1), l2)
               end = Some (t, r) -> (length r < length l1)%nat).
  { destruct ip as [|i ip]; [discriminate|]. cbn zeta.
    destruct (i32_ok _); intro Q; injection Q as <- <-; cbn [length] in *; lia. }
  destruct l2 as [|c l3]; [exact (IC G)|].
  destruct (c =? 46); [|exact (IC G)].
  destruct (take_digits l3) as [fp l4] eqn:E2. apply take_digits_len in E2.
  destruct (ip ++ fp) eqn:E3; [discriminate|].
  unfold read_dec in G. injection G as <- <-. cbn [length] in *. lia.
Qed.

Lemma read_number_len : forall l t r, read_number l = Some (t, r) -> (length r < length l)%nat.
Proof.
  intros l t r H. unfold read_number in H.
  destruct l as [|c l'].
  - apply number_body_len in H. exact H.
  - destruct (c =? 45); [|destruct (c =? 43)]; apply number_body_len in H; cbn [length] in *; lia.
Qed.

Lemma read_lit_len_aux : forall n l d, (length l <= n)%nat ->
  (length (snd (read_lit l d)) <= length l)%nat.
Proof.
  induction n as [|n IH]; intros l d H.
  - destruct l; [cbn; lia | cbn in H; lia].
  - destruct l as [|c r]; [cbn; lia|].
    cbn [read_lit].
    repeat (match goal with
            | |- context [if ?b then _ else _] => destruct b
            | |- context [match ?x with [] => _ | _ :: _ => _ end] => destruct x
            | |- context [match ?x with O => _ | S _ => _ end] => destruct x
            end; cbn [cons1 snd fst]);
    cbn [length] in *; try lia;
    match goal with
    | |- (length (snd (read_lit ?x ?dd)) <= _)%nat =>
        pose proof (IH x dd ltac:(cbn [length] in *; lia)); cbn [length] in *; lia
    end.
Qed.
Lemma read_lit_len : forall l d, (length (snd (read_lit l d)) <= length l)%nat.
Proof. intros. eapply read_lit_len_aux. apply le_n. Qed.

Lemma read_hex_len : forall l nib s r, read_hex l nib = Some (s, r) -> (length r < length l)%nat.
Proof.
  induction l as [|c l IH]; intros nib s r H; cbn [read_hex] in H.
  - discriminate.
  - destruct (c =? 62).
    { injection H as <- <-. cbn [length]. lia. }
    destruct (hexv c).
    + destruct nib.
      * destruct (read_hex l None) as [[s' r']|] eqn:E; cbn [cons_res] in H; [|discriminate].
        injection H as <- <-. apply IH in E. cbn [length]. lia.
      * apply IH in H. cbn [length]. lia.
    + destruct (is_ws c); [|discriminate]. apply IH in H. cbn [length]. lia.
Qed.

Lemma scan_name_len_aux : forall n l, (length l <= n)%nat ->
  (length (snd (scan_name l)) <= length l)%nat.
Proof.
  induction n as [|n IH]; intros l H.
  - destruct l; [cbn; lia | cbn in H; lia].
  - destruct l as [|c r]; [cbn; lia|].
    cbn [scan_name].
    repeat (match goal with
            | |- context [if ?b then _ else _] => destruct b
            | |- context [match ?x with [] => _ | _ :: _ => _ end] => destruct x
            end; cbn [cons1 snd fst]);
    cbn [length] in *; try lia;
    match goal with
    | |- (length (snd (scan_name ?x)) <= _)%nat =>
        pose proof (IH x ltac:(cbn [length] in *; lia)); cbn [length] in *; lia
    end.
Qed.
Lemma scan_name_len : forall l, (length (snd (scan_name l)) <= length l)%nat.
Proof. intros. eapply scan_name_len_aux. apply le_n. Qed.

Lemma scan_op_len : forall l, (length (snd (scan_op l)) <= length l)%nat.
Proof.
  induction l as [|c l IH]; cbn [scan_op].
  - cbn. lia.
  - destruct (is_op_end c); cbn [cons1 snd length] in *; lia.
Qed.

Lemma ei_here_len : forall l r, ei_here l = Some r -> (length r <= length l)%nat.
Proof.
  intros l r H. unfold ei_here in H.
  destruct l as [|c [|c2 r2]]; try discriminate.
  destruct ((c =? 69) && (c2 =? 73) && ei_boundary r2); [|discriminate].
  injection H as <-. cbn [length]. lia.
Qed.

Lemma inl_scan_len : forall l, (length (snd (inl_scan l)) <= length l)%nat.
Proof.
  induction l as [|c l IH]; cbn [inl_scan].
  - cbn. lia.
  - destruct (is_ws c).
    + destruct (ei_here l) eqn:E.
      * apply ei_here_len in E. cbn [snd length]. lia.
      * cbn [cons1 snd length]. lia.
    + cbn [cons1 snd length]. lia.
Qed.

Lemma read_inline_len : forall l, (length (snd (read_inline l)) <= length l)%nat.
Proof.
  intro l. unfold read_inline.
  set (l1 := match l with
             | [] => l
             | c :: r => if (c =? 32) || (c =? 10) || (c =? 9) then r
                         else if c =? 13 then match r with
                                              | [] => r
                                              | c2 :: r2 => if c2 =? 10 then r2 else r
                                              end
                         else l
             end).
  assert (H1 : (length l1 <= length l)%nat).
  { subst l1. destruct l as [|c r]; [lia|].
    destruct ((c =? 32) || (c =? 10) || (c =? 9)); [cbn [length]; lia|].
    destruct (c =? 13); [|lia].
    destruct r as [|c2 r2]; [cbn [length]; lia|].
    destruct (c2 =? 10); cbn [length]; lia. }
  destruct (ei_here l1) eqn:E.
  - apply ei_here_len in E. cbn [snd]. lia.
  - pose proof (inl_scan_len l1). lia.
Qed.

(** every token-yielding (or delimiter-skipping) step consumes at least one byte *)
Lemma next_token_len : forall l ts r, next_token l = STok ts r -> (length r < length l)%nat.
Proof.
  intros l ts r H. unfold next_token in H.
  pose proof (skip_ws_len l false) as HL.
  destruct (skip_ws false l) as [|c r0] eqn:E; [discriminate|].
  apply skip_ws_head in E. destruct E as [Ews E37].
  cbn [length] in HL.
  destruct (is_numstart c) eqn:Ens.
  { destruct (read_number (c :: r0)) as [[t rest]|] eqn:E; [|discriminate].
    injection H as <- <-. apply read_number_len in E. cbn [length] in E. lia. }
  destruct (c =? 40) eqn:E40.
  { pose proof (read_lit_len r0 0) as Q. destruct (read_lit r0 0) as [s rest].
    injection H as <- <-. cbn [snd] in Q. lia. }
  destruct (c =? 60) eqn:E60.
  { destruct r0 as [|c2 r']; [discriminate|].
    destruct (c2 =? 60).
    - injection H as <- <-. cbn [length] in *. lia.
    - destruct (read_hex (c2 :: r') None) as [[s rest]|] eqn:E; [|discriminate].
      injection H as <- <-. apply read_hex_len in E. lia. }
  destruct (c =? 62) eqn:E62.
  { destruct r0 as [|c2 r']; [discriminate|].
    destruct (c2 =? 62); [|discriminate]. injection H as <- <-. cbn [length] in *. lia. }
  destruct (c =? 91) eqn:E91.
  { injection H as <- <-. lia. }
  destruct (c =? 93) eqn:E93.
  { injection H as <- <-. lia. }
  destruct (c =? 47) eqn:E47.
  { pose proof (scan_name_len r0) as Q. destruct (scan_name r0) as [raw rest].
    destruct (decode_name raw); [|discriminate].
    destruct (utf8_valid b); [|discriminate].
    injection H as <- <-. cbn [snd] in Q. lia. }
  destruct ((c =? 59) || (c =? 41) || (c =? 123) || (c =? 125)) eqn:Esk.
  { injection H as <- <-. lia. }
  assert (Eop : is_op_end c = false).
  { unfold is_op_end, is_delim. rewrite Ews, E40, E60, E62, E91, E93, E47, E37.
    cbn [orb]. apply orb_false_iff in Esk. destruct Esk as [Esk E125].
    apply orb_false_iff in Esk. destruct Esk as [Esk E123].
    apply orb_false_iff in Esk. destruct Esk as [E59 E41].
    rewrite E41, E123, E125, E59. reflexivity. }
  cbn [scan_op] in H. rewrite Eop in H.
  pose proof (scan_op_len r0) as Q. destruct (scan_op r0) as [w rest]. cbn [cons1 fst snd] in H, Q.
  destruct (utf8_valid (c :: w)); [|discriminate].
  destruct (bytes_eqb (c :: w) op_ID).
  - pose proof (read_inline_len rest) as Q2. destruct (read_inline rest) as [d rest'].
    injection H as <- <-. cbn [snd] in Q2. lia.
  - injection H as <- <-. lia.
Qed.

Lemma tokens_fuel_total : forall n l, (length l < n)%nat -> tokens_fuel n l <> None.
Proof.
  induction n as [|n IH]; intros l H; [lia|].
  cbn [tokens_fuel]. destruct (next_token l) eqn:E; try discriminate.
  apply next_token_len in E.
  specialize (IH rest ltac:(lia)). destruct (tokens_fuel n rest); [discriminate|contradiction].
Qed.

(** more fuel than needed changes nothing *)
Lemma tokens_fuel_irrel : forall n m l, (length l < n)%nat -> (length l < m)%nat ->
  tokens_fuel n l = tokens_fuel m l.
Proof.
  induction n as [|n IH]; intros m l Hn Hm; [lia|].
  destruct m as [|m]; [lia|].
  cbn [tokens_fuel]. destruct (next_token l) eqn:E; try reflexivity.
  apply next_token_len in E. rewrite (IH m rest) by lia. reflexivity.
Qed.

Lemma tokenize_unfold : forall l,
  tokenize l = match next_token l with STok ts r => ts ++ tokenize r | _ => [] end.
Proof.
  intro l. unfold tokenize at 1. cbn [tokens_fuel].
  destruct (next_token l) eqn:E; try reflexivity.
  apply next_token_len in E.
  unfold tokenize. rewrite (tokens_fuel_irrel (length l) (S (length rest)) rest) by lia.
  destruct (tokens_fuel (S (length rest)) rest) eqn:F; [reflexivity|].
  exfalso. eapply tokens_fuel_total; [|exact F]. lia.
Qed.

(** Parsing arbitrary bytes terminates: fuel |input|+1 is never exhausted, and the operation
    list is then a structurally recursive function of the tokens. *)
Theorem content_parse_total : forall l : bytes,
  exists ts, tokens_fuel (S (length l)) l = Some ts /\ parse l = parse_toks ts (PNorm []).
Proof.
  intro l. destruct (tokens_fuel (S (length l)) l) as [ts|] eqn:E.
  - exists ts. split; [reflexivity|]. unfold parse, tokenize. rewrite E. reflexivity.
  - exfalso. eapply tokens_fuel_total; [|exact E]. lia.
Qed.
