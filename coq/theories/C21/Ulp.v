(** C21 — what the "documented rounding" [expected] is, measured against the source operand.
    [rnd k x] = nearest f32 of the k-decimal print of x.  Proved here (integers only, values compared
    by cross-multiplication; 2^e is written PP e / MM e):
    * the print is within half a unit of the k-th decimal of x  ([fixed_mag_half]);
    * the f32 that is read is within half a unit 2^eb of ITS last place of the printed decimal
      ([bin_round_half]), eb >= -149;
    * that pair is normalised — 2^23 <= q < 2^24, or eb = -149 and q <= 2^23 — so 2^eb is the f32 ulp of
      the result ([bin_round_normal]); and the bit pattern [f32_bits] decodes to exactly (sign, q, eb)
      unless it overflowed ([f32_bits_decode]).
    Together: |decode (rnd k x) - x| <= 10^-k / 2 + ulp / 2  ([rnd_bound]). *)
From OxVerif Require Import Base.Util C21.Num C21.Tok C21.Model.
Require Import Lia ZifyBool.
Open Scope Z_scope.

Definition PP (e : Z) : Z := 2 ^ Z.max e 0.
Definition MM (e : Z) : Z := 2 ^ Z.max (- e) 0.

Lemma PP_pos : forall e, 0 < PP e.
Proof. intro e. unfold PP. apply Z.pow_pos_nonneg; lia. Qed.
Lemma MM_pos : forall e, 0 < MM e.
Proof. intro e. unfold MM. apply Z.pow_pos_nonneg; lia. Qed.

Lemma PP_nonneg : forall e, 0 <= e -> PP e = 2 ^ e /\ MM e = 1.
Proof. intros e H. unfold PP, MM. rewrite Z.max_l by lia. rewrite Z.max_r by lia. split; reflexivity. Qed.
Lemma PP_nonpos : forall e, e <= 0 -> PP e = 1 /\ MM e = 2 ^ (- e).
Proof. intros e H. unfold PP, MM. rewrite Z.max_r by lia. rewrite Z.max_l by lia. split; reflexivity. Qed.

(** |q * 2^e - num/den| <= 2^e / 2 *)
Definition half_ulp (num den q e : Z) : Prop :=
  2 * q * PP e * den <= 2 * num * MM e + den * PP e /\
  2 * num * MM e <= 2 * q * PP e * den + den * PP e.

Lemma rne_half : forall num den : N, (0 < den)%N ->
  (2 * rne num den * den <= 2 * num + den /\ 2 * num <= 2 * rne num den * den + den)%N.
Proof.
  intros num den H. unfold rne.
  pose proof (N.div_mod num den ltac:(lia)) as D. pose proof (N.mod_lt num den ltac:(lia)) as R.
  set (q := (num / den)%N) in *. set (r := (num mod den)%N) in *.
  destruct (den <? 2 * r)%N eqn:E1; [nia|].
  destruct (2 * r =? den)%N eqn:E2; [destruct (N.even q); nia | nia].
Qed.

Lemma pow_pos_N2Z : forall p, Z.of_N (2 ^ N.pos p) = 2 ^ Z.pos p.
Proof. intro p. rewrite N2Z.inj_pow. reflexivity. Qed.

Lemma rne_scaled_half : forall num den e, (0 < den)%N ->
  half_ulp (Z.of_N num) (Z.of_N den) (Z.of_N (rne_scaled num den e)) e.
Proof.
  intros num den e H. unfold half_ulp. destruct e as [|p|p]; cbn [rne_scaled].
  - destruct (PP_nonneg 0 ltac:(lia)) as [-> ->]. change (2 ^ 0) with 1.
    pose proof (rne_half num den H). nia.
  - destruct (PP_nonneg (Z.pos p) ltac:(lia)) as [-> ->].
    assert (X : (0 < 2 ^ N.pos p)%N) by (apply N.neq_0_lt_0, N.pow_nonzero; lia).
    pose proof (rne_half num (den * 2 ^ N.pos p) ltac:(nia)) as Q.
    pose proof (pow_pos_N2Z p) as P.
    set (x := (2 ^ N.pos p)%N) in *. set (y := 2 ^ Z.pos p) in *. nia.
  - destruct (PP_nonpos (Z.neg p) ltac:(lia)) as [-> ->]. change (- Z.neg p) with (Z.pos p).
    pose proof (rne_half (num * 2 ^ N.pos p) den H) as Q.
    pose proof (pow_pos_N2Z p) as P.
    set (x := (2 ^ N.pos p)%N) in *. set (y := 2 ^ Z.pos p) in *. nia.
Qed.

Lemma pm_succ : forall e, PP (e + 1) * MM e = 2 * PP e * MM (e + 1).
Proof.
  intro e. destruct (Z_le_gt_dec 0 e).
  - destruct (PP_nonneg e ltac:(lia)) as [-> ->]. destruct (PP_nonneg (e + 1) ltac:(lia)) as [-> ->].
    rewrite Z.pow_add_r by lia. lia.
  - destruct (PP_nonpos e ltac:(lia)) as [-> ->]. destruct (PP_nonpos (e + 1) ltac:(lia)) as [-> ->].
    replace (- e) with (- (e + 1) + 1) by lia. rewrite Z.pow_add_r by lia. lia.
Qed.

(** an even significand may be halved while the exponent goes up: same value, coarser unit *)
Lemma half_shift : forall num den a e, 0 <= den -> 0 <= num ->
  half_ulp num den (2 * a) e -> half_ulp num den a (e + 1).
Proof.
  intros num den a e Hd Hn [B1 B2]. unfold half_ulp.
  destruct (Z_le_gt_dec 0 e).
  - destruct (PP_nonneg e ltac:(lia)) as [E1 E2]. destruct (PP_nonneg (e + 1) ltac:(lia)) as [-> ->].
    rewrite E1, E2 in *. rewrite Z.pow_add_r by lia. change (2 ^ 1) with 2.
    assert (0 < 2 ^ e) by (apply Z.pow_pos_nonneg; lia).
    set (x := 2 ^ e) in *. nia.
  - destruct (PP_nonpos e ltac:(lia)) as [E1 E2]. destruct (PP_nonpos (e + 1) ltac:(lia)) as [-> ->].
    rewrite E1, E2 in *. replace (- e) with (- (e + 1) + 1) in * by lia.
    rewrite Z.pow_add_r in * by lia. change (2 ^ 1) with 2 in *.
    assert (0 < 2 ^ (- (e + 1))) by (apply Z.pow_pos_nonneg; lia).
    set (y := 2 ^ (- (e + 1))) in *. nia.
Qed.

(** the binary step: the f32 (q, eb) that is read is within half a unit 2^eb of num/den *)
Theorem bin_round_half : forall num den q e, (0 < den)%N ->
  bin_round 24 (-149) num den = (q, e) ->
  half_ulp (Z.of_N num) (Z.of_N den) (Z.of_N q) e /\ -149 <= e.
Proof.
  intros num den q e H. unfold bin_round.
  destruct (num =? 0)%N eqn:E0.
  - intro Q. injection Q as <- <-. split; [|lia]. apply N.eqb_eq in E0. subst num.
    unfold half_ulp. pose proof (PP_pos (-149)). cbn [Z.of_N]. nia.
  - set (e0 := Z.max (flog2 num den - (24 - 1)) (-149)).
    pose proof (rne_scaled_half num den e0 H) as B.
    destruct (rne_scaled num den e0 =? 2 ^ Z.to_N 24)%N eqn:E1; intro Q; injection Q as <- <-.
    + split; [|lia]. apply N.eqb_eq in E1. rewrite E1 in B.
      apply half_shift; [lia|lia|]. exact B.
    + split; [exact B|lia].
Qed.

(** the decimal step: the printed integer n (units of 10^-k) is within half a unit of m * 2^e * 10^k *)
Theorem fixed_mag_half : forall k m e,
  let n := Z.of_N (fixed_mag k m e) in
  let v := Z.of_N m * Z.of_N (10 ^ k) in
  2 * n * MM e <= 2 * v * PP e + MM e /\ 2 * v * PP e <= 2 * n * MM e + MM e.
Proof.
  intros k m e. cbv zeta. destruct e as [|p|p]; cbn [fixed_mag].
  - destruct (PP_nonneg 0 ltac:(lia)) as [-> ->]. change (2 ^ 0) with 1. lia.
  - destruct (PP_nonneg (Z.pos p) ltac:(lia)) as [-> ->].
    pose proof (pow_pos_N2Z p) as P. rewrite !N2Z.inj_mul, P. nia.
  - destruct (PP_nonpos (Z.neg p) ltac:(lia)) as [-> ->]. change (- Z.neg p) with (Z.pos p).
    assert (X : (0 < 2 ^ N.pos p)%N) by (apply N.neq_0_lt_0, N.pow_nonzero; lia).
    pose proof (rne_half (m * 10 ^ k) (2 ^ N.pos p) X) as Q.
    pose proof (pow_pos_N2Z p) as P.
    set (x := (2 ^ N.pos p)%N) in *. set (y := 2 ^ Z.pos p) in *.
    set (t := (10 ^ k)%N) in *. nia.
Qed.

(** ** the pair that is read is normalised: 2^eb is the ulp of the result *)
(** with a common scale 2^K the comparisons lose their negative exponents *)
Lemma scale_K : forall K e, 0 <= K -> 0 <= K + e -> PP e * 2 ^ K = MM e * 2 ^ (K + e).
Proof.
  intros K e HK HKe. destruct (Z_le_gt_dec 0 e).
  - destruct (PP_nonneg e ltac:(lia)) as [-> ->]. rewrite <- Z.pow_add_r by lia.
    rewrite Z.mul_1_l. f_equal. lia.
  - destruct (PP_nonpos e ltac:(lia)) as [-> ->]. rewrite <- Z.pow_add_r by lia.
    rewrite Z.mul_1_l. f_equal. lia.
Qed.

Lemma ratio_K_le : forall K e X Y, 0 <= K -> 0 <= K + e ->
  (Y * PP e <= X * MM e <-> Y * 2 ^ (K + e) <= X * 2 ^ K).
Proof.
  intros K e X Y HK HKe. pose proof (scale_K K e HK HKe) as I.
  pose proof (PP_pos e) as HP. pose proof (MM_pos e) as HM.
  assert (Hk : 0 < 2 ^ K) by (apply Z.pow_pos_nonneg; lia).
  assert (Hg : 0 < 2 ^ (K + e)) by (apply Z.pow_pos_nonneg; lia).
  set (P := PP e) in *. set (M := MM e) in *. set (k := 2 ^ K) in *. set (g := 2 ^ (K + e)) in *.
  split; intro H.
  - apply (Z.mul_le_mono_pos_l _ _ M HM).
    replace (M * (Y * g)) with ((Y * P) * k) by (transitivity (Y * (P * k)); [ring | rewrite I; ring]).
    replace (M * (X * k)) with ((X * M) * k) by ring.
    apply Z.mul_le_mono_nonneg_r; lia.
  - apply (Z.mul_le_mono_pos_r _ _ k Hk).
    replace (Y * P * k) with (M * (Y * g)) by (transitivity (Y * (P * k)); [rewrite I; ring | ring]).
    replace (X * M * k) with (M * (X * k)) by ring.
    apply Z.mul_le_mono_nonneg_l; lia.
Qed.

Lemma ratio_K_lt : forall K e X Y, 0 <= K -> 0 <= K + e ->
  (X * MM e < Y * PP e <-> X * 2 ^ K < Y * 2 ^ (K + e)).
Proof.
  intros K e X Y HK HKe. pose proof (ratio_K_le K e X Y HK HKe). lia.
Qed.

Lemma pow_ratio : forall u w, 0 <= u -> 0 <= w -> 2 ^ u * MM (u - w) = 2 ^ w * PP (u - w).
Proof.
  intros u w Hu Hw. destruct (Z_le_gt_dec 0 (u - w)).
  - destruct (PP_nonneg (u - w) ltac:(lia)) as [-> ->]. rewrite <- Z.pow_add_r by lia.
    rewrite Z.mul_1_r. f_equal. lia.
  - destruct (PP_nonpos (u - w) ltac:(lia)) as [-> ->]. rewrite <- Z.pow_add_r by lia.
    rewrite Z.mul_1_r. f_equal. lia.
Qed.

Lemma ge_pow2_spec : forall num den l,
  ge_pow2 num den l = true <-> Z.of_N den * PP l <= Z.of_N num * MM l.
Proof.
  intros num den l. destruct l as [|p|p]; cbn [ge_pow2]; rewrite N.leb_le.
  - destruct (PP_nonneg 0 ltac:(lia)) as [-> ->]. change (2 ^ 0) with 1. lia.
  - destruct (PP_nonneg (Z.pos p) ltac:(lia)) as [-> ->]. rewrite <- pow_pos_N2Z. lia.
  - destruct (PP_nonpos (Z.neg p) ltac:(lia)) as [-> ->]. change (- Z.neg p) with (Z.pos p).
    rewrite <- pow_pos_N2Z. lia.
Qed.

Lemma log2_bounds : forall n, (0 < n)%N ->
  2 ^ Z.of_N (N.log2 n) <= Z.of_N n < 2 ^ (Z.of_N (N.log2 n) + 1).
Proof.
  intros n H. pose proof (N.log2_spec n H) as [A B].
  apply N2Z.inj_le in A. apply N2Z.inj_lt in B.
  rewrite N2Z.inj_pow in A, B. rewrite N2Z.inj_succ in B. change (Z.of_N 2) with 2 in *.
  unfold Z.succ in B. split; assumption.
Qed.

(** 2^l <= num/den < 2^(l+1) for l = flog2 num den *)
Lemma flog2_spec : forall num den, (0 < num)%N -> (0 < den)%N ->
  let l := flog2 num den in
  Z.of_N den * PP l <= Z.of_N num * MM l /\ Z.of_N num * MM (l + 1) < Z.of_N den * PP (l + 1).
Proof.
  intros num den Hn Hd. cbv zeta.
  pose proof (log2_bounds num Hn) as [A1 A2]. pose proof (log2_bounds den Hd) as [B1 B2].
  unfold flog2.
  set (a := Z.of_N (N.log2 num)) in *. set (b := Z.of_N (N.log2 den)) in *.
  assert (Ha : 0 <= a) by lia. assert (Hb : 0 <= b) by lia.
  set (x := Z.of_N num) in *. set (y := Z.of_N den) in *.
  assert (UP : x * MM (a - b + 1) < y * PP (a - b + 1)).
  { pose proof (pow_ratio (a + 1) b ltac:(lia) Hb) as I.
    replace (a + 1 - b) with (a - b + 1) in I by lia.
    pose proof (PP_pos (a - b + 1)). pose proof (MM_pos (a - b + 1)).
    apply Z.lt_le_trans with (2 ^ (a + 1) * MM (a - b + 1)); [nia|]. rewrite I. nia. }
  assert (LO : y * PP (a - b - 1) <= x * MM (a - b - 1)).
  { pose proof (pow_ratio a (b + 1) Ha ltac:(lia)) as I.
    replace (a - (b + 1)) with (a - b - 1) in I by lia.
    pose proof (PP_pos (a - b - 1)). pose proof (MM_pos (a - b - 1)).
    apply Z.le_trans with (2 ^ (b + 1) * PP (a - b - 1)); [nia|]. rewrite <- I. nia. }
  destruct (ge_pow2 num den (a - b)) eqn:G.
  - apply ge_pow2_spec in G. split; assumption.
  - split; [exact LO|]. replace (a - b - 1 + 1) with (a - b) by lia.
    destruct (Z_lt_le_dec (x * MM (a - b)) (y * PP (a - b))) as [L|L]; [exact L|].
    apply ge_pow2_spec in L. fold x y in L. congruence.
Qed.

Lemma ratio_K_le' : forall K e X Y, 0 <= K -> 0 <= K + e ->
  (X * MM e <= Y * PP e <-> X * 2 ^ K <= Y * 2 ^ (K + e)).
Proof.
  intros K e X Y HK HKe. pose proof (scale_K K e HK HKe) as I.
  pose proof (PP_pos e) as HP. pose proof (MM_pos e) as HM.
  assert (Hk : 0 < 2 ^ K) by (apply Z.pow_pos_nonneg; lia).
  assert (Hg : 0 < 2 ^ (K + e)) by (apply Z.pow_pos_nonneg; lia).
  set (P := PP e) in *. set (M := MM e) in *. set (k := 2 ^ K) in *. set (g := 2 ^ (K + e)) in *.
  split; intro H.
  - apply (Z.mul_le_mono_pos_l _ _ M HM).
    replace (M * (Y * g)) with ((Y * P) * k) by (transitivity (Y * (P * k)); [ring | rewrite I; ring]).
    replace (M * (X * k)) with ((X * M) * k) by ring.
    apply Z.mul_le_mono_nonneg_r; lia.
  - apply (Z.mul_le_mono_pos_r _ _ k Hk).
    replace (Y * P * k) with (M * (Y * g)) by (transitivity (Y * (P * k)); [rewrite I; ring | ring]).
    replace (X * M * k) with (M * (X * k)) by ring.
    apply Z.mul_le_mono_nonneg_l; lia.
Qed.

Theorem bin_round_normal : forall num den q e, (0 < num)%N -> (0 < den)%N ->
  bin_round 24 (-149) num den = (q, e) ->
  (q < 2 ^ 24)%N /\ ((2 ^ 23 <= q)%N \/ (e = -149 /\ (q < 2 ^ 23)%N)).
Proof.
  intros num den q e Hn Hd. unfold bin_round.
  assert (E0 : (num =? 0)%N = false) by lia. rewrite E0.
  pose proof (flog2_spec num den Hn Hd) as [F1 F2]. cbv zeta in F1, F2.
  set (l := flog2 num den) in *.
  set (e0 := Z.max (l - (24 - 1)) (-149)).
  pose proof (rne_scaled_half num den e0 Hd) as [H1 H2].
  set (q0 := rne_scaled num den e0) in *.
  set (x := Z.of_N num) in *. set (y := Z.of_N den) in *.
  set (K := Z.abs l + 200).
  assert (HK : 0 <= K) by lia.
  assert (HKl : 0 <= K + l) by lia. assert (HKl1 : 0 <= K + (l + 1)) by lia.
  assert (HKe : 0 <= K + e0) by lia.
  apply (ratio_K_le K l x y HK HKl) in F1.
  apply (ratio_K_lt K (l + 1) x y HK HKl1) in F2.
  assert (H1' : ((2 * Z.of_N q0 - 1) * y) * PP e0 <= (2 * x) * MM e0) by lia.
  assert (H2' : (2 * x) * MM e0 <= ((2 * Z.of_N q0 + 1) * y) * PP e0) by lia.
  apply (ratio_K_le K e0 _ _ HK HKe) in H1'. apply (ratio_K_le' K e0 _ _ HK HKe) in H2'.
  clear H1 H2.
  assert (HG : 0 < 2 ^ (K + e0)) by (apply Z.pow_pos_nonneg; lia).
  assert (Hy : 0 < y) by lia.
  set (G := 2 ^ (K + e0)) in *. set (k := 2 ^ K) in *.
  assert (W : 0 < y * G) by nia.
  assert (Q0 : Z.of_N q0 <= 2 ^ 24 /\ (2 ^ 23 <= Z.of_N q0 \/ (e0 = -149 /\ Z.of_N q0 <= 2 ^ 23))).
  { destruct (Z_le_gt_dec (-149) (l - 23)).
    - assert (Ee : e0 = l - 23) by lia.
      assert (P1 : 2 ^ (K + l) = G * 2 ^ 23).
      { unfold G. rewrite <- Z.pow_add_r by lia. f_equal. lia. }
      assert (P2 : 2 ^ (K + (l + 1)) = G * 2 ^ 24).
      { unfold G. rewrite <- Z.pow_add_r by lia. f_equal. lia. }
      rewrite P1 in F1. rewrite P2 in F2.
      set (w := y * G) in *.
      assert (A1 : 2 ^ 24 * w <= (2 * Z.of_N q0 + 1) * w) by (unfold w; lia).
      assert (A2 : (2 * Z.of_N q0 - 1) * w < 2 ^ 25 * w) by (unfold w; lia).
      split; [|left]; nia.
    - assert (Ee : e0 = -149) by lia.
      assert (P2 : 2 ^ (K + (l + 1)) <= G * 2 ^ 23).
      { unfold G. rewrite <- Z.pow_add_r by lia. apply Z.pow_le_mono_r; lia. }
      set (w := y * G) in *.
      assert (A2 : (2 * Z.of_N q0 - 1) * w < 2 ^ 24 * w).
      { apply Z.le_lt_trans with (2 * x * k); [unfold w; lia|].
        apply Z.lt_le_trans with (2 * (y * 2 ^ (K + (l + 1)))); [lia|]. unfold w. nia. }
      assert (Z.of_N q0 <= 2 ^ 23) by nia.
      split; [lia | right; split; [assumption | lia]]. }
  destruct Q0 as [U L].
  destruct (q0 =? 2 ^ Z.to_N 24)%N eqn:E1; intro Q; injection Q as <- <-.
  - apply N.eqb_eq in E1. split; [reflexivity|]. left. cbn. lia.
  - apply N.eqb_neq in E1. change (2 ^ Z.to_N 24)%N with 16777216%N in E1.
    split; [lia|].
    destruct L as [L | [L1 L2]]; [left; lia|].
    destruct (N.eq_dec q0 (2 ^ 23)) as [E|E]; [left; lia | right; split; [assumption | lia]].
Qed.

(** ** the bit pattern decodes to that pair *)
Definition f32_decode (b : N) : option (bool * N * Z) :=
  let s := (2 ^ 31 <=? b)%N in
  let r := (b mod 2 ^ 31)%N in
  let E := (r / 2 ^ 23)%N in
  let f := (r mod 2 ^ 23)%N in
  if (E =? 255)%N then None
  else if (E =? 0)%N then Some (s, f, -149)
  else Some (s, (2 ^ 23 + f)%N, Z.of_N E - 150).

Ltac Zify.zify_post_hook ::= Z.to_euclidean_division_equations.

Theorem f32_bits_decode : forall neg num den q e, (0 < num)%N -> (0 < den)%N ->
  bin_round 24 (-149) num den = (q, e) -> e <= 104 ->
  f32_decode (f32_bits neg num den) = Some (neg, q, e).
Proof.
  intros neg num den q e Hn Hd B He.
  destruct (bin_round_normal num den q e Hn Hd B) as [U L].
  destruct (bin_round_half num den q e Hd B) as [_ Lo].
  unfold f32_bits. rewrite B.
  change (2 ^ 31)%N with 2147483648%N. change (2 ^ 23)%N with 8388608%N in *.
  change (2 ^ 24)%N with 16777216%N in *.
  destruct (q <? 8388608)%N eqn:Eq.
  - assert (e = -149) by (destruct L as [L | [L _]]; [lia | exact L]). subst e.
    unfold f32_decode.
    change (2 ^ 31)%N with 2147483648%N. change (2 ^ 23)%N with 8388608%N.
    set (b := ((if neg then 2147483648 else 0) + q)%N).
    assert (S : (2147483648 <=? b)%N = neg) by (unfold b; destruct neg; lia).
    assert (R : (b mod 2147483648 = q)%N) by (unfold b; destruct neg; lia).
    rewrite S, R.
    assert (Z1 : (q / 8388608 = 0)%N) by lia. assert (Z2 : (q mod 8388608 = q)%N) by lia.
    rewrite Z1, Z2. reflexivity.
  - assert (Hov : (104 <? e) = false) by lia. rewrite Hov.
    unfold f32_decode.
    change (2 ^ 31)%N with 2147483648%N. change (2 ^ 23)%N with 8388608%N.
    set (Eb := Z.to_N (e + 150)).
    assert (HE : (1 <= Eb <= 254)%N) by (unfold Eb; lia).
    set (b := ((if neg then 2147483648 else 0) + Eb * 8388608 + (q - 8388608))%N).
    assert (S : (2147483648 <=? b)%N = neg) by (unfold b; destruct neg; lia).
    assert (R : (b mod 2147483648 = Eb * 8388608 + (q - 8388608))%N) by (unfold b; destruct neg; lia).
    rewrite S, R.
    assert (Z1 : ((Eb * 8388608 + (q - 8388608)) / 8388608 = Eb)%N) by lia.
    assert (Z2 : ((Eb * 8388608 + (q - 8388608)) mod 8388608 = q - 8388608)%N) by lia.
    rewrite Z1, Z2.
    assert (N1 : (Eb =? 255)%N = false) by lia. assert (N0 : (Eb =? 0)%N = false) by lia.
    rewrite N1, N0. f_equal. f_equal; [f_equal; lia | unfold Eb; lia].
Qed.

Lemma f32_bits_zero : forall neg den, f32_decode (f32_bits neg 0 den) = Some (neg, 0%N, -149).
Proof. intros neg den. destruct neg; reflexivity. Qed.

Lemma f32_bits_overflow : forall neg num den q e, (0 < num)%N -> (0 < den)%N ->
  bin_round 24 (-149) num den = (q, e) -> 104 < e -> f32_is_inf (f32_bits neg num den) = true.
Proof.
  intros neg num den q e Hn Hd B He.
  destruct (bin_round_normal num den q e Hn Hd B) as [U L].
  unfold f32_bits. rewrite B.
  assert (Eq : (q <? 2 ^ 23)%N = false) by (destruct L as [L | [L _]]; lia).
  assert (Hov : (104 <? e) = true) by lia. rewrite Eq, Hov.
  destruct neg; reflexivity.
Qed.

(** ** the documented rounding, measured against the source operand m * 2^e (sign s) *)
Theorem rnd_bound : forall k s m e,
  let n := fixed_mag k m e in
  let v := Z.of_N m * Z.of_N (10 ^ k) in
  (2 * Z.of_N n * MM e <= 2 * v * PP e + MM e /\ 2 * v * PP e <= 2 * Z.of_N n * MM e + MM e)
  /\ exists q eb,
       bin_round 24 (-149) n (10 ^ k) = (q, eb)
       /\ half_ulp (Z.of_N n) (Z.of_N (10 ^ k)) (Z.of_N q) eb
       /\ -149 <= eb /\ (q < 2 ^ 24)%N /\ ((2 ^ 23 <= q)%N \/ (eb = -149 /\ (q < 2 ^ 23)%N))
       /\ (if 104 <? eb then f32_is_inf (rnd k (FFin s m e)) = true
           else f32_decode (rnd k (FFin s m e)) = Some (s, q, eb)).
Proof.
  intros k s m e. cbv zeta. split; [apply fixed_mag_half|].
  assert (Hd : (0 < 10 ^ k)%N) by (apply N.neq_0_lt_0, N.pow_nonzero; lia).
  change (rnd k (FFin s m e)) with (f32_bits s (fixed_mag k m e) (10 ^ k)).
  set (n := fixed_mag k m e).
  destruct (bin_round 24 (-149) n (10 ^ k)) as [q eb] eqn:B.
  exists q, eb. split; [reflexivity|].
  destruct (bin_round_half n (10 ^ k) q eb Hd B) as [Hh Hlo].
  split; [exact Hh|]. split; [exact Hlo|].
  destruct (N.eq_dec n 0) as [Z|NZ].
  - rewrite Z in *. unfold bin_round in B. change (0 =? 0)%N with true in B. cbv iota in B.
    injection B as <- <-. split; [reflexivity|]. split; [right; split; reflexivity|].
    change (104 <? -149) with false. cbv iota. apply f32_bits_zero.
  - assert (Hn : (0 < n)%N) by lia.
    destruct (bin_round_normal n (10 ^ k) q eb Hn Hd B) as [U L].
    split; [exact U|]. split; [exact L|].
    destruct (104 <? eb) eqn:O.
    + apply (f32_bits_overflow s n (10 ^ k) q eb Hn Hd B). lia.
    + apply (f32_bits_decode s n (10 ^ k) q eb Hn Hd B). lia.
Qed.

(** NaN and the infinities are written as 0 (finite_or_zero) and read back as +0.0 *)
Lemma rnd_nonfinite : forall k, rnd k FNan = 0%N /\ forall b, rnd k (FInf b) = 0%N.
Proof. intro k. split; [reflexivity | intro b; reflexivity]. Qed.

Example f32_decode_examples :
  f32_decode 1065353216 = Some (false, (2 ^ 23)%N, -23)            (* 1.0 *)
  /\ f32_decode 3221225472 = Some (true, (2 ^ 23)%N, -22)          (* -2.0 *)
  /\ f32_decode 1 = Some (false, 1%N, -149)                        (* least subnormal *)
  /\ f32_decode 2139095039 = Some (false, (2 ^ 24 - 1)%N, 104)     (* f32::MAX *)
  /\ f32_decode 2139095040 = None.                                 (* +inf *)
Proof. repeat split; reflexivity. Qed.
