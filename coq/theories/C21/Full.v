(** C21 — the operator-level round trip for EVERY operator shape the writer emits, one class per
    lemma, each in the shape the list induction consumes
        run (ser_op o ++ rest) = expected_op o ++ run rest,
    and the induction over the union: [ops_roundtrip].
    Classes: clip+stroke (`W S`), names (cs CS gs ri Do sh), colours (g G rg RG k K, "{:.3}"),
    sc/SC ("{:.4}", any number of components), integer state (J j Tr), dash arrays (d), Tf (name +
    Display-printed size, integer or fractional, also beyond i32), Tj with an escaped literal string,
    Tj with a hex string, TJ arrays, comments, BDC with /MCID (and /ActualText) property
    dictionaries, EMC.  Only [ORaw] (the untyped escape hatch) stays excluded by [regular]. *)
From OxVerif Require Import Base.Util C21.Num C21.Tok C21.Model C21.Total C21.Lexemes C21.Roundtrip.
Require Import Lia ZifyBool.
Ltac Zify.zify_post_hook ::= Z.to_euclidean_division_equations.
Open Scope N_scope.

(** ** small tactics: decide closed boolean tests, evaluate string literals *)
Ltac ifc :=
  repeat match goal with
         | |- context [if ?b then _ else _] =>
             let v := eval vm_compute in b in
             match v with
             | true => change b with true
             | false => change b with false
             end; cbv iota
         end.
Ltac s2bs :=
  repeat match goal with
         | |- context [s2b ?s] => let v := eval vm_compute in (s2b s) in change (s2b s) with v
         end.

(** ** tokenizer steps *)
Lemma tokenize_step : forall l ts r, next_token l = STok ts r -> tokenize l = ts ++ tokenize r.
Proof. intros l ts r H. rewrite tokenize_unfold, H. reflexivity. Qed.

Lemma tokenize_skip : forall l l', skip_ws false l = skip_ws false l' -> tokenize l = tokenize l'.
Proof.
  intros l l' H. rewrite (tokenize_unfold l), (tokenize_unfold l'). unfold next_token. rewrite H. reflexivity.
Qed.

(** a "{:.k}" print (k > 0) of any sign and scaled integer *)
Lemma next_token_pfixed : forall k s n rest, 0 < k -> num_end rest ->
  next_token (print_fixed k (s, n) ++ rest) = STok [TNum (f32_bits s n (10 ^ k))] rest.
Proof.
  intros k s n rest Hk Hr. unfold print_fixed.
  assert (K0 : (k =? 0) = false) by lia. rewrite K0.
  destruct s.
  - cbn [app]. unfold next_token.
    rewrite skip_ws_stay by reflexivity.
    change (is_numstart 45) with true. cbn iota.
    unfold read_number. change (45 =? 45) with true. cbn iota.
    rewrite <- app_assoc. cbn [app].
    rewrite number_body_fixed by assumption. reflexivity.
  - cbn [app]. rewrite <- app_assoc. cbn [app].
    destruct (dec_head (n / 10 ^ k)) as [d [ds [E D]]].
    assert (Q := number_body_fixed false k n rest Hk Hr).
    rewrite E in *. cbn [app] in *.
    unfold next_token.
    assert (W : is_ws d = false) by (unfold is_ws; unfold is_digit in D; lia).
    assert (P : (d =? 37) = false) by (unfold is_digit in D; lia).
    rewrite (skip_ws_stay d _ W P).
    assert (NS : is_numstart d = true) by (unfold is_numstart; rewrite D; lia).
    rewrite NS. unfold read_number.
    assert (M1 : (d =? 45) = false) by (unfold is_digit in D; lia).
    assert (M2 : (d =? 43) = false) by (unfold is_digit in D; lia).
    rewrite M1, M2, Q. reflexivity.
Qed.

Lemma tokenize_num : forall k x c rest, 0 < k -> num_end (c :: rest) ->
  tokenize (fx k x ++ c :: rest) = TNum (rnd k x) :: tokenize (c :: rest).
Proof.
  intros k x c rest Hk Hr. rewrite (tokenize_step _ _ _ (next_token_num k x (c :: rest) Hk Hr)). reflexivity.
Qed.

(** a dot-less decimal of any sign and size: i32 when it fits, the nearest f32 otherwise *)
Definition int_tok (neg : bool) (n : N) : token :=
  let z := (if neg then - Z.of_N n else Z.of_N n)%Z in
  if i32_ok z then TInt z else TNum (f32_bits neg n 1).

Lemma number_body_dec : forall neg n rest, num_end rest ->
  number_body neg (dec n ++ rest) = Some (int_tok neg n, rest).
Proof.
  intros neg n rest Hr. unfold number_body, int_tok.
  rewrite (take_digits_app (dec n)); [|apply dec_digits|].
  2:{ destruct rest as [|c r]; [exact I|]. exact (proj1 Hr). }
  rewrite dec_val.
  destruct (dec n) eqn:E; [exfalso; exact (dec_nonempty _ E)|].
  destruct rest as [|c r].
  - destruct (i32_ok _); reflexivity.
  - destruct Hr as [_ Hdot]. rewrite Hdot. destruct (i32_ok _); reflexivity.
Qed.

Lemma next_token_int : forall (neg : bool) n rest, num_end rest ->
  next_token ((if neg then [45] else []) ++ dec n ++ rest) = STok [int_tok neg n] rest.
Proof.
  intros neg n rest Hr. destruct neg.
  - cbn [app]. unfold next_token.
    rewrite skip_ws_stay by reflexivity.
    change (is_numstart 45) with true. cbn iota.
    unfold read_number. change (45 =? 45) with true. cbn iota.
    rewrite number_body_dec by assumption. reflexivity.
  - cbn [app].
    destruct (dec_head n) as [d [ds [E D]]].
    assert (Q := number_body_dec false n rest Hr).
    rewrite E in *. cbn [app] in *.
    unfold next_token.
    assert (W : is_ws d = false) by (unfold is_ws; unfold is_digit in D; lia).
    assert (P : (d =? 37) = false) by (unfold is_digit in D; lia).
    rewrite (skip_ws_stay d _ W P).
    assert (NS : is_numstart d = true) by (unfold is_numstart; rewrite D; lia).
    rewrite NS. unfold read_number.
    assert (M1 : (d =? 45) = false) by (unfold is_digit in D; lia).
    assert (M2 : (d =? 43) = false) by (unfold is_digit in D; lia).
    rewrite M1, M2, Q. reflexivity.
Qed.

(** names *)
Lemma next_token_name : forall n rest, regular_name n = true -> delim_follows rest ->
  next_token (47 :: esc_name n ++ rest) = STok [TName n] rest.
Proof.
  intros n rest H D. unfold regular_name in H. apply andb_true_iff in H. destruct H as [H U].
  unfold next_token. rewrite skip_ws_stay by reflexivity. ifc.
  rewrite scan_name_esc by assumption. rewrite decode_name_esc by assumption.
  rewrite U. reflexivity.
Qed.

Lemma tokenize_name_sp : forall n rest, regular_name n = true ->
  tokenize (47 :: esc_name n ++ 32 :: rest) = TName n :: tokenize rest.
Proof.
  intros n rest H. rewrite (tokenize_step _ _ _ (next_token_name n (32 :: rest) H eq_refl)).
  cbn [app]. rewrite tokenize_ws by reflexivity. reflexivity.
Qed.

(** strings *)
Lemma next_token_lit : forall s rest, bytes_ok s = true ->
  next_token (40 :: escape s ++ 41 :: rest) = STok [TStr s] rest.
Proof.
  intros s rest H. unfold next_token. rewrite skip_ws_stay by reflexivity. ifc.
  rewrite escape_unescape by assumption. reflexivity.
Qed.

Lemma uhex_not_lt : forall c, is_uhex c = true -> (c =? 60) = false.
Proof. intros c H. unfold is_uhex, btw in H. lia. Qed.

Lemma next_token_hex : forall h rest, forallb is_uhex h = true ->
  next_token (60 :: h ++ 62 :: rest) = STok [THex (unhex_pairs h)] rest.
Proof.
  intros h rest H. unfold next_token. rewrite skip_ws_stay by reflexivity. ifc.
  pose proof (read_hex_uhex h rest H) as R.
  destruct h as [|a h].
  - cbn [app] in *. ifc. rewrite R. reflexivity.
  - cbn [forallb] in H. apply andb_true_iff in H. destruct H as [Ha _].
    cbn [app] in *. rewrite (uhex_not_lt a Ha), R. reflexivity.
Qed.

(** operators followed by white space *)
Lemma tokenize_op_ws : forall o c rest, op_word o = true -> is_ws c = true ->
  tokenize (o ++ c :: rest) = TOp o :: tokenize rest.
Proof.
  intros o c rest H W. rewrite (tokenize_step _ [TOp o] (c :: rest)).
  - cbn [app]. rewrite tokenize_ws by assumption. reflexivity.
  - apply next_token_op; [assumption|]. cbn. unfold is_op_end, is_delim. rewrite W. reflexivity.
Qed.

(** comments: "% " text LF is skipped whole *)
Lemma skip_ws_comment : forall s rest, forallb (fun c => negb (c =? 10)) s = true ->
  skip_ws true (s ++ 10 :: rest) = skip_ws false rest.
Proof.
  induction s as [|c s IH]; intros rest H.
  - reflexivity.
  - cbn [forallb] in H. apply andb_true_iff in H. destruct H as [Hc Hs].
    cbn [app skip_ws]. rewrite Hc. apply IH. assumption.
Qed.

(** ** the operand stack *)
Definition nonop (t : token) : bool := match t with TOp _ => false | _ => true end.
Definition noarr (t : token) : bool := match t with TArrS | TArrE => false | _ => true end.

Lemma parse_push : forall ts r st, forallb nonop ts = true ->
  parse_toks (ts ++ r) (PNorm st) = parse_toks r (PNorm (rev ts ++ st)).
Proof.
  induction ts as [|t ts IH]; intros r st H.
  - reflexivity.
  - cbn [forallb] in H. apply andb_true_iff in H. destruct H as [Ht Hs].
    cbn [app rev]. rewrite <- app_assoc. cbn [app]. rewrite <- (IH r (t :: st) Hs).
    destruct t; try discriminate; reflexivity.
Qed.

Lemma pop_array_go_rev : forall ts s acc, forallb noarr ts = true ->
  pop_array_go (rev ts ++ TArrS :: s) acc = Some (ts ++ acc, s).
Proof.
  induction ts as [|t ts IH] using rev_ind; intros s acc H.
  - reflexivity.
  - rewrite forallb_app in H. apply andb_true_iff in H. destruct H as [Hs Ht].
    cbn [forallb] in Ht. rewrite andb_true_r in Ht.
    rewrite rev_app_distr. cbn [rev app]. rewrite <- app_assoc. cbn [app].
    transitivity (pop_array_go (rev ts ++ TArrS :: s) (t :: acc)).
    + destruct t; try discriminate; reflexivity.
    + apply IH. assumption.
Qed.

Lemma all_nums_map : forall bs, all_nums (map TNum bs) = Some bs.
Proof. induction bs as [|b bs IH]; [reflexivity|]. cbn [map all_nums num_of]. rewrite IH. reflexivity. Qed.

Lemma noarr_nums : forall bs, forallb noarr (map TNum bs) = true.
Proof. induction bs; [reflexivity|assumption]. Qed.

Lemma pop_comps_rev : forall bs acc, pop_comps (rev (map TNum bs)) acc = bs ++ acc.
Proof.
  induction bs as [|b bs IH] using rev_ind; intro acc.
  - reflexivity.
  - rewrite map_app, rev_app_distr. cbn [map rev app pop_comps num_of]. rewrite IH, <- app_assoc. reflexivity.
Qed.

Ltac norm_app := repeat (progress (cbn [app]; rewrite <- ?app_assoc)); cbn [app].
Ltac lk :=
  match goal with
  | |- context [lookup_op ?w optable] =>
      let v := eval vm_compute in (lookup_op w optable) in change (lookup_op w optable) with v
  end; cbv iota.

(** ** single punctuation tokens *)
Lemma tokenize_arrS : forall r, tokenize (91 :: r) = TArrS :: tokenize r.
Proof. intro r. apply (tokenize_step _ [TArrS] r). reflexivity. Qed.
Lemma tokenize_arrE : forall r, tokenize (93 :: r) = TArrE :: tokenize r.
Proof. intro r. apply (tokenize_step _ [TArrE] r). reflexivity. Qed.
Lemma tokenize_dictS : forall r, tokenize (60 :: 60 :: r) = TDictS :: tokenize r.
Proof. intro r. apply (tokenize_step _ [TDictS] r). reflexivity. Qed.
Lemma tokenize_dictE : forall r, tokenize (62 :: 62 :: r) = TDictE :: tokenize r.
Proof. intro r. apply (tokenize_step _ [TDictE] r). reflexivity. Qed.
Lemma tokenize_zero_sp : forall r, tokenize (48 :: 32 :: r) = TInt 0 :: tokenize r.
Proof.
  intro r. rewrite (tokenize_step _ [TInt 0%Z] (32 :: r)); [|reflexivity].
  cbn [app]. rewrite tokenize_ws by reflexivity. reflexivity.
Qed.

(** ** table facts for the remaining operator sets *)
Lemma named_ops_facts : forall w, mem_bytes w named_ops = true ->
  lookup_op w optable = Some KName /\ op_word w = true /\ bytes_eqb w op_BI = false.
Proof.
  intros w H. unfold mem_bytes, named_ops in H. cbn [map existsb] in H.
  repeat (match type of H with
          | (bytes_eqb w ?k || _) = true =>
              let E := fresh "E" in
              destruct (bytes_eqb w k) eqn:E;
              [apply bytes_eqb_eq in E; subst w; vm_compute; repeat split; reflexivity | cbn [orb] in H; clear E]
          end).
  discriminate.
Qed.

Lemma small_ops_facts : forall w, mem_bytes w small_ops = true ->
  lookup_op w optable = Some KInt /\ op_word w = true /\ bytes_eqb w op_BI = false.
Proof.
  intros w H. unfold mem_bytes, small_ops in H. cbn [map existsb] in H.
  repeat (match type of H with
          | (bytes_eqb w ?k || _) = true =>
              let E := fresh "E" in
              destruct (bytes_eqb w k) eqn:E;
              [apply bytes_eqb_eq in E; subst w; vm_compute; repeat split; reflexivity | cbn [orb] in H; clear E]
          end).
  discriminate.
Qed.

(** ** class: clip + stroke, `W S` *)
Lemma rt_clipstroke : forall rest,
  run (ser_op OClipStroke ++ rest) = expected_op OClipStroke ++ run rest.
Proof.
  intro rest. unfold run. cbn [ser_op expected_op app].
  change (87 :: 32 :: 83 :: 10 :: rest) with ([87] ++ 32 :: [83] ++ 10 :: rest).
  rewrite tokenize_op_ws by reflexivity. rewrite tokenize_op_lf by reflexivity.
  reflexivity.
Qed.

(** ** class: one name operand — cs CS gs ri Do sh *)
Lemma rt_named : forall w n rest, mem_bytes w named_ops = true -> regular_name n = true ->
  run (ser_op (ONamed w n) ++ rest) = expected_op (ONamed w n) ++ run rest.
Proof.
  intros w n rest Hw Hn. destruct (named_ops_facts _ Hw) as [L [W B]].
  unfold run. cbn [ser_op expected_op]. norm_app.
  rewrite tokenize_name_sp by assumption. rewrite tokenize_op_lf by assumption.
  cbn [parse_toks]. rewrite B. unfold apply_op. rewrite L. reflexivity.
Qed.

(** ** class: a fixed number of "{:.k}" operands (generalises the ONums case) *)
Lemma rt_nums : forall k w a n rest, 0 < k -> lookup_op w optable = Some (KNums n) -> op_word w = true ->
  bytes_eqb w op_BI = false -> n = length a ->
  run (nums_sp k a ++ w ++ 10 :: rest) = CNums w (map (rnd k) a) :: run rest.
Proof.
  intros k w a n rest Hk L W B ->. unfold run.
  rewrite tokenize_nums_sp by assumption. rewrite tokenize_op_lf by assumption.
  rewrite <- (map_map (rnd k) TNum). rewrite parse_push_nums.
  cbn [parse_toks]. rewrite B. unfold apply_op. rewrite L.
  rewrite app_nil_r. rewrite <- (map_length (rnd k) a). rewrite <- (app_nil_r (rev _)).
  rewrite pop_nums_rev. rewrite app_nil_r. reflexivity.
Qed.

(** ** class: device colours g G rg RG k K, "{:.3}" *)
Lemma rt_color : forall st c rest,
  run (ser_op (OColor st c) ++ rest) = expected_op (OColor st c) ++ run rest.
Proof.
  intros st c rest. cbn [ser_op expected_op]. norm_app.
  destruct c, st; cbn [color_op color_nums];
    (eapply rt_nums; [reflexivity | vm_compute; reflexivity | reflexivity | reflexivity | reflexivity]).
Qed.

(** ** class: sc / SC with any number of "{:.4}" components *)
Lemma rt_comps : forall st a rest,
  run (ser_op (OComps st a) ++ rest) = expected_op (OComps st a) ++ run rest.
Proof.
  intros st a rest. unfold run. cbn [ser_op expected_op]. norm_app.
  rewrite tokenize_nums_sp by reflexivity.
  destruct st; rewrite tokenize_op_lf by reflexivity;
    rewrite <- (map_map (rnd 4) TNum); rewrite parse_push_nums; rewrite app_nil_r;
    cbn [parse_toks]; ifc; unfold apply_op; lk;
    rewrite pop_comps_rev, app_nil_r; reflexivity.
Qed.

(** ** class: integer-valued state J j Tr *)
Lemma int_tok_small : forall n, n < 2 ^ 31 -> int_tok false n = TInt (Z.of_N n).
Proof.
  intros n H. unfold int_tok. cbv zeta.
  assert (E : i32_ok (Z.of_N n) = true) by (unfold i32_ok; lia). rewrite E. reflexivity.
Qed.

Lemma tokenize_int : forall n c rest, n < 2 ^ 31 -> num_end (c :: rest) ->
  tokenize (dec n ++ c :: rest) = TInt (Z.of_N n) :: tokenize (c :: rest).
Proof.
  intros n c rest Hn Hr. pose proof (next_token_int false n (c :: rest) Hr) as T. cbn [app] in T.
  rewrite (tokenize_step _ _ _ T). rewrite int_tok_small by assumption. reflexivity.
Qed.

Lemma rt_small : forall w v rest, mem_bytes w small_ops = true -> v < 256 ->
  run (ser_op (OSmall w v) ++ rest) = expected_op (OSmall w v) ++ run rest.
Proof.
  intros w v rest Hw Hv. destruct (small_ops_facts _ Hw) as [L [W B]].
  unfold run. cbn [ser_op expected_op]. norm_app.
  rewrite tokenize_int; [|lia|split; reflexivity].
  rewrite tokenize_ws by reflexivity. rewrite tokenize_op_lf by assumption.
  cbn [parse_toks]. rewrite B. unfold apply_op. rewrite L. reflexivity.
Qed.

(** ** class: dash arrays, `[a b …] phase d` and `[] 0 d` *)
Lemma tokenize_join : forall a t, a <> [] ->
  tokenize (join_sp (map (fx 2) a) ++ 93 :: t) = map (fun x => TNum (rnd 2 x)) a ++ tokenize (93 :: t).
Proof.
  induction a as [|x a IH]; intros t H; [contradiction|].
  destruct a as [|y a].
  - cbn [map join_sp app]. rewrite tokenize_num; [reflexivity|reflexivity|split; reflexivity].
  - change (join_sp (map (fx 2) (x :: y :: a))) with (fx 2 x ++ 32 :: join_sp (map (fx 2) (y :: a))).
    rewrite <- app_assoc. cbn [app]. rewrite tokenize_num_sp by reflexivity.
    rewrite IH by discriminate. reflexivity.
Qed.

Lemma rt_dash : forall a ph rest,
  run (ser_op (ODash a ph) ++ rest) = expected_op (ODash a ph) ++ run rest.
Proof.
  intros a ph rest. unfold run. destruct a as [|x a].
  - cbn [ser_op expected_op]. s2bs. cbn [app].
    rewrite tokenize_arrS, tokenize_arrE. rewrite tokenize_ws by reflexivity.
    rewrite tokenize_zero_sp. change (100 :: 10 :: rest) with ([100] ++ 10 :: rest).
    rewrite tokenize_op_lf by reflexivity.
    reflexivity.
  - cbn [ser_op expected_op]. norm_app.
    rewrite tokenize_arrS. rewrite tokenize_join by discriminate. rewrite tokenize_arrE.
    rewrite tokenize_ws by reflexivity. rewrite tokenize_num_sp by reflexivity.
    change (100 :: 10 :: rest) with ([100] ++ 10 :: rest). rewrite tokenize_op_lf by reflexivity.
    cbn [parse_toks].
    rewrite <- (map_map (rnd 2) TNum). rewrite parse_push_nums.
    cbn [parse_toks]. ifc. unfold apply_op. lk. cbn [num_of pop_array].
    rewrite pop_array_go_rev by apply noarr_nums. rewrite app_nil_r, all_nums_map. reflexivity.
Qed.

(** ** class: Tf — a name and a Display-printed size (integer, also beyond i32, or fractional) *)
Lemma num_of_int_tok : forall (neg : bool) d,
  num_of (int_tok neg d) = Some (f32_of_int (if neg then - Z.of_N d else Z.of_N d)%Z).
Proof.
  intros neg d. unfold int_tok. cbv zeta.
  destruct (i32_ok (if neg then (- Z.of_N d)%Z else Z.of_N d)) eqn:E.
  - reflexivity.
  - cbn [num_of]. f_equal. unfold f32_of_int.
    assert (A : Z.abs_N (if neg then (- Z.of_N d)%Z else Z.of_N d) = d) by (destruct neg; lia).
    assert (S : ((if neg then (- Z.of_N d)%Z else Z.of_N d) <? 0)%Z = neg)
      by (unfold i32_ok in E; destruct neg; lia).
    rewrite A, S. reflexivity.
Qed.

Lemma nonop_int_tok : forall (neg : bool) d, nonop (int_tok neg d) = true.
Proof. intros neg d. unfold int_tok. cbv zeta. destruct (i32_ok _); reflexivity. Qed.

Lemma parse_push1 : forall t r st, nonop t = true ->
  parse_toks (t :: r) (PNorm st) = parse_toks r (PNorm (t :: st)).
Proof. intros t r st H. exact (parse_push [t] r st ltac:(cbn [forallb]; rewrite H; reflexivity)). Qed.

Lemma rt_font : forall n neg d k rest, regular_name n = true ->
  run (ser_op (OFont n neg d k) ++ rest) = expected_op (OFont n neg d k) ++ run rest.
Proof.
  intros n neg d k rest Hn. unfold run. cbn [ser_op expected_op]. s2bs. norm_app.
  rewrite tokenize_name_sp by assumption.
  unfold font_size. destruct (k =? 0) eqn:K.
  - apply N.eqb_eq in K. subst k. unfold print_fixed. change (0 =? 0) with true. cbv iota.
    rewrite N.pow_0_r, N.div_1_r, app_nil_r. rewrite <- app_assoc.
    rewrite (tokenize_step _ _ _ (next_token_int neg d (32 :: 84 :: 102 :: 10 :: rest) ltac:(split; reflexivity))).
    cbn [app]. rewrite tokenize_ws by reflexivity.
    change (84 :: 102 :: 10 :: rest) with ([84; 102] ++ 10 :: rest). rewrite tokenize_op_lf by reflexivity.
    rewrite (parse_push1 (TName n)) by reflexivity. rewrite parse_push1 by apply nonop_int_tok.
    cbn [parse_toks]. ifc. unfold apply_op. lk.
    rewrite num_of_int_tok. reflexivity.
  - assert (Hk : 0 < k) by lia.
    rewrite (tokenize_step _ _ _ (next_token_pfixed k neg d (32 :: 84 :: 102 :: 10 :: rest) Hk ltac:(split; reflexivity))).
    cbn [app]. rewrite tokenize_ws by reflexivity.
    change (84 :: 102 :: 10 :: rest) with ([84; 102] ++ 10 :: rest). rewrite tokenize_op_lf by reflexivity.
    cbn [parse_toks]. ifc. unfold apply_op. lk. reflexivity.
Qed.

(** ** class: Tj with a literal string through escape_show_text_literal_bytes *)
Lemma rt_showtext : forall raw rest, bytes_ok raw = true ->
  run (ser_op (OShowText raw) ++ rest) = expected_op (OShowText raw) ++ run rest.
Proof.
  intros raw rest H. unfold run. cbn [ser_op expected_op]. s2bs. norm_app.
  rewrite (tokenize_step _ _ _ (next_token_lit raw _ H)). cbn [app].
  rewrite tokenize_ws by reflexivity.
  change (84 :: 106 :: 10 :: rest) with ([84; 106] ++ 10 :: rest). rewrite tokenize_op_lf by reflexivity.
  cbn [parse_toks]. ifc. unfold apply_op. lk. reflexivity.
Qed.

(** ** class: Tj with a hex string *)
Lemma rt_showhex : forall h rest, forallb is_uhex h = true ->
  run (ser_op (OShowHex h) ++ rest) = expected_op (OShowHex h) ++ run rest.
Proof.
  intros h rest H. unfold run. cbn [ser_op expected_op]. s2bs. norm_app.
  rewrite (tokenize_step _ _ _ (next_token_hex h _ H)). cbn [app].
  rewrite tokenize_ws by reflexivity.
  change (84 :: 106 :: 10 :: rest) with ([84; 106] ++ 10 :: rest). rewrite tokenize_op_lf by reflexivity.
  cbn [parse_toks]. ifc. unfold apply_op. lk. reflexivity.
Qed.

(** ** class: TJ arrays of hex strings and "{:.2}" adjustments *)
Definition tj_ser (e : vtj) : bytes :=
  match e with VGlyphs h => 32 :: 60 :: h ++ [62] | VAdjust x => 32 :: fx 2 x end.
Definition tj_tok (e : vtj) : token :=
  match e with VGlyphs h => THex (unhex_pairs h) | VAdjust x => TNum (rnd 2 x) end.
Definition tj_el (e : vtj) : tjel :=
  match e with VGlyphs h => JText (unhex_pairs h) | VAdjust x => JSpace (rnd 2 x) end.
Definition tj_ok (e : vtj) : bool :=
  match e with VGlyphs h => forallb is_uhex h | _ => true end.

Lemma tokenize_tj : forall l t, forallb tj_ok l = true ->
  tokenize (flat_map tj_ser l ++ 32 :: t) = map tj_tok l ++ tokenize (32 :: t).
Proof.
  induction l as [|e l IH]; intros t H; [reflexivity|].
  cbn [forallb] in H. apply andb_true_iff in H. destruct H as [He Hl].
  cbn [flat_map map]. rewrite <- app_assoc.
  assert (HD : exists y, flat_map tj_ser l ++ 32 :: t = 32 :: y).
  { destruct l as [|e' l']; [eexists; reflexivity|].
    destruct e'; cbn [flat_map tj_ser app]; eexists; reflexivity. }
  destruct e as [h|x]; cbn [tj_ser tj_tok app].
  - rewrite tokenize_ws by reflexivity. rewrite <- app_assoc. cbn [app].
    rewrite (tokenize_step _ _ _ (next_token_hex h _ He)). cbn [app]. f_equal. apply IH; assumption.
  - rewrite tokenize_ws by reflexivity. destruct HD as [y Ey].
    rewrite <- (IH t Hl). rewrite Ey. rewrite tokenize_num; [reflexivity|reflexivity|split; reflexivity].
Qed.

Lemma nonop_tj : forall l, forallb nonop (map tj_tok l) = true.
Proof. induction l as [|e l IH]; [reflexivity|]. destruct e; exact IH. Qed.
Lemma noarr_tj : forall l, forallb noarr (map tj_tok l) = true.
Proof. induction l as [|e l IH]; [reflexivity|]. destruct e; exact IH. Qed.
Lemma text_array_tj : forall l, text_array (map tj_tok l) = Some (map tj_el l).
Proof.
  induction l as [|e l IH]; [reflexivity|].
  cbn [map text_array]. rewrite IH. destruct e; reflexivity.
Qed.

Lemma rt_tj : forall l rest, forallb tj_ok l = true ->
  run (ser_op (OTJ l) ++ rest) = expected_op (OTJ l) ++ run rest.
Proof.
  intros l rest H. unfold run.
  change (ser_op (OTJ l)) with (91 :: flat_map tj_ser l ++ s2b " ] TJ" ++ [10]).
  change (expected_op (OTJ l)) with [CTJ (map tj_el l)].
  s2bs. norm_app.
  rewrite tokenize_arrS. rewrite tokenize_tj by assumption. rewrite tokenize_ws by reflexivity.
  rewrite tokenize_arrE. rewrite tokenize_ws by reflexivity.
  change (84 :: 74 :: 10 :: rest) with ([84; 74] ++ 10 :: rest). rewrite tokenize_op_lf by reflexivity.
  cbn [parse_toks].
  rewrite parse_push by apply nonop_tj. cbn [parse_toks]. ifc. unfold apply_op. lk.
  cbn [pop_array]. rewrite pop_array_go_rev by apply noarr_tj.
  rewrite app_nil_r, text_array_tj. reflexivity.
Qed.

(** ** class: comments *)
Lemma rt_comment : forall s rest, forallb (fun c => negb (c =? 10)) s = true ->
  run (ser_op (OComment s) ++ rest) = expected_op (OComment s) ++ run rest.
Proof.
  intros s rest H. unfold run. cbn [ser_op expected_op]. norm_app.
  rewrite (tokenize_skip (37 :: 32 :: s ++ 10 :: rest) rest); [reflexivity|].
  change (skip_ws false (37 :: 32 :: s ++ 10 :: rest)) with (skip_ws true (s ++ 10 :: rest)).
  apply skip_ws_comment. assumption.
Qed.

(** ** class: marked content BDC with /MCID (and /ActualText), EMC *)
Lemma tokenize_mcid : forall r,
  tokenize (47 :: 77 :: 67 :: 73 :: 68 :: 32 :: r) = TName [77; 67; 73; 68] :: tokenize r.
Proof. intro r. exact (tokenize_name_sp [77; 67; 73; 68] r eq_refl). Qed.
Lemma tokenize_actualtext : forall r,
  tokenize (47 :: 65 :: 99 :: 116 :: 117 :: 97 :: 108 :: 84 :: 101 :: 120 :: 116 :: 32 :: r)
  = TName (s2b "ActualText") :: tokenize r.
Proof. intro r. exact (tokenize_name_sp (s2b "ActualText") r eq_refl). Qed.

Lemma rt_bdc : forall tag id rest, regular_name tag = true -> id < 2 ^ 31 ->
  run (ser_op (OBdc tag id) ++ rest) = expected_op (OBdc tag id) ++ run rest.
Proof.
  intros tag id rest Ht Hi. unfold run. cbn [ser_op expected_op]. s2bs. norm_app.
  rewrite tokenize_name_sp by assumption. rewrite tokenize_dictS, tokenize_mcid.
  rewrite tokenize_int; [|assumption|split; reflexivity].
  rewrite tokenize_dictE. rewrite tokenize_ws by reflexivity.
  change (66 :: 68 :: 67 :: 10 :: rest) with ([66; 68; 67] ++ 10 :: rest).
  rewrite tokenize_op_lf by reflexivity.
  reflexivity.
Qed.

Lemma hexdig_uhex : forall n, n < 16 -> is_uhex (hexdig n) = true.
Proof. intros n H. unfold is_uhex, btw, hexdig. destruct (n <? 10) eqn:E; lia. Qed.
Lemma hexv_hexdig : forall n, n < 16 -> hexv (hexdig n) = Some n.
Proof.
  intros n H. unfold hexv, hexdig. destruct (n <? 10) eqn:E.
  - assert (A : (48 <=? 48 + n) && (48 + n <=? 57) = true) by lia. rewrite A. f_equal. lia.
  - assert (A : (48 <=? 55 + n) && (55 + n <=? 57) = false) by lia.
    assert (B : (65 <=? 55 + n) && (55 + n <=? 70) = true) by lia. rewrite A, B. f_equal. lia.
Qed.

Lemma hex4_facts : forall u, u < 65536 ->
  u / 4096 < 16 /\ (u / 256) mod 16 < 16 /\ (u / 16) mod 16 < 16 /\ u mod 16 < 16.
Proof. intros u H. lia. Qed.

Lemma hex4s_uhex : forall us, forallb (fun u => u <? 65536) us = true ->
  forallb is_uhex (flat_map hex4 us) = true.
Proof.
  induction us as [|u us IH]; intro H; [reflexivity|].
  cbn [forallb] in H. apply andb_true_iff in H. destruct H as [Hu Hs].
  destruct (hex4_facts u ltac:(lia)) as [A [B [C D]]].
  cbn [flat_map hex4 app forallb].
  rewrite !hexdig_uhex by assumption. cbn [andb]. apply IH. assumption.
Qed.

Lemma unhex_hex4s : forall us, forallb (fun u => u <? 65536) us = true ->
  unhex_pairs (flat_map hex4 us) = utf16be us.
Proof.
  induction us as [|u us IH]; intro H; [reflexivity|].
  cbn [forallb] in H. apply andb_true_iff in H. destruct H as [Hu Hs].
  destruct (hex4_facts u ltac:(lia)) as [A [B [C D]]].
  unfold utf16be in *. cbn [flat_map hex4 app unhex_pairs].
  rewrite !hexv_hexdig by assumption. rewrite (IH Hs). f_equal; [|f_equal]; lia.
Qed.

Lemma tokenize_feff : forall us r, forallb (fun u => u <? 65536) us = true ->
  tokenize (60 :: 70 :: 69 :: 70 :: 70 :: flat_map hex4 us ++ 62 :: r)
  = THex (254 :: 255 :: utf16be us) :: tokenize r.
Proof.
  intros us r H.
  change (60 :: 70 :: 69 :: 70 :: 70 :: flat_map hex4 us ++ 62 :: r)
    with (60 :: ([70; 69; 70; 70] ++ flat_map hex4 us) ++ 62 :: r).
  assert (U : forallb is_uhex ([70; 69; 70; 70] ++ flat_map hex4 us) = true)
    by (rewrite forallb_app, hex4s_uhex by assumption; reflexivity).
  rewrite (tokenize_step _ _ _ (next_token_hex _ r U)).
  cbn [app unhex_pairs]. ifc.
  change (hexv 70) with (Some 15). change (hexv 69) with (Some 14). cbv iota.
  rewrite unhex_hex4s by assumption. reflexivity.
Qed.

Lemma rt_bdcactual : forall tag id us rest, regular_name tag = true -> id < 2 ^ 31 ->
  forallb (fun u => u <? 65536) us = true ->
  run (ser_op (OBdcActual tag id us) ++ rest) = expected_op (OBdcActual tag id us) ++ run rest.
Proof.
  intros tag id us rest Ht Hi Hu. unfold run. cbn [ser_op expected_op]. s2bs. norm_app.
  rewrite tokenize_name_sp by assumption. rewrite tokenize_dictS, tokenize_mcid.
  rewrite tokenize_int; [|assumption|split; reflexivity].
  rewrite tokenize_ws by reflexivity.
  rewrite tokenize_actualtext. rewrite tokenize_feff by assumption.
  rewrite tokenize_dictE. rewrite tokenize_ws by reflexivity.
  change (66 :: 68 :: 67 :: 10 :: rest) with ([66; 68; 67] ++ 10 :: rest).
  rewrite tokenize_op_lf by reflexivity.
  reflexivity.
Qed.

Lemma rt_emc : forall rest, run (ser_op OEmc ++ rest) = expected_op OEmc ++ run rest.
Proof.
  intro rest. unfold run. cbn [ser_op expected_op]. norm_app.
  rewrite tokenize_op_lf by reflexivity. reflexivity.
Qed.

(** ** every regular operator, then every regular sequence *)
Lemma roundtrip_op_full : forall o rest, op_regular o = true ->
  run (ser_op o ++ rest) = expected_op o ++ run rest.
Proof.
  intros o rest R. destruct o.
  - apply roundtrip_op; [reflexivity|assumption].
  - apply roundtrip_op; [reflexivity|assumption].
  - apply rt_clipstroke.
  - unfold op_regular in R. cbn [op_wf] in R. apply andb_true_iff in R. destruct R.
    apply rt_named; assumption.
  - apply rt_color.
  - apply rt_comps.
  - unfold op_regular in R. cbn [op_wf] in R. rewrite andb_true_r in R.
    apply andb_true_iff in R. destruct R as [R1 R2]. apply rt_small; [assumption|lia].
  - apply rt_dash.
  - unfold op_regular in R. cbn [op_wf andb] in R. apply rt_font; assumption.
  - unfold op_regular in R. cbn [op_wf] in R. rewrite andb_true_r in R. apply rt_showtext; assumption.
  - unfold op_regular in R. cbn [op_wf andb] in R. apply rt_showhex; assumption.
  - unfold op_regular in R. cbn [op_wf andb] in R. apply rt_tj; exact R.
  - unfold op_regular in R. cbn [op_wf andb] in R. apply rt_comment; assumption.
  - unfold op_regular in R. cbn [op_wf andb] in R. discriminate.
  - unfold op_regular in R. cbn [op_wf andb] in R. apply andb_true_iff in R. destruct R as [R1 R2].
    apply rt_bdc; [assumption|lia].
  - unfold op_regular in R. cbn [op_wf] in R. apply andb_true_iff in R. destruct R as [R0 R].
    apply andb_true_iff in R. destruct R as [R1 R2].
    apply rt_bdcactual; [assumption|lia|assumption].
  - apply rt_emc.
Qed.

Lemma roundtrip_ops_full : forall ops rest, regular ops = true ->
  run (serialize ops ++ rest) = expected ops ++ run rest.
Proof.
  induction ops as [|o ops IH]; intros rest R.
  - reflexivity.
  - unfold regular in R. cbn [forallb] in R. apply andb_true_iff in R. destruct R as [R1 R2].
    unfold serialize, expected. cbn [flat_map]. rewrite <- !app_assoc.
    rewrite roundtrip_op_full by assumption. f_equal. apply IH; assumption.
Qed.

(** THE round trip: every sequence of operators the typed writer API can emit (every [Op] variant
    except the untyped [Raw]), with regular names, upper-case hex operands, LF-free comments and
    MCIDs below 2^31, and with EVERY f64 operand (NaN, infinities, -0, denormals, huge values):
    the emitted bytes parse back to the source operators with each operand rounded as documented. *)
Theorem ops_roundtrip : forall ops, regular ops = true -> parse (serialize ops) = expected ops.
Proof.
  intros ops R. pose proof (roundtrip_ops_full ops [] R) as H.
  rewrite !app_nil_r in H. exact H.
Qed.
