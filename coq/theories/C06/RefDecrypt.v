(** C06 — the independent implementation: encryption and decryption of object trees as
    ISO 32000-1 7.6 / ISO 32000-2 7.6 prescribe, written from the standard (not from the code),
    on top of C23's specifications.
    - 7.6.1: all strings and streams are encrypted, except: the encryption dictionary, the
      trailer /ID, cross-reference streams, strings inside object streams (the object stream as
      a whole is encrypted).  Strings in STREAM DICTIONARIES are strings like any other.
    - 7.6.2 Algorithm 1 / 1.A: per-object keys (C05.Check.okey), RC4 or AES-CBC with a 16-byte
      IV prefix (C05.Check.real_enc / real_dec).
    - 7.6.5 / 7.4.10: a stream whose /Filter contains /Crypt uses the crypt filter named in
      /DecodeParms /Name — default /Identity — instead of /StmF.
    - /EncryptMetadata false: the /Type /Metadata stream stays in clear. *)
From OxVerif Require Import Base.Util C23.Tab C23.Rc4 C23.Md5 C23.Sha2 C23.Aes C23.Cbc C23.SecHandler C05.EncryptLayer C05.Check.
Require Import List NArith String Bool.
Import ListNotations.
Open Scope N_scope.

Definition name_of (o : obj) : option bytes := match o with OName n => Some n | _ => None end.
Definition filter_names (o : option obj) : list bytes :=
  match o with
  | Some (OName n) => [n]
  | Some (OArr l) => flat_map (fun x => match name_of x with Some n => [n] | None => [] end) l
  | _ => []
  end.
Definition crypt_filter_name (d : list (bytes * obj)) : bytes :=
  match dict_get (nm "DecodeParms") d with
  | Some (ODict p) => match dict_get (nm "Name") p with Some (OName n) => n | _ => nm "Identity" end
  | _ => nm "Identity"
  end.
Definition type_is (s : string) (d : list (bytes * obj)) : bool :=
  match dict_get (nm "Type") d with Some (OName n) => bytes_eqb n (nm s) | _ => false end.

(** does the document-level stream filter (/StmF) apply to the payload of this stream? *)
Definition stream_encrypted (encmeta : bool) (d : list (bytes * obj)) : bool :=
  if existsb (bytes_eqb (nm "Crypt")) (filter_names (dict_get (nm "Filter") d))
  then negb (bytes_eqb (crypt_filter_name d) (nm "Identity"))
  else if type_is "XRef" d then false
  else if negb encmeta && type_is "Metadata" d then false
  else true.

Section Ref.
  Variable enc : bytes -> N * N -> bytes -> bytes -> bytes.
  Variable dec : bytes -> N * N -> bytes -> option bytes.
  Variable encmeta : bool.
  Variable iv_of : N * N -> path -> bytes.
  Variable k : bytes.
  Variable id : N * N.

  Fixpoint ref_encrypt (p : path) (o : obj) : obj :=
    match o with
    | OStr s => OStr (enc k id (iv_of id p) s)
    | OArr l => OArr ((fix go (i : nat) (l : list obj) : list obj :=
                         match l with [] => [] | x :: r => ref_encrypt (PI i :: p) x :: go (S i) r end) 0%nat l)
    | ODict d => ODict ((fix go (d : list (bytes * obj)) : list (bytes * obj) :=
                         match d with [] => [] | (kk, v) :: r => (kk, ref_encrypt (PK kk :: p) v) :: go r end) d)
    | OStream d data =>
        OStream ((fix go (d : list (bytes * obj)) : list (bytes * obj) :=
                         match d with [] => [] | (kk, v) :: r => (kk, ref_encrypt (PK kk :: p) v) :: go r end) d)
                (if stream_encrypted encmeta d then enc k id (iv_of id (PD :: p)) data else data)
    | _ => o
    end.

  Fixpoint ref_decrypt (o : obj) : option obj :=
    match o with
    | OStr s => option_map OStr (dec k id s)
    | OArr l => option_map OArr
        ((fix go (l : list obj) : option (list obj) :=
            match l with
            | [] => Some []
            | x :: r => match ref_decrypt x, go r with Some x', Some r' => Some (x' :: r') | _, _ => None end
            end) l)
    | ODict d => option_map ODict
        ((fix go (d : list (bytes * obj)) : option (list (bytes * obj)) :=
            match d with
            | [] => Some []
            | (kk, v) :: r => match ref_decrypt v, go r with Some v', Some r' => Some ((kk, v') :: r') | _, _ => None end
            end) d)
    | OStream d data =>
        match (fix go (d : list (bytes * obj)) : option (list (bytes * obj)) :=
            match d with
            | [] => Some []
            | (kk, v) :: r => match ref_decrypt v, go r with Some v', Some r' => Some ((kk, v') :: r') | _, _ => None end
            end) d with
        | None => None
        | Some d' => if stream_encrypted encmeta d' then option_map (OStream d') (dec k id data)
                     else Some (OStream d' data)
        end
    | _ => Some o
    end.
End Ref.

(** ** file key from the /Encrypt entries and a password (bytes) — Algorithms 2, 6, 7 (R2-R4),
    2.A, 11, 12 (R5/R6); same function as C05.Check.spec_unlock, stated once *)
Definition ref_file_key := spec_unlock true.

(** passwords: PDFDocEncoding for revisions 2-4 (Algorithm 2 step a), UTF-8 for 5/6 *)
Definition ref_password_bytes (R : N) (cps : list N) : option bytes :=
  if R <=? 4 then pdfdoc_encode cps else Some (utf8 cps).

(** RefDecrypt of one object of a file: method 0 = V2 (RC4), 1 = AESV2, 2 = AESV3 *)
Definition RefDecrypt (meth : N) (encmeta : bool) (key : bytes) (id : N * N) (o : obj) : option obj :=
  ref_decrypt (real_dec meth) encmeta key id o.
Definition RefEncrypt (meth : N) (encmeta : bool) (iv_of : N * N -> path -> bytes) (key : bytes) (id : N * N) (o : obj) : obj :=
  ref_encrypt (real_enc meth) encmeta iv_of key id [] o.

(** strings of an object including those of stream dictionaries (the ISO payload) *)
Fixpoint iso_payload (o : obj) : list bytes :=
  match o with
  | OStr s => [s]
  | OArr l => flat_map iso_payload l
  | ODict d => flat_map (fun kv => iso_payload (snd kv)) d
  | OStream d data => flat_map (fun kv => iso_payload (snd kv)) d ++ [data]
  | _ => []
  end.
Definition iso_payload_eqb (a b : obj) : bool := list_eqb bytes_eqb (iso_payload a) (iso_payload b).

(** ** channel l2i: an object of a LIBRARY-written file must decrypt, in the reference, to the
    plaintext handed to the writer.  (method, encmeta, file key, num, gen, plain, raw) *)
Definition l2i_case := (N * bool * bytes * N * N * obj * obj)%type.
Definition l2i_code (c : l2i_case) : N :=
  let '(meth, encmeta, key, num, gen, plain, raw) := c in
  match RefDecrypt meth encmeta key (num, gen) raw with
  | Some o => code_of true (iso_payload_eqb o plain)
  | None => 2
  end.

(** ** channel i2l: an object of a file written by the harness's own encryptor.
    (method, encmeta, file key, num, gen, flags, plain, raw, library result).
    flags bit 0: member of an (encrypted) object stream — then [raw] is the member as it stands
    in the decrypted object stream, i.e. plaintext, and the reference hands it out as it is.
    code bit 4: the harness's encryptor disagrees with the reference (harness defect, never a finding);
    bit 1: the reader model (C05: direct objects decrypted once, members handed out as parsed) differs from the library;
    bit 2: the library's result is not the plaintext. *)
Definition i2l_case := (N * bool * bytes * N * N * N * obj * obj * option obj)%type.
Definition i2l_code (c : i2l_case) : N :=
  let '(meth, encmeta, key, num, gen, flags, plain, raw, lib) := c in
  let id := (num, gen) in
  let member := N.testbit flags 0 in
  let ref := if member then Some raw else RefDecrypt meth encmeta key id raw in
  let ref_ok := match ref with Some o => iso_payload_eqb o plain | None => false end in
  let model := if member then Some raw else lib_read meth key id raw in
  let m_ok := option_eqb obj_eqb model lib in
  let p_ok := match lib with Some o => iso_payload_eqb o plain | None => false end in
  (if ref_ok then 0 else 4) + code_of m_ok p_ok.

(** ** channel ikey: file key from password for the files of either direction.
    (R, key bytes, O, U, OE, UE, P, id, encmeta, password code points, expected file key,
     library accepted?, library key) — the reference uses PDFDocEncoding for R <= 4.
    bit 4: the reference does not arrive at the expected key (for library-written files: the
    library's /O /U are not what the standard prescribes for this password);
    bit 2: the library does not open the file with this password / different key. *)
Definition ikey_case := (N * N * bytes * bytes * bytes * bytes * N * bytes * bool * list N * bytes * option bool * option bytes)%type.
Definition ikey_code (c : ikey_case) : N :=
  let '(R, n, Oe, Ue, OEe, UEe, P, id, encmeta, cps, fkey, lib_ok, lib_key) := c in
  let ref := match ref_password_bytes R cps with
             | Some pw => ref_file_key R (N.to_nat n) Oe Ue OEe UEe P id encmeta pw
             | None => None end in
  let ref_ok := match ref with Some kk => bytes_eqb kk fkey | None => false end in
  let lib_good := match lib_ok, lib_key with Some true, Some kk => bytes_eqb kk fkey | _, _ => false end in
  (if ref_ok then 0 else 4) + (if lib_good then 0 else 2).

(** ** channel r6: one of many small revision-6 files from the harness's encryptor, opened by the
    library with the user or the owner password: accepted, and the file key recovered (bit 2).
    The encryptor's own Algorithm 2.B is judged by the reference on sampled cases only (channels
    ikey and h2b) — an evaluation costs minutes here. *)
Definition r6open_case := (bytes * option bool * option bytes)%type.
Definition r6open_code (c : r6open_case) : N :=
  let '(fkey, lib_ok, lib_key) := c in
  match lib_ok, lib_key with
  | Some true, Some kk => if bytes_eqb kk fkey then 0 else 2
  | _, _ => 2
  end.

(** ** channel h2b: one Algorithm 2.B evaluation of the harness's encryptor (password, salt, u,
    hash) chosen ON the stopping boundary (last byte = rounds - 32); bit 4 = harness defect *)
Definition h2b_case := (bytes * bytes * bytes * bytes)%type.
Definition h2b_code (c : h2b_case) : N :=
  let '(pw, salt, u, h) := c in if bytes_eqb (alg2b pw salt u) h then 0 else 4.
