(** C06 — proofs about the reference (RefDecrypt.v) and its relation to the library's layer model. *)
From OxVerif Require Import Base.Util C05.EncryptLayer C05.Proofs C05.Check C06.RefDecrypt.
Require Import List NArith String Bool.
Import ListNotations.
Open Scope N_scope.

Section RefProofs.
  Variable enc : bytes -> N * N -> bytes -> bytes -> bytes.
  Variable dec : bytes -> N * N -> bytes -> option bytes.
  Hypothesis dec_enc : forall k id iv x, dec k id (enc k id iv x) = Some x.
  Variable encmeta : bool.
  Variable iv_of : N * N -> path -> bytes.
  Variable k : bytes.
  Variable id : N * N.

  (** RefDecrypt o RefEncrypt = id, for every object tree *)
  Theorem ref_decrypt_encrypt o : forall p,
    ref_decrypt dec encmeta k id (ref_encrypt enc encmeta iv_of k id p o) = Some o.
  Proof.
    induction o using obj_ind'; intro p; cbn [ref_encrypt ref_decrypt]; try reflexivity.
    - rewrite dec_enc. reflexivity.
    - assert (G : forall i,
        (fix go (l : list obj) : option (list obj) := match l with
          | [] => Some [] | x :: r => match ref_decrypt dec encmeta k id x, go r with Some x', Some r' => Some (x' :: r') | _, _ => None end end)
          ((fix go (i : nat) (l : list obj) : list obj := match l with [] => [] | x :: r => ref_encrypt enc encmeta iv_of k id (PI i :: p) x :: go (S i) r end) i l)
        = Some l).
      { induction l as [|x r IHl]; intro i; [reflexivity|]. inversion H; subst.
        rewrite H2, (IHl H3). reflexivity. }
      rewrite G. reflexivity.
    - assert (G :
        (fix go (d : list (bytes * obj)) : option (list (bytes * obj)) := match d with
          | [] => Some [] | (kk, v) :: r => match ref_decrypt dec encmeta k id v, go r with Some v', Some r' => Some ((kk, v') :: r') | _, _ => None end end)
          ((fix go (d : list (bytes * obj)) : list (bytes * obj) := match d with
             | [] => [] | (kk, v) :: r => (kk, ref_encrypt enc encmeta iv_of k id (PK kk :: p) v) :: go r end) d)
        = Some d).
      { induction d as [|[k0 v] r IHd]; [reflexivity|]. inversion H; subst. cbn [snd] in *.
        rewrite H2, (IHd H3). reflexivity. }
      rewrite G. reflexivity.
    - assert (G :
        (fix go (d : list (bytes * obj)) : option (list (bytes * obj)) := match d with
          | [] => Some [] | (kk, v) :: r => match ref_decrypt dec encmeta k id v, go r with Some v', Some r' => Some ((kk, v') :: r') | _, _ => None end end)
          ((fix go (d : list (bytes * obj)) : list (bytes * obj) := match d with
             | [] => [] | (kk, v) :: r => (kk, ref_encrypt enc encmeta iv_of k id (PK kk :: p) v) :: go r end) d)
        = Some d).
      { induction d as [|[k0 v] r IHd]; [reflexivity|]. inversion H; subst. cbn [snd] in *.
        rewrite H2, (IHd H3). reflexivity. }
      rewrite G. destruct (stream_encrypted encmeta d); [rewrite dec_enc|]; reflexivity.
  Qed.

  (** on objects without streams the reference decrypts exactly like the library's reader *)
  Lemma ref_eq_lib_no_stream o : no_stream o = true -> ref_decrypt dec encmeta k id o = decrypt_obj dec k id o.
  Proof.
    induction o using obj_ind'; intro Hn; cbn [ref_decrypt decrypt_obj no_stream] in *; try reflexivity; try discriminate.
    - f_equal. induction l as [|x r IHl]; [reflexivity|]. inversion H; subst.
      cbn [forallb] in Hn. apply andb_true_iff in Hn. destruct Hn as [Hx Hr].
      rewrite (H2 Hx), (IHl H3 Hr). reflexivity.
    - f_equal. induction d as [|[k0 v] r IHd]; [reflexivity|]. inversion H; subst.
      cbn [forallb snd] in *. apply andb_true_iff in Hn. destruct Hn as [Hx Hr].
      rewrite (H2 Hx), (IHd H3 Hr). reflexivity.
  Qed.

  Lemma walk_no_stream f g o : forall p, no_stream o = true -> no_stream (walk true f g p o) = true.
  Proof.
    induction o using obj_ind'; intros p Hn; cbn [walk no_stream] in *; try reflexivity; try discriminate.
    - generalize 0%nat. induction l as [|x r IHl]; intro i; [reflexivity|]. inversion H; subst.
      cbn [forallb] in *. apply andb_true_iff in Hn. destruct Hn as [Hx Hr].
      rewrite (H2 _ Hx), (IHl H3 Hr). reflexivity.
    - induction d as [|[k0 v] r IHd]; [reflexivity|]. inversion H; subst.
      cbn [forallb snd] in *. apply andb_true_iff in Hn. destruct Hn as [Hx Hr].
      rewrite (IHd H3 Hr). destruct (skip_key k0); [rewrite Hx|rewrite (H2 _ Hx)]; reflexivity.
  Qed.

  (** the library's writer model produces, for stream-free objects inside the well-formed class,
      exactly what the ISO reference decrypts back to the original *)
  Theorem lib_writer_is_iso_direct o : wf o = true -> no_stream o = true ->
    ref_decrypt dec encmeta k id (encrypt_obj enc true iv_of k id o) = Some o.
  Proof.
    intros Hw Hn. rewrite ref_eq_lib_no_stream.
    - destruct (roundtrip_obj enc dec dec_enc iv_of k id o Hw) as (A & _ & C). rewrite A, (C Hn). reflexivity.
    - apply walk_no_stream. exact Hn.
  Qed.
End RefProofs.

(** ** with streams: the class of objects for which the library's writer is ISO-conformant *)
Definition nil_b {A} (l : list A) : bool := match l with [] => true | _ => false end.
Definition named_filter (d : list (bytes * obj)) : bool :=
  match dict_get (nm "Filter") d with Some (OName n) => negb (bytes_eqb n (nm "Crypt")) | _ => false end.
Definition dict_plain (d : list (bytes * obj)) : bool := forallb (fun kv => nil_b (iso_payload (snd kv))) d.
Fixpoint iso_ok (o : obj) : bool :=
  match o with
  | OArr l => forallb iso_ok l
  | ODict d => forallb (fun kv => if skip_key (fst kv) then nil_b (iso_payload (snd kv)) else iso_ok (snd kv)) d
  | OStream d data => named_filter d && dict_plain d && negb (type_is "XRef" d)
  | _ => true
  end.

Lemma dict_plain_set kk v d : nil_b (iso_payload v) = true -> dict_plain d = true -> dict_plain (dict_set kk v d) = true.
Proof.
  intros Hv. induction d as [|[k2 v2] r IH]; cbn [dict_set dict_plain forallb snd]; intro H.
  - rewrite Hv. reflexivity.
  - apply andb_true_iff in H. destruct H as [H1 H2].
    destruct (bytes_eqb kk k2); [|destruct (bytes_ltb kk k2)]; cbn [forallb snd].
    + rewrite Hv. exact H2.
    + rewrite Hv, H1. exact H2.
    + rewrite H1. apply IH. exact H2.
Qed.

Section IsoClass.
  Variable enc : bytes -> N * N -> bytes -> bytes -> bytes.
  Variable dec : bytes -> N * N -> bytes -> option bytes.
  Hypothesis dec_enc : forall k id iv x, dec k id (enc k id iv x) = Some x.
  Variable iv_of : N * N -> path -> bytes.
  Variable k : bytes.
  Variable id : N * N.

  Lemma ref_no_payload o : iso_payload o = [] -> ref_decrypt dec true k id o = Some o.
  Proof.
    induction o using obj_ind'; cbn [iso_payload ref_decrypt]; intro Hp; try reflexivity; try discriminate.
    - apply flat_map_nil in Hp. induction l as [|x r IHl]; [reflexivity|].
      inversion H; subst. inversion Hp; subst.
      rewrite (H2 H4). specialize (IHl H3 H5). cbn [option_map] in IHl.
      destruct ((fix go (l : list obj) : option (list obj) := match l with
          | [] => Some [] | x :: r => match ref_decrypt dec true k id x, go r with Some x', Some r' => Some (x' :: r') | _, _ => None end end) r);
        [|discriminate]. inversion IHl; subst. reflexivity.
    - apply flat_map_nil in Hp. induction d as [|[kk v] r IHd]; [reflexivity|].
      inversion H; subst. inversion Hp; subst. cbn [snd] in *.
      rewrite (H2 H4). specialize (IHd H3 H5). cbn [option_map] in IHd.
      destruct ((fix go (d : list (bytes * obj)) : option (list (bytes * obj)) := match d with
          | [] => Some [] | (kk, v) :: r => match ref_decrypt dec true k id v, go r with Some v', Some r' => Some ((kk, v') :: r') | _, _ => None end end) r);
        [|discriminate]. inversion IHd; subst. reflexivity.
    - destruct (flat_map (fun kv => iso_payload (snd kv)) d); discriminate.
  Qed.

  Lemma ref_plain_dict d : dict_plain d = true ->
    (fix go (d : list (bytes * obj)) : option (list (bytes * obj)) := match d with
       | [] => Some [] | (kk, v) :: r => match ref_decrypt dec true k id v, go r with Some v', Some r' => Some ((kk, v') :: r') | _, _ => None end end) d
    = Some d.
  Proof.
    induction d as [|[kk v] r IH]; [reflexivity|]. cbn [dict_plain forallb snd]. intro H.
    apply andb_true_iff in H. destruct H as [H1 H2].
    rewrite ref_no_payload; [|destruct (iso_payload v); [reflexivity|discriminate]].
    rewrite (IH H2). reflexivity.
  Qed.

  Let F := fun p x => enc k id (iv_of id p) x.

  Theorem lib_writer_is_iso o : forall p, iso_ok o = true ->
    ref_decrypt dec true k id (walk true F F p o) = Some (walk true (fun _ x => x) F p o).
  Proof.
    induction o using obj_ind'; intros p Hok; cbn [walk ref_decrypt iso_ok] in *; try reflexivity.
    - unfold F. rewrite dec_enc. reflexivity.
    - assert (G : forall i,
        (fix go (l : list obj) : option (list obj) := match l with
          | [] => Some [] | x :: r => match ref_decrypt dec true k id x, go r with Some x', Some r' => Some (x' :: r') | _, _ => None end end)
          ((fix go (i : nat) (l : list obj) : list obj := match l with [] => [] | x :: r => walk true F F (PI i :: p) x :: go (S i) r end) i l)
        = Some ((fix go (i : nat) (l : list obj) : list obj := match l with [] => [] | x :: r => walk true (fun _ x => x) F (PI i :: p) x :: go (S i) r end) i l)).
      { induction l as [|x r IHl]; intro i; [reflexivity|].
        inversion H; subst. cbn [forallb] in Hok. apply andb_true_iff in Hok. destruct Hok as [Hx Hr].
        rewrite (H2 _ Hx). rewrite (IHl H3 Hr). reflexivity. }
      rewrite G. reflexivity.
    - assert (G :
        (fix go (d : list (bytes * obj)) : option (list (bytes * obj)) := match d with
          | [] => Some [] | (kk, v) :: r => match ref_decrypt dec true k id v, go r with Some v', Some r' => Some ((kk, v') :: r') | _, _ => None end end)
          ((fix go (d : list (bytes * obj)) : list (bytes * obj) := match d with
             | [] => [] | (k0, v) :: r => (k0, if skip_key k0 then v else walk true F F (PK k0 :: p) v) :: go r end) d)
        = Some ((fix go (d : list (bytes * obj)) : list (bytes * obj) := match d with
             | [] => [] | (k0, v) :: r => (k0, if skip_key k0 then v else walk true (fun _ x => x) F (PK k0 :: p) v) :: go r end) d)).
      { induction d as [|[k0 v] r IHd]; [reflexivity|].
        inversion H; subst. cbn [forallb fst snd] in *. apply andb_true_iff in Hok. destruct Hok as [Hx Hr].
        rewrite (IHd H3 Hr).
        destruct (skip_key k0).
        - rewrite ref_no_payload; [reflexivity|]. destruct (iso_payload v); [reflexivity|discriminate].
        - rewrite (H2 _ Hx). reflexivity. }
      rewrite G. reflexivity.
    - apply andb_true_iff in Hok. destruct Hok as [Hok HX]. apply andb_true_iff in Hok. destruct Hok as [HF HP].
      unfold named_filter in HF.
      destruct (dict_get (nm "Filter") d) as [fo|] eqn:EF; [|discriminate].
      destruct fo; try discriminate.
      assert (HC : has_crypt_filter d = false).
      { unfold has_crypt_filter. rewrite EF. apply negb_true_iff in HF. exact HF. }
      unfold should_encrypt_stream. cbn [negb andb]. rewrite HC. cbn [negb].
      assert (HM : mark_crypt d = d). { unfold mark_crypt. rewrite EF. reflexivity. }
      rewrite HM. cbn [ref_decrypt].
      rewrite ref_plain_dict by (apply dict_plain_set; [reflexivity | exact HP]).
      assert (HS : stream_encrypted true (dict_set (nm "Length") (len_num (F (PD :: p) data)) d) = true).
      { unfold stream_encrypted. rewrite dict_get_set_other by reflexivity. rewrite EF.
        cbn [filter_names existsb]. rewrite bytes_eqb_sym. apply negb_true_iff in HF. rewrite HF. cbn [orb].
        unfold type_is. rewrite !dict_get_set_other by reflexivity.
        apply negb_true_iff in HX. unfold type_is in HX. rewrite HX. reflexivity. }
      rewrite HS. unfold F. rewrite dec_enc. reflexivity.
  Qed.
End IsoClass.

Example iso_ok_example :
  iso_ok (OStream [(nm "Filter", OName (nm "FlateDecode")); (nm "Length", ONum "3")] [1;2;3]) = true
  /\ iso_ok (ODict [(nm "Title", OStr (nm "T")); (nm "Kids", OArr [OStr (nm "a")])]) = true.
Proof. split; reflexivity. Qed.

(** witness for the known finding C06-crypt-marker: a stream without /Filter gets
    /Filter /Crypt from the library's writer, which per 7.6.5 means the Identity crypt filter;
    the reference therefore hands out the still-encrypted payload *)
Theorem crypt_marker_refuted : exists k id o,
  wf o = true /\ exists o', ref_decrypt toy_dec true k id (encrypt_obj toy_enc true toy_iv k id o) = Some o'
                            /\ payload o' <> payload o.
Proof.
  exists [], (7, 0), (OStream [(nm "Length", ONum "5")] (nm "BT ET")).
  split; [reflexivity|]. eexists. split; [vm_compute; reflexivity | vm_compute; discriminate].
Qed.
