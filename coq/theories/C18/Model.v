(** C18 — code-shaped model of the page-tree navigation of parser/page_tree.rs
    ([PageTree::flatten_page_tree], [resolve_kids]) and parser/document.rs
    ([collect_inherited_attributes], [create_parsed_page], [get_rectangle],
    [get_integer]) and the ISO 32000-1 §7.7.3 specification (an inductive tree, its
    leaves in document order, attribute inheritance from the nearest ancestor). *)
From OxVerif Require Import Base.Util.
Open Scope N_scope.

(** * Object store *)
Definition ref := N.          (* object number; generation 0 throughout *)

(** /Type of a dictionary as far as the code looks at it *)
Inductive kind := KPage | KPages | KOther | KNone.

(** a dictionary value as far as the page code looks at it *)
Inductive pval :=
| VRef (r : ref)              (* indirect reference  n 0 R *)
| VInt (z : Z)                (* integer *)
| VArr (l : list pval)        (* array *)
| VDict (id : N)              (* a (resource) dictionary, identified by a marker *)
| VOther.                     (* anything else (name, null, string …) *)

Record node := {
  ntype : kind;
  nkids : option pval;        (* /Kids *)
  nparent : option pval;      (* /Parent *)
  ncontents : bool;           (* has /Contents *)
  nmedia : option pval;       (* /MediaBox *)
  ncrop : option pval;        (* /CropBox *)
  nrotate : option pval;      (* /Rotate *)
  nres : option pval          (* /Resources *)
}.

Inductive sobj := SDict (n : node) | SVal (v : pval).
Definition store := list (ref * sobj).

Fixpoint find (s : store) (r : ref) : option sobj :=
  match s with
  | [] => None
  | (k, o) :: s' => if k =? r then Some o else find s' r
  end.

Fixpoint mem (r : ref) (l : list ref) : bool :=
  match l with
  | [] => false
  | x :: l' => (x =? r) || mem r l'
  end.

Definition has {A} (o : option A) : bool := match o with Some _ => true | None => false end.

(** * flatten_page_tree *)

(** [a.0.iter().filter_map(|k| k.as_reference())] *)
Fixpoint as_refs (l : list pval) : list ref :=
  match l with
  | [] => []
  | VRef r :: l' => r :: as_refs l'
  | _ :: l' => as_refs l'
  end.

(** [resolve_kids]: direct array, or ONE level of indirection to an array; else empty *)
Definition resolve_kids (s : store) (k : option pval) : list ref :=
  match k with
  | Some (VRef r) => match find s r with Some (SVal (VArr l)) => as_refs l | _ => [] end
  | Some (VArr l) => as_refs l
  | _ => []
  end.

Inductive cls := CPage | CPages | CSkip.

(** node type with the inference for a missing /Type and the fall-through arm *)
Definition classify (n : node) : cls :=
  match ntype n with
  | KPage => CPage
  | KPages => CPages
  | KNone => if has (nkids n) then CPages
             else if ncontents n || has (nmedia n) then CPage else CSkip
  | KOther => if has (nmedia n) || ncontents n then CPage else CSkip
  end.

Definition MAX_PAGES : N := 100000.

(** The work loop.  The Rust stack is a Vec popped from the end onto which the kids are
    pushed in reverse; here the top of the stack is the head of the list, so pushing the
    reversed kids is [kids ++ rest].  [None] = out of fuel. *)
Fixpoint run (fuel : nat) (s : store) (stack vis acc : list ref) : option (list ref) :=
  match fuel with
  | O => None
  | S f =>
      match stack with
      | [] => Some acc
      | r :: rest =>
          if MAX_PAGES <=? N.of_nat (length acc) then Some acc
          else if mem r vis then run f s rest vis acc
          else
            let vis' := r :: vis in
            match find s r with
            | Some (SDict n) =>
                match classify n with
                | CPage => run f s rest vis' (acc ++ [r])
                | CPages => run f s (resolve_kids s (nkids n) ++ rest) vis' acc
                | CSkip => run f s rest vis' acc
                end
            | _ => run f s rest vis' acc
            end
      end
  end.

(** number of /Kids edges of all dictionaries of the store *)
Definition kids_weight (s : store) (o : sobj) : nat :=
  match o with SDict n => length (resolve_kids s (nkids n)) | SVal _ => O end.

Fixpoint edges_from (s0 s : store) : nat :=
  match s with
  | [] => O
  | (_, o) :: s' => (kids_weight s0 o + edges_from s0 s')%nat
  end.
Definition edges (s : store) : nat := edges_from s s.

Definition flatten_fuel (s : store) (root : node) : nat :=
  S (length (resolve_kids s (nkids root)) + edges s).

Definition flatten (s : store) (root : node) : option (list ref) :=
  run (flatten_fuel s root) s (resolve_kids s (nkids root)) [] [].

(** * collect_inherited_attributes, per key ([get] selects the key) *)
Definition getter := node -> option pval.

(** walks /Parent; [vis] is the cycle set; result [None] = out of fuel,
    [Some v] = the inherited value (if any) *)
Fixpoint climb (fuel : nat) (s : store) (get : getter) (cur : option pval) (vis : list ref)
  : option (option pval) :=
  match fuel with
  | O => None
  | S f =>
      match cur with
      | Some (VRef p) =>
          if mem p vis then Some None
          else match find s p with
               | Some (SDict pn) =>
                   match get pn with
                   | Some v => Some (Some v)     (* nearest ancestor wins; later ones ignored *)
                   | None => climb f s get (nparent pn) (p :: vis)
                   end
               | _ => Some None
               end
      | _ => Some None
      end
  end.

(** own value > inherited *)
Definition effective (s : store) (get : getter) (n : node) : option (option pval) :=
  match get n with
  | Some v => Some (Some v)
  | None => climb (S (length s)) s get (nparent n) []
  end.

(** * create_parsed_page: interpretation of the chosen values *)
Inductive rect_res := RErr | RNone | RRect (a b c d : Z).

Definition as_num (v : pval) : Z := match v with VInt z => z | _ => 0%Z end.

(** [get_rectangle]: only a DIRECT array is looked at *)
Definition interp_rect (v : option pval) : rect_res :=
  match v with
  | Some (VArr [a; b; c; d]) => RRect (as_num a) (as_num b) (as_num c) (as_num d)
  | Some (VArr _) => RErr
  | _ => RNone
  end.

(** i64 -> i32 truncation of [as i32] *)
Definition wrap32 (z : Z) : Z := ((z + 2147483648) mod 4294967296 - 2147483648)%Z.

Definition interp_rotate (v : option pval) : Z :=
  match v with Some (VInt z) => wrap32 z | _ => 0%Z end.

(** resources: inline dictionary, else one [resolve] *)
Definition interp_res (s : store) (v : option pval) : option N :=
  match v with
  | Some (VDict id) => Some id
  | Some (VRef r) => match find s r with Some (SVal (VDict id)) => Some id | _ => None end
  | _ => None
  end.

(** an attribute value given as an indirect reference stands for its target
    (ISO 32000-1 §7.3.10; [self.resolve] in get_rectangle/get_integer after
    fix_c18_indirect_page_attrs.patch: one level, a failed lookup yields no value) *)
Definition deref (s : store) (v : option pval) : option pval :=
  match v with
  | Some (VRef r) => match find s r with Some (SVal x) => Some x | _ => Some VOther end
  | _ => v
  end.

(** what [get_page] reports for one page *)
Record pinfo := { p_ref : ref; p_media : list Z; p_crop : option (list Z); p_rot : Z; p_res : option N }.
Inductive pres := PErr | POk (p : pinfo).

Definition letter : list Z := [0; 0; 612; 792]%Z.

Definition opt_join {A} (o : option (option A)) : option A := match o with Some x => x | None => None end.

Definition page_info (s : store) (r : ref) : pres :=
  match find s r with
  | Some (SDict n) =>
      let m := interp_rect (deref s (opt_join (effective s nmedia n))) in
      let c := interp_rect (deref s (opt_join (effective s ncrop n))) in
      match m, c with
      | RErr, _ => PErr
      | _, RErr => PErr
      | _, _ =>
          POk {| p_ref := r;
                 p_media := match m with RRect a b c d => [a; b; c; d] | _ => letter end;
                 p_crop := match c with RRect a b c d => Some [a; b; c; d] | _ => None end;
                 p_rot := interp_rotate (deref s (opt_join (effective s nrotate n)));
                 p_res := interp_res s (opt_join (effective s nres n)) |}
      end
  | _ => PErr
  end.

(** the whole observable: [None] = open/flatten failed *)
Definition model_pages (s : store) (rootref : ref) : option (list ref * list pres) :=
  match find s rootref with
  | Some (SDict root) =>
      match flatten s root with
      | Some l => Some (l, map (page_info s) l)
      | None => None
      end
  | _ => None
  end.

(** * Specification (ISO 32000-1 §7.7.3): the page tree as an inductive tree *)
Record attrs := { t_media : option pval; t_crop : option pval; t_rot : option pval; t_res : option pval }.

Inductive tree :=
| Leaf (r : ref) (a : attrs)
| Node (r : ref) (a : attrs) (ks : list tree).

Definition troot (t : tree) : ref := match t with Leaf r _ => r | Node r _ _ => r end.
Definition tattrs (t : tree) : attrs := match t with Leaf _ a => a | Node _ a _ => a end.

(** leaves in document order *)
Fixpoint leaves (t : tree) : list ref :=
  match t with
  | Leaf r _ => [r]
  | Node _ _ ks => flat_map leaves ks
  end.

(** every object of the tree, parents before children, left to right *)
Fixpoint preorder (t : tree) : list ref :=
  match t with
  | Leaf r _ => [r]
  | Node r _ ks => r :: flat_map preorder ks
  end.

Fixpoint tsize (t : tree) : nat :=
  match t with
  | Leaf _ _ => 1%nat
  | Node _ _ ks => S (fold_right (fun k n => (tsize k + n)%nat) O ks)
  end.

(** inheritance, top-down: a value set on a node replaces the one handed down *)
Definition over (ctx own : option pval) : option pval := match own with Some v => Some v | None => ctx end.

Fixpoint leaf_vals (sel : attrs -> option pval) (ctx : option pval) (t : tree) : list (ref * option pval) :=
  match t with
  | Leaf r a => [(r, over ctx (sel a))]
  | Node _ a ks => flat_map (leaf_vals sel (over ctx (sel a))) ks
  end.

Fixpoint pval_eqb (a b : pval) {struct a} : bool :=
  match a, b with
  | VRef x, VRef y => x =? y
  | VInt x, VInt y => (x =? y)%Z
  | VArr x, VArr y =>
      (fix go (l1 l2 : list pval) : bool :=
         match l1, l2 with
         | [], [] => true
         | p :: l1', q :: l2' => pval_eqb p q && go l1' l2'
         | _, _ => false
         end) x y
  | VDict x, VDict y => x =? y
  | VOther, VOther => true
  | _, _ => false
  end.

Definition opval_eqb := option_eqb pval_eqb.
Definition ref_list_eqb := list_eqb N.eqb.

(** the store realises the tree: every tree object is a dictionary of the right class
    with exactly these kids, this /Parent and these own attributes *)
Fixpoint embedsb (s : store) (parent : option ref) (t : tree) : bool :=
  match find s (troot t) with
  | Some (SDict n) =>
      opval_eqb (nparent n) (option_map VRef parent)
      && opval_eqb (nmedia n) (t_media (tattrs t)) && opval_eqb (ncrop n) (t_crop (tattrs t))
      && opval_eqb (nrotate n) (t_rot (tattrs t)) && opval_eqb (nres n) (t_res (tattrs t))
      && match t with
         | Leaf _ _ => match classify n with CPage => true | _ => false end
         | Node r _ ks =>
             match classify n with CPages => true | _ => false end
             && ref_list_eqb (resolve_kids s (nkids n)) (map troot ks)
             && forallb (embedsb s (Some r)) ks
         end
  | _ => false
  end.

Fixpoint nodupb (l : list ref) : bool :=
  match l with
  | [] => true
  | x :: l' => negb (mem x l') && nodupb l'
  end.

(** well-formed: embedded, no object used twice, fewer than MAX_PAGES leaves *)
Definition wf (s : store) (t : tree) : bool :=
  embedsb s None t && nodupb (preorder t) && (N.of_nat (length (leaves t)) <? MAX_PAGES).

Definition spec_rect (v : option pval) : rect_res := interp_rect v.

Definition spec_res (v : option pval) : option N :=
  match v with Some (VDict id) => Some id | _ => None end.

Fixpoint zip4 (a : list (ref * option pval)) (b c d : list (ref * option pval))
  : list (ref * (option pval * option pval * option pval * option pval)) :=
  match a, b, c, d with
  | (r, x) :: a', (_, y) :: b', (_, z) :: c', (_, w) :: d' => (r, (x, y, z, w)) :: zip4 a' b' c' d'
  | _, _, _, _ => []
  end.

Definition spec_page (s : store) (e : ref * (option pval * option pval * option pval * option pval)) : pres :=
  let '(r, (m, c, ro, re)) := e in
  let m := spec_rect (deref s m) in
  let c := spec_rect (deref s c) in
  match m, c with
  | RErr, _ => PErr
  | _, RErr => PErr
  | _, _ =>
      POk {| p_ref := r;
             p_media := match m with RRect a b c d => [a; b; c; d] | _ => letter end;
             p_crop := match c with RRect a b c d => Some [a; b; c; d] | _ => None end;
             p_rot := interp_rotate (deref s ro);
             p_res := spec_res (deref s re) |}
  end.

Definition spec_pages (s : store) (t : tree) : list pres :=
  map (spec_page s)
      (zip4 (leaf_vals t_media None t) (leaf_vals t_crop None t)
            (leaf_vals t_rot None t) (leaf_vals t_res None t)).

(** * Comparison helpers and the case checker *)
Definition zlist_eqb := list_eqb Z.eqb.

Definition pinfo_eqb (a b : pinfo) : bool :=
  (p_ref a =? p_ref b) && zlist_eqb (p_media a) (p_media b)
  && option_eqb zlist_eqb (p_crop a) (p_crop b) && (p_rot a =? p_rot b)%Z
  && option_eqb N.eqb (p_res a) (p_res b).

Definition pres_eqb (a b : pres) : bool :=
  match a, b with
  | PErr, PErr => true
  | POk x, POk y => pinfo_eqb x y
  | _, _ => false
  end.

Definition is_page_obj (s : store) (r : ref) : bool :=
  match find s r with
  | Some (SDict n) => match classify n with CPage => true | _ => false end
  | _ => false
  end.

Definition pres_ref (p : pres) : option ref := match p with POk i => Some (p_ref i) | PErr => None end.

(** one correspondence case: store, root reference, the spec tree when the generator
    built a well-formed one, and per index 0..page_count-1 the result of get_page
    ([None] as a whole = the document could not be opened / page_count failed) *)
Definition case := (store * ref * option tree * option (list pres))%type.

Fixpoint ok_refs (l : list pres) : list ref :=
  match l with
  | [] => []
  | POk i :: l' => p_ref i :: ok_refs l'
  | PErr :: l' => ok_refs l'
  end.

Definition case_code (c : case) : N :=
  let '(s, root, ot, impl) := c in
  let model_ok :=
    match model_pages s root, impl with
    | Some (_, m), Some i => list_eqb pres_eqb m i
    | None, None => true
    | _, _ => false
    end in
  let prop_ok :=
    match ot with
    | Some t =>
        (* well-formed tree: count, order and inherited attributes exactly as specified *)
        if wf s t then
          match impl with
          | Some i => list_eqb pres_eqb (spec_pages s t) i
          | None => false
          end
        else false    (* the generator claimed well-formedness wrongly: report *)
    | None =>
        (* cyclic / inconsistent tree: an error or any duplicate-free list of page objects *)
        match impl with
        | None => true
        | Some i => nodupb (ok_refs i) && forallb (is_page_obj s) (ok_refs i)
        end
    end in
  code_of model_ok prop_ok.
