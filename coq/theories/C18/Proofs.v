(** C18 — proofs about the page-tree model: totality of the flattening on ANY object
    graph, agreement with the document-order leaves on well-formed trees, inheritance
    from the nearest ancestor. *)
From OxVerif Require Import Base.Util C18.Model.
Require Import Lia.
Open Scope N_scope.

(** * Small facts *)
Lemma mem_In : forall x l, mem x l = true <-> In x l.
Proof.
  induction l as [|y l IH]; cbn; split; intro H; try discriminate; try contradiction.
  - apply orb_true_iff in H. destruct H as [H|H].
    + left. apply N.eqb_eq in H. exact H.
    + right. apply IH. exact H.
  - apply orb_true_iff. destruct H as [H|H].
    + left. apply N.eqb_eq. exact H.
    + right. apply IH. exact H.
Qed.

Lemma mem_false_In : forall x l, mem x l = false <-> ~ In x l.
Proof.
  intros. rewrite <- mem_In. destruct (mem x l); split; intro H; auto; try discriminate.
  exfalso. apply H. reflexivity.
Qed.

Lemma nodupb_NoDup : forall l, nodupb l = true -> NoDup l.
Proof.
  induction l as [|x l IH]; cbn; intro H; constructor.
  - apply andb_true_iff in H. destruct H as [H _]. apply negb_true_iff in H.
    apply mem_false_In. exact H.
  - apply IH. apply andb_true_iff in H. tauto.
Qed.

Lemma find_In_keys : forall s r o, find s r = Some o -> In r (List.map fst s).
Proof.
  induction s as [|[k o'] s IH]; cbn; intros r o H; try discriminate.
  destruct (k =? r) eqn:E.
  - left. apply N.eqb_eq. exact E.
  - right. eapply IH. exact H.
Qed.

Lemma NoDup_snoc : forall (l : list ref) x, NoDup l -> ~ In x l -> NoDup (l ++ [x]).
Proof.
  induction l as [|y l IH]; cbn; intros x Hnd Hx.
  - constructor; auto.
  - inversion Hnd; subst. constructor.
    + intro H. apply in_app_or in H. destruct H as [H|[H|[]]]; auto.
    + apply IH; auto.
Qed.

Lemma NoDup_app_parts : forall (a b : list ref), NoDup (a ++ b) ->
  NoDup a /\ NoDup b /\ (forall x, In x a -> In x b -> False).
Proof.
  induction a as [|y a IH]; cbn; intros b H.
  - repeat split; auto. constructor.
  - inversion H as [|? ? Hn Hd]; subst. destruct (IH b Hd) as (Ha & Hb & Hdis).
    repeat split; auto.
    + constructor; auto. intro Hy. apply Hn. apply in_or_app. auto.
    + intros x [Hx|Hx] Hxb.
      * subst. apply Hn. apply in_or_app. auto.
      * eapply Hdis; eauto.
Qed.

(** * Part A — the flattening terminates on every object graph *)

(** weight still to be spent: /Kids edges of the entries whose key is not yet visited *)
Fixpoint uw (s0 s : store) (vis : list ref) : nat :=
  match s with
  | [] => O
  | (k, o) :: s' => ((if mem k vis then O else kids_weight s0 o) + uw s0 s' vis)%nat
  end.

Definition wopt (s0 : store) (o : option sobj) : nat :=
  match o with Some x => kids_weight s0 x | None => O end.

Lemma uw_nil : forall s0 s, uw s0 s [] = edges_from s0 s.
Proof. induction s as [|[k o] s IH]; cbn; auto. Qed.

Lemma uw_mono : forall s0 s r vis, (uw s0 s (r :: vis) <= uw s0 s vis)%nat.
Proof.
  induction s as [|[k o] s IH]; intros; cbn [uw]; auto.
  specialize (IH r vis). cbn [mem].
  destruct (r =? k); cbn [orb]; destruct (mem k vis); lia.
Qed.

Lemma uw_visit : forall s0 s r vis, mem r vis = false ->
  (uw s0 s (r :: vis) + wopt s0 (find s r) <= uw s0 s vis)%nat.
Proof.
  induction s as [|[k o] s IH]; intros r vis Hm; cbn [uw find wopt]; auto.
  cbn [mem]. destruct (k =? r) eqn:E.
  - apply N.eqb_eq in E. subst k. rewrite N.eqb_refl. cbn [orb]. rewrite Hm.
    pose proof (uw_mono s0 s r vis). cbn [wopt]. lia.
  - assert (E' : (r =? k) = false) by (rewrite N.eqb_sym; exact E).
    rewrite E'. cbn [orb]. specialize (IH r vis Hm). destruct (mem k vis); lia.
Qed.

Lemma run_total_aux : forall fuel s stack vis acc,
  (length stack + uw s s vis < fuel)%nat ->
  NoDup acc -> (forall x, In x acc -> mem x vis = true) ->
  exists l, run fuel s stack vis acc = Some l /\ NoDup l.
Proof.
  induction fuel as [|f IH]; intros s stack vis acc Hf Hnd Hin; [lia|].
  cbn [run]. destruct stack as [|r rest].
  - exists acc. auto.
  - destruct (MAX_PAGES <=? N.of_nat (length acc)); [exists acc; auto|].
    cbn [length] in Hf.
    destruct (mem r vis) eqn:Hm.
    + apply IH; auto. lia.
    + pose proof (uw_visit s s r vis Hm) as Hv.
      assert (Hin' : forall x, In x acc -> mem x (r :: vis) = true).
      { intros x Hx. cbn [mem]. rewrite (Hin x Hx). apply orb_true_r. }
      assert (Hskip : exists l, run f s rest (r :: vis) acc = Some l /\ NoDup l).
      { apply IH; auto. lia. }
      destruct (find s r) as [[n|v]|] eqn:Hfind; auto.
      cbn [wopt kids_weight] in Hv.
      destruct (classify n); auto.
      * apply IH.
        -- lia.
        -- apply NoDup_snoc. exact Hnd.
           intro Hx. apply Hin in Hx. congruence.
        -- intros x Hx. apply in_app_or in Hx. destruct Hx as [Hx|[Hx|[]]].
           ++ apply Hin'. exact Hx.
           ++ subst x. cbn [mem]. rewrite N.eqb_refl. reflexivity.
      * apply IH; auto. rewrite app_length. lia.
Qed.

(** the fuel bound |root kids| + |edges| + 1 suffices for ANY store: never OutOfFuel,
    and the flat index has no duplicates *)
Theorem flatten_total_proof : forall s root,
  exists l, flatten s root = Some l /\ NoDup l.
Proof.
  intros. unfold flatten, flatten_fuel. apply run_total_aux.
  - rewrite uw_nil. unfold edges. lia.
  - constructor.
  - intros x [].
Qed.

Lemma run_mono : forall f s stack vis acc l,
  run f s stack vis acc = Some l -> forall f', (f <= f')%nat -> run f' s stack vis acc = Some l.
Proof.
  induction f as [|f IH]; intros s stack vis acc l H f' Hle; [discriminate|].
  destruct f' as [|f']; [lia|]. assert (Hle' : (f <= f')%nat) by lia.
  cbn [run] in *. destruct stack as [|r rest]; auto.
  destruct (MAX_PAGES <=? N.of_nat (length acc)); auto.
  destruct (mem r vis); [eapply IH; eauto|].
  destruct (find s r) as [[n|v]|]; try (eapply IH; eauto).
  destruct (classify n); eapply IH; eauto.
Qed.

(** * Part B — on a well-formed tree the flat index is the list of leaves in document order *)
Definition fsize (ts : list tree) : nat := fold_right (fun k n => (tsize k + n)%nat) O ts.

Lemma fsize_cons : forall t ts, fsize (t :: ts) = (tsize t + fsize ts)%nat.
Proof. reflexivity. Qed.
Lemma tsize_node : forall r a ks, tsize (Node r a ks) = S (fsize ks).
Proof. reflexivity. Qed.
Lemma tsize_leaf : forall r a, tsize (Leaf r a) = 1%nat.
Proof. reflexivity. Qed.

Lemma run_forest : forall n ts, (fsize ts <= n)%nat ->
  forall s p rest vis acc f res,
  forallb (embedsb s p) ts = true ->
  NoDup (flat_map preorder ts) ->
  (forall x, In x (flat_map preorder ts) -> mem x vis = false) ->
  N.of_nat (length acc + length (flat_map leaves ts)) < MAX_PAGES ->
  run f s rest (rev (flat_map preorder ts) ++ vis) (acc ++ flat_map leaves ts) = Some res ->
  run (f + fsize ts) s (List.map troot ts ++ rest) vis acc = Some res.
Proof.
  induction n as [|n IH]; intros ts Hsz s p rest vis acc f res Hemb Hnd Hvis Hmax Hrun.
  - destruct ts as [|t ts]; [|destruct t; cbn in Hsz; lia].
    cbn in *. rewrite Nat.add_0_r. rewrite app_nil_r in Hrun. exact Hrun.
  - destruct ts as [|t ts].
    { cbn in *. rewrite Nat.add_0_r. rewrite app_nil_r in Hrun. exact Hrun. }
    cbn [forallb] in Hemb. apply andb_true_iff in Hemb. destruct Hemb as [Ht Hts].
    cbn [flat_map] in Hnd, Hvis, Hmax, Hrun.
    destruct t as [r a|r a ks].
    + (* a leaf: one pop, appended *)
      cbn [preorder leaves] in *. cbn [app] in Hnd, Hvis.
      cbn [embedsb troot tattrs] in Ht.
      destruct (find s r) as [[nd|v]|] eqn:Hfind; try discriminate.
      repeat (apply andb_true_iff in Ht; destruct Ht as [Ht ?]).
      destruct (classify nd) eqn:Hc; try discriminate.
      rewrite fsize_cons, tsize_leaf. cbn [List.map troot app].
      replace (f + (1 + fsize ts))%nat with (S (f + fsize ts)) by lia.
      cbn [run].
      assert (Hlt : (MAX_PAGES <=? N.of_nat (length acc)) = false).
      { apply N.leb_gt. rewrite app_length in Hmax. lia. }
      rewrite Hlt. rewrite (Hvis r (or_introl eq_refl)). rewrite Hfind, Hc.
      eapply IH with (p := p); auto.
      * rewrite fsize_cons, tsize_leaf in Hsz. lia.
      * inversion Hnd; auto.
      * intros x Hx. cbn [mem]. rewrite (Hvis x (or_intror Hx)).
        inversion Hnd; subst. destruct (r =? x) eqn:E; auto.
        apply N.eqb_eq in E. subst. contradiction.
      * rewrite !app_length in *. cbn [length] in *. lia.
      * cbn [rev] in Hrun. rewrite rev_app_distr in Hrun. cbn [rev app] in Hrun.
        rewrite <- app_assoc in Hrun. cbn [app] in Hrun.
        rewrite <- app_assoc. cbn [app]. exact Hrun.
    + (* an intermediate node: one pop, its kids pushed in order *)
      cbn [preorder leaves] in *. cbn [app] in Hnd, Hvis.
      cbn [embedsb troot tattrs] in Ht.
      destruct (find s r) as [[nd|v]|] eqn:Hfind; try discriminate.
      repeat (apply andb_true_iff in Ht; destruct Ht as [Ht ?]).
      destruct (classify nd) eqn:Hc; try discriminate.
      match goal with H : _ && _ && _ = true |- _ =>
        apply andb_true_iff in H; destruct H as [H Hks];
        apply andb_true_iff in H; destruct H as [_ Hkids] end.
      apply (list_eqb_spec N.eqb N.eqb_eq) in Hkids.
      rewrite fsize_cons, tsize_node. cbn [List.map troot app].
      replace (f + (S (fsize ks) + fsize ts))%nat with (S ((f + fsize ts) + fsize ks)) by lia.
      cbn [run].
      assert (Hlt : (MAX_PAGES <=? N.of_nat (length acc)) = false).
      { apply N.leb_gt. rewrite app_length in Hmax. lia. }
      rewrite Hlt. rewrite (Hvis r (or_introl eq_refl)). rewrite Hfind, Hc, Hkids.
      inversion Hnd as [|? ? Hnotin Hnd']; subst.
      destruct (NoDup_app_parts _ _ Hnd') as (Hnd_ks & Hnd_ts & Hdis).
      rewrite fsize_cons, tsize_node in Hsz.
      eapply IH with (p := Some r); auto.
      * lia.
      * intros x Hx. cbn [mem].
        rewrite (Hvis x (or_intror (in_or_app _ _ _ (or_introl Hx)))).
        destruct (r =? x) eqn:E; auto. apply N.eqb_eq in E. subst.
        exfalso. apply Hnotin. apply in_or_app. auto.
      * rewrite !app_length in Hmax. lia.
      * eapply IH with (p := p); auto.
        -- lia.
        -- intros x Hx.
           assert (Hxv : mem x vis = false) by (apply Hvis; right; apply in_or_app; auto).
           apply mem_false_In. intro Hin. apply in_app_or in Hin. destruct Hin as [Hin|Hin].
           ++ apply in_rev in Hin. eapply Hdis; eauto.
           ++ destruct Hin as [Hin|Hin].
              ** subst. apply Hnotin. apply in_or_app. auto.
              ** apply mem_In in Hin. congruence.
        -- rewrite !app_length in *. lia.
        -- rewrite rev_app_distr in Hrun. cbn [rev] in Hrun.
           rewrite <- !app_assoc in Hrun. cbn [app] in Hrun.
           rewrite <- !app_assoc. exact Hrun.
Qed.

Theorem flatten_wellformed_proof : forall s r a ks root,
  wf s (Node r a ks) = true -> find s r = Some (SDict root) ->
  flatten s root = Some (leaves (Node r a ks)).
Proof.
  intros s r a ks root Hwf Hroot. unfold wf in Hwf.
  apply andb_true_iff in Hwf. destruct Hwf as [Hwf Hmax].
  apply andb_true_iff in Hwf. destruct Hwf as [Hemb Hnd].
  apply nodupb_NoDup in Hnd. apply N.ltb_lt in Hmax.
  cbn [embedsb troot tattrs] in Hemb. rewrite Hroot in Hemb.
  repeat (apply andb_true_iff in Hemb; destruct Hemb as [Hemb ?]).
  destruct (classify root); try discriminate.
  match goal with H : _ && _ && _ = true |- _ =>
    apply andb_true_iff in H; destruct H as [H Hks];
    apply andb_true_iff in H; destruct H as [_ Hkids] end.
  apply (list_eqb_spec N.eqb N.eqb_eq) in Hkids.
  cbn [preorder] in Hnd. inversion Hnd as [|? ? _ Hnd']; subst.
  cbn [leaves] in *.
  assert (Hrun : run (1 + fsize ks) s (List.map troot ks ++ []) [] [] = Some (flat_map leaves ks)).
  { eapply run_forest with (n := fsize ks) (p := Some r); auto. }
  rewrite app_nil_r in Hrun.
  destruct (flatten_total_proof s root) as (l & Hl & _).
  unfold flatten in *. rewrite Hkids in *.
  destruct (Nat.le_ge_cases (1 + fsize ks) (flatten_fuel s root)) as [Hle|Hle].
  - eapply run_mono; eauto.
  - rewrite Hl. pose proof (run_mono _ _ _ _ _ _ Hl _ Hle) as H'. congruence.
Qed.

(** * Part C — inheritance: the walk along /Parent yields the nearest ancestor's value *)

Lemma pval_eqb_eq : forall a b, pval_eqb a b = true -> a = b.
Proof.
  fix IH 1. intros a b. destruct a as [x|x|x|x|], b as [y|y|y|y|]; cbn; try discriminate; intro H.
  - apply N.eqb_eq in H. subst. reflexivity.
  - apply Z.eqb_eq in H. subst. reflexivity.
  - f_equal. revert y H. induction x as [|p x IHx]; intros [|q y] H; try discriminate; auto.
    apply andb_true_iff in H. destruct H as [H1 H2].
    f_equal; [apply IH; exact H1 | apply IHx; exact H2].
  - apply N.eqb_eq in H. subst. reflexivity.
  - reflexivity.
Qed.

Lemma opval_eqb_eq : forall a b, opval_eqb a b = true -> a = b.
Proof.
  intros [a|] [b|]; cbn; intro H; try discriminate; auto. f_equal. apply pval_eqb_eq. exact H.
Qed.

(** a key of the page dictionary together with the corresponding field of the spec tree *)
Definition attr_pair (get : getter) (sel : attrs -> option pval) : Prop :=
  (get = nmedia /\ sel = t_media) \/ (get = ncrop /\ sel = t_crop) \/
  (get = nrotate /\ sel = t_rot) \/ (get = nres /\ sel = t_res).

Lemma embedsb_node : forall s p t, embedsb s p t = true ->
  exists n, find s (troot t) = Some (SDict n) /\ nparent n = option_map VRef p /\
            (forall get sel, attr_pair get sel -> get n = sel (tattrs t)).
Proof.
  intros s p t H. destruct t as [r a|r a ks]; cbn [embedsb troot tattrs] in *;
    destruct (find s r) as [[n|v]|]; try discriminate;
    repeat (apply andb_true_iff in H; destruct H as [H ?]);
    exists n; (split; [reflexivity|]); (split; [apply opval_eqb_eq; assumption|]);
    intros get sel [[-> ->]|[[-> ->]|[[-> ->]|[-> ->]]]]; apply opval_eqb_eq; assumption.
Qed.

(** walking up from [p] through the distinct ancestors [anc] yields [ctx] *)
Definition up_ok (s : store) (get : getter) (p : option ref) (anc : list ref) (ctx : option pval) : Prop :=
  forall fuel vis, (length anc < fuel)%nat -> (forall a, In a anc -> mem a vis = false) ->
    climb fuel s get (option_map VRef p) vis = Some ctx.

Lemma up_ok_root : forall s get, up_ok s get None [] None.
Proof. intros s get fuel vis Hf _. destruct fuel; [cbn in Hf; lia|reflexivity]. Qed.

Lemma up_ok_step : forall s get p anc ctx r n,
  up_ok s get p anc ctx -> ~ In r anc ->
  find s r = Some (SDict n) -> nparent n = option_map VRef p ->
  up_ok s get (Some r) (r :: anc) (over ctx (get n)).
Proof.
  intros s get p anc ctx r n Hup Hnot Hfind Hpar fuel vis Hf Hvis.
  destruct fuel as [|f]; [cbn in Hf; lia|]. cbn [option_map climb].
  rewrite (Hvis r (or_introl eq_refl)). rewrite Hfind.
  destruct (get n) as [v|] eqn:Hg; cbn [over]; [reflexivity|].
  rewrite Hpar. apply Hup.
  - cbn [length] in Hf. lia.
  - intros a Ha. cbn [mem]. rewrite (Hvis a (or_intror Ha)).
    destruct (r =? a) eqn:E; auto. apply N.eqb_eq in E. subst. contradiction.
Qed.

Lemma inherit_forest : forall s get sel, attr_pair get sel ->
  forall n ts, (fsize ts <= n)%nat ->
  forall p anc ctx,
  forallb (embedsb s p) ts = true ->
  up_ok s get p anc ctx ->
  NoDup anc -> (forall a, In a anc -> In a (List.map fst s)) ->
  NoDup (flat_map preorder ts) ->
  (forall x, In x (flat_map preorder ts) -> ~ In x anc) ->
  forall r v, In (r, v) (flat_map (leaf_vals sel ctx) ts) ->
  exists nd, find s r = Some (SDict nd) /\ effective s get nd = Some v.
Proof.
  intros s get sel Hpair. induction n as [|n IH]; intros ts Hsz p anc ctx Hemb Hup Hnda Hkeys Hnd Hdis r v Hin.
  - destruct ts as [|t ts]; [destruct Hin|]. rewrite fsize_cons in Hsz. destruct t; cbn [tsize] in Hsz; lia.
  - destruct ts as [|t ts]; [destruct Hin|].
    cbn [forallb] in Hemb. apply andb_true_iff in Hemb. destruct Hemb as [Ht Hts].
    cbn [flat_map] in Hnd, Hdis, Hin.
    destruct (NoDup_app_parts _ _ Hnd) as (Hnd_t & Hnd_ts & Hsep).
    rewrite fsize_cons in Hsz.
    apply in_app_or in Hin. destruct Hin as [Hin|Hin].
    2:{ eapply IH with (ts := ts); eauto.
        - pose proof (tsize_leaf 0 (Build_attrs None None None None)). destruct t; cbn [tsize] in Hsz; lia.
        - intros x Hx. apply Hdis. apply in_or_app. auto. }
    destruct (embedsb_node _ _ _ Ht) as (nd & Hfind & Hpar & Hattr).
    destruct t as [r0 a|r0 a ks].
    + (* leaf *)
      cbn [leaf_vals] in Hin. destruct Hin as [Hin|[]]. inversion Hin; subst r0 v.
      cbn [troot tattrs] in *. exists nd. split; [exact Hfind|].
      unfold effective. rewrite (Hattr get sel Hpair).
      destruct (sel a) as [v|]; cbn [over]; [reflexivity|].
      rewrite Hpar. apply Hup.
      * assert (length anc <= length (List.map fst s))%nat by (apply NoDup_incl_length; auto).
        rewrite map_length in *. lia.
      * intros a0 _. reflexivity.
    + (* intermediate node *)
      cbn [leaf_vals] in Hin. cbn [troot tattrs preorder] in *.
      cbn [embedsb troot tattrs] in Ht. rewrite Hfind in Ht.
      repeat (apply andb_true_iff in Ht; destruct Ht as [Ht ?]).
      destruct (classify nd); try discriminate.
      match goal with H : _ && _ && _ = true |- _ =>
        apply andb_true_iff in H; destruct H as [_ Hks] end.
      assert (Hr0 : ~ In r0 anc) by (apply Hdis; left; reflexivity).
      inversion Hnd_t as [|? ? Hr0ks Hnd_ks]; subst.
      rewrite tsize_node in Hsz.
      eapply IH with (ts := ks) (p := Some r0) (anc := r0 :: anc); eauto.
      * lia.
      * rewrite <- (Hattr get sel Hpair). eapply up_ok_step; eauto.
      * constructor; auto.
      * intros a0 [<-|Ha0]; [eapply find_In_keys; eauto | auto].
      * intros x Hx [<-|Hxa]; [contradiction|].
        eapply Hdis; [|exact Hxa]. right. apply in_or_app. auto.
Qed.

Theorem inherit_nearest_proof : forall s t get sel, attr_pair get sel ->
  wf s t = true ->
  forall r v, In (r, v) (leaf_vals sel None t) ->
  exists nd, find s r = Some (SDict nd) /\ effective s get nd = Some v.
Proof.
  intros s t get sel Hpair Hwf r v Hin. unfold wf in Hwf.
  apply andb_true_iff in Hwf. destruct Hwf as [Hwf _].
  apply andb_true_iff in Hwf. destruct Hwf as [Hemb Hnd]. apply nodupb_NoDup in Hnd.
  eapply inherit_forest with (ts := [t]) (n := fsize [t]) (p := None) (anc := []) (ctx := None); eauto.
  - cbn [forallb]. rewrite Hemb. reflexivity.
  - apply up_ok_root.
  - constructor.
  - intros a [].
  - cbn [flat_map]. rewrite app_nil_r. exact Hnd.
  - cbn [flat_map]. rewrite app_nil_r. exact Hin.
Qed.

(** the walk along /Parent never runs out of fuel, whatever the store (cycles included) *)
Lemma climb_total_aux : forall fuel s get cur vis,
  NoDup vis -> (forall x, In x vis -> In x (List.map fst s)) ->
  (length s < length vis + fuel)%nat ->
  climb fuel s get cur vis <> None.
Proof.
  induction fuel as [|f IH]; intros s get cur vis Hnd Hkeys Hlen.
  - exfalso. assert (length vis <= length (List.map fst s))%nat by (apply NoDup_incl_length; auto).
    rewrite map_length in *. lia.
  - cbn [climb]. destruct cur as [[p| | | |]|]; try discriminate.
    destruct (mem p vis) eqn:Hm; [discriminate|].
    destruct (find s p) as [[pn|v]|] eqn:Hfind; try discriminate.
    destruct (get pn); [discriminate|].
    apply IH.
    + constructor; auto. apply mem_false_In. exact Hm.
    + intros x [<-|Hx]; [eapply find_In_keys; eauto | auto].
    + cbn [length]. lia.
Qed.

Theorem effective_total_proof : forall s get n, effective s get n <> None.
Proof.
  intros. unfold effective. destruct (get n); [discriminate|].
  apply climb_total_aux.
  - constructor.
  - intros x [].
  - cbn [length]. lia.
Qed.

(** top-down [over] = the nearest setter on the path: the value handed to a leaf below the
    ancestors [path] (nearest first, the leaf's own entry first of all) *)
Fixpoint nearest (path : list (option pval)) : option pval :=
  match path with
  | [] => None
  | Some v :: _ => Some v
  | None :: p => nearest p
  end.

Lemma over_nearest : forall ctx own path, ctx = nearest path -> over ctx own = nearest (own :: path).
Proof. intros ctx [v|] path H; cbn; auto. Qed.
