(** C01 — proofs about the kernel catalogue: [k_no_trap] for the current code, and
    [k_pinned_trap_refuted] witnesses (each was run against the real debug build, see notes/C01.md). *)
From Coq Require Import ZArith Lia Bool List.
From OxVerif Require Import C01.Mach C01.Kernels.
Import ListNotations.
Open Scope Z_scope.

Ltac inr := unfold InR; cbn [lo hi U8 U16 U32 U64 USIZE I8 I16 I32 I64 U128]; try lia.

Lemma slice_val len a b : 0 <= a -> a <= b -> b <= len -> slice len a b = Val (b - a).
Proof. intros. unfold slice.
  replace (a <=? b) with true by (symmetry; apply Z.leb_le; lia).
  replace (b <=? len) with true by (symmetry; apply Z.leb_le; lia).
  replace (0 <=? a) with true by (symmetry; apply Z.leb_le; lia). reflexivity. Qed.
Lemma index_val len i : 0 <= i < len -> index len i = Val i.
Proof. intros. unfold index.
  replace (0 <=? i) with true by (symmetry; apply Z.leb_le; lia).
  replace (i <? len) with true by (symmetry; apply Z.ltb_lt; lia). reflexivity. Qed.
Lemma u32_cast_range z : 0 <= cast U32 z <= 4294967295.
Proof. apply (cast_range U32 z). cbn; lia. Qed.
Lemma usize_cast_range z : 0 <= cast USIZE z <= 18446744073709551615.
Proof. apply (cast_range USIZE z). cbn; lia. Qed.

(** * 1. classic xref subsection *)
Lemma xref_sub_no_trap_proof : forall avail first count i,
  InR U32 first -> InR U32 count -> 0 <= i <= count -> xref_sub avail first count i <> Trap.
Proof.
  unfold xref_sub. induction avail as [|a IH]; intros first count i Hf Hc Hi; cbn [xref_sub_loop].
  - destruct (count <=? i); discriminate.
  - destruct (count <=? i) eqn:E; [discriminate|]. apply Z.leb_gt in E.
    unfold xref_key, checked_add, checked. destruct (inr U32 (first + i)); cbn [bind]; [|discriminate].
    rewrite add_no_trap by (revert Hc; inr). cbn [bind]. apply IH; auto. lia.
Qed.
Example xref_sub_reaches_loop : xref_sub 6 0 6 0 = Val (OOk 6). Proof. reflexivity. Qed.
Example xref_sub_overflow_is_err : xref_sub 6 4294967295 2 0 = Val OErr. Proof. reflexivity. Qed.
Lemma xref_sub_pinned_trap_refuted_proof : exists avail first count, InR U32 first /\ InR U32 count /\
  xref_sub_pinned avail first count 0 = Trap.
Proof. exists 2%nat, 4294967295, 2. split; [inr|split; [inr|]]. vm_compute. reflexivity. Qed.

Lemma xref_max_plus_1_no_trap_proof : forall max, InR U32 max -> xref_max_plus_1 max <> Trap.
Proof. intros max H. unfold xref_max_plus_1. rewrite cast_id by (revert H; inr).
  rewrite add_no_trap by (revert H; inr). discriminate. Qed.
Lemma xref_max_plus_1_pinned_trap_refuted_proof : exists max, InR U32 max /\ xref_max_plus_1_pinned max = Trap.
Proof. exists 4294967295. split; [inr|reflexivity]. Qed.

(** * 2. cross-reference stream *)
Lemma xs_entry_size_spec w0 w1 w2 es : xs_entry_size w0 w1 w2 = Some es ->
  es = cast USIZE w0 + cast USIZE w1 + cast USIZE w2.
Proof. unfold xs_entry_size, checked_add, usize_of_i64. intro H.
  destruct (checked USIZE (0 + cast USIZE w0)) eqn:A; [|discriminate]. apply checked_some in A as [-> _].
  destruct (checked USIZE (0 + cast USIZE w0 + cast USIZE w1)) eqn:B; [|discriminate]. apply checked_some in B as [-> _].
  apply checked_some in H as [-> _]. lia. Qed.

Lemma xs_key_cases first i : xs_key first i = Val OErr \/ exists k, xs_key first i = Val (OOk k).
Proof. unfold xs_key. destruct (checked_add U32 first i); [right; eexists; reflexivity|left; reflexivity]. Qed.

Lemma xs_loop_safe : forall fuel w0 w1 w2 es len first count i off,
  0 <= w0 -> 0 <= w1 -> 0 <= w2 -> es = w0 + w1 + w2 -> 1 <= es -> es <= hi USIZE ->
  0 <= len <= ISIZE_MAX -> 0 <= off <= len -> (off = 0 \/ es <= len) ->
  InR U32 first -> InR U32 count -> 0 <= i <= count ->
  len - off < Z.of_nat fuel ->
  xs_loop xs_key fuel w0 w1 w2 es len first count i off <> Trap /\
  xs_loop xs_key fuel w0 w1 w2 es len first count i off <> Val OFuel.
Proof.
  induction fuel as [|f IH]; intros w0 w1 w2 es len first count i off H0 H1 H2 He H1e Hes Hl Ho Hinv Hf Hc Hi Hfu;
    cbn [xs_loop].
  - destruct (count <=? i); [split; discriminate|]. cbn in Hfu. lia.
  - destruct (count <=? i) eqn:E; [split; discriminate|]. apply Z.leb_gt in E.
    unfold ISIZE_MAX in Hl. cbn [hi USIZE U64] in Hes.
    rewrite add_no_trap by (inr; destruct Hinv; lia). cbn [bind].
    destruct (len <? off + es) eqn:T; [split; discriminate|]. apply Z.ltb_ge in T.
    rewrite add_no_trap by inr. cbn [bind]. rewrite slice_val by lia. cbn [bind].
    rewrite add_no_trap by inr. cbn [bind]. rewrite slice_val by lia. cbn [bind].
    rewrite add_no_trap by inr. cbn [bind]. rewrite slice_val by lia. cbn [bind].
    destruct (xs_key_cases first i) as [K|[k K]]; rewrite K; cbn [bind]; [split; discriminate|].
    rewrite (add_no_trap U32 i 1) by (revert Hc; inr). cbn [bind].
    apply IH; auto; try lia.
Qed.

Lemma xs_entries_no_trap_proof : forall w0 w1 w2 first count len, 0 <= len <= ISIZE_MAX ->
  xs_entries w0 w1 w2 first count len <> Trap /\ xs_entries w0 w1 w2 first count len <> Val OFuel.
Proof.
  intros. unfold xs_entries. destruct (xs_entry_size w0 w1 w2) as [es|] eqn:E; [|split; discriminate].
  pose proof (xs_entry_size_spec _ _ _ _ E) as Hes.
  assert (Hr : InR USIZE es).
  { unfold xs_entry_size in E. destruct (checked_add USIZE 0 (usize_of_i64 w0)); [|discriminate].
    destruct (checked_add USIZE z (usize_of_i64 w1)); [|discriminate]. unfold checked_add in E.
    apply checked_some in E. destruct E as [-> R]. exact R. }
  destruct (es =? 0) eqn:Z0; [split; discriminate|]. apply Z.eqb_neq in Z0.
  pose proof (usize_cast_range w0). pose proof (usize_cast_range w1). pose proof (usize_cast_range w2).
  pose proof (u32_cast_range first). pose proof (u32_cast_range count).
  apply xs_loop_safe; unfold usize_of_i64, u32_of_i64; try lia; auto.
  apply Hr.
Qed.
Example xs_entries_ok : xs_entries 1 2 1 0 7 28 = Val (OOk 7). Proof. vm_compute. reflexivity. Qed.
Example xs_entries_trunc : xs_entries 1 2 1 0 8 28 = Val OErr. Proof. vm_compute. reflexivity. Qed.
Example xs_entries_w_neg : xs_entries (-1) (-1) (-1) 0 7 28 = Val OErr. Proof. vm_compute. reflexivity. Qed.
Example xs_entries_idx_max : xs_entries 1 2 1 4294967295 2 28 = Val OErr. Proof. vm_compute. reflexivity. Qed.

Lemma xs_w_sum_pinned_trap_refuted_proof : exists w0 w1 w2, InR I64 w0 /\ InR I64 w1 /\ InR I64 w2 /\
  xs_entry_size_pinned w0 w1 w2 = Trap.
Proof. exists (-1), (-1), (-1). repeat split; try inr. Qed.
Lemma xs_index_pinned_trap_refuted_proof : exists first count len, 0 <= len <= ISIZE_MAX /\
  xs_entries_pinned 1 2 1 first count len = Trap.
Proof. exists 4294967295, 2, 28. split; [unfold ISIZE_MAX; lia|]. vm_compute. reflexivity. Qed.

Lemma read_field_no_trap_proof : forall l acc, read_field acc l <> Trap.
Proof. induction l as [|b r IH]; intro acc; cbn [read_field]; [discriminate|].
  unfold shl. change (bits U64) with 64. cbn [Z.leb Z.ltb Z.compare andb bind]. apply IH. Qed.

(** * 3. object stream *)
Lemma objstm_abs_no_trap_proof : forall first off, objstm_abs first off <> Trap.
Proof. intros. unfold objstm_abs, u32_of_i64. pose proof (u32_cast_range first). pose proof (u32_cast_range off).
  rewrite add_no_trap by inr. discriminate. Qed.
Lemma objstm_abs_pinned_trap_refuted_proof : exists first off, InR I64 first /\ InR I64 off /\
  objstm_abs_pinned first off = Trap.
Proof. exists 4294967295, 1. repeat split; try inr. Qed.

(** * 4. stream /Length *)
Lemma read_bytes_request_bounded_proof : forall n, read_bytes_request n <= READ_CHUNK.
Proof. intro. unfold read_bytes_request. lia. Qed.
(** what the buffer finally holds is what arrived: at most [min n remaining] *)
Lemma read_bytes_result_bounded_proof : forall n remaining v, 0 <= remaining ->
  read_bytes_result n remaining = OOk v -> v <= remaining.
Proof. intros n r v Hr. unfold read_bytes_result. destruct (r <? n) eqn:E; [discriminate|].
  apply Z.ltb_ge in E. intro H; inversion H; subst. lia. Qed.
Lemma read_bytes_request_pinned_refuted_proof : exists n remaining, InR I64 n /\ 0 <= remaining /\
  length_to_usize n = Some n /\ read_bytes_request_pinned n > remaining + READ_CHUNK.
Proof. exists 1099511627776, 400. repeat split; try inr; try lia. Qed.

(** * 5. predictor row sizing *)
Lemma predictor_rows_no_trap_proof : forall columns colors bpc datalen, 0 <= datalen <= ISIZE_MAX ->
  predictor_rows columns colors bpc datalen <> Trap.
Proof.
  intros columns colors bpc datalen Hd. unfold predictor_rows, usize_of_i64. unfold ISIZE_MAX in Hd.
  pose proof (usize_cast_range columns) as Hc. pose proof (usize_cast_range colors) as Hk.
  pose proof (usize_cast_range bpc) as Hb.
  set (C := cast USIZE columns) in *. set (K := cast USIZE colors) in *. set (B := cast USIZE bpc) in *.
  unfold checked_mul, checked_add.
  destruct (checked USIZE (B * K)) as [bits_pp|] eqn:E1; [|discriminate]. apply checked_some in E1 as [-> R1].
  unfold div_ceil. cbn [Z.eqb bind].
  destruct (checked USIZE (C * K)) as [samples|] eqn:E2; [|discriminate]. apply checked_some in E2 as [-> R2].
  destruct (checked USIZE (C * K * B)) as [bits|] eqn:E3; [|discriminate]. apply checked_some in E3 as [-> R3].
  destruct (checked USIZE (C * K * B + 7)) as [b7|] eqn:E4; [|discriminate]. apply checked_some in E4 as [-> R4].
  revert R1 R2 R3 R4; inr; intros R1 R2 R3 R4.
  unfold div. cbn [Z.eqb].
  assert (Hq : 0 <= Z.quot (C * K * B + 7) 8 <= (C * K * B + 7)).
  { rewrite Z.quot_div_nonneg by lia. split; [apply Z.div_pos; lia|]. apply Z.div_le_upper_bound; lia. }
  rewrite chk_val by (inr). cbn [bind].
  set (RB := Z.quot (C * K * B + 7) 8) in *.
  destruct (checked USIZE (RB + 1)) as [rs|] eqn:E5; [|discriminate]. apply checked_some in E5 as [-> R5].
  revert R5; inr; intro R5.
  unfold rem. replace (RB + 1 =? 0) with false by (symmetry; apply Z.eqb_neq; lia).
  replace (RB + 1 =? -1) with false by (symmetry; apply Z.eqb_neq; lia). cbn [andb bind].
  destruct (negb (Z.rem datalen (RB + 1) =? 0)); [discriminate|].
  assert (Hn : 0 <= Z.quot datalen (RB + 1) <= datalen).
  { rewrite Z.quot_div_nonneg by lia. split; [apply Z.div_pos; lia|]. apply Z.div_le_upper_bound; nia. }
  rewrite chk_val by inr. cbn [bind].
  set (NR := Z.quot datalen (RB + 1)) in *.
  assert (Hm : (RB + 1) * NR <= datalen).
  { unfold NR. rewrite Z.quot_div_nonneg by lia. apply Z.mul_div_le. lia. }
  rewrite mul_no_trap by (inr; nia). cbn [bind].
  destruct (NR =? 0) eqn:N0; [discriminate|]. apply Z.eqb_neq in N0.
  rewrite mul_no_trap by (inr; nia). cbn [bind].
  rewrite index_val by nia. cbn [bind].
  rewrite add_no_trap by (inr; nia). cbn [bind]. rewrite add_no_trap by (inr; nia). cbn [bind].
  rewrite slice_val by nia. cbn [bind].
  (* bytes-per-pixel is 0 only if the row is empty *)
  destruct (((B * K + 8 - 1) / 8 =? 0)) eqn:P0; cbn [andb]; [|discriminate].
  apply Z.eqb_eq in P0.
  assert (B * K = 0).
  { assert (0 <= B * K) by nia. assert (B * K + 8 - 1 < 8).
    { apply Z.nle_gt. intro. assert (1 <= (B * K + 8 - 1) / 8) by (apply Z.div_le_lower_bound; lia). lia. } lia. }
  assert (RB = 0).
  { unfold RB. replace (C * K * B) with (C * (B * K)) by ring. rewrite H. replace (C * 0 + 7) with 7 by ring. reflexivity. }
  rewrite H0. cbn. discriminate.
Qed.
Example predictor_rows_ok : predictor_rows 16 1 8 85 = Val (OOk 80). Proof. vm_compute. reflexivity. Qed.
Example predictor_rows_neg_colors : predictor_rows 16 (-1) 8 85 = Val OErr. Proof. vm_compute. reflexivity. Qed.
Lemma predictor_bpp_pinned_trap_refuted_proof : exists colors bpc, InR I64 colors /\ InR I64 bpc /\
  predictor_bpp_pinned colors bpc = Trap.
Proof. exists (-1), 8. repeat split; try inr. Qed.

(** * finite sweeps *)
Fixpoint zrange (lo : Z) (n : nat) : list Z := match n with O => [] | S k => lo :: zrange (lo + 1) k end.
Lemma In_zrange : forall n lo x, lo <= x < lo + Z.of_nat n -> In x (zrange lo n).
Proof. induction n as [|k IH]; intros lo x H; [cbn in H; lia|]. cbn [zrange].
  destruct (Z.eq_dec x lo); [left; congruence|right]. apply IH. rewrite Nat2Z.inj_succ in H. lia. Qed.

(** * 6. LZW bit reader *)
Definition lzw_step_ok (n br bp : Z) : bool :=
  if br <? n then match lzw_step n br bp with Val b => (0 <=? b) && (b <=? 8) | Trap => false end else true.
Definition lzw_sweep : bool :=
  forallb (fun n => forallb (fun br => forallb (fun bp => lzw_step_ok n br bp) (zrange 0 8)) (zrange 0 16)) (zrange 1 16).
Lemma lzw_sweep_true : lzw_sweep = true. Proof. vm_compute. reflexivity. Qed.
Lemma lzw_step_no_trap_proof : forall n bits_read bit_pos,
  1 <= n <= 16 -> 0 <= bits_read < n -> 0 <= bit_pos <= 7 ->
  exists b, lzw_step n bits_read bit_pos = Val b /\ 0 <= b <= 8.
Proof.
  intros n br bp Hn Hb Hp. pose proof lzw_sweep_true as S. unfold lzw_sweep in S.
  rewrite forallb_forall in S. specialize (S n (In_zrange 16 1 n ltac:(cbn; lia))).
  rewrite forallb_forall in S. specialize (S br (In_zrange 16 0 br ltac:(cbn; lia))).
  rewrite forallb_forall in S. specialize (S bp (In_zrange 8 0 bp ltac:(cbn; lia))).
  unfold lzw_step_ok in S. replace (br <? n) with true in S by (symmetry; apply Z.ltb_lt; lia).
  destruct (lzw_step n br bp) as [|b]; [discriminate|]. exists b. split; [reflexivity|].
  apply andb_true_iff in S as [A B]. apply Z.leb_le in A, B. lia.
Qed.
Lemma lzw_threshold_no_trap_proof : forall cs, 9 <= cs <= 12 -> lzw_threshold cs <> Trap.
Proof. intros cs H. assert (In cs (zrange 9 4)) as I by (apply In_zrange; cbn; lia).
  cbn in I. repeat (destruct I as [<-|I]; [vm_compute; discriminate|]). destruct I. Qed.

(** * 7. RunLength *)
Lemma cast_i8_byte b : 0 <= b <= 255 -> cast I8 b = if b <? 128 then b else b - 256.
Proof. intro H. unfold cast, wrap, width. cbn [lo hi I8].
  destruct (b <? 128) eqn:E; [apply Z.ltb_lt in E | apply Z.ltb_ge in E].
  - rewrite Z.mod_small; lia.
  - replace (b - -128) with ((b - 128) + 1 * (127 - -128 + 1)) by lia. rewrite Z.mod_add by lia.
    rewrite Z.mod_small; lia.
Qed.
Lemma rl_step_no_trap_proof : forall byte i len, 0 <= byte <= 255 -> 0 <= i < len -> len <= ISIZE_MAX ->
  rl_step byte i len <> Trap.
Proof.
  intros b i len Hb Hi Hl. unfold ISIZE_MAX in Hl. unfold rl_step. rewrite cast_i8_byte by lia.
  rewrite add_no_trap by inr. cbn [bind].
  destruct (b <? 128) eqn:E; [apply Z.ltb_lt in E | apply Z.ltb_ge in E].
  - replace (b =? -128) with false by (symmetry; apply Z.eqb_neq; lia).
    replace (0 <=? b) with true by (symmetry; apply Z.leb_le; lia).
    rewrite (cast_id USIZE b) by inr. rewrite add_no_trap by inr. cbn [bind].
    rewrite add_no_trap by inr. cbn [bind].
    destruct (len <? i + 1 + (b + 1)) eqn:T; [discriminate|]. apply Z.ltb_ge in T.
    rewrite slice_val by lia. discriminate.
  - destruct (b - 256 =? -128) eqn:M; [discriminate|]. apply Z.eqb_neq in M.
    replace (0 <=? b - 256) with false by (symmetry; apply Z.leb_gt; lia).
    destruct (len <=? i + 1) eqn:T; [discriminate|]. apply Z.leb_gt in T.
    rewrite index_val by lia. cbn [bind]. unfold neg. rewrite chk_val by inr. cbn [bind].
    rewrite (cast_id USIZE (- (b - 256))) by inr. rewrite add_no_trap by inr. cbn [bind].
    rewrite add_no_trap by inr. discriminate.
Qed.
Example rl_step_literal : rl_step 2 0 10 = Val (OOk 4). Proof. reflexivity. Qed.
Example rl_step_repeat : rl_step 255 0 10 = Val (OOk 2). Proof. reflexivity. Qed.

(** * 8. ASCII85 group *)
Lemma a85_fold_bound : forall l acc, Forall (fun c => 33 <= c <= 117) l -> 0 <= acc ->
  (acc + 1) * 85 ^ Z.of_nat (length l) <= 18446744073709551616 ->
  exists v, a85_fold acc l = Val v /\ 0 <= v < (acc + 1) * 85 ^ Z.of_nat (length l).
Proof.
  induction l as [|c r IH]; intros acc Hl Ha Hb.
  - exists acc. cbn. split; [reflexivity|lia].
  - inversion Hl as [|? ? Hc Hr]; subst. cbn [a85_fold].
    cbn [length] in *. rewrite Nat2Z.inj_succ, Z.pow_succ_r in * by lia.
    set (P := 85 ^ Z.of_nat (length r)) in *. assert (0 < P) by (apply Z.pow_pos_nonneg; lia).
    unfold sub. rewrite chk_val by inr. cbn [bind].
    rewrite mul_no_trap by (inr; nia). cbn [bind]. rewrite add_no_trap by (inr; nia). cbn [bind].
    destruct (IH (acc * 85 + (c - 33)) Hr ltac:(lia)) as [v [E B]]; [fold P; nia|].
    exists v. split; [exact E|]. fold P in B. nia.
Qed.
Lemma a85_group_no_trap_proof : forall l, length l = 5%nat -> Forall (fun c => 33 <= c <= 117) l ->
  a85_group l <> Trap.
Proof. intros l L F. unfold a85_group. destruct (a85_fold_bound l 0 F ltac:(lia)) as [v [E _]].
  - rewrite L. vm_compute. discriminate.
  - rewrite E. cbn [bind]. destruct (checked U32 v); discriminate. Qed.
Example a85_group_uuuuu : a85_group [117;117;117;117;117] = Val OErr. Proof. vm_compute. reflexivity. Qed.
Example a85_group_max : a85_group [115;56;87;45;33] = Val (OOk 4294967295). Proof. vm_compute. reflexivity. Qed.
Lemma a85_pinned_trap_refuted_proof : exists l, length l = 5%nat /\ Forall (fun c => 33 <= c <= 117) l /\
  a85_fold_pinned 0 l = Trap.
Proof. exists [117;117;117;117;117]. split; [reflexivity|]. split; [repeat constructor; lia|]. vm_compute. reflexivity. Qed.

(** * 9. octal escape *)
Definition octal_ok (d0 d1 d2 : Z) : bool :=
  negb (is_trap (octal_escape d0 [d1; d2])) && negb (is_trap (octal_escape d0 [d1])) && negb (is_trap (octal_escape d0 [])).
Lemma octal_sweep : forallb (fun a => forallb (fun b => forallb (fun c => octal_ok a b c) (zrange 0 8)) (zrange 0 8)) (zrange 0 8) = true.
Proof. vm_compute. reflexivity. Qed.
Lemma octal_escape_no_trap_proof : forall d0 rest, 0 <= d0 <= 7 -> Forall (fun d => 0 <= d <= 7) rest ->
  octal_escape d0 rest <> Trap.
Proof.
  intros d0 rest H0 Hr. pose proof octal_sweep as S.
  rewrite forallb_forall in S. specialize (S d0 (In_zrange 8 0 d0 ltac:(cbn; lia))).
  assert (K : forall d1 d2, 0 <= d1 <= 7 -> 0 <= d2 <= 7 -> octal_ok d0 d1 d2 = true).
  { intros d1 d2 H1 H2. rewrite forallb_forall in S. specialize (S d1 (In_zrange 8 0 d1 ltac:(cbn; lia))).
    rewrite forallb_forall in S. exact (S d2 (In_zrange 8 0 d2 ltac:(cbn; lia))). }
  destruct rest as [|d1 [|d2 r]].
  - specialize (K 0 0 ltac:(lia) ltac:(lia)). unfold octal_ok in K. rewrite !andb_true_iff, !negb_true_iff in K.
    apply is_trap_false. tauto.
  - inversion Hr; subst. specialize (K d1 0 ltac:(lia) ltac:(lia)). unfold octal_ok in K.
    rewrite !andb_true_iff, !negb_true_iff in K. apply is_trap_false. tauto.
  - inversion Hr as [|? ? A Hr']; subst. inversion Hr' as [|? ? B ?]; subst.
    specialize (K d1 d2 A B). unfold octal_ok in K. rewrite !andb_true_iff, !negb_true_iff in K.
    apply is_trap_false. unfold octal_escape in *. cbn [firstn] in *. tauto.
Qed.
Example octal_777 : octal_escape 7 [7;7] = Val 255. Proof. reflexivity. Qed.
Lemma paren_depth_no_trap_proof : forall n, 0 <= n < 2147483647 -> paren_depth_after n <> Trap.
Proof. intros. unfold paren_depth_after. rewrite add_no_trap by inr. discriminate. Qed.

(** * 10. CMap *)
Lemma cmap_offset_no_trap_proof : forall code start, cmap_offset code start <> Trap.
Proof. intros. unfold cmap_offset. discriminate. Qed.
Lemma sat_id z : 0 <= z <= 18446744073709551615 -> saturating USIZE z = z.
Proof. intro H. unfold saturating. cbn [lo hi USIZE U64]. lia. Qed.
Lemma sat_fold_exact : forall l, (length l <= 7)%nat -> Forall (fun b => 0 <= b <= 255) l ->
  sat_fold l = be_val 0 l.
Proof.
  assert (G : forall l acc, 0 <= acc -> (acc + 1) * 256 ^ Z.of_nat (length l) <= hi USIZE + 1 ->
              Forall (fun b => 0 <= b <= 255) l ->
              fold_left (fun acc b => saturating USIZE (saturating USIZE (acc * 256) + b)) l acc = be_val acc l).
  { induction l as [|b r IH]; intros acc Ha Hb Hl; [reflexivity|]. inversion Hl; subst. cbn [fold_left be_val].
    cbn [length] in Hb. rewrite Nat2Z.inj_succ, Z.pow_succ_r in Hb by lia.
    set (P := 256 ^ Z.of_nat (length r)) in *. assert (0 < P) by (apply Z.pow_pos_nonneg; lia).
    cbn [hi USIZE U64] in Hb.
    assert (acc * 256 + b + 1 <= 18446744073709551616) by nia.
    rewrite (sat_id (acc * 256)) by lia. rewrite (sat_id (acc * 256 + b)) by lia.
    apply IH; auto; try lia. fold P. cbn [hi USIZE U64]. nia. }
  intros l L F. unfold sat_fold. apply G; auto; try lia.
  cbn [hi USIZE U64]. assert (256 ^ Z.of_nat (length l) <= 256 ^ 7) by (apply Z.pow_le_mono_r; lia).
  change (256 ^ 7) with 72057594037927936 in H. lia.
Qed.
Lemma cmap_offset_pinned_trap_refuted_proof : exists code start, length code = length start /\
  Forall (fun b => 0 <= b <= 255) code /\ cmap_offset_pinned code start = Trap.
Proof. exists [1;0;0;0;0;0;0;0;0], [0;0;0;0;0;0;0;0;0]. split; [reflexivity|]. split; [repeat constructor; lia|]. vm_compute. reflexivity. Qed.
Lemma cmap_carry_no_trap_proof : forall byte carry, 0 <= byte <= 255 -> InR USIZE carry -> cmap_carry byte carry <> Trap.
Proof. intros b c Hb Hc. unfold cmap_carry. rewrite add_no_trap by (revert Hc; inr). discriminate. Qed.
Lemma cmap_carry_pinned_trap_refuted_proof : exists byte carry, 0 <= byte <= 255 /\ InR USIZE carry /\
  cmap_carry_pinned byte carry = Trap.
Proof. exists 1, 18446744073709551615. repeat split; try inr. Qed.

(** * 11. PNG decoder sizing *)
Lemma png_sizes_no_trap_proof : forall width height depth channels rawlen,
  InR U32 width -> InR U32 height -> 0 <= depth <= 255 -> 0 <= channels <= 4 -> 0 <= rawlen ->
  png_sizes width height depth channels rawlen <> Trap.
Proof.
  intros w h d c r Hw Hh Hd Hc Hr. unfold png_sizes. revert Hw Hh; inr; intros Hw Hh.
  rewrite mul_no_trap by (inr; nia). cbn [bind]. unfold div_ceil. cbn [Z.eqb bind].
  unfold checked_mul, checked_add.
  destruct (checked USIZE (w * ((d * c + 8 - 1) / 8))) as [x|] eqn:E1; [|discriminate]. apply checked_some in E1 as [-> R1].
  destruct (checked USIZE (w * ((d * c + 8 - 1) / 8) + 1)) as [y|] eqn:E2; [|discriminate]. apply checked_some in E2 as [-> R2].
  destruct (checked USIZE (h * (w * ((d * c + 8 - 1) / 8) + 1))) as [z|] eqn:E3; [|discriminate].
  destruct (r <? z); [discriminate|].
  revert R1 R2; inr; intros R1 R2. unfold sub. rewrite chk_val by inr. discriminate.
Qed.
Lemma png_sizes_pinned_trap_refuted_proof : exists width height depth channels rawlen,
  InR U32 width /\ InR U32 height /\ 0 <= depth <= 255 /\ 0 <= channels <= 4 /\ 0 <= rawlen /\
  png_sizes_pinned width height depth channels rawlen = Trap.
Proof. exists 4294967295, 4294967295, 8, 4, 8. repeat split; try inr. Qed.
Example png_sizes_ok : png_sizes 2 2 8 3 14 = Val (OOk 6). Proof. vm_compute. reflexivity. Qed.
