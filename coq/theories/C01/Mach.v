(** C01 — machine arithmetic of the Rust DEBUG build (overflow checks on), 64-bit target.

    Every Rust integer value is a [Z] inside the range of its type.  An operation returns
    [Val z] (z in range) or [Trap] (the debug build panics: "attempt to add with overflow",
    division by zero, shift amount out of range, slice index out of range).
    [as] casts are two's-complement reinterpretations and never trap; [checked_*] return
    [option]; [saturating_*] clamp; [wrapping_*] reduce. *)
From Coq Require Import ZArith Lia Bool List.
Import ListNotations.
Open Scope Z_scope.

Inductive res (A : Type) : Type := Trap | Val (a : A).
Arguments Trap {A}.
Arguments Val {A} a.

Definition bind {A B} (r : res A) (f : A -> res B) : res B :=
  match r with Trap => Trap | Val a => f a end.
Notation "'do' x <- r ; k" := (bind r (fun x => k)) (at level 200, x name, r at level 100, k at level 200).

Definition is_trap {A} (r : res A) : bool := match r with Trap => true | Val _ => false end.

Lemma bind_val {A B} (r : res A) (f : A -> res B) :
  r <> Trap -> (forall a, r = Val a -> f a <> Trap) -> bind r f <> Trap.
Proof. destruct r; cbn; intros H K; [congruence | now apply K]. Qed.

Lemma is_trap_false {A} (r : res A) : is_trap r = false <-> r <> Trap.
Proof. destruct r; cbn; split; congruence. Qed.

(** * Integer types *)
Record ity := { lo : Z; hi : Z }.
Definition U8 := {| lo := 0; hi := 255 |}.
Definition U16 := {| lo := 0; hi := 65535 |}.
Definition U32 := {| lo := 0; hi := 4294967295 |}.
Definition U64 := {| lo := 0; hi := 18446744073709551615 |}.
Definition USIZE := U64.
Definition I8 := {| lo := -128; hi := 127 |}.
Definition I16 := {| lo := -32768; hi := 32767 |}.
Definition I32 := {| lo := -2147483648; hi := 2147483647 |}.
Definition I64 := {| lo := -9223372036854775808; hi := 9223372036854775807 |}.
Definition ISIZE_MAX := 9223372036854775807.

Definition inr (t : ity) (z : Z) : bool := (lo t <=? z) && (z <=? hi t).
Definition InR (t : ity) (z : Z) : Prop := lo t <= z <= hi t.
Lemma inr_spec t z : inr t z = true <-> InR t z.
Proof. unfold inr, InR. rewrite andb_true_iff, !Z.leb_le. tauto. Qed.

Definition width (t : ity) : Z := hi t - lo t + 1.

(** plain operators of the debug build *)
Definition chk (t : ity) (z : Z) : res Z := if inr t z then Val z else Trap.
Definition add (t : ity) (a b : Z) : res Z := chk t (a + b).
Definition sub (t : ity) (a b : Z) : res Z := chk t (a - b).
Definition mul (t : ity) (a b : Z) : res Z := chk t (a * b).
Definition neg (t : ity) (a : Z) : res Z := chk t (- a).
(** [/] and [%] truncate toward zero; division by zero and MIN / -1 trap *)
Definition div (t : ity) (a b : Z) : res Z := if b =? 0 then Trap else chk t (Z.quot a b).
Definition rem (t : ity) (a b : Z) : res Z :=
  if b =? 0 then Trap else if (b =? -1) && (a =? lo t) && (lo t <? 0) then Trap else Val (Z.rem a b).
Definition bits (t : ity) : Z := Z.log2 (width t).
(** [a << n] traps only when the shift AMOUNT is >= the bit width; bits shifted out are lost *)
Definition wrap (t : ity) (z : Z) : Z := lo t + (z - lo t) mod width t.
Definition shl (t : ity) (a n : Z) : res Z :=
  if (0 <=? n) && (n <? bits t) then Val (wrap t (a * 2 ^ n)) else Trap.
Definition shr (t : ity) (a n : Z) : res Z :=
  if (0 <=? n) && (n <? bits t) then Val (a / 2 ^ n) else Trap.

(** [x as T]: two's-complement reinterpretation, never traps *)
Definition cast (t : ity) (z : Z) : Z := wrap t z.

(** checked / saturating / wrapping families *)
Definition checked (t : ity) (z : Z) : option Z := if inr t z then Some z else None.
Definition checked_add t a b := checked t (a + b).
Definition checked_sub t a b := checked t (a - b).
Definition checked_mul t a b := checked t (a * b).
Definition saturating (t : ity) (z : Z) : Z := Z.max (lo t) (Z.min (hi t) z).
Definition saturating_sub t a b := saturating t (a - b).
Definition saturating_add t a b := saturating t (a + b).
Definition wrapping_add t a b := wrap t (a + b).
Definition div_ceil (a b : Z) : res Z := if b =? 0 then Trap else Val ((a + b - 1) / b).

(** slice indexing [v[i]] and [&v[a..b]] on a slice of length [len] *)
Definition index (len i : Z) : res Z := if (0 <=? i) && (i <? len) then Val i else Trap.
Definition slice (len a b : Z) : res Z := if (a <=? b) && (b <=? len) && (0 <=? a) then Val (b - a) else Trap.

(** * Basic lemmas *)
Lemma chk_val t z : InR t z -> chk t z = Val z.
Proof. intro H. unfold chk. apply inr_spec in H. now rewrite H. Qed.
Lemma chk_trap t z : chk t z = Trap <-> ~ InR t z.
Proof. unfold chk. destruct (inr t z) eqn:E.
  - apply inr_spec in E. split; [discriminate | tauto].
  - split; auto. intros _ H. apply inr_spec in H. congruence. Qed.
Lemma chk_inv t z v : chk t z = Val v -> v = z /\ InR t z.
Proof. unfold chk. destruct (inr t z) eqn:E; [|discriminate]. intro H; inversion H; subst. split; [reflexivity|]. now apply inr_spec. Qed.

Lemma add_no_trap t a b : InR t (a + b) -> add t a b = Val (a + b).
Proof. apply chk_val. Qed.
Lemma sub_no_trap t a b : InR t (a - b) -> sub t a b = Val (a - b).
Proof. apply chk_val. Qed.
Lemma mul_no_trap t a b : InR t (a * b) -> mul t a b = Val (a * b).
Proof. apply chk_val. Qed.
Lemma add_trap_iff t a b : add t a b = Trap <-> ~ InR t (a + b).
Proof. apply chk_trap. Qed.
Lemma mul_trap_iff t a b : mul t a b = Trap <-> ~ InR t (a * b).
Proof. apply chk_trap. Qed.

Lemma checked_some t z v : checked t z = Some v -> v = z /\ InR t z.
Proof. unfold checked. destruct (inr t z) eqn:E; [|discriminate]. intro H; inversion H; subst. split; [reflexivity|]. now apply inr_spec. Qed.
Lemma checked_none t z : checked t z = None <-> ~ InR t z.
Proof. unfold checked. destruct (inr t z) eqn:E.
  - apply inr_spec in E. split; [discriminate | tauto].
  - split; auto. intros _ H. apply inr_spec in H. congruence. Qed.

Lemma width_pos t : lo t <= hi t -> 0 < width t.
Proof. unfold width. lia. Qed.
Lemma wrap_range t z : lo t <= hi t -> InR t (wrap t z).
Proof. intro H. unfold wrap, InR. pose proof (Z.mod_pos_bound (z - lo t) (width t) (width_pos t H)). unfold width in *. lia. Qed.
Lemma wrap_id t z : InR t z -> wrap t z = z.
Proof. unfold wrap, InR, width. intro H. rewrite Z.mod_small; lia. Qed.
Lemma cast_range t z : lo t <= hi t -> InR t (cast t z).
Proof. apply wrap_range. Qed.
Lemma cast_id t z : InR t z -> cast t z = z.
Proof. apply wrap_id. Qed.
Lemma saturating_range t z : lo t <= hi t -> InR t (saturating t z).
Proof. unfold saturating, InR. lia. Qed.

(** the concrete casts the reader performs, as computations (sanity of [cast]) *)
Example cast_m1_usize : cast USIZE (-1) = 18446744073709551615. Proof. reflexivity. Qed.
Example cast_m1_u32 : cast U32 (-1) = 4294967295. Proof. reflexivity. Qed.
Example cast_i64min_u32 : cast U32 (-9223372036854775808) = 0. Proof. reflexivity. Qed.
Example cast_2p32p1_u32 : cast U32 4294967297 = 1. Proof. reflexivity. Qed.
Example cast_u8_i8 : cast I8 200 = -56. Proof. reflexivity. Qed.
Example cast_u8_i8_128 : cast I8 128 = -128. Proof. reflexivity. Qed.
Example cast_u64max_i64 : cast I64 18446744073709551615 = -1. Proof. reflexivity. Qed.
Example bits_u8 : bits U8 = 8. Proof. reflexivity. Qed.
Example bits_u32 : bits U32 = 32. Proof. reflexivity. Qed.
Example bits_u64 : bits U64 = 64. Proof. reflexivity. Qed.
Example bits_i64 : bits I64 = 64. Proof. reflexivity. Qed.
Example add_u32_trap : add U32 4294967295 1 = Trap. Proof. reflexivity. Qed.
Example shl_u64_lossy : shl U64 18446744073709551615 8 = Val 18446744073709551360. Proof. reflexivity. Qed.
Example shl_u32_trap : shl U32 1 32 = Trap. Proof. reflexivity. Qed.
Example neg_i8_min : neg I8 (-128) = Trap. Proof. reflexivity. Qed.

(** big-endian fold [acc * 256 + b] used by several readers *)
Fixpoint fold_be (t : ity) (acc : Z) (l : list Z) : res Z :=
  match l with
  | [] => Val acc
  | b :: r => do m <- mul t acc 256; do s <- add t m b; fold_be t s r
  end.
Fixpoint be_val (acc : Z) (l : list Z) : Z :=
  match l with [] => acc | b :: r => be_val (acc * 256 + b) r end.

Lemma be_val_bound : forall l acc, 0 <= acc -> Forall (fun b => 0 <= b <= 255) l ->
  acc * 256 ^ Z.of_nat (length l) <= be_val acc l < (acc + 1) * 256 ^ Z.of_nat (length l).
Proof.
  induction l as [|b r IH]; intros acc Ha Hl.
  - cbn [length be_val]. change (Z.of_nat 0) with 0. rewrite Z.pow_0_r. lia.
  - inversion Hl as [|? ? Hb Hr]; subst. cbn [be_val length].
    rewrite Nat2Z.inj_succ, Z.pow_succ_r by lia.
    specialize (IH (acc * 256 + b) ltac:(lia) Hr).
    set (P := 256 ^ Z.of_nat (length r)) in *.
    assert (0 < P) by (apply Z.pow_pos_nonneg; lia).
    nia.
Qed.

Lemma fold_be_small : forall l acc, 0 <= acc -> Forall (fun b => 0 <= b <= 255) l ->
  (acc + 1) * 256 ^ Z.of_nat (length l) <= hi U64 + 1 ->
  fold_be U64 acc l = Val (be_val acc l).
Proof.
  induction l as [|b r IH]; intros acc Ha Hl Hb; [reflexivity|].
  inversion Hl as [|? ? Hb0 Hr]; subst. cbn [fold_be be_val].
  cbn [length] in Hb. rewrite Nat2Z.inj_succ, Z.pow_succ_r in Hb by lia.
  set (P := 256 ^ Z.of_nat (length r)) in *.
  assert (0 < P) by (apply Z.pow_pos_nonneg; lia).
  assert (acc * 256 + b + 1 <= hi U64 + 1) by nia.
  unfold mul. rewrite chk_val by (unfold InR; cbn in *; lia). cbn [bind].
  unfold add. rewrite chk_val by (unfold InR; cbn in *; lia). cbn [bind].
  apply IH; try assumption; try lia. fold P. nia.
Qed.
