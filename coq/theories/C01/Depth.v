(** C01 — recursion that is a real call in Rust carries a ghost DEPTH counter; loops carry fuel.

    * [Lexer::next_token]: skipped bytes ([;], unexpected bytes in lenient modes, badly encoded
      bytes) — pinned: one self-call per skipped byte; fixed: a loop.
    * [PdfObject::parse]: descends into [[ ]] / [<< >>] — pinned: unbounded; fixed: the
      [enter_container] guard (MAX_NESTING_DEPTH = 256); comment runs looped instead of recursed.
    * [ContentTokenizer::next_token] (content.rs, NOT fixed by this package): same shape as the
      pinned lexer — refuted, known finding.
    * [/Prev] chain (xref.rs parse_with_incremental_updates_options): a loop with a visited set. *)
From Coq Require Import ZArith Lia Bool List Arith.
Import ListNotations.

(** * Lexer skip runs *)
Inductive ch := Skip | Tok.     (* a byte that is skipped / a byte that starts a token *)

(** pinned: [b';' => { consume; self.next_token() }] — returns (found a token?, max ghost depth) *)
Fixpoint lex_pinned (d : nat) (l : list ch) : bool * nat :=
  match l with
  | [] => (false, d)
  | Tok :: _ => (true, d)
  | Skip :: r => lex_pinned (S d) r
  end.
(** fixed: [loop { if let Some(t) = self.next_token_step()? { return Ok(t) } }]: the step is called
    at depth d+1 and RETURNS before the next iteration; fuel = input length *)
Fixpoint lex_loop (d : nat) (l : list ch) : bool * nat :=
  match l with
  | [] => (false, S d)
  | Tok :: _ => (true, S d)
  | Skip :: r => let '(b, m) := lex_loop d r in (b, Nat.max (S d) m)
  end.

Lemma lex_loop_depth_proof : forall l d, snd (lex_loop d l) = S d.
Proof. induction l as [|c r IH]; intro d; [reflexivity|]. destruct c; cbn [lex_loop].
  - specialize (IH d). destruct (lex_loop d r) as [b m]. cbn [snd] in *. subst. apply Nat.max_id.
  - reflexivity. Qed.
Lemma lex_pinned_fst_indep : forall l d d', fst (lex_pinned d l) = fst (lex_pinned d' l).
Proof. induction l as [|c r IH]; intros d d'; [reflexivity|]. destruct c; cbn [lex_pinned]; [apply IH|reflexivity]. Qed.
Lemma lex_same_answer : forall l d, fst (lex_loop d l) = fst (lex_pinned d l).
Proof. induction l as [|c r IH]; intro d; [reflexivity|]. destruct c; cbn [lex_loop lex_pinned]; [|reflexivity].
  specialize (IH d). destruct (lex_loop d r) as [b m]. cbn [fst] in *. rewrite IH. apply lex_pinned_fst_indep. Qed.
Lemma lex_pinned_depth : forall l d, snd (lex_pinned d (repeat Skip l)) = (d + l)%nat.
Proof. induction l as [|k IH]; intro d; cbn [repeat lex_pinned snd]; [lia|]. rewrite IH. lia. Qed.
(** depth unbounded: for every bound K there is an input of length K+1 exceeding it *)
Lemma lex_pinned_depth_refuted_proof : forall K, exists l, length l = S K /\ (snd (lex_pinned 0 l) > K)%nat.
Proof. intro K. exists (repeat Skip (S K)). split; [apply repeat_length|]. rewrite lex_pinned_depth. lia. Qed.

(** guarded positive statement for the self-calling shape: the depth is exactly the length of
    the leading run of skipped bytes — bounded whenever the runs are *)
Fixpoint lead (l : list ch) : nat := match l with Skip :: r => S (lead r) | _ => 0 end.
Lemma lex_pinned_depth_is_lead : forall l d, snd (lex_pinned d l) = d + lead l.
Proof. induction l as [|c r IH]; intro d; cbn [lex_pinned lead snd]; [lia|]. destruct c; cbn [snd]; [rewrite IH|]; lia. Qed.
Lemma lex_pinned_guarded_proof : forall l K, lead l <= K -> snd (lex_pinned 0 l) <= K.
Proof. intros. rewrite lex_pinned_depth_is_lead. lia. Qed.
Example lex_pinned_guarded_nontrivial : lead [Skip; Skip; Tok; Skip] = 2 /\ snd (lex_pinned 0 [Skip; Skip; Tok; Skip]) = 2.
Proof. split; reflexivity. Qed.

(** * Object nesting *)
Inductive tok := TOpen | TClose | TAtom | TComment.

Inductive pres := PErr | POk (rest : list tok) | PFuel.

(** [guard = Some k]: [enter_container] fails when [k] containers are already open.
    [seq = false]: parse ONE value ([parse_from_token_with_options]);
    [seq = true]: inside a container, parse values until the closing token.
    [d] = ghost depth = number of container frames currently on the stack.
    Returns (result, maximum ghost depth reached). *)
Fixpoint parse (fuel : nat) (guard : option nat) (seq : bool) (d : nat) (ts : list tok) : pres * nat :=
  match fuel with O => (PFuel, d) | S f =>
  if seq then
    match ts with
    | [] => (PErr, d)
    | TClose :: r => (POk r, d)
    | TComment :: r => parse f guard true d r
    | _ => match parse f guard false d ts with
           | (POk rest, m) => let '(x, m') := parse f guard true d rest in (x, Nat.max m m')
           | e => e
           end
    end
  else
    match ts with
    | [] => (PErr, d)
    | TAtom :: r => (POk r, d)
    | TClose :: _ => (PErr, d)
    | TComment :: r => parse f guard false d r            (* fixed: a loop, no frame per comment *)
    | TOpen :: r =>
        match guard with
        | Some k => if k <=? d then (PErr, d) else parse f guard true (S d) r
        | None => parse f guard true (S d) r
        end
    end
  end.

Definition MAX_NEST : nat := 256.

Lemma parse_depth_guarded : forall fuel k seq d ts, d <= k -> snd (parse fuel (Some k) seq d ts) <= k.
Proof.
  induction fuel as [|f IH]; intros k seq d ts H; [cbn; lia|].
  cbn [parse]. destruct seq.
  - destruct ts as [|t r]; [cbn; lia|]. destruct t.
    + pose proof (IH k false d (TOpen :: r) H) as A. destruct (parse f (Some k) false d (TOpen :: r)) as [x m].
      destruct x; cbn [snd] in *; try lia.
      pose proof (IH k true d rest H) as B. destruct (parse f (Some k) true d rest) as [y m']. cbn [snd] in *. lia.
    + cbn; lia.
    + pose proof (IH k false d (TAtom :: r) H) as A. destruct (parse f (Some k) false d (TAtom :: r)) as [x m].
      destruct x; cbn [snd] in *; try lia.
      pose proof (IH k true d rest H) as B. destruct (parse f (Some k) true d rest) as [y m']. cbn [snd] in *. lia.
    + apply IH; auto.
  - destruct ts as [|t r]; [cbn; lia|]. destruct t; try (cbn; lia).
    + destruct (k <=? d) eqn:E; [cbn; lia|]. apply Nat.leb_gt in E. apply IH. lia.
    + apply IH; auto.
Qed.
Lemma objparse_depth_bounded_proof : forall fuel ts, snd (parse fuel (Some MAX_NEST) false 0 ts) <= MAX_NEST.
Proof. intros. apply parse_depth_guarded. lia. Qed.

(** the guard rejects exactly the inputs nested deeper than MAX_NEST (on bracket towers) *)
Definition tower (n : nat) : list tok := repeat TOpen n ++ TAtom :: repeat TClose n.
Example tower_256_ok : fst (parse 2000 (Some MAX_NEST) false 0 (tower 256)) = POk []. Proof. vm_compute. reflexivity. Qed.
Example tower_257_err : fst (parse 2000 (Some MAX_NEST) false 0 (tower 257)) = PErr. Proof. vm_compute. reflexivity. Qed.
Example tower_3_depth : parse 100 (Some MAX_NEST) false 0 (tower 3) = (POk [], 3). Proof. vm_compute. reflexivity. Qed.

(** pinned (no guard): depth unbounded — computed witnesses at the sizes run against the real code *)
Lemma objparse_depth_pinned_refuted_proof : exists ts, length ts = 2001 /\ snd (parse 5000 None false 0 ts) > 1000.
Proof. exists (repeat TOpen 2001). split; [apply repeat_length|]. vm_compute. lia. Qed.

(** * /Prev chain with a visited set *)
(** [next off] abstracts "seek to off, parse the section there": [None] = parse error (the whole
    open fails, the loop ends), [Some None] = no /Prev, [Some (Some p)] = /Prev p.
    A section can only parse at an offset inside the file: [next off <> None -> off < len]. *)
Inductive chain_res := CDone (steps : nat) | CErr (steps : nat) | CFuel.

Fixpoint prev_loop (next : nat -> option (option nat)) (fuel : nat) (visited : list nat) (cur : nat) : chain_res :=
  match fuel with O => CFuel | S f =>
  if existsb (Nat.eqb cur) visited then CDone (length visited)        (* circular: break *)
  else match next cur with
       | None => CErr (length visited)
       | Some None => CDone (S (length visited))
       | Some (Some p) => prev_loop next f (cur :: visited) p
       end
  end.

(** pigeonhole: a duplicate-free list of numbers below [n] has at most [n] elements *)
Lemma nodup_bound : forall (l : list nat) n, NoDup l -> (forall x, In x l -> x < n) -> length l <= n.
Proof.
  intros l n ND B. assert (incl l (seq 0 n)) as I.
  { intros x Hx. apply in_seq. specialize (B x Hx). lia. }
  pose proof (NoDup_incl_length ND I) as L. rewrite seq_length in L. exact L.
Qed.

Lemma prev_loop_terminates : forall next len fuel visited cur,
  (forall off, next off <> None -> off < len) ->
  NoDup visited -> (forall x, In x visited -> x < len) ->
  len < fuel + length visited ->
  prev_loop next fuel visited cur <> CFuel.
Proof.
  intros next len. induction fuel as [|f IH]; intros visited cur Hn ND B F.
  - pose proof (nodup_bound visited len ND B). lia.
  - cbn [prev_loop]. destruct (existsb (Nat.eqb cur) visited) eqn:E; [discriminate|].
    destruct (next cur) as [[p|]|] eqn:N; try discriminate.
    assert (cur < len) by (apply Hn; congruence).
    assert (~ In cur visited).
    { intro I. assert (existsb (Nat.eqb cur) visited = true) by (apply existsb_exists; exists cur; split; [exact I|apply Nat.eqb_refl]). congruence. }
    apply IH; auto.
    + constructor; auto.
    + intros x [<-|I]; auto.
    + cbn [length]. lia.
Qed.
Lemma prev_chain_terminates_proof : forall next len start,
  (forall off, next off <> None -> off < len) -> prev_loop next (S len) [] start <> CFuel.
Proof. intros next len start H. apply (prev_loop_terminates next len).
  - exact H.
  - apply NoDup_nil.
  - intros x I. destruct I.
  - cbn. lia.
Qed.

(** without the visited set (the mutation) a self-referencing /Prev never ends: fuel runs out for every fuel *)
Fixpoint prev_loop_novisit (next : nat -> option (option nat)) (fuel : nat) (steps : nat) (cur : nat) : chain_res :=
  match fuel with O => CFuel | S f =>
  match next cur with
  | None => CErr steps
  | Some None => CDone (S steps)
  | Some (Some p) => prev_loop_novisit next f (S steps) p
  end end.
Lemma prev_novisit_refuted_proof : exists next, (forall off, next off <> None -> off < 10) /\
  forall fuel, prev_loop_novisit next fuel 0 5 = CFuel.
Proof.
  exists (fun off => if Nat.eqb off 5 then Some (Some 5) else None). split.
  - intros off H. destruct (Nat.eqb off 5) eqn:E; [apply Nat.eqb_eq in E; lia|congruence].
  - assert (G : forall fuel s, prev_loop_novisit (fun off => if Nat.eqb off 5 then Some (Some 5) else None) fuel s 5 = CFuel).
    { induction fuel as [|f IH]; intro s; [reflexivity|]. cbn [prev_loop_novisit Nat.eqb]. apply IH. }
    intro fuel. apply G.
Qed.
Example prev_self_loop_ends : prev_loop (fun off => if Nat.eqb off 5 then Some (Some 5) else None) 11 [] 5 = CDone 1.
Proof. reflexivity. Qed.
