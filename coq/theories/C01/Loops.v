(** C01 — three more kernels of the reader's control logic (added after two seeded defects were
    missed by the worker inputs):

    * object-stream CONTAINER resolution (reader.rs get_object / load_object_from_disk /
      get_compressed_object): a real recursion, guarded by the being-loaded set and
      [max_reconstruction_depth]; ghost depth counter, any container map (cycles included);
    * classic xref ENTRY LOOP (xref.rs parse_traditional_xref_with_options, [while i < count]):
      every iteration consumes a line or stops, so [lines + 1] iterations always suffice whatever
      [count] claims;
    * bounded WINDOW read (xref.rs read_window_at, used with a /Length taken from the file by
      reader.rs reconstruct_stream_object_bounded): the buffer requested before reading. *)
From Coq Require Import ZArith Lia Bool List Arith.
Import ListNotations.

(** * Container resolution *)
(** [cont n = Some s]: the cross-reference stream says object [n] is compressed inside object
    stream [s] (type-2 entry); [None]: a plain on-disk (or free / missing) object. *)
Definition MAX_LOAD_DEPTH : nat := 100.      (* max_reconstruction_depth *)

Inductive lres := LVal | LNull | LErr | LFuel.

(** [get_object n] with the being-loaded set [B]; [d] = ghost depth (frames of get_object);
    returns (result, maximum ghost depth reached).
    Cache hits are not modelled: they only shorten the recursion. *)
Fixpoint get_object (cont : nat -> option nat) (fuel : nat) (B : list nat) (d : nat) (n : nat) : lres * nat :=
  match fuel with O => (LFuel, d) | S f =>
  if existsb (Nat.eqb n) B then (LNull, d)                       (* PROTECTION 1: circular -> Null *)
  else if MAX_LOAD_DEPTH <=? length B then (LErr, d)             (* PROTECTION 2: depth limit *)
  else match cont n with                                          (* load_object_from_disk, n marked *)
       | None => (LVal, d)
       | Some s =>                                                (* get_compressed_object: get_object(s, 0) *)
           match get_object cont f (n :: B) (S d) s with
           | (LVal, m) => (LVal, m)                               (* then ObjectStream::parse, member lookup *)
           | (LNull, m) => (LErr, m)                              (* "Object s is not a stream" *)
           | r => r
           end
       end
  end.

(** the shape of the seeded defect: the container is loaded by [load_object_from_disk] directly
    (no being-loaded set, no depth limit), only the direct self-reference is rejected *)
Fixpoint load_unguarded (cont : nat -> option nat) (fuel : nat) (d : nat) (n : nat) : lres * nat :=
  match fuel with O => (LFuel, d) | S f =>
  match cont n with
  | None => (LVal, d)
  | Some s => if Nat.eqb s n then (LErr, d) else load_unguarded cont f (S d) s
  end end.

Lemma get_object_depth : forall cont fuel B d n,
  snd (get_object cont fuel B d n) <= d + (S MAX_LOAD_DEPTH - length B).
Proof.
  intros cont. induction fuel as [|f IH]; intros B d n; [cbn; lia|].
  cbn [get_object]. destruct (existsb (Nat.eqb n) B); [cbn; lia|].
  destruct (MAX_LOAD_DEPTH <=? length B) eqn:E; [cbn; lia|]. apply Nat.leb_gt in E.
  destruct (cont n) as [s|]; [|cbn; lia].
  specialize (IH (n :: B) (S d) s). destruct (get_object cont f (n :: B) (S d) s) as [r m].
  cbn [snd length] in *. destruct r; cbn [snd]; lia.
Qed.
Lemma container_depth_bounded_proof : forall cont fuel n,
  snd (get_object cont fuel [] 0 n) <= S MAX_LOAD_DEPTH.
Proof. intros. pose proof (get_object_depth cont fuel [] 0 n). cbn [length] in H. lia. Qed.

Lemma get_object_fuel : forall cont fuel B d n,
  S MAX_LOAD_DEPTH - length B < fuel -> fst (get_object cont fuel B d n) <> LFuel.
Proof.
  intros cont. induction fuel as [|f IH]; intros B d n H; [lia|].
  cbn [get_object]. destruct (existsb (Nat.eqb n) B); [cbn; discriminate|].
  destruct (MAX_LOAD_DEPTH <=? length B) eqn:E; [cbn; discriminate|]. apply Nat.leb_gt in E.
  destruct (cont n) as [s|]; [|cbn; discriminate].
  specialize (IH (n :: B) (S d) s). cbn [length] in IH.
  assert (S MAX_LOAD_DEPTH - S (length B) < f) by lia. specialize (IH H0).
  destruct (get_object cont f (n :: B) (S d) s) as [r m]. cbn [fst] in *. destruct r; cbn [fst]; congruence.
Qed.
Lemma container_resolution_terminates_proof : forall cont n,
  fst (get_object cont (MAX_LOAD_DEPTH + 2) [] 0 n) <> LFuel.
Proof. intros. apply get_object_fuel. cbn [length]. lia. Qed.

(** a 2-cycle: object 2 lives in stream 3, object 3 lives in stream 2 *)
Definition cyc2 (n : nat) : option nat := match n with 2 => Some 3 | 3 => Some 2 | _ => None end.
Example cyc2_guarded : get_object cyc2 200 [] 0 2 = (LErr, 2). Proof. vm_compute. reflexivity. Qed.
Example self_guarded : get_object (fun n => if Nat.eqb n 7 then Some 7 else None) 200 [] 0 7 = (LErr, 1).
Proof. vm_compute. reflexivity. Qed.
Example chain_ok : get_object (fun n => match n with 2 => Some 7 | _ => None end) 200 [] 0 2 = (LVal, 1).
Proof. vm_compute. reflexivity. Qed.

Lemma load_unguarded_cyc2 : forall fuel d n, (n = 2 \/ n = 3) -> load_unguarded cyc2 fuel d n = (LFuel, d + fuel).
Proof. induction fuel as [|f IH]; intros d n H; cbn [load_unguarded]; [f_equal; lia|].
  destruct H as [-> | ->]; cbn [cyc2 Nat.eqb]; rewrite IH by auto; f_equal; lia. Qed.
(** unguarded: on a container cycle of length 2 the recursion never ends and its depth exceeds
    every bound (the direct self-reference check does not help) *)
Lemma container_unguarded_refuted_proof : exists cont n, forall fuel,
  load_unguarded cont fuel 0 n = (LFuel, fuel).
Proof. exists cyc2, 2. intro fuel. rewrite load_unguarded_cyc2 by auto. reflexivity. Qed.

(** * Classic xref entry loop *)
Inductive line := LComment | LBlank | LTrailer | LEntry | LOther.

Inductive eres := EDone (i : nat) | EFuel.

(** [blank_first = false]: the current code — comments are skipped ([continue], the line is
    consumed), then EOF or a bare [trailer] line ends the loop, everything else (entry, blank,
    garbage) advances [i].  [blank_first = true]: the seeded defect — blank lines are skipped
    too, ABOVE the EOF test; at end of input the line read is empty. *)
Fixpoint entry_loop (blank_first : bool) (fuel : nat) (lines : list line) (i count : nat) : eres :=
  if count <=? i then EDone i else
  match fuel with O => EFuel | S f =>
  match lines with
  | [] => if blank_first then entry_loop blank_first f [] i count      (* EOF: empty line, 0 bytes *)
          else EDone i                                                 (* bytes_read == 0: break *)
  | LComment :: r => entry_loop blank_first f r i count
  | LBlank :: r => if blank_first then entry_loop blank_first f r i count
                   else entry_loop blank_first f r (S i) count
  | LTrailer :: _ => EDone i
  | LEntry :: r | LOther :: r => entry_loop blank_first f r (S i) count
  end end.

Lemma entry_loop_terminates_aux : forall fuel lines i count,
  length lines < fuel -> entry_loop false fuel lines i count <> EFuel.
Proof.
  induction fuel as [|f IH]; intros lines i count H; [lia|].
  cbn [entry_loop]. destruct (count <=? i); [discriminate|].
  destruct lines as [|l r]; [discriminate|]. cbn [length] in H.
  destruct l; try discriminate; apply IH; lia.
Qed.
Lemma entry_loop_terminates_proof : forall lines i count,
  entry_loop false (S (length lines)) lines i count <> EFuel.
Proof. intros. apply entry_loop_terminates_aux. lia. Qed.
(** the number of entries accepted is bounded by the lines present, not by [count] *)
Lemma entry_loop_result_bounded_proof : forall fuel lines i count k,
  entry_loop false fuel lines i count = EDone k -> k <= i + length lines.
Proof.
  induction fuel as [|f IH]; intros lines i count k; cbn [entry_loop].
  - destruct (count <=? i); [|discriminate]. intro H; inversion H; lia.
  - destruct (count <=? i); [intro H; inversion H; lia|].
    destruct lines as [|l r]; [intro H; inversion H; cbn; lia|]. cbn [length].
    destruct l; intro H; try (apply IH in H; lia). inversion H; lia.
Qed.
Example entry_loop_count_exceeds : entry_loop false 10 [LEntry; LEntry; LOther; LComment] 0 1000 = EDone 3.
Proof. vm_compute. reflexivity. Qed.
Lemma entry_loop_blank_first_refuted_proof : forall fuel, entry_loop true fuel [] 0 1 = EFuel.
Proof. induction fuel as [|f IH]; [reflexivity|]. cbn [entry_loop Nat.leb]. exact IH. Qed.

(** * Window read with a length taken from the file *)
Open Scope Z_scope.
(** pinned: [vec![0u8; max]] with [max] = /Length: [max] bytes reserved before reading *)
Definition window_request_pinned (len : Z) : Z := len.
Definition WINDOW_CHUNK := 65536.
(** fixed: [Vec::with_capacity(max.min(64 KiB))], then [take(max).read_to_end]: the buffer grows
    only with the bytes that arrive *)
Definition window_request (len : Z) : Z := Z.min len WINDOW_CHUNK.
Definition window_result (len remaining : Z) : Z := Z.min len remaining.
Lemma window_request_bounded_proof : forall len, window_request len <= WINDOW_CHUNK.
Proof. intros. unfold window_request. lia. Qed.
Lemma window_result_bounded_proof : forall len remaining, window_result len remaining <= remaining.
Proof. intros. unfold window_result. lia. Qed.
Lemma window_result_same_bytes_proof : forall len remaining, 0 <= len <= remaining ->
  window_result len remaining = len.
Proof. intros. unfold window_result. lia. Qed.
Lemma window_request_pinned_refuted_proof : exists len remaining, 0 <= remaining /\
  window_request_pinned len > remaining + WINDOW_CHUNK.
Proof. exists 1099511627776, 600. unfold window_request_pinned, WINDOW_CHUNK. lia. Qed.
