(** C01 — the case judge of the correspondence run.  Every case is one worker-process run:
    the kernel the input was aimed at, the integers spliced into its slots, the preset, and the
    observed outcome.  The SAME kernel definitions the theorems speak about are evaluated on the
    spliced integers: code bit 1 = the implementation panicked where the model says no trap
    (or did not where the model says trap / returned Ok where the model says Err ...);
    bit 2 = the property itself is violated (panic, abort, signal, time-out, out of memory). *)
From OxVerif Require Import Base.Util C01.Mach C01.Kernels C01.Depth C01.Loops.
From OxVerif Require C16.Model.
Open Scope Z_scope.

Inductive kernel :=
  KNone | KXrefSub | KSize | KPrev | KXrefStm | KXrefStmP | KObjStm | KLength | KPredictor
| KRotate | KPageLabel | KOctal | KNest | KNestP | KNestOpen | KLexRun | KContentRun | KContentNest
| KPrevChain | KCMap | KPng | KFilter | KStrSlice | KContainer | KEntryLoop | KWindow.
Inductive preset := PStrict | PDefault | PTolerant | PLenient | PSkip.
Inductive obs := OOk | OErr | OPanic | OCrash.
Record case := mkCase { ck : kernel; cargs : list Z; cp : preset; cobs : obs }.

(** what the model says about a case *)
Inductive pred :=
  MTrap        (* the debug build panics *)
| MNoTrap      (* no arithmetic trap; Ok/Err not predicted (the kernel may not even be reached) *)
| MErrP        (* precisely: an ordinary error *)
| MOkP         (* precisely: success *)
| MOkOrErr     (* no trap, and not a crash *)
| MDeep        (* recursion depth not bounded by the model: nothing predicted (known finding) *)
| MBroken.     (* the model itself ran out of fuel: reported as a model difference *)

Definition of_res (r : res Kernels.out) : pred :=
  match r with Trap => MTrap | Val Kernels.OFuel => MBroken | Val _ => MNoTrap end.
Definition of_res_precise (r : res Kernels.out) : pred :=
  match r with Trap => MTrap | Val Kernels.OFuel => MBroken | Val Kernels.OErr => MErrP | Val (Kernels.OOk _) => MOkOrErr end.
Definition of_resz (r : res Z) : pred := match r with Trap => MTrap | Val _ => MNoTrap end.

Definition u32ok (z : Z) := inr U32 z.
Definition nth0 (l : list Z) (i : nat) : Z := nth i l 0.

Definition octal_digits (z : Z) : Z * list Z := ((z / 64) mod 8, [(z / 8) mod 8; z mod 8]).

Definition nest_pred (n : Z) : pred :=
  if n <=? 3000 then
    match fst (parse (Z.to_nat (2 * n + 10)) (Some MAX_NEST) false 0 (tower (Z.to_nat n))) with
    | POk _ => MOkP | PErr => MErrP | PFuel => MBroken end
  else if n <=? Z.of_nat MAX_NEST then MOkP else MErrP.

(** a container chain of [l] nodes 0..l-1; the last one points back so that the cycle has
    [c] nodes ([c = 0]: the last one is a plain object) *)
Definition chain_cont (l c : nat) (n : nat) : option nat :=
  if (S n <? l)%nat then Some (S n)
  else if (n =? l - 1)%nat then (if (c =? 0)%nat then None else Some (l - c)%nat) else None.
Definition container_pred (l c : Z) : pred :=
  match get_object (chain_cont (Z.to_nat l) (Z.to_nat c)) (MAX_LOAD_DEPTH + 2) [] 0 0 with
  | (LFuel, _) => MBroken
  | (_, m) => if (m <=? S MAX_LOAD_DEPTH)%nat then MNoTrap else MBroken
  end.
Definition entry_loop_pred (nent count ntail : Z) : pred :=
  let lines := repeat LEntry (Z.to_nat nent) ++ repeat LOther (Z.to_nat (Z.min ntail 200)) in
  match entry_loop false (S (length lines)) lines 0 (Z.to_nat (Z.min count 100000)) with
  | EFuel => MBroken | EDone _ => MNoTrap end.

Definition predict (k : kernel) (a : list Z) : pred :=
  match k with
  | KNone | KSize | KPrev | KFilter | KNest | KPrevChain => MNoTrap
  | KXrefSub =>
      let first := nth0 a 0 in let count := nth0 a 1 in
      if u32ok first && u32ok count
      then match of_res (xref_sub (Z.to_nat (nth0 a 2)) first count 0) with
           | MTrap => MTrap
           | p => match xref_max_plus_1 (Z.min 4294967295 (first + count)) with Trap => MTrap | Val _ => p end
           end
      else MNoTrap                         (* parse::<u32>() fails: Err(InvalidXRef) *)
  | KXrefStm => of_res (xs_entries (nth0 a 0) (nth0 a 1) (nth0 a 2) (nth0 a 3) (nth0 a 4) (nth0 a 6))
  | KXrefStmP => of_res_precise (xs_entries (nth0 a 0) (nth0 a 1) (nth0 a 2) (nth0 a 3) (nth0 a 4) (nth0 a 6))
  | KObjStm => of_resz (objstm_abs (nth0 a 1) (nth0 a 2))
  | KLength =>
      match length_to_usize (nth0 a 0) with
      | None => MNoTrap
      | Some n => if read_bytes_request n <=? READ_CHUNK then MNoTrap else MTrap
      end
  | KPredictor => of_res (predictor_rows (nth0 a 0) (nth0 a 1) (nth0 a 2) (nth0 a 3))
  | KRotate => match C16.Model.rot_combine (nth0 a 0) (nth0 a 1) with Some _ => MNoTrap | None => MTrap end
  | KPageLabel => of_resz (add U64 (cast U32 (nth0 a 0)) (nth0 a 1))
  | KOctal => let '(d0, r) := octal_digits (nth0 a 0) in of_resz (octal_escape d0 r)
  | KNestP => nest_pred (nth0 a 0)
  | KNestOpen => MErrP
  | KLexRun => if (snd (lex_loop 0 (repeat Skip (Z.to_nat (Z.min (nth0 a 0) 2000)))) =? 1)%nat then MNoTrap else MBroken
  | KContentRun | KContentNest => MDeep
  | KCMap => match cmap_carry (nth0 a 3) (saturating_sub USIZE (Z.min (nth0 a 1) (hi USIZE)) (nth0 a 2)) with
             | Trap => MTrap | Val _ => MNoTrap end
  | KPng => match png_sizes (nth0 a 0) (nth0 a 1) (nth0 a 2) (nth0 a 3) (nth0 a 4) with
            | Trap => MTrap | Val Kernels.OErr => MErrP | Val _ => MNoTrap end
  | KStrSlice => MNoTrap
  | KContainer => container_pred (nth0 a 0) (nth0 a 1)
  | KEntryLoop => entry_loop_pred (nth0 a 0) (nth0 a 1) (nth0 a 2)
  | KWindow => if window_request (nth0 a 0) <=? WINDOW_CHUNK then MNoTrap else MTrap
  end.

Definition obs_eqb (a b : obs) : bool :=
  match a, b with OOk, OOk | OErr, OErr | OPanic, OPanic | OCrash, OCrash => true | _, _ => false end.

Definition model_ok (c : case) : bool :=
  match predict (ck c) (cargs c) with
  | MTrap => obs_eqb (cobs c) OPanic
  | MNoTrap => negb (obs_eqb (cobs c) OPanic)
  | MErrP => obs_eqb (cobs c) OErr || obs_eqb (cobs c) OCrash    (* a crash is reported by the property bit *)
  | MOkP => obs_eqb (cobs c) OOk || obs_eqb (cobs c) OCrash
  | MOkOrErr => negb (obs_eqb (cobs c) OPanic)
  | MDeep => true
  | MBroken => false
  end.
Definition prop_ok (c : case) : bool := obs_eqb (cobs c) OOk || obs_eqb (cobs c) OErr.
Definition case_code (c : case) : N := code_of (model_ok c) (prop_ok c).

Lemma case_code_zero_sound : forall c, case_code c = 0%N -> cobs c = OOk \/ cobs c = OErr.
Proof. intro c. unfold case_code, code_of, prop_ok. destruct (model_ok c), (cobs c); cbn; intro H; try discriminate; auto. Qed.
Lemma case_code_property_bit : forall c, (cobs c = OPanic \/ cobs c = OCrash) -> (2 <= case_code c)%N.
Proof. intros c [H|H]; unfold case_code, code_of, prop_ok; rewrite H; destruct (model_ok c); cbn; lia. Qed.

Example judge_ok : case_code (mkCase KXrefSub [0; 6; 6] PDefault OOk) = 0%N. Proof. vm_compute. reflexivity. Qed.
Example judge_panic : case_code (mkCase KXrefSub [4294967295; 2; 6] PDefault OPanic) = 3%N. Proof. vm_compute. reflexivity. Qed.
Example judge_crash : case_code (mkCase KLength [1099511627776; 400] PStrict OCrash) = 2%N. Proof. vm_compute. reflexivity. Qed.
Example judge_nest_err : case_code (mkCase KNestP [257] PDefault OErr) = 0%N. Proof. vm_compute. reflexivity. Qed.
Example judge_container_cycle : case_code (mkCase KContainer [2; 2] PStrict OErr) = 0%N. Proof. vm_compute. reflexivity. Qed.
Example judge_container_crash : case_code (mkCase KContainer [2; 2] PStrict OCrash) = 2%N. Proof. vm_compute. reflexivity. Qed.
Example judge_entry_loop : case_code (mkCase KEntryLoop [6; 4294967295; 5] PDefault OErr) = 0%N. Proof. vm_compute. reflexivity. Qed.
Example judge_nest_ok_wrong : case_code (mkCase KNestP [257] PDefault OOk) = 1%N. Proof. vm_compute. reflexivity. Qed.
