(** C01 — KERNEL CATALOGUE: one Gallina definition per numeric slot of the reader that drives an
    offset, a multiplication, an index or an allocation, transliterated from the current source
    with the [Mach] operators (plain where the Rust is plain, checked where it checks).

    Naming: [k] is the code AFTER the C01 fix patches (= the tree the check runs on);
    [k_pinned] is the code as found (kept for the refutation witness that was run against
    the real debug build).  Results: [Trap] = the debug build panics; [Val OErr] = an ordinary
    [Err(..)]; [Val (OOk v)] = success carrying a ghost value (count, size, ...). *)
From Coq Require Import ZArith Lia Bool List.
From OxVerif Require Import C01.Mach.
Import ListNotations.
Open Scope Z_scope.

Inductive out := OErr | OOk (v : Z) | OFuel.

Definition u32_of_i64 (z : Z) := cast U32 z.
Definition usize_of_i64 (z : Z) := cast USIZE z.

(** ** 1. classic xref subsection  (xref.rs parse_traditional_xref_with_options)
    header [first count] parsed as u32; for each of the [avail] entry lines present
    (bounded by the input) the key is [first_obj_num + i]. *)
Definition xref_key_pinned (first i : Z) : res out := do k <- add U32 first i; Val (OOk k).
(** fixed: [first_obj_num.checked_add(i).ok_or(InvalidXRef)?] *)
Definition xref_key (first i : Z) : res out :=
  match checked_add U32 first i with Some k => Val (OOk k) | None => Val OErr end.

Fixpoint xref_sub_loop (key : Z -> Z -> res out) (avail : nat) (first count i : Z) : res out :=
  if count <=? i then Val (OOk i) else
  match avail with
  | O => Val (OOk i)                      (* EOF / "trailer" line: break *)
  | S a => do k <- key first i;
           match k with
           | OOk _ => do i' <- add U32 i 1; xref_sub_loop key a first count i'
           | e => Val e
           end
  end.
Definition xref_sub := xref_sub_loop xref_key.
Definition xref_sub_pinned := xref_sub_loop xref_key_pinned.

(** [(max_obj_num + 1) as i64] vs. fixed [i64::from(max_obj_num) + 1] *)
Definition xref_max_plus_1_pinned (max : Z) : res Z := do s <- add U32 max 1; Val (cast I64 s).
Definition xref_max_plus_1 (max : Z) : res Z := add I64 (cast I64 max) 1.

(** ** 2. cross-reference stream  (xref_stream.rs)
    [/W] entries are [i64 as usize]; [entry_size = widths.iter().sum()]. *)
Definition xs_entry_size_pinned (w0 w1 w2 : Z) : res Z :=
  do a <- add USIZE 0 (usize_of_i64 w0); do b <- add USIZE a (usize_of_i64 w1); add USIZE b (usize_of_i64 w2).
(** fixed: [try_fold(0usize, |a, &w| a.checked_add(w))] -> [Err] on overflow *)
Definition xs_entry_size (w0 w1 w2 : Z) : option Z :=
  match checked_add USIZE 0 (usize_of_i64 w0) with None => None | Some a =>
  match checked_add USIZE a (usize_of_i64 w1) with None => None | Some b =>
  checked_add USIZE b (usize_of_i64 w2) end end.

Definition xs_key_pinned (first i : Z) : res out := do k <- add U32 first i; Val (OOk k).
Definition xs_key (first i : Z) : res out :=
  match checked_add U32 first i with Some k => Val (OOk k) | None => Val OErr end.

(** one [/Index] pair; [len] = decoded data length; ghost result = entries produced.
    [fuel]: the loop runs [count] times in the code; the theorem shows [len + 1] suffices
    because every iteration consumes [entry_size >= 1] bytes. *)
Fixpoint xs_loop (key : Z -> Z -> res out) (fuel : nat) (w0 w1 w2 es len first count i off : Z) : res out :=
  if count <=? i then Val (OOk i) else
  match fuel with O => Val OFuel | S f =>
    do e <- add USIZE off es;
    if len <? e then Val OErr          (* "Xref stream data truncated" *)
    else
      (* the three field reads: [&data[fo .. fo + width]] when width > 0 *)
      do e0 <- add USIZE off w0; do _ <- slice len off e0;
      do e1 <- add USIZE e0 w1; do _ <- slice len e0 e1;
      do e2 <- add USIZE e1 w2; do _ <- slice len e1 e2;
      do k <- key first i;
      match k with
      | OOk _ => do off' <- add USIZE off es; do i' <- add U32 i 1;
                 xs_loop key f w0 w1 w2 es len first count i' off'
      | e => Val e
      end
  end.

Definition xs_entries (w0 w1 w2 first count len : Z) : res out :=
  match xs_entry_size (w0) (w1) (w2) with
  | None => Val OErr
  | Some es => if es =? 0 then Val OErr
               else xs_loop xs_key (Z.to_nat len + 1) (usize_of_i64 w0) (usize_of_i64 w1) (usize_of_i64 w2)
                            es len (u32_of_i64 first) (u32_of_i64 count) 0 0
  end.
Definition xs_entries_pinned (w0 w1 w2 first count len : Z) : res out :=
  do es <- xs_entry_size_pinned w0 w1 w2;
  if es =? 0 then Val OErr
  else xs_loop xs_key_pinned (Z.to_nat len + 1) (usize_of_i64 w0) (usize_of_i64 w1) (usize_of_i64 w2)
               es len (u32_of_i64 first) (u32_of_i64 count) 0 0.

(** [read_field]: [value = (value << 8) | byte] on u64 for ANY width (widths > 8 silently lose
    the high bytes; the shift amount is the constant 8, so no trap) *)
Fixpoint read_field (acc : Z) (l : list Z) : res Z :=
  match l with [] => Val acc | b :: r => do s <- shl U64 acc 8; read_field (Z.lor s b) r end.

(** ** 3. object stream  (object_stream.rs)  [/First as u32], offsets [as u32]; [first + offset] *)
Definition objstm_abs_pinned (first off : Z) : res Z := add U32 (u32_of_i64 first) (u32_of_i64 off).
(** fixed: [u64::from(self.first) + u64::from(offset)] *)
Definition objstm_abs (first off : Z) : res Z := add U64 (u32_of_i64 first) (u32_of_i64 off).

(** ** 4. stream [/Length] -> [Lexer::read_bytes(n)]  (objects.rs, lexer.rs)
    ghost value = the capacity the code REQUESTS before it has seen a single byte. *)
Definition length_to_usize (len : Z) : option Z :=      (* None = endstream search / Err *)
  if len <? 0 then None else Some (usize_of_i64 len).
Definition read_bytes_request_pinned (n : Z) : Z := n.   (* Vec::with_capacity(n) + vec![0; n] *)
Definition READ_CHUNK := 65536.
(** fixed: [Vec::with_capacity(n.min(64 KiB))], then [take(n).read_to_end]: the buffer only grows
    with bytes that really arrived *)
Definition read_bytes_request (n : Z) : Z := Z.min n READ_CHUNK.
Definition read_bytes_result (n remaining : Z) : out := if remaining <? n then OErr else OOk n.

(** ** 5. PNG predictor row sizing  (filters.rs apply_png_predictor_advanced, fixed by C07) *)
Definition predictor_rows (columns colors bpc datalen : Z) : res out :=
  let columns := usize_of_i64 columns in let colors := usize_of_i64 colors in let bpc := usize_of_i64 bpc in
  match checked_mul USIZE bpc colors with None => Val OErr | Some bits_pp =>
  do bpp <- div_ceil bits_pp 8;
  match checked_mul USIZE columns colors with None => Val OErr | Some samples =>
  match checked_mul USIZE samples bpc with None => Val OErr | Some bits =>
  match checked_add USIZE bits 7 with None => Val OErr | Some b7 =>
  do row_bytes <- div USIZE b7 8;
  match checked_add USIZE row_bytes 1 with None => Val OErr | Some row_size =>
  do r <- rem USIZE datalen row_size;
  if negb (r =? 0) then Val OErr else
  do num_rows <- div USIZE datalen row_size;
  do cap <- mul USIZE row_bytes num_rows;            (* Vec::with_capacity(row_bytes * num_rows) *)
  (* last row: row_start = (num_rows-1) * row_size; &data[row_start+1 .. row_start+row_size] *)
  if num_rows =? 0 then Val (OOk 0) else
  do last <- mul USIZE (num_rows - 1) row_size;
  do _ <- index datalen last;
  do a <- add USIZE last 1; do b <- add USIZE last row_size; do _ <- slice datalen a b;
  (* sub/average/paeth index [result[i - bpp]] for i >= bpp needs bpp >= 1 whenever a row is non-empty *)
  if (bpp =? 0) && negb (row_bytes =? 0) then Trap else Val (OOk cap)
  end end end end end.
(** the same with the first multiplication unchecked (the shape of the defect C07 repaired, and
    of the mutation "drop a checked_mul") *)
Definition predictor_bpp_pinned (colors bpc : Z) : res Z :=
  do m <- mul USIZE (usize_of_i64 bpc) (usize_of_i64 colors); div_ceil m 8.

(** ** 6. LZW bit reader  (filters.rs LzwBitReader::read_bits): one iteration of the inner loop *)
Definition lzw_step (n bits_read bit_pos : Z) : res Z :=
  do avail <- sub U8 8 bit_pos;
  do want <- sub U32 n bits_read;
  let to_read := Z.min want avail in
  do one <- shl U32 1 to_read;
  do m <- sub U32 one 1;
  let mask := cast U8 m in
  do shift <- sub U8 avail (cast U8 to_read);
  do _ <- shr U8 mask shift;
  do _ <- shl U32 0 to_read;
  do br <- add U32 bits_read to_read;
  add U8 bit_pos (cast U8 to_read).
(** code-size threshold [(1 << code_size) - 1] on i32 *)
Definition lzw_threshold (code_size : Z) : res Z := do s <- shl I32 1 code_size; sub I32 s 1.

(** ** 7. RunLength  (filters.rs decode_run_length_with_limit): one iteration at index [i] *)
Definition rl_step (byte i len : Z) : res out :=
  let length := cast I8 byte in
  do i1 <- add USIZE i 1;
  if length =? -128 then Val (OOk i1)
  else if 0 <=? length then
    do count <- add USIZE (cast USIZE length) 1;
    do e <- add USIZE i1 count;
    if len <? e then Val OErr else do _ <- slice len i1 e; Val (OOk e)
  else
    if len <=? i1 then Val OErr else
    do _ <- index len i1;
    do ng <- neg I8 length;
    do count <- add USIZE (cast USIZE ng) 1;
    do i2 <- add USIZE i1 1; Val (OOk i2).

(** ** 8. ASCII85 group value  (filters.rs ascii85_group_value, fixed by C07): u64 fold, try_from u32 *)
Fixpoint a85_fold (acc : Z) (l : list Z) : res Z :=
  match l with [] => Val acc
  | c :: r => do d <- sub U8 c 33; do m <- mul U64 acc 85; do s <- add U64 m d; a85_fold s r end.
Definition a85_group (l : list Z) : res out :=
  do v <- a85_fold 0 l; match checked U32 v with Some x => Val (OOk x) | None => Val OErr end.
(** the pinned shape: the same sum in u32 *)
Fixpoint a85_fold_pinned (acc : Z) (l : list Z) : res Z :=
  match l with [] => Val acc
  | c :: r => do d <- sub U8 c 33; do m <- mul U32 acc 85; do s <- add U32 m d; a85_fold_pinned s r end.

(** ** 9. octal escape  (lexer.rs / content.rs): u16 accumulator, up to 3 digits, [as u8] *)
Definition octal_escape (d0 : Z) (rest : list Z) : res Z :=
  let step (acc : res Z) (d : Z) := do v <- acc; do m <- mul U16 v 8; add U16 m d in
  do v <- fold_left step (firstn 2 rest) (Val d0); Val (cast U8 v).
(** literal-string parenthesis depth: i32 counter, +1 per '(' *)
Definition paren_depth_after (n_open : Z) : res Z := add I32 1 n_open.

(** ** 10. CMap range arithmetic  (text/cmap.rs calculate_offset + carry loop) *)
Definition U128 := {| lo := 0; hi := 340282366920938463463374607431768211455 |}.
Definition cmap_offset_pinned (code start : list Z) : res Z :=
  do c <- fold_be USIZE 0 code; do s <- fold_be USIZE 0 start; Val (saturating_sub USIZE c s).
(** fixed: [acc.saturating_mul(256).saturating_add(b)] *)
Definition sat_fold (l : list Z) : Z := fold_left (fun acc b => saturating USIZE (saturating USIZE (acc * 256) + b)) l 0.
Definition cmap_offset (code start : list Z) : res Z := Val (saturating_sub USIZE (sat_fold code) (sat_fold start)).
(** carry loop [sum = *byte as usize + carry] (pinned) / in u128 (fixed) *)
Definition cmap_carry_pinned (byte carry : Z) : res Z := add USIZE byte carry.
Definition cmap_carry (byte carry : Z) : res Z := add U128 byte carry.

(** ** 11. PNG decoder sizing  (graphics/png_decoder.rs decode_image_data) *)
Definition png_sizes_pinned (width height depth channels rawlen : Z) : res out :=
  do bits <- mul USIZE depth channels; do bpp <- div_ceil bits 8;
  do r <- mul USIZE width bpp; do bpr <- add USIZE r 1;
  do need <- mul USIZE height bpr;
  if rawlen <? need then Val OErr else do p <- sub USIZE bpr 1; Val (OOk p).
(** fixed: checked_mul / checked_add -> InvalidImage *)
Definition png_sizes (width height depth channels rawlen : Z) : res out :=
  do bits <- mul USIZE depth channels; do bpp <- div_ceil bits 8;
  match checked_mul USIZE width bpp with None => Val OErr | Some r =>
  match checked_add USIZE r 1 with None => Val OErr | Some bpr =>
  match checked_mul USIZE height bpr with None => Val OErr | Some need =>
  if rawlen <? need then Val OErr else do p <- sub USIZE bpr 1; Val (OOk p) end end end.

(** ** 12. [/Size], [/Prev], [/Count], [/N]: pure casts ([as u32], [as u64], [as usize]) — no operator *)
Definition size_cast (z : Z) : res Z := Val (u32_of_i64 z).
Definition prev_cast (z : Z) : res Z := Val (cast U64 z).
