(** C05 — proofs about the encryption layer model (EncryptLayer.v). *)
From OxVerif Require Import Base.Util C05.EncryptLayer.
Require Import List NArith String Bool Lia.
Import ListNotations.
Open Scope N_scope.

Lemma bytes_eqb_refl a : bytes_eqb a a = true.
Proof. apply bytes_eqb_eq. reflexivity. Qed.
Lemma bytes_eqb_sym a b : bytes_eqb a b = bytes_eqb b a.
Proof.
  destruct (bytes_eqb a b) eqn:E; destruct (bytes_eqb b a) eqn:F; try reflexivity.
  - apply bytes_eqb_eq in E. subst. rewrite bytes_eqb_refl in F. discriminate.
  - apply bytes_eqb_eq in F. subst. rewrite bytes_eqb_refl in E. discriminate.
Qed.

Lemma dict_get_set_other k k' v d : bytes_eqb k k' = false -> dict_get k (dict_set k' v d) = dict_get k d.
Proof.
  intro H. induction d as [|[k2 v2] r IH]; cbn [dict_set dict_get].
  - rewrite H. reflexivity.
  - destruct (bytes_eqb k' k2) eqn:E.
    + apply bytes_eqb_eq in E. subst k2. cbn [dict_get]. rewrite H. reflexivity.
    + destruct (bytes_ltb k' k2); cbn [dict_get].
      * rewrite H. reflexivity.
      * rewrite IH. reflexivity.
Qed.
Lemma dict_get_set_same k v d : dict_get k (dict_set k v d) = Some v.
Proof.
  induction d as [|[k2 v2] r IH]; cbn [dict_set dict_get].
  - rewrite bytes_eqb_refl. reflexivity.
  - destruct (bytes_eqb k k2) eqn:E; cbn [dict_get].
    + rewrite bytes_eqb_refl. reflexivity.
    + destruct (bytes_ltb k k2); cbn [dict_get].
      * rewrite bytes_eqb_refl. reflexivity.
      * rewrite E. exact IH.
Qed.

Lemma stmf_length v d : stmf_identity (dict_set (nm "Length") v d) = stmf_identity d.
Proof. unfold stmf_identity. rewrite dict_get_set_other by reflexivity. reflexivity. Qed.

Lemma flat_map_nil {A B} (f : A -> list B) l : flat_map f l = [] -> Forall (fun x => f x = []) l.
Proof.
  induction l; cbn; intro H; constructor.
  - destruct (f a); [reflexivity | discriminate].
  - apply IHl. destruct (f a); [exact H | discriminate].
Qed.

Section WithCiphers.
  Variable enc : bytes -> N * N -> bytes -> bytes -> bytes.
  Variable dec : bytes -> N * N -> bytes -> option bytes.
  Hypothesis dec_enc : forall k id iv x, dec k id (enc k id iv x) = Some x.
  Variable iv_of : N * N -> path -> bytes.

  (** an object without payload is untouched by the reader *)
  Lemma decrypt_no_payload k id o : payload o = [] -> decrypt_obj dec k id o = Some o.
  Proof.
    induction o using obj_ind'; cbn [payload decrypt_obj]; intro Hp; try reflexivity; try discriminate.
    - apply flat_map_nil in Hp. induction l as [|x r IHl]; [reflexivity|].
      inversion H; subst. inversion Hp; subst.
      rewrite (H2 H4). specialize (IHl H3 H5). cbn [option_map] in IHl.
      destruct ((fix go (l : list obj) : option (list obj) := match l with
          | [] => Some [] | x :: r => match decrypt_obj dec k id x, go r with Some x', Some r' => Some (x' :: r') | _, _ => None end end) r);
        [|discriminate]. inversion IHl; subst. reflexivity.
    - apply flat_map_nil in Hp. induction d as [|[kk v] r IHd]; [reflexivity|].
      inversion H; subst. inversion Hp; subst. cbn [snd] in *.
      rewrite (H2 H4). specialize (IHd H3 H5). cbn [option_map] in IHd.
      destruct ((fix go (d : list (bytes * obj)) : option (list (bytes * obj)) := match d with
          | [] => Some [] | (kk, v) :: r => match decrypt_obj dec k id v, go r with Some v', Some r' => Some ((kk, v') :: r') | _, _ => None end end) r);
        [|discriminate]. inversion IHd; subst. reflexivity.
  Qed.

  Let F k id := fun p x => enc k id (iv_of id p) x.

  (** the core: the reader's walk inverts the writer's walk, object by object *)
  Lemma decrypt_walk k id o : forall p, wf o = true ->
    decrypt_obj dec k id (walk true (F k id) (F k id) p o) = Some (walk true (fun _ x => x) (F k id) p o).
  Proof.
    induction o using obj_ind'; intros p Hwf; cbn [walk decrypt_obj wf] in *; try reflexivity.
    - unfold F. rewrite dec_enc. reflexivity.
    - (* arrays *)
      assert (G : forall i,
        (fix go (l : list obj) : option (list obj) := match l with
          | [] => Some [] | x :: r => match decrypt_obj dec k id x, go r with Some x', Some r' => Some (x' :: r') | _, _ => None end end)
          ((fix go (i : nat) (l : list obj) : list obj := match l with [] => [] | x :: r => walk true (F k id) (F k id) (PI i :: p) x :: go (S i) r end) i l)
        = Some ((fix go (i : nat) (l : list obj) : list obj := match l with [] => [] | x :: r => walk true (fun _ x => x) (F k id) (PI i :: p) x :: go (S i) r end) i l)).
      { induction l as [|x r IHl]; intro i; [reflexivity|].
        inversion H; subst. cbn [forallb] in Hwf. apply andb_true_iff in Hwf. destruct Hwf as [Hx Hr].
        rewrite (H2 _ Hx). rewrite (IHl H3 Hr). reflexivity. }
      rewrite G. reflexivity.
    - (* dictionaries *)
      assert (G :
        (fix go (d : list (bytes * obj)) : option (list (bytes * obj)) := match d with
          | [] => Some [] | (kk, v) :: r => match decrypt_obj dec k id v, go r with Some v', Some r' => Some ((kk, v') :: r') | _, _ => None end end)
          ((fix go (d : list (bytes * obj)) : list (bytes * obj) := match d with
             | [] => [] | (k0, v) :: r => (k0, if skip_key k0 then v else walk true (F k id) (F k id) (PK k0 :: p) v) :: go r end) d)
        = Some ((fix go (d : list (bytes * obj)) : list (bytes * obj) := match d with
             | [] => [] | (k0, v) :: r => (k0, if skip_key k0 then v else walk true (fun _ x => x) (F k id) (PK k0 :: p) v) :: go r end) d)).
      { induction d as [|[k0 v] r IHd]; [reflexivity|].
        inversion H; subst. cbn [forallb fst snd] in *. apply andb_true_iff in Hwf. destruct Hwf as [Hx Hr].
        rewrite (IHd H3 Hr).
        destruct (skip_key k0).
        - rewrite decrypt_no_payload; [reflexivity|]. destruct (payload v); [reflexivity|discriminate].
        - rewrite (H2 _ Hx). reflexivity. }
      rewrite G. reflexivity.
    - (* streams *)
      apply andb_true_iff in Hwf. destruct Hwf as [Hwf H3]. apply andb_true_iff in Hwf. destruct Hwf as [H1 H2].
      unfold should_encrypt_stream. cbn [negb andb]. rewrite H1. cbn [andb].
      cbn [decrypt_obj]. rewrite stmf_length. apply negb_true_iff in H3. rewrite H3.
      unfold F. rewrite dec_enc. reflexivity.
  Qed.

  (** payload of the image = payload of the original *)
  Lemma payload_walk_id lenf o : forall p, wf o = true -> payload (walk true (fun _ x => x) lenf p o) = payload o.
  Proof.
    induction o using obj_ind'; intros p Hwf; cbn [walk payload wf] in *; try reflexivity.
    - assert (G : forall i, flat_map payload
        ((fix go (i : nat) (l : list obj) : list obj := match l with [] => [] | x :: r => walk true (fun _ x => x) lenf (PI i :: p) x :: go (S i) r end) i l)
        = flat_map payload l).
      { induction l as [|x r IHl]; intro i; [reflexivity|]. inversion H; subst.
        cbn [forallb] in Hwf. apply andb_true_iff in Hwf. destruct Hwf as [Hx Hr].
        cbn [flat_map]. rewrite (H2 _ Hx), (IHl H3 Hr). reflexivity. }
      apply G.
    - induction d as [|[k0 v] r IHd]; [reflexivity|]. inversion H; subst.
      cbn [forallb fst snd] in *. apply andb_true_iff in Hwf. destruct Hwf as [Hx Hr].
      cbn [flat_map snd]. rewrite (IHd H3 Hr). destruct (skip_key k0); [reflexivity|]. rewrite (H2 _ Hx). reflexivity.
    - apply andb_true_iff in Hwf. destruct Hwf as [Hwf H3]. apply andb_true_iff in Hwf. destruct Hwf as [H1 H2].
      unfold should_encrypt_stream. cbn [negb andb]. rewrite H1. cbn [andb payload].
      reflexivity.
  Qed.

  (** objects without streams come back exactly *)
  Fixpoint no_stream (o : obj) : bool :=
    match o with
    | OArr l => forallb no_stream l
    | ODict d => forallb (fun kv => no_stream (snd kv)) d
    | OStream _ _ => false
    | _ => true
    end.
  Lemma walk_id_no_stream lenf o : forall p, no_stream o = true -> walk true (fun _ x => x) lenf p o = o.
  Proof.
    induction o using obj_ind'; intros p Hn; cbn [walk no_stream] in *; try reflexivity; try discriminate.
    - f_equal. generalize 0%nat. induction l as [|x r IHl]; intro i; [reflexivity|]. inversion H; subst.
      cbn [forallb] in Hn. apply andb_true_iff in Hn. destruct Hn as [Hx Hr].
      rewrite (H2 _ Hx), (IHl H3 Hr). reflexivity.
    - f_equal. induction d as [|[k0 v] r IHd]; [reflexivity|]. inversion H; subst.
      cbn [forallb snd] in *. apply andb_true_iff in Hn. destruct Hn as [Hx Hr].
      rewrite (IHd H3 Hr). destruct (skip_key k0); [reflexivity|]. rewrite (H2 _ Hx). reflexivity.
  Qed.

  (** ** the round trip, object level and document level *)
  Theorem roundtrip_obj k id o : wf o = true ->
    decrypt_obj dec k id (encrypt_obj enc true iv_of k id o) = Some (image_obj enc true iv_of k id o)
    /\ payload (image_obj enc true iv_of k id o) = payload o
    /\ (no_stream o = true -> image_obj enc true iv_of k id o = o).
  Proof.
    intro H. unfold encrypt_obj, image_obj, image. split; [|split].
    - apply (decrypt_walk k id o [] H).
    - apply payload_walk_id; exact H.
    - intro Hn. apply walk_id_no_stream; exact Hn.
  Qed.

  Theorem roundtrip_doc k d : wf_doc d = true ->
    decrypt_doc dec k (encrypt_doc enc true iv_of k d) = Some (image_doc enc true iv_of k d)
    /\ map fst (image_doc enc true iv_of k d) = map fst d
    /\ map (fun e => payload (snd e)) (image_doc enc true iv_of k d) = map (fun e => payload (snd e)) d.
  Proof.
    induction d as [|[id o] r IH]; intro H; [repeat split|].
    cbn [wf_doc forallb snd] in H. apply andb_true_iff in H. destruct H as [Ho Hr].
    destruct (IH Hr) as (A & B & C). destruct (roundtrip_obj k id o Ho) as (A1 & B1 & _).
    unfold encrypt_doc, image_doc in *. cbn [map decrypt_doc fst snd]. rewrite A1, A. rewrite B, C, B1. repeat split.
  Qed.

  (** the reader decrypts exactly when the trailer carries /Encrypt — and the writer's trailer
      (classic trailer, and the xref-stream dictionary after fix_xref_stream_encrypt) does *)
  Theorem flagged_trailer_decrypts base n g fid : reader_decrypts (writer_trailer base (Some (n, g)) fid) = true.
  Proof.
    unfold reader_decrypts, writer_trailer. rewrite dict_get_set_other by reflexivity.
    rewrite dict_get_set_same. reflexivity.
  Qed.
  Theorem never_ciphertext_when_flagged base n g fid k id o : wf o = true ->
    exists o', read_obj dec (writer_trailer base (Some (n, g)) fid) k id (encrypt_obj enc true iv_of k id o) = Some o'
               /\ payload o' = payload o.
  Proof.
    intro H. unfold read_obj. rewrite flagged_trailer_decrypts.
    destruct (roundtrip_obj k id o H) as (A & B & _). eexists. split; [exact A | exact B].
  Qed.
End WithCiphers.

(** ** the hypotheses are satisfiable; witnesses of the refuted statements (toy cipher) *)
Definition toy_enc (k : bytes) (id : N * N) (iv x : bytes) : bytes := map (N.lxor (fst id + 1)) x.
Definition toy_dec (k : bytes) (id : N * N) (y : bytes) : option bytes := Some (map (N.lxor (fst id + 1)) y).
Lemma toy_dec_enc : forall k id iv x, toy_dec k id (toy_enc k id iv x) = Some x.
Proof.
  intros. unfold toy_dec, toy_enc. f_equal. rewrite map_map. rewrite <- (map_id x) at 2. apply map_ext.
  intro a. rewrite <- N.lxor_assoc, N.lxor_nilpotent, N.lxor_0_l. reflexivity.
Qed.
Definition toy_iv (id : N * N) (p : path) : bytes := [].

Definition sample_doc : doc :=
  [((3, 0), ODict [(nm "Author", OStr (nm "me")); (nm "Kids", OArr [OStr (nm "in array"); ORef 4 0]); (nm "Title", OStr (nm "Report"))]);
   ((5, 0), OStream [(nm "Filter", OName (nm "FlateDecode"))] (nm "stream data"))].
Example roundtrip_example :
  wf_doc sample_doc = true /\
  option_map (map (fun e => payload (snd e))) (decrypt_doc toy_dec [] (encrypt_doc toy_enc true toy_iv [] sample_doc))
  = Some (map (fun e => payload (snd e)) sample_doc) /\
  map (fun e => payload (snd e)) (encrypt_doc toy_enc true toy_iv [] sample_doc) <> map (fun e => payload (snd e)) sample_doc.
Proof. split; [reflexivity|]. split; [vm_compute; reflexivity | vm_compute; discriminate]. Qed.

(** pinned-tree defect (fixed by fix_xref_stream_encrypt.patch): a trailer WITHOUT /Encrypt
    (what [write_xref_stream] produced) makes the reader hand out ciphertext *)
Theorem unflagged_trailer_refuted : exists base k id o,
  wf o = true /\ exists o', read_obj toy_dec base k id (encrypt_obj toy_enc true toy_iv k id o) = Some o' /\ payload o' <> payload o.
Proof.
  exists [(nm "Root", ORef 1 0); (nm "Size", ONum "9")], [], (3, 0), (ODict [(nm "Title", OStr (nm "Report"))]).
  split; [reflexivity|]. eexists. split; [vm_compute; reflexivity | vm_compute; discriminate].
Qed.

(** known finding C05-skipped-keys: a string below one of the keys the writer skips (here the
    page-label prefix /P) is written in clear and "decrypted" by the reader *)
Theorem skipped_key_refuted : exists k id o,
  wf o = false /\ exists o', decrypt_obj toy_dec k id (encrypt_obj toy_enc true toy_iv k id o) = Some o' /\ payload o' <> payload o.
Proof.
  exists [], (1, 0), (ODict [(nm "Nums", OArr [ONum "0"; ODict [(nm "P", OStr (nm "A-")); (nm "S", OName (nm "D"))]])]).
  split; [reflexivity|]. eexists. split; [vm_compute; reflexivity | vm_compute; discriminate].
Qed.
