(** C05 — the encryption layer of the writer and of the reader, as a model over abstract
    object trees.

    Code modelled (oxidize-pdf-core/src):
    - writer/pdf_writer/mod.rs  [write_object]: every object is passed through
      [ObjectEncryptor::encrypt_object] with ITS OWN id before it is emitted directly or
      buffered for an object stream; the /Encrypt dictionary is written with the encryptor
      switched off; [write_object_value] sets /Length to the data length.
    - encryption/object_encryption.rs [encrypt_object], [encrypt_dictionary] (skips the keys
      Length Filter DecodeParms Encrypt ID O U P Perms), [encrypt_stream] (payload only; marks
      the dictionary with /Filter /Crypt when there is no /Filter, appends /Crypt to a filter
      array), [should_encrypt_stream].
    - parser/reader.rs [decrypt_object_if_needed] (every string, every dictionary value, every
      array element, stream payload unless the stream dictionary says /StmF /Identity; the
      stream dictionary itself is left alone), [get_compressed_object].
    The ciphers are Section variables: [enc k id iv x] / [dec k id y]. *)
From OxVerif Require Import Base.Util.
Require Import List NArith String Bool Lia DecimalString.
Import ListNotations.
Open Scope N_scope.

Inductive obj : Type :=
| ONull
| OBool (b : bool)
| ONum (s : string)                       (* canonical text of an integer or real *)
| OName (n : bytes)
| OStr (s : bytes)
| OArr (l : list obj)
| ODict (d : list (bytes * obj))          (* sorted by key by the harness *)
| OStream (d : list (bytes * obj)) (data : bytes)
| ORef (n g : N).

(** induction principle that goes through the nested lists *)
Section ObjInd.
  Variable P : obj -> Prop.
  Hypothesis Hnull : P ONull.
  Hypothesis Hbool : forall b, P (OBool b).
  Hypothesis Hnum : forall s, P (ONum s).
  Hypothesis Hname : forall n, P (OName n).
  Hypothesis Hstr : forall s, P (OStr s).
  Hypothesis Harr : forall l, Forall P l -> P (OArr l).
  Hypothesis Hdict : forall d, Forall (fun kv => P (snd kv)) d -> P (ODict d).
  Hypothesis Hstream : forall d data, Forall (fun kv => P (snd kv)) d -> P (OStream d data).
  Hypothesis Href : forall n g, P (ORef n g).
  Fixpoint obj_ind' (o : obj) : P o :=
    match o with
    | ONull => Hnull | OBool b => Hbool b | ONum s => Hnum s | OName n => Hname n | OStr s => Hstr s
    | OArr l => Harr l ((fix go l : Forall P l := match l with [] => Forall_nil _ | x :: r => Forall_cons _ (obj_ind' x) (go r) end) l)
    | ODict d => Hdict d ((fix go d : Forall (fun kv => P (snd kv)) d :=
                             match d with [] => Forall_nil _ | kv :: r => Forall_cons _ (obj_ind' (snd kv)) (go r) end) d)
    | OStream d data => Hstream d data ((fix go d : Forall (fun kv => P (snd kv)) d :=
                             match d with [] => Forall_nil _ | kv :: r => Forall_cons _ (obj_ind' (snd kv)) (go r) end) d)
    | ORef n g => Href n g
    end.
End ObjInd.

(** ** dictionaries as key-sorted association lists *)
Fixpoint bytes_ltb (a b : bytes) : bool :=
  match a, b with
  | [], [] => false
  | [], _ :: _ => true
  | _ :: _, [] => false
  | x :: a', y :: b' => if x <? y then true else if y <? x then false else bytes_ltb a' b'
  end.
Fixpoint dict_get (k : bytes) (d : list (bytes * obj)) : option obj :=
  match d with
  | [] => None
  | (k', v) :: r => if bytes_eqb k k' then Some v else dict_get k r
  end.
Fixpoint dict_set (k : bytes) (v : obj) (d : list (bytes * obj)) : list (bytes * obj) :=
  match d with
  | [] => [(k, v)]
  | (k', v') :: r => if bytes_eqb k k' then (k, v) :: r
                     else if bytes_ltb k k' then (k, v) :: (k', v') :: r
                     else (k', v') :: dict_set k v r
  end.
Definition nm (s : string) : bytes := bytes_of_string s.
Definition dec_string (n : N) : string := NilEmpty.string_of_uint (N.to_uint n).
Definition len_num (x : bytes) : obj := ONum (dec_string (N.of_nat (List.length x))).

Definition is_name (s : string) (o : obj) : bool :=
  match o with OName n => bytes_eqb n (nm s) | _ => false end.
Definition has_crypt_filter (d : list (bytes * obj)) : bool :=
  match dict_get (nm "Filter") d with
  | Some (OName n) => bytes_eqb n (nm "Crypt")
  | Some (OArr l) => existsb (is_name "Crypt") l
  | _ => false
  end.
Definition is_metadata (d : list (bytes * obj)) : bool :=
  match dict_get (nm "Type") d with Some o => is_name "Metadata" o | None => false end.

(** object_encryption.rs [should_skip_dictionary_key] *)
Definition skip_key (k : bytes) : bool :=
  existsb (fun s => bytes_eqb k (nm s)) ["Length"; "Filter"; "DecodeParms"; "Encrypt"; "ID"; "O"; "U"; "P"; "Perms"]%string.
(** [should_encrypt_stream] *)
Definition should_encrypt_stream (encmeta : bool) (d : list (bytes * obj)) : bool :=
  negb (negb encmeta && is_metadata d) && negb (has_crypt_filter d).
(** the dictionary edit of [encrypt_stream] *)
Definition mark_crypt (d : list (bytes * obj)) : list (bytes * obj) :=
  match dict_get (nm "Filter") d with
  | None => dict_set (nm "Filter") (OName (nm "Crypt")) d
  | Some (OArr l) => dict_set (nm "Filter") (OArr (l ++ [OName (nm "Crypt")])) d
  | Some _ => d
  end.
(** reader.rs: the stream dictionary can opt out with /StmF /Identity *)
Definition stmf_identity (d : list (bytes * obj)) : bool :=
  match dict_get (nm "StmF") d with Some o => is_name "Identity" o | None => false end.

(** positions inside an object (where an IV is drawn) *)
Inductive pelt := PI (i : nat) | PK (k : bytes) | PD.
Definition path := list pelt.

(** ** the writer's walk, generic in what is done to a string / stream payload *)
Section Walk.
  Variable encmeta : bool.
  Variable f : path -> bytes -> bytes.      (* payload transformer at a position *)
  Variable lenf : path -> bytes -> bytes.   (* the bytes whose length ends up in /Length *)
  Fixpoint walk (p : path) (o : obj) : obj :=
    match o with
    | OStr s => OStr (f p s)
    | OArr l => OArr ((fix go (i : nat) (l : list obj) : list obj :=
                         match l with [] => [] | x :: r => walk (PI i :: p) x :: go (S i) r end) 0%nat l)
    | ODict d => ODict ((fix go (d : list (bytes * obj)) : list (bytes * obj) :=
                         match d with
                         | [] => []
                         | (k, v) :: r => (k, if skip_key k then v else walk (PK k :: p) v) :: go r
                         end) d)
    | OStream d data =>
        if should_encrypt_stream encmeta d
        then OStream (dict_set (nm "Length") (len_num (lenf (PD :: p) data)) (mark_crypt d)) (f (PD :: p) data)
        else OStream (dict_set (nm "Length") (len_num data) d) data
    | _ => o
    end.
End Walk.

(** what the reader hands out for an object the writer encrypted: the payload is back, the
    stream dictionary keeps the writer's edits (/Length of the CIPHERTEXT, /Crypt marker) *)
Definition image (encmeta : bool) (lenf : path -> bytes -> bytes) (o : obj) : obj :=
  walk encmeta (fun _ x => x) lenf [] o.

(** all payload the layer touches: strings depth first (dictionary order) and stream data
    (NOT the strings of a stream dictionary: neither the writer nor the reader touches them) *)
Fixpoint payload (o : obj) : list bytes :=
  match o with
  | OStr s => [s]
  | OArr l => flat_map payload l
  | ODict d => flat_map (fun kv => payload (snd kv)) d
  | OStream d data => [data]
  | _ => []
  end.

(** strings below a skipped dictionary key are left in clear by the writer but "decrypted"
    by the reader (known finding C05-skipped-keys); streams that already carry /Crypt are not
    encrypted but still decrypted; a stream dictionary with /StmF /Identity is not decrypted. *)
Fixpoint wf (o : obj) : bool :=
  match o with
  | OArr l => forallb wf l
  | ODict d => forallb (fun kv => if skip_key (fst kv) then match payload (snd kv) with [] => true | _ => false end
                                  else wf (snd kv)) d
  | OStream d data => negb (has_crypt_filter d) && negb (stmf_identity d)
                      && negb (stmf_identity (mark_crypt d))
  | _ => true
  end.

Section Layer.
  Variable enc : bytes -> N * N -> bytes -> bytes -> bytes.   (* key, object id, iv, plaintext *)
  Variable dec : bytes -> N * N -> bytes -> option bytes.     (* key, object id, ciphertext *)
  Variable encmeta : bool.
  Variable iv_of : N * N -> path -> bytes.

  (** writer: [encrypt_object] on object [id] *)
  Definition encrypt_obj (k : bytes) (id : N * N) (o : obj) : obj :=
    walk encmeta (fun p x => enc k id (iv_of id p) x) (fun p x => enc k id (iv_of id p) x) [] o.
  Definition image_obj (k : bytes) (id : N * N) (o : obj) : obj :=
    image encmeta (fun p x => enc k id (iv_of id p) x) o.

  (** reader: [decrypt_object_if_needed] *)
  Fixpoint decrypt_obj (k : bytes) (id : N * N) (o : obj) : option obj :=
    match o with
    | OStr s => option_map OStr (dec k id s)
    | OArr l => option_map OArr
        ((fix go (l : list obj) : option (list obj) :=
            match l with
            | [] => Some []
            | x :: r => match decrypt_obj k id x, go r with Some x', Some r' => Some (x' :: r') | _, _ => None end
            end) l)
    | ODict d => option_map ODict
        ((fix go (d : list (bytes * obj)) : option (list (bytes * obj)) :=
            match d with
            | [] => Some []
            | (kk, v) :: r => match decrypt_obj k id v, go r with Some v', Some r' => Some ((kk, v') :: r') | _, _ => None end
            end) d)
    | OStream d data =>
        if stmf_identity d then Some o
        else option_map (OStream d) (dec k id data)
    | _ => Some o
    end.

  (** ** documents: finite maps object id -> object, as association lists.  [in_stm] tells
      whether the writer buffered the object for an object stream (it encrypts before it
      decides — so the flag does not matter for the writer) *)
  Definition doc := list ((N * N) * obj).
  Definition encrypt_doc (k : bytes) (d : doc) : doc := map (fun e => (fst e, encrypt_obj k (fst e) (snd e))) d.
  Fixpoint decrypt_doc (k : bytes) (d : doc) : option doc :=
    match d with
    | [] => Some []
    | (id, o) :: r => match decrypt_obj k id o, decrypt_doc k r with
                      | Some o', Some r' => Some ((id, o') :: r') | _, _ => None end
    end.
  Definition image_doc (k : bytes) (d : doc) : doc := map (fun e => (fst e, image_obj k (fst e) (snd e))) d.
  Definition wf_doc (d : doc) : bool := forallb (fun e => wf (snd e)) d.

  (** reader.rs [get_object] / [get_compressed_object]: an object stored directly is decrypted
      once.  An object taken out of an object stream: the stream object is fetched through
      [get_object] (decrypted once with the STREAM's id) and the extracted member is decrypted
      (again) with the MEMBER's id. *)
  Definition read_direct (k : bytes) (id : N * N) (raw : obj) : option obj := decrypt_obj k id raw.
  Definition read_member (k : bytes) (id : N * N) (member_as_parsed : obj) : option obj :=
    decrypt_obj k id member_as_parsed.

  (** trailer model: the reader builds an encryption handler iff the trailer (classic trailer
      or xref-stream dictionary) has /Encrypt; only then anything is decrypted *)
  Definition reader_decrypts (trailer : list (bytes * obj)) : bool :=
    match dict_get (nm "Encrypt") trailer with Some _ => true | None => false end.
  Definition read_obj (trailer : list (bytes * obj)) (k : bytes) (id : N * N) (raw : obj) : option obj :=
    if reader_decrypts trailer then decrypt_obj k id raw else Some raw.
  (** writer: [write_trailer] and (after fix_xref_stream_encrypt) [write_xref_stream] *)
  Definition writer_trailer (base : list (bytes * obj)) (encrypt_ref : option (N * N)) (fid : bytes) : list (bytes * obj) :=
    match encrypt_ref with
    | Some (n, g) => dict_set (nm "ID") (OArr [OStr fid; OStr fid]) (dict_set (nm "Encrypt") (ORef n g) base)
    | None => base
    end.
End Layer.
