(** C05/C06 — the layer model instantiated with the real ciphers (C23's specifications of RC4,
    MD5, AES, CBC and of the security-handler algorithms) and the case checkers of the
    correspondence channels. *)
From OxVerif Require Import Base.Util C23.Tab C23.Rc4 C23.Md5 C23.Sha2 C23.Aes C23.Cbc C23.SecHandler C05.EncryptLayer.
Require Import List NArith String Bool.
Import ListNotations.
Open Scope N_scope.

(** ** ISO 32000-1 7.6.2 Algorithm 1 (RC4 / AESV2 with "sAlT"); AESV3: the file key itself *)
Definition salt_aes : bytes := [115; 65; 108; 84].
Definition okey (meth : N) (k : bytes) (id : N * N) : bytes :=
  match meth with
  | 0 => alg1 k (fst id) (snd id)
  | 1 => firstn (Nat.min (List.length k + 5) 16) (md5 (k ++ le_bytes 3 (fst id) ++ le_bytes 2 (snd id) ++ salt_aes))
  | _ => k
  end.
Definition norm_iv (iv : bytes) : bytes := firstn 16 (iv ++ repeat 0 16).
(** RC4: the payload; AES: 16-byte IV followed by CBC + PKCS#7 *)
Definition real_enc (meth : N) (k : bytes) (id : N * N) (iv x : bytes) : bytes :=
  if meth =? 0 then rc4 (okey meth k id) x
  else norm_iv iv ++ cbc_encrypt cipher (okey meth k id) (norm_iv iv) x.
Definition real_dec (meth : N) (k : bytes) (id : N * N) (y : bytes) : option bytes :=
  if meth =? 0 then Some (rc4 (okey meth k id) y)
  else if (List.length y <? 16)%nat then None
  else cbc_decrypt inv_cipher (okey meth k id) (firstn 16 y) (skipn 16 y).

(** ** structural equality *)
Fixpoint obj_eqb (a b : obj) {struct a} : bool :=
  match a with
  | ONull => match b with ONull => true | _ => false end
  | OBool x => match b with OBool y => Bool.eqb x y | _ => false end
  | ONum x => match b with ONum y => String.eqb x y | _ => false end
  | OName x => match b with OName y => bytes_eqb x y | _ => false end
  | OStr x => match b with OStr y => bytes_eqb x y | _ => false end
  | OArr x => match b with
      | OArr y => (fix go (x y : list obj) {struct x} : bool :=
         match x, y with
         | [], [] => true
         | v1 :: r1, v2 :: r2 => obj_eqb v1 v2 && go r1 r2
         | _, _ => false
         end) x y
      | _ => false end
  | ODict x => match b with
      | ODict y => (fix go (x y : list (bytes * obj)) {struct x} : bool :=
         match x, y with
         | [], [] => true
         | (k1, v1) :: r1, (k2, v2) :: r2 => bytes_eqb k1 k2 && obj_eqb v1 v2 && go r1 r2
         | _, _ => false
         end) x y
      | _ => false end
  | OStream x dx => match b with
      | OStream y dy => (fix go (x y : list (bytes * obj)) {struct x} : bool :=
         match x, y with
         | [], [] => true
         | (k1, v1) :: r1, (k2, v2) :: r2 => bytes_eqb k1 k2 && obj_eqb v1 v2 && go r1 r2
         | _, _ => false
         end) x y && bytes_eqb dx dy
      | _ => false end
  | ORef n g => match b with ORef n' g' => (n =? n') && (g =? g') | _ => false end
  end.
Definition payload_eqb (a b : obj) : bool := list_eqb bytes_eqb (payload a) (payload b).

(** ** IVs are read back from the file: the bytes found at a position of the raw object *)
Fixpoint bytes_at (o : obj) (p : path) : bytes :=
  match p with
  | [] => match o with OStr s => s | _ => [] end
  | PI i :: r => match o with OArr l => bytes_at (nth i l ONull) r | _ => [] end
  | PK k :: r => match o with
                 | ODict d => match dict_get k d with Some v => bytes_at v r | None => [] end
                 | _ => [] end
  | PD :: _ => match o with OStream _ data => data | _ => [] end
  end.
Definition iv_from (raw : obj) : N * N -> path -> bytes := fun _ p => firstn 16 (bytes_at raw (rev p)).

(** ** channel obj: one object of a library-written encrypted file.
    (method, file key, num, gen, flags, plaintext handed to write_object, raw object in the
    file, what the reader returned after unlocking).  flags bit 0: the object was taken out of
    an object stream. *)
Definition obj_case := (N * bytes * N * N * N * obj * obj * option obj)%type.

Definition lib_write (meth : N) (k : bytes) (id : N * N) (raw plain : obj) : obj :=
  encrypt_obj (real_enc meth) true (iv_from raw) k id plain.
Definition lib_read (meth : N) (k : bytes) (id : N * N) (raw : obj) : option obj :=
  decrypt_obj (real_dec meth) k id raw.

Definition obj_code (c : obj_case) : N :=
  let '(meth, k, num, gen, flags, plain, raw, lib) := c in
  let id := (num, gen) in
  let member := N.testbit flags 0 in
  (* writer: a direct object is encrypted under its own id; an object buffered for an object
     stream is serialised as it is (the object stream is encrypted as a whole) *)
  let w_ok := if member then obj_eqb raw plain else obj_eqb (lib_write meth k id raw plain) raw in
  (* reader: direct objects are decrypted once; members of a (decrypted) object stream are
     handed out as parsed *)
  let r_ok := option_eqb obj_eqb (if member then Some raw else lib_read meth k id raw) lib in
  let p_ok := match lib with Some o => payload_eqb o plain | None => false end in
  code_of (w_ok && r_ok) p_ok.

(** ** channel key: unlocking.  (R, key length in bytes, O, U, OE, UE, P, first /ID string,
    EncryptMetadata, password bytes, kind, reader accepted?, reader's file key).
    kind 0 = the user password, 1 = the owner password, 2 = some other password. *)
Definition key_case := (N * N * bytes * bytes * bytes * bytes * N * bytes * bool * bytes * N * option bool * option bytes)%type.

(** ISO: try the password as user password (Alg. 6 / 11), then as owner password (Alg. 7 / 12).
    [trunc]: cut an R5/R6 password at 127 bytes as the standard says (the library does not; for the
    library <-> library round trip of C05 the bytes are taken as the library takes them) *)
Definition spec_unlock (trunc : bool) (R : N) (n : nat) (Oe Ue OE UE : bytes) (P : N) (id : bytes) (encmeta : bool) (pw : bytes) : option bytes :=
  if R <=? 4 then
    if alg6 R n pw Ue Oe P id encmeta then Some (alg2 R n pw Oe P id encmeta)
    else if alg7 R n pw Ue Oe P id encmeta then Some (alg2 R n (alg7_user_pad R n pw Oe) Oe P id encmeta)
    else None
  else
    let pw := if trunc then firstn 127 pw else pw in
    if alg11 R pw Ue then Some (alg2a_user R pw Ue UE)
    else if alg12 R pw Oe Ue then Some (alg2a_owner R pw Oe Ue OE)
    else None.

Definition key_code (c : key_case) : N :=
  let '(R, n, Oe, Ue, OE, UE, P, id, encmeta, pw, kind, lib_ok, lib_key) := c in
  let s := spec_unlock false R (N.to_nat n) Oe Ue OE UE P id encmeta pw in
  let agree := match s, lib_ok, lib_key with
               | Some k, Some true, Some k' => bytes_eqb k k'
               | None, Some false, _ => true
               | _, _, _ => false
               end in
  let expected := match kind with
                  | 2 => match lib_ok with Some false => true | _ => false end
                  | _ => match lib_ok with Some true => true | _ => false end
                  end in
  code_of true (agree && expected).

(** ** channel doc: document-level observations.
    (trailer / xref-stream dictionary as found in the file, reader says encrypted, user password
    non-empty, reader locked before unlock, P requested, P read back, text of the plaintext build,
    text after unlock, title of the plaintext build, title after unlock) *)
Definition doc_case := (obj * bool * bool * bool * N * N * bytes * bytes * bytes * bytes)%type.
Definition trailer_dict (t : obj) : list (bytes * obj) :=
  match t with ODict d => d | OStream d _ => d | _ => [] end.
Definition doc_code (c : doc_case) : N :=
  let '(tr, is_enc, user_nonempty, locked, preq, pread, text0, text1, title0, title1) := c in
  let flagged := reader_decrypts (trailer_dict tr) in
  let m_ok := Bool.eqb flagged is_enc in
  let p_ok := flagged && Bool.eqb locked user_nonempty && (preq =? pread) && bytes_eqb title0 title1 in
  (* bit 4: the extracted text differs (kept apart so that a text-only failure can be classified) *)
  code_of m_ok p_ok + (if bytes_eqb text0 text1 then 0 else 4).
