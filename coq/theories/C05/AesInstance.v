(** C05 — the AES-CBC cipher hypothesis discharged with C23's [aes_inv] (proved after the package was
    built): AESV2 with a 128-bit file key and AESV3 with a 256-bit file key decrypt back every
    byte string, for every object id and IV. *)
From OxVerif Require Import Base.Util C23.Tab C23.Rc4 C23.Md5 C23.Sha2 C23.Aes C23.Cbc C23.SecHandler C23.Proofs
  C23.AesInv C23.AesCbc C05.EncryptLayer C05.Proofs C05.Check C05.Instances.
Require Import List NArith String Bool Lia.
Import ListNotations.
Open Scope N_scope.

Lemma md5_shape16 msg : List.length (md5 msg) = 16%nat /\ bytes_ok (md5 msg) = true.
Proof.
  unfold md5. destruct (fold_left md5_block (chunk 64 (md5_pad msg)) md5_init) as [[[a b] c] d].
  split.
  - reflexivity.
  - unfold bytes_ok. rewrite !forallb_app.
    fold (bytes_ok (le_bytes 4 a)) (bytes_ok (le_bytes 4 b)) (bytes_ok (le_bytes 4 c)) (bytes_ok (le_bytes 4 d)).
    rewrite !le_bytes_ok. reflexivity.
Qed.

Lemma norm_iv_wf iv : bytes_ok iv = true -> AesInv.wf (norm_iv iv).
Proof.
  intros H. split; [apply norm_iv_length|]. unfold norm_iv. apply bytes_ok_firstn.
  unfold bytes_ok in *. rewrite forallb_app, H. reflexivity.
Qed.

(** the object key of AESV2 (128-bit file key) and AESV3 (256-bit file key) is a valid AES key *)
Lemma okey_aesv2_ok k id : List.length k = 16%nat -> key_ok (okey 1 k id).
Proof.
  intros Hk. cbn [okey]. rewrite Hk. change (Nat.min (16 + 5) 16) with 16%nat.
  destruct (md5_shape16 (k ++ le_bytes 3 (fst id) ++ le_bytes 2 (snd id) ++ salt_aes)) as [L B].
  split.
  - left. rewrite firstn_length, L. reflexivity.
  - apply bytes_ok_firstn. exact B.
Qed.

Lemma okey_aesv3_ok k id : List.length k = 32%nat -> bytes_ok k = true -> key_ok (okey 2 k id).
Proof. intros Hk Hb. cbn [okey]. split; [right; exact Hk | exact Hb]. Qed.

Theorem aes_instance_full meth k id iv x :
  meth <> 0 -> key_ok (okey meth k id) -> bytes_ok iv = true -> bytes_ok x = true ->
  real_dec meth k id (real_enc meth k id iv x) = Some x.
Proof.
  intros Hm Hk Hiv Hx. unfold real_dec, real_enc.
  destruct (meth =? 0) eqn:E; [apply N.eqb_eq in E; contradiction|].
  pose proof (norm_iv_length iv) as L.
  assert (H1 : (List.length (norm_iv iv ++ cbc_encrypt cipher (okey meth k id) (norm_iv iv) x) <? 16)%nat = false).
  { apply Nat.ltb_ge. rewrite app_length. lia. }
  rewrite H1.
  assert (H2 : firstn 16 (norm_iv iv ++ cbc_encrypt cipher (okey meth k id) (norm_iv iv) x) = norm_iv iv).
  { rewrite <- L at 1. rewrite firstn_app, Nat.sub_diag, firstn_all. cbn [firstn]. apply app_nil_r. }
  assert (H3 : skipn 16 (norm_iv iv ++ cbc_encrypt cipher (okey meth k id) (norm_iv iv) x) = cbc_encrypt cipher (okey meth k id) (norm_iv iv) x).
  { rewrite <- L at 1. rewrite skipn_app, Nat.sub_diag, skipn_all. reflexivity. }
  rewrite H2, H3. apply aes_cbc_pkcs7_roundtrip; [exact Hk | apply norm_iv_wf; exact Hiv | exact Hx].
Qed.

Theorem aesv2_instance k id iv x :
  List.length k = 16%nat -> bytes_ok iv = true -> bytes_ok x = true ->
  real_dec 1 k id (real_enc 1 k id iv x) = Some x.
Proof. intros Hk Hiv Hx. apply aes_instance_full; [discriminate | apply okey_aesv2_ok; exact Hk | exact Hiv | exact Hx]. Qed.

Theorem aesv3_instance k id iv x :
  List.length k = 32%nat -> bytes_ok k = true -> bytes_ok iv = true -> bytes_ok x = true ->
  real_dec 2 k id (real_enc 2 k id iv x) = Some x.
Proof. intros Hk Hb Hiv Hx. apply aes_instance_full; [discriminate | apply okey_aesv3_ok; assumption | exact Hiv | exact Hx]. Qed.
