(** C05 — the cipher hypothesis of the layer theorems, discharged for the real ciphers:
    RC4 (method 0) unconditionally by C23's [rc4_involutive_spec]; AES-CBC (methods 1, 2) by C23's
    [cbc_pkcs7_roundtrip_sec], which still needs the AES block inverse law as a hypothesis. *)
From OxVerif Require Import Base.Util C23.Tab C23.Rc4 C23.Md5 C23.Sha2 C23.Aes C23.Cbc C23.SecHandler C23.Proofs
  C05.EncryptLayer C05.Proofs C05.Check.
Require Import List NArith String Bool Lia.
Import ListNotations.
Open Scope N_scope.

Lemma rc4_instance : forall k id iv x, real_dec 0 k id (real_enc 0 k id iv x) = Some x.
Proof. intros. unfold real_dec, real_enc. rewrite N.eqb_refl. rewrite rc4_involutive_spec. reflexivity. Qed.

Lemma norm_iv_length iv : List.length (norm_iv iv) = 16%nat.
Proof.
  unfold norm_iv. rewrite firstn_length, app_length, repeat_length. lia.
Qed.

Lemma aes_instance :
  (forall k b, List.length b = 16%nat -> inv_cipher k (cipher k b) = b) ->
  (forall k b, List.length b = 16%nat -> List.length (cipher k b) = 16%nat) ->
  forall meth, meth <> 0 -> forall k id iv x, real_dec meth k id (real_enc meth k id iv x) = Some x.
Proof.
  intros Hinv Hlen meth Hm k id iv x. unfold real_dec, real_enc.
  destruct (meth =? 0) eqn:E; [apply N.eqb_eq in E; contradiction|].
  pose proof (norm_iv_length iv) as L.
  assert (H1 : (List.length (norm_iv iv ++ cbc_encrypt cipher (okey meth k id) (norm_iv iv) x) <? 16)%nat = false).
  { apply Nat.ltb_ge. rewrite app_length. lia. }
  rewrite H1.
  assert (H2 : firstn 16 (norm_iv iv ++ cbc_encrypt cipher (okey meth k id) (norm_iv iv) x) = norm_iv iv).
  { rewrite <- L at 1. rewrite firstn_app, Nat.sub_diag, firstn_all. cbn [firstn]. apply app_nil_r. }
  assert (H3 : skipn 16 (norm_iv iv ++ cbc_encrypt cipher (okey meth k id) (norm_iv iv) x) = cbc_encrypt cipher (okey meth k id) (norm_iv iv) x).
  { rewrite <- L at 1. rewrite skipn_app, Nat.sub_diag, skipn_all. reflexivity. }
  rewrite H2, H3. apply (cbc_pkcs7_roundtrip_sec cipher inv_cipher Hinv Hlen). exact L.
Qed.

(** the document round trip for RC4 strengths, with no hypothesis left *)
Theorem roundtrip_doc_rc4 : forall iv_of k d, wf_doc d = true ->
  decrypt_doc (real_dec 0) k (encrypt_doc (real_enc 0) true iv_of k d) = Some (image_doc (real_enc 0) true iv_of k d)
  /\ map (fun e => payload (snd e)) (image_doc (real_enc 0) true iv_of k d) = map (fun e => payload (snd e)) d.
Proof.
  intros iv_of k d H. destruct (roundtrip_doc (real_enc 0) (real_dec 0) rc4_instance iv_of k d H) as (A & _ & C).
  split; assumption.
Qed.
