(** C17 — incremental updates are append-only and take effect.

    Byte-level model of  writer/incremental_update.rs  [IncrementalUpdate::finish]
    (base ++ optional newline ++ replacement objects sorted by (number, generation) ++
    partial xref with contiguous subsections ++ trailer with /Size /Root /Prev /ID),
    [partial_xref], [write_trailer], [write_indirect_object].  The serialised body of each
    replacement object (write_object) and the second /ID string (an MD5) are inputs of the
    model.  The appended cross-reference section is also given as a C04 [section], so that
    "the update takes effect" is a statement through C04's theorem about the reader. *)
From OxVerif Require Import Base.Util C04.Model.

Definition len {A} (l : list A) : N := N.of_nat (length l).
Definition s (x : string) : bytes := bytes_of_string x.
Definition nl : bytes := [10].
Definition sp : bytes := [32].

(** Rust's Display for unsigned integers *)
Fixpoint dec_aux (fuel : nat) (n : N) (acc : bytes) : bytes :=
  match fuel with
  | O => acc
  | S f => let acc' := (48 + n mod 10) :: acc in
           if n / 10 =? 0 then acc' else dec_aux f (n / 10) acc'
  end.
Definition dec (n : N) : bytes := dec_aux 40 n [].
(** {:0w} *)
Definition pad (w : nat) (l : bytes) : bytes := repeat 48 (w - length l) ++ l.
(** {:02X} of every byte *)
Definition hexdigitU (n : N) : N := if n <? 10 then 48 + n else 55 + n.
Definition hexU (l : bytes) : bytes := concat (map (fun b => [hexdigitU (b / 16); hexdigitU (b mod 16)]) l).

(** a replacement: object number, generation, serialised body *)
Definition robj := (N * N * bytes)%type.
Record upd := {
  u_prev : N;                       (* base trailer's xref offset *)
  u_root : N * N;
  u_orig_size : N;
  u_next_id : N;
  u_id : option (bytes * bytes);    (* permanent first /ID string, new second string *)
  u_objs : list robj                (* in the order replace() was called *)
}.

(** replacements.sort_by_key(|(number, generation, _)| (number, generation))  (stable) *)
Definition key_le (a b : robj) : bool :=
  let '(n1, g1, _) := a in let '(n2, g2, _) := b in
  (n1 <? n2) || ((n1 =? n2) && (g1 <=? g2)).
Fixpoint insert_sorted (x : robj) (l : list robj) : list robj :=
  match l with
  | [] => [x]
  | y :: r => if key_le x y then x :: y :: r else y :: insert_sorted x r
  end.
Definition sort (l : list robj) : list robj := fold_right insert_sorted [] l.

Definition ends_eol (b : bytes) : bool :=
  match rev b with
  | 10 :: _ => true
  | 13 :: _ => true
  | _ => false
  end.
Definition start_of (base : bytes) : bytes := base ++ (if ends_eol base then [] else nl).

Definition obj_bytes (o : robj) : bytes :=
  let '(n, g, body) := o in
  dec n ++ sp ++ dec g ++ s " obj" ++ nl ++ body ++ nl ++ s "endobj" ++ nl.
Definition body_bytes (objs : list robj) : bytes := concat (map obj_bytes objs).
(** (number, generation, offset) of every object written from position [pos] on *)
Fixpoint place (pos : N) (objs : list robj) : list (N * N * N) :=
  match objs with
  | [] => []
  | o :: r => (fst (fst o), snd (fst o), pos) :: place (pos + len (obj_bytes o)) r
  end.

(** partial_xref: maximal runs of consecutive object numbers become subsections *)
Fixpoint group {A} (l : list (N * A)) : list (N * list A) :=
  match l with
  | [] => []
  | (n, a) :: r =>
      match group r with
      | (m, es) :: gs => if m =? N.succ n then (n, a :: es) :: gs else (n, [a]) :: (m, es) :: gs
      | [] => [(n, [a])]
      end
  end.
Definition entries_of (ch : list (N * N * N)) : list (N * centry) :=
  map (fun c => (fst (fst c), CE (snd c) (snd (fst c)) true)) ch.
Definition render_entry (c : centry) : bytes :=
  let '(CE off g u) := c in
  pad 10 (dec off) ++ sp ++ pad 5 (dec g) ++ sp ++ (if u then [110] else [102]) ++ sp ++ nl.
Definition render_section (subs : list (N * list centry)) : bytes :=
  s "xref" ++ nl ++
  concat (map (fun sub => dec (fst sub) ++ sp ++ dec (len (snd sub)) ++ nl ++ concat (map render_entry (snd sub))) subs).
Definition partial_xref (ch : list (N * N * N)) : bytes := render_section (group (entries_of ch)).

Definition trailer (u : upd) (size xpos : N) : bytes :=
  s "trailer" ++ nl ++ s "<< /Size " ++ dec size ++ s " /Root " ++ dec (fst (u_root u)) ++ sp ++
  dec (snd (u_root u)) ++ s " R /Prev " ++ dec (u_prev u) ++ sp ++
  match u_id u with
  | Some (a, b) => s "/ID [<" ++ hexU a ++ s "> <" ++ hexU b ++ s ">] "
  | None => []
  end ++
  s ">>" ++ nl ++ s "startxref" ++ nl ++ dec xpos ++ nl ++ s "%%EOF" ++ nl.

Definition changed (base : bytes) (u : upd) : list (N * N * N) :=
  place (len (start_of base)) (sort (u_objs u)).

Definition finish (base : bytes) (u : upd) : bytes :=
  let pre := start_of base in
  let body := body_bytes (sort (u_objs u)) in
  pre ++ body ++ partial_xref (changed base u) ++
  trailer u (N.max (u_next_id u) (u_orig_size u)) (len pre + len body).

(** the appended cross-reference section, as the reader of C04 sees it *)
Definition section_of (base : bytes) (u : upd) : section := Classic (group (entries_of (changed base u))).

(** what the update defines for object n (a later line for the same number stands) *)
Definition new_def (base : bytes) (u : upd) (n : N) : option def :=
  rev_find (map (fun c => (fst (fst c), Direct (snd c))) (changed base u)) n.

(** a history of edits: bytes and cross-reference sections after each *)
Definition step (st : bytes * list section) (u : upd) : bytes * list section :=
  (finish (fst st) u, snd st ++ [section_of (fst st) u]).
Definition run (st : bytes * list section) (us : list upd) : bytes * list section := fold_left step us st.

Definition is_prefix (a b : bytes) : Prop := exists t, b = a ++ t.
Fixpoint is_prefixb (a b : bytes) : bool :=
  match a, b with
  | [], _ => true
  | x :: a', y :: b' => (x =? y) && is_prefixb a' b'
  | _, [] => false
  end.

(** * correspondence cases *)
(** channel fin: IncrementalUpdate driven through the hook *)
Record fcase := {
  f_base : bytes;
  f_upd : upd;
  f_out : bytes;                                  (* what finish() returned *)
  f_new : list (N * N);                           (* object number, integer written *)
  f_queries : list (N * result * result)          (* number, read from base, read from output *)
}.
Definition expect_after (new : list (N * N)) (q : N * result * result) : result :=
  match mfind (fst (fst q)) new with
  | Some v => RVal v
  | None => snd (fst q)
  end.
Definition fin_code (c : fcase) : N :=
  let model_ok := bytes_eqb (finish (f_base c) (f_upd c)) (f_out c) in
  let prop_ok := is_prefixb (f_base c) (f_out c)
                 && forallb (fun q => result_eqb (snd q) (expect_after (f_new c) q)) (f_queries c) in
  code_of model_ok prop_ok.

(** channel api: public editing APIs over library-written bases; one record per edit step.
    Values travel as byte strings. *)
Record astep := {
  a_prefix : bool;                                (* previous file is a byte prefix of the output *)
  a_reopens : bool;                               (* the library opens the output *)
  a_classic_tail : bool;                          (* appended part = objects, "xref", trailer with /Prev = previous startxref *)
  a_expected : list (bytes * option bytes);       (* name -> value after this edit, by the edit semantics *)
  a_actual : list (bytes * option bytes);         (* name -> value read back from the output *)
  a_untouched_same : bool                         (* every object not rewritten reads as before *)
}.
Definition kv_eqb (a b : bytes * option bytes) : bool :=
  bytes_eqb (fst a) (fst b) && option_eqb bytes_eqb (snd a) (snd b).
Definition astep_ok (x : astep) : bool :=
  a_prefix x && a_reopens x && a_classic_tail x && a_untouched_same x && list_eqb kv_eqb (a_expected x) (a_actual x).
Definition api_code (c : list astep) : N := code_of true (forallb astep_ok c).
